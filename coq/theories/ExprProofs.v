(* Proofs of the statements of ExprSpec.v about the model in Expr.v. *)
From HclV Require Import Base Expr ExprSpec ExprLemmas.
Open Scope N_scope.

(* ---- plumbing ------------------------------------------------------------------------ *)
Lemma bind_ok {A B} (r : result A) (k : A -> result B) (b : B) :
  bind r k = Ok b -> exists a, r = Ok a /\ k a = Ok b.
Proof. destruct r as [a|es]; cbn [bind]; intros H; [eauto | discriminate H]. Qed.

Tactic Notation "bind_inv" hyp(H) "as" ident(x) ident(E) :=
  let H' := fresh in
  apply bind_ok in H; destruct H as [x [E H']]; rename H' into H; cbv beta in H.

Lemma div_zero_only_err1 : div_zero_only [mkErr DivisionByZero []].
Proof. reflexivity. Qed.

(* ---- unfolding equations for the mutual fixpoints (cbn does not refold cross calls) ------ *)
Section Unfold.
  Variables (f : features) (rho : string -> option wval).
  Lemma dynw_mux a : dynw f rho (EMux a) = dynw_arms f rho a Unl.
  Proof. reflexivity. Qed.
  Lemma dynw_arms_nil acc : dynw_arms f rho ANil acc = acc.
  Proof. reflexivity. Qed.
  Lemma dynw_arms_cons c v rest acc :
    dynw_arms f rho (ACons c v rest) acc =
    dynw_arms f rho rest (or_else (wcombine acc (dynw f rho v)) acc).
  Proof. reflexivity. Qed.
  Lemma eval_mux a :
    eval f rho (EMux a) = do v <- eval_arms f rho a; Ok (as_width (dynw_arms f rho a Unl) v).
  Proof. reflexivity. Qed.
  Lemma eval_in e items :
    eval f rho (EIn e items) = do v <- eval f rho e; eval_items f rho (bits v) items.
  Proof. reflexivity. Qed.
  Lemma eval_arms_nil : eval_arms f rho ANil = Ok (mkV 0 Unl).
  Proof. reflexivity. Qed.
  Lemma eval_arms_cons c v rest :
    eval_arms f rho (ACons c v rest) =
    do cv <- eval f rho c; if is_true cv then eval f rho v else eval_arms f rho rest.
  Proof. reflexivity. Qed.
  Lemma eval_items_nil x : eval_items f rho x XNil = Ok false_value.
  Proof. reflexivity. Qed.
  Lemma eval_items_cons x e rest :
    eval_items f rho x (XCons e rest) =
    do r <- eval f rho e; if x =? bits r then Ok true_value else eval_items f rho x rest.
  Proof. reflexivity. Qed.
End Unfold.

Section UnfoldDen.
  Variables (f : features) (G : string -> option width) (rho : string -> option wval).
  Lemma den_mux a :
    den f G rho (EMux a) = den_arms f G rho a mod 2 ^ nbits (sw f G (EMux a)).
  Proof. reflexivity. Qed.
  Lemma den_in e items :
    den f G rho (EIn e items) = b2n (den_items f G rho (den f G rho e) items).
  Proof. reflexivity. Qed.
  Lemma den_arms_cons c v rest :
    den_arms f G rho (ACons c v rest) =
    if 0 <? den f G rho c then den f G rho v else den_arms f G rho rest.
  Proof. reflexivity. Qed.
  Lemma den_items_cons x e rest :
    den_items f G rho x (XCons e rest) = (x =? den f G rho e) || den_items f G rho x rest.
  Proof. reflexivity. Qed.
End UnfoldDen.

Section UnfoldCheck.
  Variables (f : features) (G : string -> option width) (C : string -> option wval).
  Lemma check_mux_eq a :
    check f G C (EMux a) =
    do st <- check_arms f G C a (mkMS (Some Unl) false false false);
    if f_rmd f && negb (ms_seen st) then err1 NoMuxDefaultOption []
    else if f_dmd f && ms_twice st then err1 MultipleMuxDefaultOption []
    else if f_duo f && ms_unreach st then err1 UnreachableOptions []
    else match ms_width st with
         | Some w => Ok w
         | None => err1 MismatchedMuxWidths []
         end.
  Proof. reflexivity. Qed.
  Lemma check_in_eq e items :
    check f G C (EIn e items) =
    do wl <- check f G C e;
    do errs <- check_items f G C wl items;
    match errs with [] => Ok (Bits 1) | _ => Err errs end.
  Proof. reflexivity. Qed.
  Lemma check_arms_cons_eq c v rest st :
    check_arms f G C (ACons c v rest) st =
    do _ <- check f G C c;
    do w <- check f G C v;
    check_arms f G C rest
      (mkMS (match ms_width st with Some cur => wcombine cur w | None => None end)
            (ms_seen st || always_true f C c)
            (ms_twice st || (always_true f C c && ms_seen st))
            (ms_unreach st || ms_seen st)).
  Proof. reflexivity. Qed.
  Lemma check_items_cons_eq wl e rest :
    check_items f G C wl (XCons e rest) =
    do wi <- check f G C e;
    do more <- check_items f G C wl rest;
    match wcombine wl wi with
    | Some _ => Ok more
    | None => Ok (mkErr MismatchedExprWidths [] :: more)
    end.
  Proof. reflexivity. Qed.
End UnfoldCheck.

(* ---- assign_truncates ------------------------------------------------------------------ *)
Theorem assign_truncates : stmt_assign_truncates.
Proof.
  intros dw v Hw. unfold as_width. cbn [bits wd].
  split; [apply land_mask; exact Hw | reflexivity].
Qed.

(* ---- inversion of the checker ---------------------------------------------------------- *)
Definition bin_width (f : features) (op : binop) (wl wr w : width) : Prop :=
  match kind op with
  | BooleanCombine =>
      w = Bits 1 /\
      (f_sbo f = true -> possibly_boolean wl = true /\ possibly_boolean wr = true)
  | BooleanFromEqualWidth => w = Bits 1 /\ exists w0, wcombine wl wr = Some w0
  | EqualWidth => wcombine wl wr = Some w
  | EqualWidthWeak => if f_swb f then wcombine wl wr = Some w else w = wmax wl wr
  end.

Lemma combine_exprs_ok (a b w : width) : combine_exprs a b = Ok w -> wcombine a b = Some w.
Proof.
  unfold combine_exprs. destruct (wcombine a b) as [w0|]; intros H; [|discriminate H].
  now injection H as <-.
Qed.

Section CheckInv.
  Variables (f : features) (G : string -> option width) (C : string -> option wval).

  Lemma check_bin_inv op l r w :
    check f G C (EBin op l r) = Ok w ->
    exists wl wr, check f G C l = Ok wl /\ check f G C r = Ok wr /\ bin_width f op wl wr w.
  Proof.
    cbn [check]. unfold bin_width. intros H. destruct (kind op).
    - destruct (f_sbo f).
      + bind_inv H as wl El.
        destruct (possibly_boolean wl) eqn:Pl; cbn [negb] in H; [|discriminate H].
        bind_inv H as wr Er.
        destruct (possibly_boolean wr) eqn:Pr; cbn [negb] in H; [|discriminate H].
        injection H as <-. exists wl, wr. auto.
      + bind_inv H as wl El. bind_inv H as wr Er. injection H as <-.
        exists wl, wr. repeat split; auto; discriminate.
    - bind_inv H as wl El. bind_inv H as wr Er. bind_inv H as w0 E0. injection H as <-.
      apply combine_exprs_ok in E0. eauto 10.
    - bind_inv H as wl El. bind_inv H as wr Er. apply combine_exprs_ok in H. eauto 10.
    - destruct (f_swb f).
      + bind_inv H as wl El. bind_inv H as wr Er. apply combine_exprs_ok in H. eauto 10.
      + bind_inv H as wl El. bind_inv H as wr Er. injection H as <-. eauto 10.
  Qed.

  Definition un_width (op : unop) (w1 : width) : width :=
    match op with Not => Bits 1 | _ => w1 end.

  Lemma check_un_inv op e w :
    check f G C (EUn op e) = Ok w ->
    exists w1, check f G C e = Ok w1 /\ w = un_width op w1.
  Proof.
    cbn [check]. intros H. destruct op; cbn [un_width]; eauto 10.
    bind_inv H as w1 E1. injection H as <-. eauto 10.
  Qed.

  Definition mux_init : mux_state := mkMS (Some Unl) false false false.

  Lemma check_mux_inv a w :
    check f G C (EMux a) = Ok w ->
    exists st, check_arms f G C a mux_init = Ok st /\ ms_width st = Some w /\
               f_rmd f && negb (ms_seen st) = false /\
               f_dmd f && ms_twice st = false /\
               f_duo f && ms_unreach st = false.
  Proof.
    cbn [check]. intros H. bind_inv H as st Est. exists st.
    destruct (f_rmd f && negb (ms_seen st)); [discriminate H|].
    destruct (f_dmd f && ms_twice st); [discriminate H|].
    destruct (f_duo f && ms_unreach st); [discriminate H|].
    destruct (ms_width st) as [w0|]; [|discriminate H].
    injection H as <-. auto.
  Qed.

  Lemma check_wire_inv n w : check f G C (EWire n) = Ok w -> G n = Some w.
  Proof.
    cbn [check]. destruct (G n) as [w0|]; intros H; [|discriminate H]. now injection H as <-.
  Qed.

  Lemma check_slice_inv e lo hi w :
    check f G C (ESlice e lo hi) = Ok w ->
    lo <= hi /\ w = Bits (hi - lo) /\
    exists w1, check f G C e = Ok w1 /\ match w1 with Bits iw => hi <= iw | Unl => True end.
  Proof.
    cbn [check]. intros H. destruct (N.ltb_spec hi lo) as [Hlt|Hle]; [discriminate H|].
    bind_inv H as w1 E1. destruct w1 as [iw|].
    - destruct (N.ltb_spec iw hi) as [Hlt|Hle2]; [discriminate H|].
      injection H as <-. split; [exact Hle|]. split; [reflexivity|].
      exists (Bits iw). split; [exact E1 | exact Hle2].
    - injection H as <-. split; [exact Hle|]. split; [reflexivity|].
      exists Unl. split; [exact E1 | exact I].
  Qed.

  Lemma check_cat_inv l r w :
    check f G C (ECat l r) = Ok w ->
    exists lw rw, check f G C l = Ok (Bits lw) /\ check f G C r = Ok (Bits rw) /\
                  lw + rw <= 128 /\ w = Bits (lw + rw).
  Proof.
    cbn [check]. intros H. bind_inv H as wl El. destruct wl as [lw|]; [|discriminate H].
    bind_inv H as wr Er. destruct wr as [rw|]; [|discriminate H].
    destruct (N.leb_spec (lw + rw) 128) as [Hle|Hgt]; [|discriminate H].
    injection H as <-. eauto 10.
  Qed.

  Lemma check_in_inv e items w :
    check f G C (EIn e items) = Ok w ->
    w = Bits 1 /\ exists wl, check f G C e = Ok wl /\ check_items f G C wl items = Ok [].
  Proof.
    cbn [check]. intros H. bind_inv H as wl El. bind_inv H as errs Ei.
    destruct errs as [|e0 errs]; [|discriminate H]. injection H as <-. eauto 10.
  Qed.

  Definition mux_step (at_ : bool) (w : width) (st : mux_state) : mux_state :=
    mkMS (match ms_width st with Some cur => wcombine cur w | None => None end)
         (ms_seen st || at_)
         (ms_twice st || (at_ && ms_seen st))
         (ms_unreach st || ms_seen st).

  Lemma check_arms_cons_inv c v rest st st' :
    check_arms f G C (ACons c v rest) st = Ok st' ->
    exists wc wv, check f G C c = Ok wc /\ check f G C v = Ok wv /\
                  check_arms f G C rest (mux_step (always_true f C c) wv st) = Ok st'.
  Proof.
    cbn [check_arms]. intros H. bind_inv H as wc Ec. bind_inv H as wv Ev.
    exists wc, wv. auto.
  Qed.

  Lemma check_items_cons_inv wl e rest errs :
    check_items f G C wl (XCons e rest) = Ok errs ->
    exists wi more, check f G C e = Ok wi /\ check_items f G C wl rest = Ok more /\
                    errs = match wcombine wl wi with
                           | Some _ => more
                           | None => mkErr MismatchedExprWidths [] :: more
                           end.
  Proof.
    cbn [check_items]. intros H. bind_inv H as wi Ei. bind_inv H as more Em.
    exists wi, more. destruct (wcombine wl wi); injection H as <-; auto.
  Qed.
End CheckInv.

(* ---- widths: the checker's width is the dynamic width ---------------------------------- *)
Lemma bin_width_dynw f op wl wr w :
  bin_width f op wl wr w ->
  match kind op with
  | BooleanCombine | BooleanFromEqualWidth => Bits 1
  | EqualWidthWeak => if f_swb f then or_else (wcombine wl wr) wl else wmax wl wr
  | EqualWidth => or_else (wcombine wl wr) wl
  end = w.
Proof.
  unfold bin_width. destruct (kind op).
  - now intros [-> _].
  - now intros [-> _].
  - now intros ->.
  - destruct (f_swb f); now intros ->.
Qed.

Lemma bin_width_wf f op wl wr w :
  wf_width wl -> wf_width wr -> bin_width f op wl wr w -> wf_width w.
Proof.
  unfold bin_width. intros Hl Hr. destruct (kind op).
  - intros [-> _]. cbn. lia.
  - intros [-> _]. cbn. lia.
  - apply wcombine_wf; assumption.
  - destruct (f_swb f); [apply wcombine_wf; assumption | intros ->; apply wmax_wf; assumption].
Qed.

Section CheckWidth.
  Variables (f : features) (G : string -> option width) (C : string -> option wval).
  Variable rho : string -> option wval.
  Hypothesis Hrho : env_ok G rho.

  Lemma check_dynw_all :
    (forall e w, wf_expr e -> check f G C e = Ok w -> dynw f rho e = w /\ wf_width w) /\
    (forall a st st' w, wf_arms a -> check_arms f G C a st = Ok st' -> ms_width st' = Some w ->
       exists acc, ms_width st = Some acc /\
                   (wf_width acc -> dynw_arms f rho a acc = w /\ wf_width w)) /\
    (forall x : exprs, True).
  Proof.
    apply expr_arms_exprs_ind.
    - (* EConst *)
      intros v w Hwf Hc. cbn [check] in Hc. injection Hc as <-. cbn [dynw wf_expr] in *.
      split; [reflexivity | apply Hwf].
    - (* EBin *)
      intros op l IHl r IHr w [Hwl Hwr] Hc.
      apply check_bin_inv in Hc. destruct Hc as (wl & wr & El & Er & Hbw).
      destruct (IHl wl Hwl El) as [Dl Wl]. destruct (IHr wr Hwr Er) as [Dr Wr].
      cbn [dynw]. rewrite Dl, Dr. split.
      + apply bin_width_dynw. exact Hbw.
      + exact (bin_width_wf f op wl wr w Wl Wr Hbw).
    - (* EUn *)
      intros op e IHe w Hwf Hc. cbn [wf_expr] in Hwf.
      apply check_un_inv in Hc. destruct Hc as (w1 & E1 & ->).
      destruct (IHe w1 Hwf E1) as [D1 W1].
      destruct op; cbn [dynw un_width]; auto. split; [reflexivity | cbn; lia].
    - (* EMux *)
      intros a IHa w Hwf Hc. cbn [wf_expr] in Hwf.
      apply check_mux_inv in Hc. destruct Hc as (st & Est & Hw & _).
      destruct (IHa mux_init st w Hwf Est Hw) as (acc & Hacc & Hd).
      cbn in Hacc. injection Hacc as <-. rewrite dynw_mux. apply Hd. exact I.
    - (* EWire *)
      intros n w _ Hc. apply check_wire_inv in Hc.
      destruct (Hrho n w Hc) as (v & Hv & Hwd & Hfit). cbn [dynw]. rewrite Hv.
      split; [exact Hwd | rewrite <- Hwd; apply Hfit].
    - (* ESlice *)
      intros e IHe lo hi w (Hwf & Hlo & Hhi) Hc.
      apply check_slice_inv in Hc. destruct Hc as (Hle & -> & _).
      cbn [dynw wf_width]. split; [reflexivity | lia].
    - (* ECat *)
      intros l IHl r IHr w [Hwl Hwr] Hc.
      apply check_cat_inv in Hc. destruct Hc as (lw & rw & El & Er & Hle & ->).
      destruct (IHl _ Hwl El) as [Dl _]. destruct (IHr _ Hwr Er) as [Dr _].
      cbn [dynw]. rewrite Dl, Dr, sat_u8_small by exact Hle.
      split; [reflexivity | exact Hle].
    - (* EIn *)
      intros e _ items _ w _ Hc. apply check_in_inv in Hc. destruct Hc as [-> _].
      cbn [dynw wf_width]. split; [reflexivity | lia].
    - (* ANil *)
      intros st st' w _ Hc Hw. cbn [check_arms] in Hc. injection Hc as <-.
      exists w. split; [exact Hw|]. cbn [dynw_arms]. auto.
    - (* ACons *)
      intros c _ v IHv rest IHrest st st' w (Hwc & Hwv & Hwr) Hc Hw.
      apply check_arms_cons_inv in Hc. destruct Hc as (wc & wv & Ec & Ev & Hrest).
      destruct (IHrest _ _ _ Hwr Hrest Hw) as (acc' & Hacc' & Hd).
      cbn [mux_step ms_width] in Hacc'.
      destruct (ms_width st) as [cur|]; [|discriminate Hacc'].
      exists cur. split; [reflexivity|]. intros Wcur.
      destruct (IHv wv Hwv Ev) as [Dv Wv].
      rewrite dynw_arms_cons, Dv, Hacc'. cbn [or_else].
      apply Hd. exact (wcombine_wf _ _ _ Wcur Wv Hacc').
    - exact I.
    - intros; exact I.
  Qed.

  Lemma check_dynw e w : wf_expr e -> check f G C e = Ok w -> dynw f rho e = w.
  Proof. intros Hwf Hc. apply (proj1 check_dynw_all e w Hwf Hc). Qed.

  Lemma check_wf e w : wf_expr e -> check f G C e = Ok w -> wf_width w.
  Proof. intros Hwf Hc. apply (proj1 check_dynw_all e w Hwf Hc). Qed.
End CheckWidth.

Lemma env_ok_width_env G rho : env_ok G rho -> env_ok G (width_env G).
Proof.
  intros Hrho n w Hn. destruct (Hrho n w Hn) as (v & _ & Hwd & Hfit).
  exists (mkV 0 w). unfold width_env. rewrite Hn. split; [reflexivity|]. split; [reflexivity|].
  unfold fits. cbn [bits wd]. split; [apply pow2_pos | rewrite <- Hwd; apply Hfit].
Qed.

Lemma check_sw f G C rho e w :
  env_ok G rho -> wf_expr e -> check f G C e = Ok w -> sw f G e = w.
Proof.
  intros Hrho Hwf Hc. unfold sw.
  exact (check_dynw f G C (width_env G) (env_ok_width_env G rho Hrho) e w Hwf Hc).
Qed.

Theorem check_width : stmt_check_width.
Proof.
  intros f G C rho e w Hwf Hrho Hc. split; [|split].
  - exact (check_dynw f G C rho Hrho e w Hwf Hc).
  - exact (check_sw f G C rho e w Hrho Hwf Hc).
  - exact (check_wf f G C rho Hrho e w Hwf Hc).
Qed.

(* ---- evaluation: normal form of apply -------------------------------------------------- *)
Lemma apply_bin_width f op lv rv w :
  bin_width f op (wd lv) (wd rv) w ->
  apply f op lv rv =
    if is_div op && (bits rv =? 0) then err1 DivisionByZero []
    else Ok (mkV (N.land (apply_raw op (bits lv) (bits rv)) (mask w)) w).
Proof.
  unfold bin_width, apply. destruct (kind op).
  - intros [-> _]. reflexivity.
  - intros [-> _]. reflexivity.
  - intros ->. reflexivity.
  - destruct (f_swb f); intros ->; reflexivity.
Qed.

Definition sound_res (w : width) (r : result wval) : Prop :=
  match r with
  | Ok v => wd v = w /\ bits v < 2 ^ nbits w
  | Err es => div_zero_only es
  end.

Lemma sound_as_width w v : wf_width w -> sound_res w (Ok (as_width w v)).
Proof.
  intros Hw. cbn [sound_res as_width wd bits]. split; [reflexivity | apply land_mask_lt; exact Hw].
Qed.

Section EvalSound.
  Variables (f : features) (G : string -> option width) (C : string -> option wval).
  Variable rho : string -> option wval.
  Hypothesis Hrho : env_ok G rho.

  Lemma eval_sound_all :
    (forall e w, wf_expr e -> check f G C e = Ok w -> sound_res w (eval f rho e)) /\
    (forall a st st', wf_arms a -> check_arms f G C a st = Ok st' ->
       match eval_arms f rho a with Ok _ => True | Err es => div_zero_only es end) /\
    (forall x wl errs n, wf_items x -> check_items f G C wl x = Ok errs ->
       sound_res (Bits 1) (eval_items f rho n x)).
  Proof.
    apply expr_arms_exprs_ind.
    - (* EConst *)
      intros v w Hwf Hc. cbn [check] in Hc. injection Hc as <-.
      cbn [eval sound_res wf_expr] in *. split; [reflexivity | apply Hwf].
    - (* EBin *)
      intros op l IHl r IHr w Hwf Hc. pose proof (check_wf f G C rho Hrho _ _ Hwf Hc) as Ww.
      destruct Hwf as [Hwl Hwr].
      apply check_bin_inv in Hc. destruct Hc as (wl & wr & El & Er & Hbw).
      specialize (IHl wl Hwl El). specialize (IHr wr Hwr Er). cbn [eval].
      destruct (eval f rho l) as [lv|es]; cbn [bind sound_res] in *; [|exact IHl].
      destruct (eval f rho r) as [rv|es]; cbn [bind sound_res] in *; [|exact IHr].
      destruct IHl as [<- _]. destruct IHr as [<- _].
      rewrite (apply_bin_width f op lv rv w Hbw).
      destruct (is_div op && (bits rv =? 0)).
      + apply div_zero_only_err1.
      + cbn [sound_res wd bits]. split; [reflexivity | apply land_mask_lt; exact Ww].
    - (* EUn *)
      intros op e IHe w Hwf Hc. pose proof (check_wf f G C rho Hrho _ _ Hwf Hc) as Ww.
      cbn [wf_expr] in Hwf.
      apply check_un_inv in Hc. destruct Hc as (w1 & E1 & ->).
      specialize (IHe w1 Hwf E1). cbn [eval].
      destruct (eval f rho e) as [v|es]; cbn [bind sound_res] in *; [|exact IHe].
      destruct IHe as [<- _]. unfold unop_apply. cbn [wd bits].
      assert (Hnw : match op with Not => Bits 1 | _ => wd v end = un_width op (wd v))
        by (destruct op; reflexivity).
      rewrite Hnw. split; [reflexivity | apply land_mask_lt; exact Ww].
    - (* EMux *)
      intros a IHa w Hwf Hc. pose proof (check_wf f G C rho Hrho _ _ Hwf Hc) as Ww.
      pose proof (check_dynw f G C rho Hrho _ _ Hwf Hc) as Dw. rewrite dynw_mux in Dw.
      cbn [wf_expr] in Hwf.
      apply check_mux_inv in Hc. destruct Hc as (st & Est & _).
      specialize (IHa _ _ Hwf Est). rewrite eval_mux.
      destruct (eval_arms f rho a) as [v|es]; cbn [bind]; [|exact IHa].
      rewrite Dw. apply sound_as_width. exact Ww.
    - (* EWire *)
      intros n w _ Hc. apply check_wire_inv in Hc.
      destruct (Hrho n w Hc) as (v & Hv & Hwd & Hfit). cbn [eval]. rewrite Hv.
      cbn [sound_res]. split; [exact Hwd | rewrite <- Hwd; apply Hfit].
    - (* ESlice *)
      intros e IHe lo hi w Hwf Hc. pose proof (check_wf f G C rho Hrho _ _ Hwf Hc) as Ww.
      destruct Hwf as (Hwf & Hlo & Hhi).
      apply check_slice_inv in Hc. destruct Hc as (Hle & -> & w1 & E1 & _).
      specialize (IHe w1 Hwf E1). cbn [eval].
      destruct (eval f rho e) as [v|es]; cbn [bind sound_res] in *; [|exact IHe].
      apply (sound_as_width (Bits (hi - lo))). exact Ww.
    - (* ECat *)
      intros l IHl r IHr w Hwf Hc. pose proof (check_wf f G C rho Hrho _ _ Hwf Hc) as Ww.
      destruct Hwf as [Hwl Hwr].
      apply check_cat_inv in Hc. destruct Hc as (lw & rw & El & Er & Hle & ->).
      specialize (IHl _ Hwl El). specialize (IHr _ Hwr Er). cbn [eval].
      destruct (eval f rho l) as [lv|es]; cbn [bind sound_res] in *; [|exact IHl].
      destruct (eval f rho r) as [rv|es]; cbn [bind sound_res] in *; [|exact IHr].
      destruct IHl as [Dl _]. destruct IHr as [Dr _]. rewrite Dl, Dr.
      rewrite sat_u8_small by exact Hle.
      apply (sound_as_width (Bits (lw + rw))). exact Ww.
    - (* EIn *)
      intros e IHe items IHi w [Hwe Hwi] Hc.
      apply check_in_inv in Hc. destruct Hc as (-> & wl & El & Ei).
      specialize (IHe wl Hwe El). rewrite eval_in.
      destruct (eval f rho e) as [v|es]; cbn [bind sound_res] in *; [|exact IHe].
      exact (IHi wl [] (bits v) Hwi Ei).
    - (* ANil *)
      intros st st' _ _. cbn [eval_arms]. exact I.
    - (* ACons *)
      intros c IHc v IHv rest IHrest st st' (Hwc & Hwv & Hwr) Hc.
      apply check_arms_cons_inv in Hc. destruct Hc as (wc & wv & Ec & Ev & Hrest).
      specialize (IHc wc Hwc Ec). specialize (IHv wv Hwv Ev).
      specialize (IHrest _ _ Hwr Hrest). rewrite eval_arms_cons.
      destruct (eval f rho c) as [cv|es]; cbn [bind sound_res] in *; [|exact IHc].
      destruct (is_true cv); [|exact IHrest].
      destruct (eval f rho v) as [vv|es]; cbn [sound_res] in *; [exact I | exact IHv].
    - (* XNil *)
      intros wl errs n _ _. cbn [eval_items sound_res false_value wd bits nbits bits_or_128].
      split; [reflexivity | lia].
    - (* XCons *)
      intros e IHe rest IHrest wl errs n [Hwe Hwr] Hc.
      apply check_items_cons_inv in Hc. destruct Hc as (wi & more & Ei & Em & _).
      specialize (IHe wi Hwe Ei). specialize (IHrest wl more n Hwr Em). rewrite eval_items_cons.
      destruct (eval f rho e) as [r|es]; cbn [bind sound_res] in *; [|exact IHe].
      destruct (n =? bits r); [|exact IHrest].
      cbn [sound_res true_value wd bits nbits bits_or_128]. split; [reflexivity | lia].
  Qed.
End EvalSound.

Theorem eval_sound : stmt_eval_sound.
Proof.
  intros f G C rho e w Hwf Hrho Hc.
  exact (proj1 (eval_sound_all f G C rho Hrho) e w Hwf Hc).
Qed.

(* ---- evaluation computes the denotation ------------------------------------------------ *)
Lemma eval_ok_sound f G C rho e w v :
  env_ok G rho -> wf_expr e -> check f G C e = Ok w -> eval f rho e = Ok v ->
  wd v = w /\ bits v < 2 ^ nbits w.
Proof.
  intros Hrho Hwf Hc Hev. pose proof (eval_sound f G C rho e w Hwf Hrho Hc) as H.
  rewrite Hev in H. exact H.
Qed.

Lemma bin_width_bool f op wl wr w :
  bin_width f op wl wr w ->
  match kind op with BooleanCombine | BooleanFromEqualWidth => nbits w = 1 | _ => True end.
Proof.
  unfold bin_width. destruct (kind op); auto.
  - now intros [-> _].
  - now intros [-> _].
Qed.

Section EvalDen.
  Variables (f : features) (G : string -> option width) (C : string -> option wval).
  Variable rho : string -> option wval.
  Hypothesis Hrho : env_ok G rho.

  Lemma eval_den_all :
    (forall e w v, wf_expr e -> check f G C e = Ok w -> eval f rho e = Ok v ->
       bits v = den f G rho e) /\
    (forall a st st' v, wf_arms a -> check_arms f G C a st = Ok st' ->
       eval_arms f rho a = Ok v -> bits v = den_arms f G rho a) /\
    (forall x wl errs n v, wf_items x -> check_items f G C wl x = Ok errs ->
       eval_items f rho n x = Ok v -> bits v = b2n (den_items f G rho n x)).
  Proof.
    apply expr_arms_exprs_ind.
    - (* EConst *)
      intros c w v _ _ Hev. cbn [eval] in Hev. injection Hev as <-. reflexivity.
    - (* EBin *)
      intros op l IHl r IHr w v Hwf Hc Hev.
      pose proof (check_wf f G C rho Hrho _ _ Hwf Hc) as Ww.
      pose proof (check_sw f G C rho _ _ Hrho Hwf Hc) as Hsw.
      destruct Hwf as [Hwl Hwr].
      apply check_bin_inv in Hc. destruct Hc as (wl & wr & El & Er & Hbw).
      cbn [eval] in Hev. bind_inv Hev as lv Elv. bind_inv Hev as rv Erv.
      destruct (eval_ok_sound f G C rho l wl lv Hrho Hwl El Elv) as [Dl Bl].
      destruct (eval_ok_sound f G C rho r wr rv Hrho Hwr Er Erv) as [Dr Br].
      pose proof (check_wf f G C rho Hrho _ _ Hwr Er) as Wr.
      rewrite <- Dl, <- Dr in Hbw. rewrite (apply_bin_width f op lv rv w Hbw) in Hev.
      destruct (is_div op && (bits rv =? 0)) eqn:Hdiv; [discriminate Hev|].
      injection Hev as <-. cbn [bits]. rewrite land_mask by exact Ww.
      cbn [den]. rewrite Hsw, <- (IHl wl lv Hwl El Elv), <- (IHr wr rv Hwr Er Erv).
      apply apply_raw_den.
      + apply nbits_le. exact Ww.
      + exact (lt_pow2_128 _ _ (nbits_le wr Wr) Br).
      + intros Hd. rewrite Hd in Hdiv. cbn [andb] in Hdiv.
        apply N.eqb_neq. exact Hdiv.
      + exact (bin_width_bool f op _ _ w Hbw).
    - (* EUn *)
      intros op e IHe w v Hwf Hc Hev. cbn [wf_expr] in Hwf.
      apply check_un_inv in Hc. destruct Hc as (w1 & E1 & ->).
      cbn [eval] in Hev. bind_inv Hev as v1 Ev1. injection Hev as <-.
      destruct (eval_ok_sound f G C rho e w1 v1 Hrho Hwf E1 Ev1) as [D1 B1].
      pose proof (check_wf f G C rho Hrho _ _ Hwf E1) as W1.
      cbn [den]. rewrite (check_sw f G C rho _ _ Hrho Hwf E1), <- (IHe w1 v1 Hwf E1 Ev1).
      apply unop_den; assumption.
    - (* EMux *)
      intros a IHa w v Hwf Hc Hev.
      pose proof (check_wf f G C rho Hrho _ _ Hwf Hc) as Ww.
      pose proof (check_sw f G C rho _ _ Hrho Hwf Hc) as Hsw.
      pose proof (check_dynw f G C rho Hrho _ _ Hwf Hc) as Dw. rewrite dynw_mux in Dw.
      cbn [wf_expr] in Hwf.
      apply check_mux_inv in Hc. destruct Hc as (st & Est & _).
      rewrite eval_mux in Hev. bind_inv Hev as v0 Ev0. injection Hev as <-.
      cbn [as_width bits]. rewrite Dw, land_mask by exact Ww.
      rewrite den_mux, Hsw. f_equal. exact (IHa _ _ v0 Hwf Est Ev0).
    - (* EWire *)
      intros n w v _ _ Hev. cbn [eval] in Hev. cbn [den].
      destruct (rho n) as [v0|]; [|discriminate Hev]. injection Hev as <-. reflexivity.
    - (* ESlice *)
      intros e IHe lo hi w v Hwf Hc Hev.
      pose proof (check_wf f G C rho Hrho _ _ Hwf Hc) as Ww.
      destruct Hwf as (Hwf & Hlo & Hhi).
      apply check_slice_inv in Hc. destruct Hc as (Hle & -> & w1 & E1 & _).
      cbn [eval] in Hev. bind_inv Hev as v1 Ev1. injection Hev as <-.
      destruct (eval_ok_sound f G C rho e w1 v1 Hrho Hwf E1 Ev1) as [D1 B1].
      pose proof (check_wf f G C rho Hrho _ _ Hwf E1) as W1.
      cbn [as_width bits]. rewrite land_mask by exact Ww.
      cbn [nbits bits_or_128 den]. rewrite <- (IHe w1 v1 Hwf E1 Ev1).
      rewrite (shr_or_zero_spec (bits v1) lo (nbits w1) Hlo (nbits_le w1 W1) B1).
      reflexivity.
    - (* ECat *)
      intros l IHl r IHr w v Hwf Hc Hev.
      pose proof (check_wf f G C rho Hrho _ _ Hwf Hc) as Ww.
      destruct Hwf as [Hwl Hwr].
      apply check_cat_inv in Hc. destruct Hc as (lw & rw & El & Er & Hle & ->).
      cbn [eval] in Hev. bind_inv Hev as lv Elv. bind_inv Hev as rv Erv.
      destruct (eval_ok_sound f G C rho l _ lv Hrho Hwl El Elv) as [Dl Bl].
      destruct (eval_ok_sound f G C rho r _ rv Hrho Hwr Er Erv) as [Dr Br].
      rewrite Dl, Dr in Hev. injection Hev as <-.
      cbn [as_width bits]. rewrite sat_u8_small by exact Hle.
      rewrite land_mask by exact Ww.
      cbn [den]. rewrite (check_sw f G C rho _ _ Hrho Hwr Er).
      rewrite <- (IHl _ lv Hwl El Elv), <- (IHr _ rv Hwr Er Erv).
      cbn [nbits bits_or_128] in *. apply cat_spec; assumption.
    - (* EIn *)
      intros e IHe items IHi w v [Hwe Hwi] Hc Hev.
      apply check_in_inv in Hc. destruct Hc as (-> & wl & El & Ei).
      rewrite eval_in in Hev. bind_inv Hev as v1 Ev1.
      rewrite den_in, <- (IHe wl v1 Hwe El Ev1).
      exact (IHi wl [] (bits v1) v Hwi Ei Hev).
    - (* ANil *)
      intros st st' v _ _ Hev. rewrite eval_arms_nil in Hev. injection Hev as <-. reflexivity.
    - (* ACons *)
      intros c IHc v IHv rest IHrest st st' v0 (Hwc & Hwv & Hwr) Hc Hev.
      apply check_arms_cons_inv in Hc. destruct Hc as (wc & wv & Ec & Ev & Hrest).
      rewrite eval_arms_cons in Hev. bind_inv Hev as cv Ecv.
      rewrite den_arms_cons, <- (IHc wc cv Hwc Ec Ecv).
      unfold is_true in Hev. destruct (0 <? bits cv).
      + exact (IHv wv v0 Hwv Ev Hev).
      + exact (IHrest _ _ v0 Hwr Hrest Hev).
    - (* XNil *)
      intros wl errs n v _ _ Hev. rewrite eval_items_nil in Hev. injection Hev as <-.
      reflexivity.
    - (* XCons *)
      intros e IHe rest IHrest wl errs n v [Hwe Hwr] Hc Hev.
      apply check_items_cons_inv in Hc. destruct Hc as (wi & more & Ei & Em & _).
      rewrite eval_items_cons in Hev. bind_inv Hev as r Er.
      rewrite den_items_cons, <- (IHe wi r Hwe Ei Er).
      destruct (n =? bits r); cbn [orb].
      + injection Hev as <-. reflexivity.
      + exact (IHrest wl more n v Hwr Em Hev).
  Qed.
End EvalDen.

Theorem eval_den : stmt_eval_den.
Proof.
  intros f G C rho e w v Hwf Hrho Hc Hev.
  exact (proj1 (eval_den_all f G C rho Hrho) e w v Hwf Hc Hev).
Qed.

(* ---- the strictness options ------------------------------------------------------------ *)

(* a value's width is always the dynamic width of the expression it came from *)
Lemma eval_wd_all f rho :
  (forall e v, eval f rho e = Ok v -> wd v = dynw f rho e) /\
  (forall a : arms, True) /\
  (forall x n v, eval_items f rho n x = Ok v -> wd v = Bits 1).
Proof.
  apply expr_arms_exprs_ind.
  - intros c v Hev. cbn [eval] in Hev. injection Hev as <-. reflexivity.
  - intros op l IHl r IHr v Hev. cbn [eval] in Hev.
    bind_inv Hev as lv Elv. bind_inv Hev as rv Erv.
    cbn [dynw]. rewrite <- (IHl lv Elv), <- (IHr rv Erv).
    unfold apply in Hev. bind_inv Hev as fw Efw.
    destruct (is_div op && (bits rv =? 0)); [discriminate Hev|]. injection Hev as <-.
    cbn [wd]. destruct (kind op).
    + now injection Efw as <-.
    + now injection Efw as <-.
    + destruct (wcombine (wd lv) (wd rv)) as [w0|]; [|discriminate Efw].
      now injection Efw as <-.
    + destruct (f_swb f).
      * destruct (wcombine (wd lv) (wd rv)) as [w0|]; [|discriminate Efw].
        now injection Efw as <-.
      * now injection Efw as <-.
  - intros op e IHe v Hev. cbn [eval] in Hev. bind_inv Hev as v1 E1. injection Hev as <-.
    unfold unop_apply. cbn [wd dynw]. rewrite <- (IHe v1 E1). destruct op; reflexivity.
  - intros a _ v Hev. rewrite eval_mux in Hev. bind_inv Hev as v0 E0. injection Hev as <-.
    rewrite dynw_mux. reflexivity.
  - intros n v Hev. cbn [eval] in Hev. cbn [dynw].
    destruct (rho n) as [v0|]; [|discriminate Hev]. now injection Hev as <-.
  - intros e _ lo hi v Hev. cbn [eval] in Hev. bind_inv Hev as v1 E1. injection Hev as <-.
    reflexivity.
  - intros l IHl r IHr v Hev. cbn [eval] in Hev.
    bind_inv Hev as lv Elv. bind_inv Hev as rv Erv.
    cbn [dynw]. rewrite <- (IHl lv Elv), <- (IHr rv Erv).
    destruct (wd rv) as [rb|]; [|discriminate Hev].
    destruct (wd lv) as [lb|]; [|discriminate Hev].
    injection Hev as <-. reflexivity.
  - intros e _ items IHi v Hev. rewrite eval_in in Hev. bind_inv Hev as v1 E1.
    cbn [dynw]. exact (IHi _ _ Hev).
  - exact I.
  - intros; exact I.
  - intros n v Hev. rewrite eval_items_nil in Hev. now injection Hev as <-.
  - intros e _ rest IHrest n v Hev. rewrite eval_items_cons in Hev. bind_inv Hev as r Er.
    destruct (n =? bits r); [now injection Hev as <- | exact (IHrest _ _ Hev)].
Qed.

Lemma eval_wd f rho e v : eval f rho e = Ok v -> wd v = dynw f rho e.
Proof. apply (proj1 (eval_wd_all f rho)). Qed.

(* evaluation only reads strict-wire-widths-binary *)
Lemma feat_ext_all a b rho :
  f_swb a = f_swb b ->
  (forall e, dynw a rho e = dynw b rho e /\ eval a rho e = eval b rho e) /\
  (forall ar, (forall acc, dynw_arms a rho ar acc = dynw_arms b rho ar acc) /\
              eval_arms a rho ar = eval_arms b rho ar) /\
  (forall x n, eval_items a rho n x = eval_items b rho n x).
Proof.
  intros Hab. apply expr_arms_exprs_ind.
  - intros c. split; reflexivity.
  - intros op l [Dl El] r [Dr Er]. cbn [dynw eval]. rewrite Dl, Dr, El, Er, Hab.
    split; [reflexivity|].
    destruct (eval b rho l) as [lv|]; cbn [bind]; [|reflexivity].
    destruct (eval b rho r) as [rv|]; cbn [bind]; [|reflexivity].
    unfold apply. rewrite Hab. reflexivity.
  - intros op e [De Ee]. cbn [dynw eval]. rewrite De, Ee. split; reflexivity.
  - intros ar [Da Ea]. rewrite !dynw_mux, !eval_mux, Da, Ea. split; reflexivity.
  - intros n. split; reflexivity.
  - intros e [De Ee] lo hi. cbn [dynw eval]. rewrite Ee. split; reflexivity.
  - intros l [Dl El] r [Dr Er]. cbn [dynw eval]. rewrite Dl, Dr, El, Er. split; reflexivity.
  - intros e [De Ee] items IHi. rewrite !eval_in, Ee. cbn [dynw]. split; [reflexivity|].
    destruct (eval b rho e) as [v|]; cbn [bind]; [apply IHi | reflexivity].
  - split; reflexivity.
  - intros c [Dc Ec] v [Dv Ev] rest [Dr Er]. split.
    + intros acc. rewrite !dynw_arms_cons, Dv. apply Dr.
    + rewrite !eval_arms_cons, Ec, Ev, Er. reflexivity.
  - intros n. reflexivity.
  - intros e [De Ee] rest IHrest n. rewrite !eval_items_cons, Ee.
    destruct (eval b rho e) as [r|]; cbn [bind]; [|reflexivity].
    rewrite IHrest. reflexivity.
Qed.

(* dynamic width under a partial environment: the static width, or unsized *)
Definition refines (d s : width) : Prop := d = s \/ d = Unl.

Lemma wcombine_l a b w : wcombine a b = Some w -> refines a w.
Proof.
  unfold refines. destruct a as [s|], b as [t|]; cbn [wcombine]; intros H; auto.
  - destruct (s =? t); [|discriminate H]. injection H as <-. auto.
  - injection H as <-. auto.
Qed.

Lemma wcombine_r a b w : wcombine a b = Some w -> refines b w.
Proof.
  unfold refines. destruct a as [s|], b as [t|]; cbn [wcombine]; intros H; auto.
  - destruct (N.eqb_spec s t) as [->|Hne]; [|discriminate H]. injection H as <-. auto.
  - injection H as <-. auto.
Qed.

Lemma wcombine_unl_r a : wcombine a Unl = Some a.
Proof. destruct a; reflexivity. Qed.

Lemma refines_combine d1 s1 d2 s2 w :
  refines d1 s1 -> refines d2 s2 -> wcombine s1 s2 = Some w ->
  exists d, wcombine d1 d2 = Some d /\ refines d w.
Proof.
  intros [->| ->] [->| ->] H.
  - exists w. split; [exact H | left; reflexivity].
  - exists s1. split; [apply wcombine_unl_r | exact (wcombine_l _ _ _ H)].
  - exists s2. split; [reflexivity | exact (wcombine_r _ _ _ H)].
  - exists Unl. split; [reflexivity | right; reflexivity].
Qed.

Section FeatStrict.
  Variables (a b : features) (G : string -> option width) (C : string -> option wval).
  Hypothesis Hb : f_swb b = true.
  Hypothesis HC : consts_ok G C.

  Lemma feat_strict_all :
    (forall e w, check b G C e = Ok w ->
       dynw a C e = dynw b C e /\ refines (dynw b C e) w /\ eval a C e = eval b C e) /\
    (forall ar st st', check_arms b G C ar st = Ok st' ->
       eval_arms a C ar = eval_arms b C ar /\
       forall w, ms_width st' = Some w ->
         exists cur, ms_width st = Some cur /\
           forall acc, refines acc cur ->
             dynw_arms a C ar acc = dynw_arms b C ar acc /\
             refines (dynw_arms b C ar acc) w) /\
    (forall x wl errs n, check_items b G C wl x = Ok errs ->
       eval_items a C n x = eval_items b C n x).
  Proof.
    apply expr_arms_exprs_ind.
    - (* EConst *)
      intros c w Hc. cbn [check] in Hc. injection Hc as <-.
      split; [reflexivity|]. split; [left; reflexivity | reflexivity].
    - (* EBin *)
      intros op l IHl r IHr w Hc.
      apply check_bin_inv in Hc. destruct Hc as (wl & wr & El & Er & Hbw).
      destruct (IHl wl El) as (Dl & Rl & Vl). destruct (IHr wr Er) as (Dr & Rr & Vr).
      cbn [dynw eval]. rewrite Dl, Dr, Vl, Vr, Hb. unfold bin_width in Hbw.
      assert (Hweak : forall w0, wcombine wl wr = Some w0 ->
                exists d, wcombine (dynw b C l) (dynw b C r) = Some d /\ refines d w0).
      { intros w0 H0. exact (refines_combine _ _ _ _ _ Rl Rr H0). }
      split; [|split].
      + destruct (kind op); try reflexivity. rewrite Hb in Hbw.
        destruct (Hweak w Hbw) as (d & Hd & _). rewrite Hd. cbn [or_else].
        destruct (f_swb a); [reflexivity | apply wcombine_wmax; exact Hd].
      + destruct (kind op).
        * destruct Hbw as [-> _]. left; reflexivity.
        * destruct Hbw as [-> _]. left; reflexivity.
        * destruct (Hweak w Hbw) as (d & Hd & Rd). rewrite Hd. exact Rd.
        * rewrite Hb in Hbw. destruct (Hweak w Hbw) as (d & Hd & Rd). rewrite Hd. exact Rd.
      + destruct (eval b C l) as [lv|] eqn:Elv; cbn [bind]; [|reflexivity].
        destruct (eval b C r) as [rv|] eqn:Erv; cbn [bind]; [|reflexivity].
        unfold apply. destruct (kind op); try reflexivity. rewrite Hb in Hbw |- *.
        destruct (Hweak w Hbw) as (d & Hd & _).
        rewrite (eval_wd b C l lv Elv), (eval_wd b C r rv Erv), Hd.
        destruct (f_swb a); [reflexivity|]. rewrite (wcombine_wmax _ _ _ Hd). reflexivity.
    - (* EUn *)
      intros op e IHe w Hc. apply check_un_inv in Hc. destruct Hc as (w1 & E1 & ->).
      destruct (IHe w1 E1) as (De & Re & Ve). cbn [eval]. rewrite Ve.
      split; [|split; [|reflexivity]].
      + destruct op; cbn [dynw]; auto.
      + destruct op; cbn [dynw un_width]; auto. left; reflexivity.
    - (* EMux *)
      intros ar IHa w Hc. apply check_mux_inv in Hc. destruct Hc as (st & Est & Hw & _).
      destruct (IHa _ _ Est) as (Va & Hd).
      destruct (Hd w Hw) as (cur & Hcur & Hacc). cbn in Hcur. injection Hcur as <-.
      destruct (Hacc Unl (or_introl eq_refl)) as (Da & Ra).
      rewrite !dynw_mux, !eval_mux, Da, Va. auto.
    - (* EWire *)
      intros n w Hc. apply check_wire_inv in Hc.
      split; [reflexivity|]. split; [|reflexivity]. cbn [dynw].
      destruct (C n) as [v|] eqn:Cn; [|right; reflexivity].
      destruct (HC n v Cn) as [Gn _]. rewrite Gn in Hc. injection Hc as <-. left; reflexivity.
    - (* ESlice *)
      intros e IHe lo hi w Hc. apply check_slice_inv in Hc.
      destruct Hc as (_ & -> & w1 & E1 & _). destruct (IHe w1 E1) as (_ & _ & Ve).
      cbn [dynw eval]. rewrite Ve. split; [reflexivity|]. split; [left|]; reflexivity.
    - (* ECat *)
      intros l IHl r IHr w Hc.
      apply check_cat_inv in Hc. destruct Hc as (lw & rw & El & Er & Hle & ->).
      destruct (IHl _ El) as (Dl & Rl & Vl). destruct (IHr _ Er) as (Dr & Rr & Vr).
      cbn [dynw eval]. rewrite Dl, Dr, Vl, Vr.
      split; [reflexivity|]. split; [|reflexivity].
      destruct Rl as [-> | ->]; [|right; reflexivity].
      destruct Rr as [-> | ->]; [|right; reflexivity].
      left. rewrite sat_u8_small by exact Hle. reflexivity.
    - (* EIn *)
      intros e IHe items IHi w Hc.
      apply check_in_inv in Hc. destruct Hc as (-> & wl & El & Ei).
      destruct (IHe wl El) as (_ & _ & Ve). rewrite !eval_in, Ve. cbn [dynw].
      split; [reflexivity|]. split; [left; reflexivity|].
      destruct (eval b C e) as [v|]; cbn [bind]; [|reflexivity].
      exact (IHi wl [] (bits v) Ei).
    - (* ANil *)
      intros st st' Hc. cbn [check_arms] in Hc. injection Hc as <-.
      split; [reflexivity|]. intros w Hw. exists w. split; [exact Hw|].
      intros acc Racc. rewrite !dynw_arms_nil. auto.
    - (* ACons *)
      intros c IHc v IHv rest IHrest st st' Hc.
      apply check_arms_cons_inv in Hc. destruct Hc as (wc & wv & Ec & Ev & Hrest).
      destruct (IHc wc Ec) as (_ & _ & Vc). destruct (IHv wv Ev) as (Dv & Rv & Vv).
      destruct (IHrest _ _ Hrest) as (Vr & Hd). split.
      + rewrite !eval_arms_cons, Vc, Vv, Vr. reflexivity.
      + intros w Hw. destruct (Hd w Hw) as (cur' & Hcur' & Hacc).
        cbn [mux_step ms_width] in Hcur'.
        destruct (ms_width st) as [cur|]; [|discriminate Hcur'].
        exists cur. split; [reflexivity|]. intros acc Racc.
        rewrite !dynw_arms_cons, Dv.
        destruct (refines_combine _ _ _ _ _ Racc Rv Hcur') as (d & Hd' & Rd).
        rewrite Hd'. cbn [or_else]. exact (Hacc d Rd).
    - (* XNil *)
      intros wl errs n _. reflexivity.
    - (* XCons *)
      intros e IHe rest IHrest wl errs n Hc.
      apply check_items_cons_inv in Hc. destruct Hc as (wi & more & Ei & Em & _).
      destruct (IHe wi Ei) as (_ & _ & Ve). rewrite !eval_items_cons, Ve.
      destruct (eval b C e) as [r|]; cbn [bind]; [|reflexivity].
      rewrite (IHrest wl more n Em). reflexivity.
  Qed.
End FeatStrict.

Lemma eval_feat_indep a b G C e w :
  (f_swb a = true -> f_swb b = true) -> consts_ok G C ->
  check b G C e = Ok w -> eval a C e = eval b C e.
Proof.
  intros Hab HC Hc. destruct (f_swb b) eqn:Hb.
  - apply (proj1 (feat_strict_all a b G C Hb HC) e w Hc).
  - assert (Ha : f_swb a = f_swb b).
    { rewrite Hb. destruct (f_swb a); [specialize (Hab eq_refl); discriminate Hab | reflexivity]. }
    apply (proj1 (feat_ext_all a b C Ha) e).
Qed.

Lemma check_bin_intro f G C op l r wl wr w :
  check f G C l = Ok wl -> check f G C r = Ok wr -> bin_width f op wl wr w ->
  check f G C (EBin op l r) = Ok w.
Proof.
  intros El Er. cbn [check]. unfold bin_width. destruct (kind op).
  - intros [-> Hpb]. destruct (f_sbo f).
    + destruct (Hpb eq_refl) as [Pl Pr].
      rewrite El. cbn [bind]. rewrite Pl. cbn [negb]. rewrite Er. cbn [bind].
      rewrite Pr. reflexivity.
    + rewrite El, Er. reflexivity.
  - intros [-> [w0 H0]]. rewrite El, Er. cbn [bind]. unfold combine_exprs. rewrite H0.
    reflexivity.
  - intros H. rewrite El, Er. cbn [bind]. unfold combine_exprs. rewrite H. reflexivity.
  - destruct (f_swb f); intros H; rewrite El, Er; cbn [bind].
    + unfold combine_exprs. rewrite H. reflexivity.
    + rewrite H. reflexivity.
Qed.

Lemma bin_width_mono a b op wl wr w :
  feat_le a b -> bin_width b op wl wr w -> bin_width a op wl wr w.
Proof.
  intros (Hsbo & Hswb & _). unfold bin_width. destruct (kind op); auto.
  - intros [-> Hpb]. split; [reflexivity|]. intros Ha. exact (Hpb (Hsbo Ha)).
  - destruct (f_swb a), (f_swb b); auto.
    + specialize (Hswb eq_refl). discriminate Hswb.
    + intros H. symmetry. apply wcombine_wmax. exact H.
Qed.

Lemma flag_mono (x y c : bool) : (x = true -> y = true) -> y && c = false -> x && c = false.
Proof.
  destruct x; [|reflexivity]. intros H. rewrite (H eq_refl). auto.
Qed.

Section Monotone.
  Variables (a b : features) (G : string -> option width) (C : string -> option wval).
  Hypothesis HC : consts_ok G C.
  Hypothesis Hab : feat_le a b.

  Lemma monotone_all :
    (forall e w, check b G C e = Ok w -> check a G C e = Ok w) /\
    (forall ar st st', check_arms b G C ar st = Ok st' -> check_arms a G C ar st = Ok st') /\
    (forall x wl errs, check_items b G C wl x = Ok errs -> check_items a G C wl x = Ok errs).
  Proof.
    apply expr_arms_exprs_ind.
    - (* EConst *) intros c w Hc. exact Hc.
    - (* EBin *)
      intros op l IHl r IHr w Hc.
      apply check_bin_inv in Hc. destruct Hc as (wl & wr & El & Er & Hbw).
      apply (check_bin_intro a G C op l r wl wr w (IHl _ El) (IHr _ Er)).
      exact (bin_width_mono a b op wl wr w Hab Hbw).
    - (* EUn *)
      intros op e IHe w Hc. apply check_un_inv in Hc. destruct Hc as (w1 & E1 & ->).
      cbn [check]. destruct op; cbn [un_width]; rewrite (IHe _ E1); reflexivity.
    - (* EMux *)
      intros ar IHa w Hc. apply check_mux_inv in Hc.
      destruct Hc as (st & Est & Hw & Hrmd & Hdmd & Hduo).
      destruct Hab as (_ & _ & Lrmd & Ldmd & Lduo).
      rewrite check_mux_eq. change (mkMS (Some Unl) false false false) with mux_init.
      rewrite (IHa _ _ Est). cbn [bind].
      rewrite (flag_mono _ _ _ Lrmd Hrmd), (flag_mono _ _ _ Ldmd Hdmd),
        (flag_mono _ _ _ Lduo Hduo), Hw.
      reflexivity.
    - (* EWire *) intros n w Hc. exact Hc.
    - (* ESlice *)
      intros e IHe lo hi w Hc. cbn [check] in Hc |- *.
      destruct (hi <? lo); [exact Hc|]. bind_inv Hc as w1 E1.
      rewrite (IHe _ E1). cbn [bind]. exact Hc.
    - (* ECat *)
      intros l IHl r IHr w Hc. cbn [check] in Hc |- *.
      bind_inv Hc as wl El. rewrite (IHl _ El). cbn [bind].
      destruct wl as [lw|]; [|exact Hc].
      bind_inv Hc as wr Er. rewrite (IHr _ Er). cbn [bind]. exact Hc.
    - (* EIn *)
      intros e IHe items IHi w Hc. rewrite check_in_eq in Hc |- *.
      bind_inv Hc as wl El. bind_inv Hc as errs Ei.
      rewrite (IHe _ El). cbn [bind]. rewrite (IHi _ _ Ei). cbn [bind]. exact Hc.
    - (* ANil *) intros st st' Hc. exact Hc.
    - (* ACons *)
      intros c IHc v IHv rest IHrest st st' Hc. rewrite check_arms_cons_eq in Hc |- *.
      bind_inv Hc as wc Ec. bind_inv Hc as wv Ev.
      rewrite (IHc _ Ec), (IHv _ Ev). cbn [bind].
      assert (Hat : always_true a C c = always_true b C c).
      { unfold always_true.
        rewrite (eval_feat_indep a b G C c wc (proj1 (proj2 Hab)) HC Ec). reflexivity. }
      rewrite Hat. exact (IHrest _ _ Hc).
    - (* XNil *) intros wl errs Hc. exact Hc.
    - (* XCons *)
      intros e IHe rest IHrest wl errs Hc. rewrite check_items_cons_eq in Hc |- *.
      bind_inv Hc as wi Ei. bind_inv Hc as more Em.
      rewrite (IHe _ Ei). cbn [bind]. rewrite (IHrest _ _ Em). cbn [bind]. exact Hc.
  Qed.
End Monotone.

Theorem features_monotone : stmt_features_monotone.
Proof.
  intros a b G C e w _ HC Hab Hc.
  exact (proj1 (monotone_all a b G C HC Hab) e w Hc).
Qed.

(* ---- two accepting feature sets agree on width and value ------------------------------- *)
Lemma bin_width_fun a b op wl wr w w' :
  bin_width a op wl wr w -> bin_width b op wl wr w' -> w = w'.
Proof.
  unfold bin_width. destruct (kind op).
  - intros [-> _] [-> _]. reflexivity.
  - intros [-> _] [-> _]. reflexivity.
  - intros H H'. rewrite H in H'. now injection H'.
  - destruct (f_swb a), (f_swb b); intros H H'.
    + rewrite H in H'. now injection H'.
    + subst w'. symmetry. apply wcombine_wmax. exact H.
    + subst w. apply wcombine_wmax. exact H'.
    + subst. reflexivity.
Qed.

Section SameWidth.
  Variables (a b : features) (G : string -> option width) (C : string -> option wval).

  Lemma same_width_all :
    (forall e w w', check a G C e = Ok w -> check b G C e = Ok w' -> w = w') /\
    (forall ar st1 st2 s1 s2, ms_width st1 = ms_width st2 ->
       check_arms a G C ar st1 = Ok s1 -> check_arms b G C ar st2 = Ok s2 ->
       ms_width s1 = ms_width s2) /\
    (forall x : exprs, True).
  Proof.
    apply expr_arms_exprs_ind.
    - intros c w w' H H'. cbn [check] in H, H'. rewrite H in H'. now injection H'.
    - intros op l IHl r IHr w w' H H'.
      apply check_bin_inv in H. destruct H as (wl & wr & El & Er & Hbw).
      apply check_bin_inv in H'. destruct H' as (wl' & wr' & El' & Er' & Hbw').
      rewrite <- (IHl _ _ El El'), <- (IHr _ _ Er Er') in Hbw'.
      exact (bin_width_fun a b op wl wr w w' Hbw Hbw').
    - intros op e IHe w w' H H'.
      apply check_un_inv in H. destruct H as (w1 & E1 & ->).
      apply check_un_inv in H'. destruct H' as (w1' & E1' & ->).
      rewrite (IHe _ _ E1 E1'). reflexivity.
    - intros ar IHa w w' H H'.
      apply check_mux_inv in H. destruct H as (st & Est & Hw & _).
      apply check_mux_inv in H'. destruct H' as (st' & Est' & Hw' & _).
      pose proof (IHa _ _ _ _ eq_refl Est Est') as E. rewrite Hw, Hw' in E. now injection E.
    - intros n w w' H H'. apply check_wire_inv in H, H'. rewrite H in H'. now injection H'.
    - intros e _ lo hi w w' H H'.
      apply check_slice_inv in H. destruct H as (_ & -> & _).
      apply check_slice_inv in H'. destruct H' as (_ & -> & _). reflexivity.
    - intros l IHl r IHr w w' H H'.
      apply check_cat_inv in H. destruct H as (lw & rw & El & Er & _ & ->).
      apply check_cat_inv in H'. destruct H' as (lw' & rw' & El' & Er' & _ & ->).
      pose proof (IHl _ _ El El') as Hl. pose proof (IHr _ _ Er Er') as Hr.
      injection Hl as <-. injection Hr as <-. reflexivity.
    - intros e _ items _ w w' H H'.
      apply check_in_inv in H. destruct H as (-> & _).
      apply check_in_inv in H'. destruct H' as (-> & _). reflexivity.
    - intros st1 st2 s1 s2 Hst H H'. cbn [check_arms] in H, H'.
      injection H as <-. injection H' as <-. exact Hst.
    - intros c _ v IHv rest IHrest st1 st2 s1 s2 Hst H H'.
      apply check_arms_cons_inv in H. destruct H as (wc & wv & Ec & Ev & Hrest).
      apply check_arms_cons_inv in H'. destruct H' as (wc' & wv' & Ec' & Ev' & Hrest').
      apply (IHrest _ _ _ _) with (2 := Hrest) (3 := Hrest').
      cbn [mux_step ms_width]. rewrite Hst, (IHv _ _ Ev Ev'). reflexivity.
    - exact I.
    - intros; exact I.
  Qed.
End SameWidth.

Section SameValue.
  Variables (a b : features) (G : string -> option width) (C : string -> option wval).
  Variable rho : string -> option wval.
  Hypothesis Hrho : env_ok G rho.

  Lemma same_value_all :
    (forall e w w', wf_expr e -> check a G C e = Ok w -> check b G C e = Ok w' ->
       eval a rho e = eval b rho e) /\
    (forall ar st1 st2 s1 s2, wf_arms ar ->
       check_arms a G C ar st1 = Ok s1 -> check_arms b G C ar st2 = Ok s2 ->
       eval_arms a rho ar = eval_arms b rho ar) /\
    (forall x wl wl' e1 e2 n, wf_items x ->
       check_items a G C wl x = Ok e1 -> check_items b G C wl' x = Ok e2 ->
       eval_items a rho n x = eval_items b rho n x).
  Proof.
    apply expr_arms_exprs_ind.
    - (* EConst *) intros; reflexivity.
    - (* EBin *)
      intros op l IHl r IHr w w' [Hwl Hwr] H H'.
      pose proof (proj1 (same_width_all a b G C) _ _ _ H H') as <-.
      apply check_bin_inv in H. destruct H as (wl & wr & El & Er & Hbw).
      apply check_bin_inv in H'. destruct H' as (wl' & wr' & El' & Er' & Hbw').
      cbn [eval]. rewrite (IHl _ _ Hwl El El'), (IHr _ _ Hwr Er Er').
      destruct (eval b rho l) as [lv|] eqn:Elv; cbn [bind]; [|reflexivity].
      destruct (eval b rho r) as [rv|] eqn:Erv; cbn [bind]; [|reflexivity].
      pose proof (proj1 (same_width_all a b G C) _ _ _ El El') as Hl. subst wl'.
      pose proof (proj1 (same_width_all a b G C) _ _ _ Er Er') as Hr. subst wr'.
      destruct (eval_ok_sound b G C rho l wl lv Hrho Hwl El' Elv) as [Dl _].
      destruct (eval_ok_sound b G C rho r wr rv Hrho Hwr Er' Erv) as [Dr _].
      rewrite <- Dl, <- Dr in Hbw, Hbw'.
      rewrite (apply_bin_width a op lv rv w Hbw), (apply_bin_width b op lv rv w Hbw').
      reflexivity.
    - (* EUn *)
      intros op e IHe w w' Hwf H H'. cbn [wf_expr] in Hwf.
      apply check_un_inv in H. destruct H as (w1 & E1 & _).
      apply check_un_inv in H'. destruct H' as (w1' & E1' & _).
      cbn [eval]. rewrite (IHe _ _ Hwf E1 E1'). reflexivity.
    - (* EMux *)
      intros ar IHa w w' Hwf H H'.
      pose proof (proj1 (same_width_all a b G C) _ _ _ H H') as <-.
      pose proof (check_dynw a G C rho Hrho _ _ Hwf H) as Da.
      pose proof (check_dynw b G C rho Hrho _ _ Hwf H') as Db.
      rewrite dynw_mux in Da, Db. cbn [wf_expr] in Hwf.
      apply check_mux_inv in H. destruct H as (st & Est & _).
      apply check_mux_inv in H'. destruct H' as (st' & Est' & _).
      rewrite !eval_mux, Da, Db, (IHa _ _ _ _ Hwf Est Est'). reflexivity.
    - (* EWire *) intros; reflexivity.
    - (* ESlice *)
      intros e IHe lo hi w w' (Hwf & _) H H'.
      apply check_slice_inv in H. destruct H as (_ & _ & w1 & E1 & _).
      apply check_slice_inv in H'. destruct H' as (_ & _ & w1' & E1' & _).
      cbn [eval]. rewrite (IHe _ _ Hwf E1 E1'). reflexivity.
    - (* ECat *)
      intros l IHl r IHr w w' [Hwl Hwr] H H'.
      apply check_cat_inv in H. destruct H as (lw & rw & El & Er & _).
      apply check_cat_inv in H'. destruct H' as (lw' & rw' & El' & Er' & _).
      cbn [eval]. rewrite (IHl _ _ Hwl El El'), (IHr _ _ Hwr Er Er'). reflexivity.
    - (* EIn *)
      intros e IHe items IHi w w' [Hwe Hwi] H H'.
      apply check_in_inv in H. destruct H as (_ & wl & El & Ei).
      apply check_in_inv in H'. destruct H' as (_ & wl' & El' & Ei').
      rewrite !eval_in, (IHe _ _ Hwe El El').
      destruct (eval b rho e) as [v|]; cbn [bind]; [|reflexivity].
      exact (IHi _ _ _ _ (bits v) Hwi Ei Ei').
    - (* ANil *) intros; reflexivity.
    - (* ACons *)
      intros c IHc v IHv rest IHrest st1 st2 s1 s2 (Hwc & Hwv & Hwr) H H'.
      apply check_arms_cons_inv in H. destruct H as (wc & wv & Ec & Ev & Hrest).
      apply check_arms_cons_inv in H'. destruct H' as (wc' & wv' & Ec' & Ev' & Hrest').
      rewrite !eval_arms_cons, (IHc _ _ Hwc Ec Ec'), (IHv _ _ Hwv Ev Ev'),
        (IHrest _ _ _ _ Hwr Hrest Hrest').
      reflexivity.
    - (* XNil *) intros; reflexivity.
    - (* XCons *)
      intros e IHe rest IHrest wl wl' e1 e2 n [Hwe Hwr] H H'.
      apply check_items_cons_inv in H. destruct H as (wi & more & Ei & Em & _).
      apply check_items_cons_inv in H'. destruct H' as (wi' & more' & Ei' & Em' & _).
      rewrite !eval_items_cons, (IHe _ _ Hwe Ei Ei').
      destruct (eval b rho e) as [r|]; cbn [bind]; [|reflexivity].
      rewrite (IHrest _ _ _ _ n Hwr Em Em'). reflexivity.
  Qed.
End SameValue.

Theorem features_same_value : stmt_features_same_value.
Proof.
  intros a b G C rho e w w' Hwf Hrho H H'. split.
  - exact (proj1 (same_width_all a b G C) e w w' H H').
  - exact (proj1 (same_value_all a b G C rho Hrho) e w w' Hwf H H').
Qed.

Print Assumptions check_width.
Print Assumptions eval_sound.
Print Assumptions eval_den.
Print Assumptions assign_truncates.
Print Assumptions features_monotone.
Print Assumptions features_same_value.
