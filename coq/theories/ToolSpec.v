(* The composed tool (Tool.v): statements.

   `tool_main_as prog files args` = (exit status, standard output) of the command
   `prog args...` in the file system `files`; `tool_main` is the same with prog = "hclrs".
   `tool_outcome files args` is the same run with everything main_real computed on the way
   (options record, compiled program, first and last machine state, the two parts of the text).

   What Tool.v does NOT represent of src/main.rs (nothing below speaks about it):
   - the text written to standard error (getopts' message, "Error reading ..", the diagnostics
     of the front end, "'..' does not have the extension .yo", "timeout .. is not a valid
     number", the run-time error): only "exit status 1, nothing on standard output";
   - standard input: under -i the function press_enter reads a line after every cycle (blocking,
     and panicking when that line is not valid UTF-8); the line "(press enter to continue)" it
     prints on standard output IS represented;
   - i/o errors other than "the file cannot be read": a failing write to standard output or
     standard error (`main_real` then returns Err and `main` panics: exit status 101), a read
     error in the middle of the .yo file, a line of the .yo file that is not valid UTF-8;
   - an HCL file that is not valid UTF-8 (Rust replaces the offending bytes by U+FFFD and warns;
     the model hands the bytes to the lexer as they are);
   - the standard output already produced when a simulation aborts in cycle n (the text of the
     cycles before n, and of cycle n up to the failing action): Machine.run returns no text with
     an error, so the model has the empty standard output there;
   - Rust panics inside the simulation (exit status 101): in the model they are error values of
     kind Panicked returned by `run`, which the tool treats like any run-time error (exit status
     1).  stmt_tool_abort_is_division_by_zero bounds this: when the statements read from the file
     are grammar-well-formed (BuildSpec.wf_stmt: literal, declared and slice widths at most 128 -
     what the grammar guarantees, FrontSpec.stmt_parse_wf) the only error `run` can return in
     the tool is DivisionByZero, which is a genuine Err of the Rust code (exit status 1).  The
     panics OUTSIDE the simulation - in Program::initial_state, under RunningProgram::new_y86,
     and in dump_y86_str - are represented by the outcome OPanic (exit status 101) and proved
     impossible (stmt_tool_never_panics);
   - the order of the lines that independent actions print within a cycle under -d and
     --trace-assignments: the Rust program's schedule follows the iteration order of randomly
     seeded HashMaps and these lines come in an order that changes from run to run (property
     C12 allows any order the dependencies allow); the model prints them in the order of the one
     schedule Build.build_program computes.  In the default, -q, -t and -i modes standard output
     does not depend on the schedule;
   - a closed standard output: print!/println! panic on a write error (e.g. `hclrs .. | head -3`
     ends with "failed printing to stdout: Broken pipe" and exit status 101);
   - argv[0] (the usage text shows it; it is the parameter `prog`) and arguments that are not
     valid UTF-8; the environment (env_logger: RUST_LOG makes the program log to standard error);
   - Rust's Unicode tables: identifiers and white space outside ASCII are classified by
     Lexer.test_uclass, bank-name letters by Build.ascii_lower / ascii_upper;
   - getopts::Options::usage: the option part of the usage text is transcribed from the
     program's output, not computed from the option table. *)
From HclV Require Import Base Expr Machine MachineSpec TableSpec Build BuildSpec Yo Lexer Parser
                         Generated Cli CliArgs CliArgsSpec Tool.
Open Scope string_scope.
Open Scope N_scope.

(* ------------------------------------------------------------------------------------------ *)
(* Vocabulary: the world of CliArgs.main_in_world that a file system induces                    *)
(* ------------------------------------------------------------------------------------------ *)

(* what the file of that name is for the front end: unreadable; rejected by lexer, parser or
   Program::new (on the preamble followed by the file's text); accepted *)
Definition hcl_kind_of (files : file_system) (name : string) : hcl_kind :=
  match read_y86_hcl files name with
  | None => HclUnreadable
  | Some text => match parse_y86_hcl text with
                 | FrontAccepted _ => HclAccepted
                 | _ => HclRejected
                 end
  end.

(* what the file of that name is for the loader (loading into the empty memory) *)
Definition yo_kind_of (files : file_system) (name : string) : yo_kind :=
  match files name with
  | None => YoMissing
  | Some image => match load_from_y86 [] image with
                  | Ok _ => YoLoadable
                  | Err _ => YoUnloadable
                  end
  end.

(* the compiled program of the first file and the machine state before the first cycle: the
   program's initial state with the memory image of the second file *)
Definition start_of (files : file_system) (hcl yo : string) : option (program * mstate) :=
  match read_y86_hcl files hcl with
  | None => None
  | Some text =>
      match parse_y86_hcl text with
      | FrontAccepted p =>
          match initial_state p, files yo with
          | Ok s0, Some image =>
              match load_from_y86 (mem s0) image with
              | Ok m => Some (p, with_mem s0 m)
              | Err _ => None
              end
          | _, _ => None
          end
      | _ => None
      end
  end.

(* how the simulation of that pair of files ends within a cycle budget: whether Machine.run,
   with the budget as timeout and as fuel, returns a state or an error - under the default
   output options (it does not depend on them: stmt_run_result_option_free) *)
Definition sim_kind_of (files : file_system) (hcl yo : string) (budget : N) : sim_kind :=
  match start_of files hcl yo with
  | None => SimCompletes
  | Some (p, start) =>
      match run (N.to_nat budget) gen_features (set_timeout default_options budget) p start with
      | Ok _ => SimCompletes
      | Err _ => SimAborts
      end
  end.

Definition world_of (files : file_system) : world :=
  mkWorld (hcl_kind_of files) (yo_kind_of files) (sim_kind_of files).

(* the positional arguments ([] when the options are malformed) and the three kinds that
   main_in_world hands to main_argv *)
Definition free_of (args : list string) : list string :=
  match parse_argv args with Some (_, free) => free | None => [] end.
Definition hcl_of (files : file_system) (args : list string) : hcl_kind :=
  hcl_kind_of files (nth 0 (free_of args) "").
Definition yo_of (files : file_system) (args : list string) : yo_kind :=
  yo_kind_of files (nth 1 (free_of args) "").
Definition sim_of (files : file_system) (args : list string) : sim_kind :=
  sim_kind_of files (nth 0 (free_of args) "") (nth 1 (free_of args) "") (budget_of (free_of args)).

(* ------------------------------------------------------------------------------------------ *)
(* (a) the composed tool refines the decision model of CliArgs                                  *)
(* ------------------------------------------------------------------------------------------ *)
(* exit status and outcome class are those of main_in_world in the induced world, and the
   standard output is the one that belongs to the class (for a final state: (b)) *)
Definition stmt_tool_refines_decision : Prop :=
  forall prog files args,
    let r := tool_outcome files args in
    let d := main_in_world (world_of files) args in
    (status_of r, what_of r) = d /\
    fst (tool_main_as prog files args) = fst d /\
    match snd d with
    | PrintedUsage => snd (tool_main_as prog files args) = usage_text prog
    | PrintedVersion => snd (tool_main_as prog files args) = version_text
    | SyntaxOK => snd (tool_main_as prog files args) = syntax_ok_text
    | Message _ => snd (tool_main_as prog files args) = ""
    | FinalState _ => exists final, final_state_of r = Some final
    end.

(* the two dead branches of tool_outcome: Program::initial_state cannot fail on a program that
   Program::new accepted, dump_y86_str cannot fail on a state the simulation reached *)
Definition stmt_tool_never_panics : Prop :=
  forall files args where_, tool_outcome files args <> OPanic where_.

(* so every theorem of CliArgsSpec (C19) about main_argv / main_in_world is a theorem about the
   tool.  The two most used, spelled out: *)
Definition stmt_tool_exit_zero_iff : Prop :=
  forall prog files args,
    let st := fst (tool_main_as prog files args) in
    (st = 0 <-> asked_help args \/ asked_version args \/ check_passes args (hcl_of files args) \/
                exists t, simulated args (hcl_of files args) (yo_of files args) (sim_of files args) t) /\
    (st <> 0 -> st = 1).

Definition stmt_tool_each_failure_cause_exits_one : Prop :=
  forall prog files args,
    let st := fst (tool_main_as prog files args) in
    (~ well_formed args -> st = 1) /\
    (forall free, positionals args free -> ~ given args FHelp -> ~ given args FVersion ->
       (free = [] -> st = 1) /\
       ((3 < List.length free)%nat -> st = 1) /\
       (free <> [] -> hcl_of files args = HclUnreadable -> st = 1) /\
       (hcl_of files args = HclRejected -> st = 1) /\
       (~ given args FCheck ->
          (List.length free = 1%nat -> st = 1) /\
          (forall y, nth_error free 1 = Some y -> ~ ends_in_dot_yo y -> st = 1) /\
          (forall ts, nth_error free 2 = Some ts -> (~ exists t, denotes_u32 ts t) -> st = 1) /\
          (yo_of files args = YoMissing -> st = 1) /\
          (yo_of files args = YoUnloadable -> st = 1) /\
          (sim_of files args = SimAborts -> st = 1))).

(* rearranging the options (before any `--`) changes neither the exit status nor a byte of the
   standard output *)
Definition stmt_tool_option_order_free : Prop :=
  forall prog files pre pre' tail,
    ~ In "--" pre -> Permutation.Permutation pre pre' -> positional_part pre = positional_part pre' ->
    tool_main_as prog files (pre ++ tail) = tool_main_as prog files (pre' ++ tail).

(* ------------------------------------------------------------------------------------------ *)
(* (b) exit status 0 after a simulation: what was simulated and what was printed                *)
(* ------------------------------------------------------------------------------------------ *)
(* the Stat signal at the end of the last cycle is OK (1) or Bubble (0) - or no cycle has run *)
Definition status_ok (s : mstate) : Prop :=
  match stat_of s with Some st => st = 0 \/ st = 1 | None => True end.

(* With exit status 0 and neither help, version nor --check asked for: there are two or three
   positionals f y [ts]; the budget t is 9999 or the number ts denotes; f compiles to p and, with
   the image y, gives the state `start`;  the final state is the state after exactly k cycles,
   where k = min (t, the first j such that the status after j cycles is not OK);  standard output
   is `text ++ dump`, where `text` is what the run printed (with the prompt line after each cycle
   under -i; without -i it is the text of Machine.run) and `dump` is dump_y86 of the final state,
   whose header / footer / tail are those of the report for (last Stat, k, t);  and when -q is
   given without -d, -i and --trace-assignments, standard output is exactly `dump`. *)
Definition stmt_tool_final_state : Prop :=
  forall prog files args,
    fst (tool_main_as prog files args) = 0 ->
    ~ given args FHelp -> ~ given args FVersion -> ~ given args FCheck ->
    exists fs f y rest t p start final k text dump,
      parse_argv args = Some (fs, f :: y :: rest) /\
      ((rest = [] /\ t = 9999) \/ (exists ts, rest = [ts] /\ denotes_u32 ts t)) /\
      start_of files f y = Some (p, start) /\ cycle start = 0 /\
      let o := set_timeout (run_options_of fs) t in
      o_timeout o = t /\
      tool_outcome files args = OFinal t o p start final text dump /\
      (* the cycles *)
      iter_step k gen_features o p start = Ok final /\ cycle final = N.of_nat k /\
      N.of_nat k <= t /\
      (forall j, (j < k)%nat ->
         exists sj, iter_step j gen_features o p start = Ok sj /\ cycle sj = N.of_nat j /\ status_ok sj) /\
      (N.of_nat k = t \/ ~ status_ok final) /\
      (* the text *)
      run_prompting (prompt_of fs) (N.to_nat t) gen_features o p start = Ok (final, text) /\
      (~ In FInteractive fs -> run (N.to_nat t) gen_features o p start = Ok (final, text)) /\
      dump_y86 o p final = Ok dump /\
      snd (tool_main_as prog files args) = text ++ dump /\
      (* the dump says how the run ended *)
      (let rep := spec_report (stat_of final) (N.of_nat k) t in
       rep <> RRunning /\
       exists banks,
         dump = header_of rep (N.of_nat k) ++ nl ++ dump_program_registers (regs final) ++ banks ++
                dump_memory (mem final) ++ footer_of rep ++ nl ++
                tail_of rep (N.of_nat k) (t <=? N.of_nat k) /\
         (In FTesting fs -> banks = "")) /\
      (* quiet *)
      (In FQuiet fs -> ~ In FDebug fs -> ~ In FInteractive fs -> ~ In FTrace fs ->
       text = "" /\ snd (tool_main_as prog files args) = dump).

(* DRAFT (false): "under -q standard output is exactly the dump", whatever the other options:
   -d after -q switches the wire tables and the component messages back on, -i prints its prompt
   line, --trace-assignments its lines *)
Definition stmt_tool_quiet_only_dump_draft : Prop :=
  forall prog files args fs free t o p start final text dump,
    parse_argv args = Some (fs, free) -> In FQuiet fs ->
    tool_outcome files args = OFinal t o p start final text dump ->
    snd (tool_main_as prog files args) = dump.

(* ------------------------------------------------------------------------------------------ *)
(* (c) --check                                                                                  *)
(* ------------------------------------------------------------------------------------------ *)
(* under --check nothing is simulated and the second positional is never read: standard output
   is "syntax OK\n" with exit status 0 exactly when the check passes (one to three positionals,
   the first file accepted); otherwise - unless help or the version was asked for - the exit
   status is 1 and standard output is empty or the usage text *)
Definition stmt_tool_check_prints_only_syntax_ok : Prop :=
  forall prog files args,
    given args FCheck ->
    let r := tool_main_as prog files args in
    final_state_of (tool_outcome files args) = None /\
    (snd r = syntax_ok_text \/ snd r = "" \/ snd r = usage_text prog \/ snd r = version_text) /\
    (~ given args FHelp -> ~ given args FVersion ->
       (check_passes args (hcl_of files args) -> r = (0, syntax_ok_text)) /\
       (~ check_passes args (hcl_of files args) ->
          fst r = 1 /\ (snd r = "" \/ snd r = usage_text prog))) /\
    (* only the first positional is read *)
    (forall files', files (nth 0 (free_of args) "") = files' (nth 0 (free_of args) "") ->
       tool_main_as prog files' args = r).

(* ------------------------------------------------------------------------------------------ *)
(* (d) the tool depends on the file system only through the first two positionals               *)
(* ------------------------------------------------------------------------------------------ *)
Definition stmt_tool_deterministic_in_files : Prop :=
  forall prog files files' args,
    (forall name, nth_error (free_of args) 0 = Some name \/ nth_error (free_of args) 1 = Some name ->
       files name = files' name) ->
    tool_outcome files args = tool_outcome files' args /\
    tool_main_as prog files args = tool_main_as prog files' args.

(* ------------------------------------------------------------------------------------------ *)
(* (e) the output options                                                                       *)
(* ------------------------------------------------------------------------------------------ *)
(* whether Machine.run returns a state or an error, and which, does not depend on the output
   options - from any state whose value map has the constants and the register-bank signals and
   nothing but those and wires the program sets (TableSpec.keys_inv: true of the initial state of
   any program and kept by every cycle) *)
Definition stmt_run_result_option_free : Prop :=
  forall fuel f o o' p s,
    keys_inv p s -> o_timeout o = o_timeout o' ->
    match run fuel f o p s, run fuel f o' p s with
    | Ok (s1, _), Ok (s2, _) => s1 = s2
    | Err e1, Err e2 => e1 = e2
    | _, _ => False
    end.

(* DRAFT (false): the same from an arbitrary state - with a bank whose output has no value the
   state dump of the non-quiet run fails where the quiet run goes on *)
Definition stmt_run_result_option_free_any_state_draft : Prop :=
  forall fuel f o o' p s,
    o_timeout o = o_timeout o' ->
    match run fuel f o p s, run fuel f o' p s with
    | Ok (s1, _), Ok (s2, _) => s1 = s2
    | Err e1, Err e2 => e1 = e2
    | _, _ => False
    end.

(* two well-formed command lines with the same positionals that differ only in the options
   d q t i ungroup-debug-wires trace-assignments: same exit status, same outcome class, same
   program, same first and same final state *)
Definition program_of (r : outcome) : option program :=
  match r with OFinal _ _ p _ _ _ _ => Some p | _ => None end.
Definition start_state_of (r : outcome) : option mstate :=
  match r with OFinal _ _ _ start _ _ _ => Some start | _ => None end.

Definition stmt_tool_output_options : Prop :=
  forall prog files args args' fs fs' free,
    parse_argv args = Some (fs, free) -> parse_argv args' = Some (fs', free) ->
    (forall f, ~ is_output_flag f -> (In f fs <-> In f fs')) ->
    let r := tool_outcome files args in
    let r' := tool_outcome files args' in
    fst (tool_main_as prog files args) = fst (tool_main_as prog files args') /\
    what_of r = what_of r' /\
    program_of r = program_of r' /\
    start_state_of r = start_state_of r' /\
    final_state_of r = final_state_of r'.

(* ------------------------------------------------------------------------------------------ *)
(* (f) what makes a simulation abort                                                            *)
(* ------------------------------------------------------------------------------------------ *)
(* the statements the front end reads from the file of that name (preamble included) *)
Definition statements_of (files : file_system) (hcl : string) : option (list stmt) :=
  match read_y86_hcl files hcl, gen_tiers with
  | Some text, Some tiers => parse_text test_uclass tiers text
  | _, _ => None
  end.

(* when these statements are grammar-well-formed, the only error the simulation of the tool can
   end in - with the cycle budget as fuel, as the tool runs it, under any options - is a division
   by zero: never a Panicked value (a Rust panic, exit status 101), never OutOfFuel *)
Definition stmt_tool_abort_is_division_by_zero : Prop :=
  forall files f y stmts p start o es,
    statements_of files f = Some stmts -> Forall wf_stmt stmts ->
    start_of files f y = Some (p, start) ->
    run (N.to_nat (o_timeout o)) gen_features o p start = Err es ->
    es = [mkErr DivisionByZero []].
