(* END TO END: the properties of the simulation, stated for PROGRAM TEXTS.

   The program-level theorems (Props/Cxx.v) speak about a statement list [stmts] under the
   hypothesis [Forall wf_stmt stmts] ("what the grammar guarantees") and about a compiled
   [program] under [program_ok f G p] / [state_ok G p s].  FrontWfProofs.v proves that every
   statement list the front end produces from a text is well formed.  Here the two are composed:
   every statement below starts from the characters of the user's file and ends in the sentence
   of the property - no hypothesis is left that cannot be checked by reading the file.

   THE SETTING (section 0).  The user's file is a sequence of characters [utext] (Unicode scalar
   values, TriviaSpec.scalar: every Rust String is one).  What hclrs lexes is the compiled
   preamble (Generated.gen_preamble) followed by the UTF-8 encoding of the file
   ([program_text]; the same bytes as LexLocSpec.preamble_bytes ++ utf8 utext used by
   SpanParserSpec / SpanBuildSpec / ParseDiagSpec, and as Tool.read_y86_hcl:
   stmt_setting_is_the_tools).  It is lexed under ANY Unicode classification [uc], parsed with
   the precedence table of the compiled grammar (LexParseSpec.doc_tiers = Generated.gen_tiers),
   and built by Program::new (Build.build_program) with the component table of the compiled
   implementation (Generated.gen_fixed) under ANY feature set [f] and ANY classification of
   bank-name letters [il], [iu].  The hash-iteration orders of Program::new are the subject of
   section C12 (DiagOrderSpec.build_program_with; with the identity order it IS build_program):
   every other section is stated for the model's order, and C12 says that nothing observable
   depends on that choice.

   The states of a program are FrontWfSpec.reachable: the initial state, any well-formed memory
   image put in place of the memory, one more cycle under any output options.

   Definitions only; proofs are in TextLevelProofs.v. *)
From Coq Require Import List NArith String Permutation.
From HclV Require Import Base Expr ExprSpec Machine MachineSpec MemSpec SchedSpec Graph Build BuildSpec
     Generated Lexer Parser LexParseSpec TriviaSpec CompleteSpec LoopSpec HistorySpec SemanticsSpec
     FeatureSpec Yo Tool ToolSpec FrontWfSpec.
From HclV Require OrderSpec DiagOrderSpec OutputSpec TableSpec.
Import ListNotations.
Open Scope string_scope.
Open Scope list_scope.
Open Scope N_scope.

(* ====================================================================================== *)
(* 0. the setting                                                                         *)
(* ====================================================================================== *)
(* the bytes handed to the lexer: the compiled preamble, then the file *)
Definition program_text (utext : list N) : list N := bytes_of gen_preamble ++ utf8 utext.

(* the statements the front end reads from the file whose characters are [utext] *)
Definition text_statements (uc : N -> uclass) (utext : list N) (stmts : list stmt) : Prop :=
  Forall scalar utext /\ parse_text uc doc_tiers (program_text utext) = Some stmts.

(* the file is accepted: it has statements, and Program::new compiles them to [p] *)
Definition accepted_as (uc : N -> uclass) (f : features) (il iu : string -> bool)
           (utext : list N) (stmts : list stmt) (p : program) : Prop :=
  text_statements uc utext stmts /\ build_program f gen_fixed il iu stmts = Ok p.

Definition accepted_text (uc : N -> uclass) (f : features) (il iu : string -> bool)
           (utext : list N) (p : program) : Prop :=
  exists stmts, accepted_as uc f il iu utext stmts p.

(* a run of an accepted text: started in the initial state of the compiled program on a
   well-formed memory image, n cycles all of which succeed; [states] = s_0 ... s_n
   (HistorySpec.run_states) *)
Definition text_run (uc : N -> uclass) (f : features) (il iu : string -> bool) (o : options)
           (utext : list N) (p : program) (img : memory) (n : nat) (states : list mstate) : Prop :=
  accepted_text uc f il iu utext p /\ wf_mem img /\
  exists s0 sn,
    initial_state p = Ok s0 /\
    iter_step n f o p (load_image s0 img) = Ok sn /\
    states = run_states n f o p (load_image s0 img).

(* the tie to the rest of the development and to the tool: the preamble bytes are those of
   LexLocSpec.preamble_bytes (= bytes_of_string gen_preamble); the table is the compiled one;
   and what Tool.start_of (read_y86_hcl, parse_y86_hcl, initial_state, load_from_y86) computes
   for a file that is a text is an accepted text in this sense, in a reachable state *)
Definition stmt_setting_is_the_tools : Prop :=
  bytes_of gen_preamble = bytes_of_string gen_preamble /\
  gen_tiers = Some doc_tiers /\
  forall files fname y utext p start,
    files fname = Some (utf8 utext) -> Forall scalar utext ->
    start_of files fname y = Some (p, start) ->
    accepted_text test_uclass gen_features ascii_lower ascii_upper utext p /\
    reachable gen_features p start /\ cycle start = 0.

(* the hypothesis of the program-level theorems, for every text *)
Definition stmt_text_statements_wf : Prop :=
  forall uc utext stmts, text_statements uc utext stmts -> Forall wf_stmt stmts.

(* every state of a run is a reachable state *)
Definition stmt_text_run_states_reachable : Prop :=
  forall uc f il iu o utext p img n states,
    text_run uc f il iu o utext p img n states ->
    forall i si, nth_error states i = Some si -> reachable f p si.

(* ====================================================================================== *)
(* C07. an accepted text never fails or misbehaves at run time                            *)
(* ====================================================================================== *)
(* FrontWfSpec.stmt_text_accepted_program_ok_and_runs in this setting *)
Definition stmt_text_never_misbehaves : Prop :=
  forall uc f il iu utext p,
    accepted_text uc f il iu utext p ->
    exists G,
      program_ok f G p /\
      (exists s0, initial_state p = Ok s0 /\ state_ok G p s0) /\
      (forall s, reachable f p s -> state_ok G p s) /\
      (forall o s, reachable f p s ->
         match step f o p s with
         | Ok (s', _) => reachable f p s'
         | Err es => es = [mkErr DivisionByZero []]
         end) /\
      (forall fuel o s, reachable f p s -> (N.to_nat (o_timeout o - cycle s) <= fuel)%nat ->
         match run fuel f o p s with
         | Ok (s', _) => reachable f p s'
         | Err es => es = [mkErr DivisionByZero []]
         end).

(* ====================================================================================== *)
(* C01. in every cycle the wire values are THE solution of the wire equations             *)
(* ====================================================================================== *)
(* an accepted text has declared widths G and constant values cv (CompleteSpec.fault_free_with:
   the declarative description of its statements), and its compiled program is well typed for
   exactly this G *)
Definition stmt_text_has_declared_widths : Prop :=
  forall uc f il iu utext stmts p,
    accepted_as uc f il iu utext stmts p ->
    exists cv G, fault_free_with f gen_fixed il iu cv G stmts /\ program_ok f G p.

(* THE BRIDGE: every reachable state satisfies what the Semantics theorems assume of the state at
   the start of a cycle - well typed (SchedSpec.state_ok) and SemanticsSpec.cycle_start (control
   signals the text leaves unassigned show 0, register 15 holds 0, constants show their values) -
   for ANY declared widths and constant values of the text *)
Definition stmt_text_reachable_cycle_start : Prop :=
  forall uc f il iu utext stmts p cv G,
    accepted_as uc f il iu utext stmts p ->
    fault_free_with f gen_fixed il iu cv G stmts ->
    program_ok f G p /\
    forall s, reachable f p s -> state_ok G p s /\ cycle_start stmts cv s.

(* in every reachable state the wire equations of the cycle (SemanticsSpec.cycle_solution: over
   the statements of the text, no schedule, no compiled program) have a solution, and any two
   solutions give the same value to every wire the text constrains *)
Definition stmt_text_cycle_has_one_solution : Prop :=
  forall uc f il iu utext stmts p cv G s,
    accepted_as uc f il iu utext stmts p ->
    fault_free_with f gen_fixed il iu cv G stmts ->
    reachable f p s ->
    (exists v, cycle_solution f G stmts s v) /\
    (forall v1 v2, cycle_solution f G stmts s v1 -> cycle_solution f G stmts s v2 ->
       forall k, constrained stmts k -> v1 k = v2 k).

(* a cycle from a reachable state, under any output options: it fails exactly when the lazy
   evaluator divides by zero on the solution's values, with that report and nothing else;
   otherwise the wire values after the cycle's actions ARE the solution (every constrained wire
   holding a value of its declared width), the clock edge touches register-bank outputs only,
   and the next state - register file (E then M), memory, status, cycle count, every register of
   every bank by its own bubble / stall - is the function of the solution that SemanticsSpec
   spells out; and the next state is reachable *)
Definition stmt_text_cycle_computes_the_solution : Prop :=
  forall uc f il iu utext stmts p cv G s o,
    accepted_as uc f il iu utext stmts p ->
    fault_free_with f gen_fixed il iu cv G stmts ->
    reachable f p s ->
    match step f o p s with
    | Err es =>
        es = [mkErr DivisionByZero []] /\
        forall v, cycle_solution f G stmts s v -> divides_by_zero f G stmts v
    | Ok (s', _) =>
        reachable f p s' /\
        exists s1 t1,
          exec_actions f o (p_actions p) s = Ok (s1, t1) /\
          cycle_solution f G stmts s (wire s1) /\
          (forall k, ~ In k (bank_outputs stmts) -> lookup (values s') k = lookup (values s1) k) /\
          (forall k, constrained stmts k ->
             exists x w, lookup (values s1) k = Some x /\ G k = Some w /\ wd x = w /\ bits x < 2 ^ nbits w) /\
          forall v, cycle_solution f G stmts s v ->
            (forall k, constrained stmts k -> wire s1 k = v k) /\
            ~ divides_by_zero f G stmts v /\
            regs s' = next_regs stmts v (regs s) /\
            mem s' = next_mem stmts v (mem s) /\
            last_status s' = Some (v "Stat") /\
            cycle s' = cycle s + 1 /\
            (forall b i o0 name w init,
               In b (bank_decls stmts) -> bank_letters (fst b) = Some (i, o0) -> In (name, w, init) (snd b) ->
               exists d, eval f cv init = Ok d /\
                 wire s' (o0 ++ "_" ++ name)%string =
                   if negb (v ("bubble_" ++ o0)%string =? 0) then bits d mod 2 ^ nbits w
                   else if negb (v ("stall_" ++ o0)%string =? 0) then wire s (o0 ++ "_" ++ name)%string
                   else v (i ++ "_" ++ name)%string) /\
            (forall k, constrained stmts k -> ~ In k (bank_outputs stmts) -> wire s' k = v k)
    end.

(* independent of the schedule chosen among the valid ones: the action list of the compiled
   program is a valid schedule, and ANY valid schedule of the same actions (the pure ones in any
   order the dependencies allow, the state-changing ones in table order), run from the same
   state, succeeds exactly when the program's own does and settles to the same value of every
   wire and the same registers, memory, status and cycle count *)
Definition stmt_text_schedule_independent : Prop :=
  forall uc f il iu utext p,
    accepted_text uc f il iu utext p ->
    valid_schedule (known0 p) (p_actions p) = true /\
    forall o acts' s s1 t1,
      valid_schedule (known0 p) acts' = true ->
      Permutation (pure_part (p_actions p)) (pure_part acts') ->
      effect_part (p_actions p) = effect_part acts' ->
      exec_actions f o (p_actions p) s = Ok (s1, t1) ->
      exists s2 t2,
        exec_actions f o acts' s = Ok (s2, t2) /\
        (forall k, lookup (values s1) k = lookup (values s2) k) /\
        mem s1 = mem s2 /\ regs s1 = regs s2 /\ last_status s1 = last_status s2 /\ cycle s1 = cycle s2.

(* "whatever textual order the declarations and assignments appear in": two texts whose
   statement lists are reorderings of each other are accepted together, and after any number of
   cycles from their initial states (any output options) show the same value of every wire, the
   same registers, memory, status and cycle count - or fail alike *)
Definition stmt_text_statement_order_free : Prop :=
  forall uc uc' f il iu utext utext' stmts stmts',
    text_statements uc utext stmts -> text_statements uc' utext' stmts' ->
    Permutation stmts stmts' ->
    ((exists p, build_program f gen_fixed il iu stmts = Ok p) <->
     (exists p', build_program f gen_fixed il iu stmts' = Ok p')) /\
    forall p p',
      build_program f gen_fixed il iu stmts = Ok p -> build_program f gen_fixed il iu stmts' = Ok p' ->
      OrderSpec.same_program p p' /\
      (forall n o o', OrderSpec.same_result (OrderSpec.run_cycles f n o p) (OrderSpec.run_cycles f n o' p')) /\
      (forall s0 s0' fuel o o',
         initial_state p = Ok s0 -> initial_state p' = Ok s0' -> o_timeout o = o_timeout o' ->
         OrderSpec.same_run (run fuel f o p s0) (run fuel f o' p' s0')).

(* ====================================================================================== *)
(* C03 / C04 / C05. register banks, register file, memory along every run                 *)
(* ====================================================================================== *)
(* THE BRIDGE: a run of an accepted text is a HistorySpec.run_of, and its program drives no
   register-bank output *)
Definition stmt_text_run_is_run_of : Prop :=
  forall uc f il iu o utext p img n states,
    text_run uc f il iu o utext p img n states ->
    bank_outputs_undriven p = true /\ uses_table p /\
    exists G, run_of f o G p img n states.

(* which ports the compiled program of a text schedules, read off the text: a built-in component
   is scheduled exactly when the text assigns all its inputs *)
Definition stmt_text_ports_scheduled : Prop :=
  forall uc f il iu utext stmts p,
    accepted_as uc f il iu utext stmts p ->
    (In port_readA (p_actions p) <-> uses stmts ["reg_srcA"] = true) /\
    (In port_readB (p_actions p) <-> uses stmts ["reg_srcB"] = true) /\
    (In port_mem_read (p_actions p) <-> uses stmts ["mem_addr"; "mem_readbit"] = true) /\
    (In port_instr (p_actions p) <-> uses stmts ["pc"] = true) /\
    (has_reg_write "reg_dstE" p = true <-> uses stmts ["reg_dstE"; "reg_inputE"] = true) /\
    (has_reg_write "reg_dstM" p = true <-> uses stmts ["reg_dstM"; "reg_inputM"] = true) /\
    (has_mem_write p = true <-> uses stmts ["mem_addr"; "mem_input"; "mem_writebit"] = true).

(* C03: every register of every bank holds its declared default in cycle 0, does not change
   during a cycle, and after each clock edge holds its default (bubble - which wins), its old
   value (stall) or the value of its input; each bank looks at its own stall and bubble only *)
Definition stmt_text_bank_history : Prop :=
  forall uc f il iu o utext p img n states,
    text_run uc f il iu o utext p img n states ->
    forall b inw outw w, In b (p_banks p) -> In (inw, outw, w) (b_signals b) ->
      exists d,
        lookup (b_defaults b) outw = Some d /\ wd d = w /\ fits d /\
        (forall s0, nth_error states O = Some s0 -> lookup (values s0) outw = Some d) /\
        (forall i si acts1 acts2 sm t,
           nth_error states i = Some si -> p_actions p = acts1 ++ acts2 ->
           exec_actions f o acts1 si = Ok (sm, t) ->
           lookup (values sm) outw = lookup (values si) outw) /\
        (forall i si si', cycle_of states i si si' ->
           exists v,
             lookup (values si') inw = Some v /\ wd v = w /\ fits v /\
             lookup (values si') outw =
               if 0 <? wire si' (b_bubble b) then Some d
               else if 0 <? wire si' (b_stall b) then lookup (values si) outw
               else Some v).

(* C04: registers start at 0; each cycle applies the E write, then the M write, of that cycle's
   port values at its END (so M wins a collision, and unselected registers keep their value);
   the read ports deliver the content at the START of the cycle; closed form: a register holds the
   value last written to it, else 0; register 15 reads 0 throughout *)
Definition stmt_text_regfile_history : Prop :=
  forall uc f il iu o utext p img n states,
    text_run uc f il iu o utext p img n states ->
    (forall s0, nth_error states O = Some s0 -> regs s0 = repeat 0 16) /\
    (forall i si si', cycle_of states i si si' ->
       regs si' = rf_apply (regs si) (reg_writes_of p si') /\
       Forall (fun dv => fst dv < 16 /\ snd dv < two64) (reg_writes_of p si') /\
       (has_reg_write "reg_dstM" p = true -> wire si' "reg_dstM" < 15 ->
          rf_read (regs si') (wire si' "reg_dstM") = wire si' "reg_inputM") /\
       (has_reg_write "reg_dstE" p = true -> wire si' "reg_dstE" < 15 ->
          (has_reg_write "reg_dstM" p = true -> wire si' "reg_dstM" <> wire si' "reg_dstE") ->
          rf_read (regs si') (wire si' "reg_dstE") = wire si' "reg_inputE") /\
       (forall r, (forall dv, In dv (reg_writes_of p si') -> fst dv <> r) ->
          rf_read (regs si') r = rf_read (regs si) r) /\
       (In port_readA (p_actions p) ->
          lookup (values si') "reg_outputA" =
          Some (mkV (rf_read (regs si) (wire si' "reg_srcA")) (Bits 64))) /\
       (In port_readB (p_actions p) ->
          lookup (values si') "reg_outputB" =
          Some (mkV (rf_read (regs si) (wire si' "reg_srcB")) (Bits 64)))) /\
    (forall i si, nth_error states i = Some si ->
       List.length (regs si) = 16%nat /\
       forall r, rf_read (regs si) r =
                 if r <? 15 then last_written (reg_writes p (firstn i (tl states))) r else 0).

(* C05: the memory at the start of cycle i is the image with the 8-byte little-endian writes of
   the cycles before i applied in order (the most recent write to each byte wins, else the image,
   else 0); a cycle changes the memory by its own write, at its end; the data port and the
   instruction port deliver the bytes as they were at the START of the cycle, little-endian *)
Definition stmt_text_memory_history : Prop :=
  forall uc f il iu o utext p img n states,
    text_run uc f il iu o utext p img n states ->
    (forall i si, nth_error states i = Some si ->
       wf_mem (mem si) /\
       Forall (fun aw => fst aw < two64 /\ snd aw < two64) (mem_writes p (firstn i (tl states))) /\
       forall x, x < two64 ->
         byte_at (mem si) x = byte_after img (mem_writes p (firstn i (tl states))) x) /\
    (forall i si si', cycle_of states i si si' ->
       mem si' = fold_left (fun m aw => mem_write m (fst aw) (snd aw) 8) (mem_write_of p si') (mem si) /\
       (In port_mem_read (p_actions p) ->
          lookup (values si') "mem_output" =
          Some (mkV (if 0 <? wire si' "mem_readbit"
                     then le_bytes (byte_at (mem si)) (wire si' "mem_addr") 8 else 0) (Bits 64)) /\
          le_bytes (byte_at (mem si)) (wire si' "mem_addr") 8 =
          le_bytes (byte_after img (mem_writes p (firstn i (tl states)))) (wire si' "mem_addr") 8) /\
       (In port_instr (p_actions p) ->
          lookup (values si') "i10bytes" =
          Some (mkV (le_bytes (byte_at (mem si)) (wire si' "pc") 10) (Bits 80)) /\
          le_bytes (byte_at (mem si)) (wire si' "pc") 10 =
          le_bytes (byte_after img (mem_writes p (firstn i (tl states)))) (wire si' "pc") 10)).

(* ====================================================================================== *)
(* C06. a run stops exactly at min (timeout, first non-OK status)                         *)
(* ====================================================================================== *)
(* Machine.run from a reachable state with the remaining cycle budget as fuel: either it ends in
   the state after exactly k cycles, where k is the first count at which the status is not OK
   (ToolSpec.status_ok: the last Stat is neither AOK nor BUB) or the cycle counter has reached
   the timeout - every earlier state has an OK status and is below the timeout -, and that state is
   reachable; or some cycle before that point divides by zero, and that is the error *)
Definition stmt_text_run_stops_exactly : Prop :=
  forall uc f il iu utext p fuel o s,
    accepted_text uc f il iu utext p -> reachable f p s ->
    (N.to_nat (o_timeout o - cycle s) <= fuel)%nat ->
    match run fuel f o p s with
    | Ok (s', _) =>
        reachable f p s' /\
        exists k,
          iter_step k f o p s = Ok s' /\ cycle s' = cycle s + N.of_nat k /\
          (~ status_ok s' \/ o_timeout o <= cycle s') /\
          (forall j, (j < k)%nat ->
             exists sj, iter_step j f o p s = Ok sj /\ status_ok sj /\ cycle sj < o_timeout o)
    | Err es =>
        es = [mkErr DivisionByZero []] /\
        exists k sk,
          iter_step k f o p s = Ok sk /\ status_ok sk /\ cycle sk < o_timeout o /\
          step f o p sk = Err es
    end.

(* ====================================================================================== *)
(* C08 / C09 / C10. which texts are accepted                                              *)
(* ====================================================================================== *)
(* a text is accepted exactly when its statement list is fault free (CompleteSpec.fault_free: one
   clause per fault of the property, over the statement list only) *)
Definition stmt_text_accepted_iff_fault_free : Prop :=
  forall uc f il iu utext stmts,
    text_statements uc utext stmts ->
    ((exists p, accepted_as uc f il iu utext stmts p) <-> fault_free f gen_fixed il iu stmts).

(* an accepted text has exactly one driver for every wire: no name declared twice or owned by a
   built-in component, no name assigned twice or already driven (built-in output, constant,
   register-bank output), every declared wire and every register-bank input assigned, no constant
   reading a wire; its banks are well formed; and a rejection is never silent *)
Definition stmt_text_single_driver : Prop :=
  forall uc f il iu utext stmts,
    text_statements uc utext stmts ->
    (forall p, build_program f gen_fixed il iu stmts = Ok p ->
       NoDup (const_names stmts ++ wire_names stmts) /\
       (forall n, In n (const_names stmts ++ wire_names stmts) -> ~ In n (fixed_all_names gen_fixed)) /\
       NoDup (assigned_names stmts) /\
       (forall n, In n (assigned_names stmts) ->
          ~ In n (fixed_output_names gen_fixed) /\ ~ In n (const_names stmts) /\ ~ In n (all_outs (p_banks p))) /\
       (forall n, In n (wire_names stmts) -> In n (assigned_names stmts)) /\
       (forall n, In n (all_ins (p_banks p)) -> In n (assigned_names stmts)) /\
       (forall n e r, In (n, e) (const_exprs stmts) -> In r (refs e) -> In r (const_names stmts)) /\
       banks_wf (p_banks p)) /\
    (forall es, build_program f gen_fixed il iu stmts = Err es -> es <> []).

(* the dependency relation of an accepted text (LoopSpec.depends_on: through assignments and the
   combinational paths of the built-in components; register banks and write ports contribute
   nothing) is acyclic, for wires and for constants *)
Definition stmt_text_accepted_is_acyclic : Prop :=
  forall uc f il iu utext stmts p,
    accepted_as uc f il iu utext stmts p ->
    (forall w, ~ depends_on gen_fixed stmts w w) /\ (forall k, ~ const_depends_on stmts k k) /\
    (forall c, ~ wire_cycle gen_fixed stmts c) /\ (forall c, ~ const_cycle stmts c).

(* a text whose statements have a combinational loop is rejected - with the circular-dependency
   diagnostic, unless a pass that runs before the sorter reports (declaration pass / the passes
   between the two sorts); and a circular-dependency diagnostic is always alone and names an
   actual loop of the text *)
Definition stmt_text_cyclic_is_rejected : Prop :=
  forall uc f il iu utext stmts,
    text_statements uc utext stmts ->
    ((exists c, wire_cycle gen_fixed stmts c) ->
       exists es, build_program f gen_fixed il iu stmts = Err es /\
         ((exists c, es = [mkErr WireLoop c] /\ (wire_cycle gen_fixed stmts c \/ const_cycle stmts c)) \/
          (es <> [] /\ Forall (fun d => decl_diag (ek d) = true) es) \/
          (es <> [] /\ Forall (fun d => mid_diag (ek d) = true) es))) /\
    (forall es c, build_program f gen_fixed il iu stmts = Err es -> In (mkErr WireLoop c) es ->
       es = [mkErr WireLoop c] /\ c <> [] /\ (wire_cycle gen_fixed stmts c \/ const_cycle stmts c)).

(* ====================================================================================== *)
(* C12. nothing depends on the hash orders of Program::new                                *)
(* ====================================================================================== *)
(* Program::new with an arbitrary reordering at each of its twelve hash-iteration sites
   (DiagOrderSpec.build_program_with; ord_ok: each reordering is a permutation / presents the
   same graph).  For the statements of a text and any two such orders: both runs reject, with the
   same diagnostics up to order (or each with one real loop), or both accept, and then
   - the two programs differ only in the order of the constant table and of the actions;
   - both are well typed for one width environment, schedule validly, and apply their
     state-changing actions in the same (table) order;
   - their initial states agree, and so do the states after any number of cycles and the results
     of whole runs, under any output options with the same timeout: same value of every wire,
     same registers, memory, status, cycle count - or the same error;
   - the final state dump is byte-identical under every option set, hence so is the whole
     standard output whenever no per-cycle output is switched on (-q) *)
Definition silent_options (o : options) : Prop :=
  o_trace_assignments o = false /\ o_trace_fixed o = false /\ o_show_wire_values o = false /\
  o_show_regs_mem o = false /\ o_show_disassembly o = false.

Definition stmt_text_hash_order_free : Prop :=
  forall uc f il iu ho ho' utext stmts,
    text_statements uc utext stmts -> DiagOrderSpec.ord_ok ho -> DiagOrderSpec.ord_ok ho' ->
    match DiagOrderSpec.build_program_with f gen_fixed il iu ho stmts,
          DiagOrderSpec.build_program_with f gen_fixed il iu ho' stmts with
    | Err es, Err es' => es <> [] /\ DiagOrderSpec.same_diagnostics gen_fixed stmts es es'
    | Ok p, Ok p' =>
        DiagOrderSpec.same_program p p' /\
        effect_part (p_actions p) = effect_part (p_actions p') /\
        (exists G, program_ok f G p /\ program_ok f G p') /\
        (exists s0 s0', initial_state p = Ok s0 /\ initial_state p' = Ok s0' /\
                        OrderSpec.same_machine s0 s0') /\
        (forall n o o', OrderSpec.same_result (OrderSpec.run_cycles f n o p) (OrderSpec.run_cycles f n o' p')) /\
        (forall s0 s0' fuel o o',
           initial_state p = Ok s0 -> initial_state p' = Ok s0' -> o_timeout o = o_timeout o' ->
           OrderSpec.same_run (run fuel f o p s0) (run fuel f o' p' s0')) /\
        (forall o s s', OrderSpec.same_machine s s' -> dump_y86 o p s = dump_y86 o p' s') /\
        (forall s0 s0' fuel o,
           initial_state p = Ok s0 -> initial_state p' = Ok s0' -> silent_options o ->
           match OutputSpec.session fuel f o p s0, OutputSpec.session fuel f o p' s0' with
           | Ok (_, t), Ok (_, t') => t = t'
           | Err e, Err e' => e = e'
           | _, _ => False
           end)
    | _, _ => False
    end.

(* DRAFT (false): "... and the whole standard output, under every option set".  Under
   --trace-assignments (and -d) the lines of independent actions come in the order of the
   schedule, and the schedule does depend on the hash orders: refuted in TextLevelProofs.v on the
   example text with every collection walked backwards (two assignments swap).  This is the
   run-to-run variation of the Rust program that property C12 allows ("any order the dependencies
   allow") and ToolSpec.v lists among the things Tool.v does not represent.  The same
   statement restricted to options without per-action lines but with the per-cycle dumps and the
   disassembly line (the default mode) is PROVED in OutputOrderSpec.v / OutputOrderProofs.v
   (stmt_text_hash_order_same_output_default). *)
Definition stmt_text_hash_order_same_output_draft : Prop :=
  forall uc f il iu ho ho' utext stmts p p' s0 s0' fuel o,
    text_statements uc utext stmts -> DiagOrderSpec.ord_ok ho -> DiagOrderSpec.ord_ok ho' ->
    DiagOrderSpec.build_program_with f gen_fixed il iu ho stmts = Ok p ->
    DiagOrderSpec.build_program_with f gen_fixed il iu ho' stmts = Ok p' ->
    initial_state p = Ok s0 -> initial_state p' = Ok s0' ->
    match run fuel f o p s0, run fuel f o p' s0' with
    | Ok (_, t), Ok (_, t') => t = t'
    | Err e, Err e' => e = e'
    | _, _ => False
    end.

(* the model's order is one of them: with the identity at every site build_program_with is
   Build.build_program, so "accepted" in the sense of section 0 is acceptance under every order *)
Definition stmt_text_accepted_under_every_hash_order : Prop :=
  forall uc f il iu ho utext stmts,
    text_statements uc utext stmts -> DiagOrderSpec.ord_ok ho ->
    ((exists p, accepted_as uc f il iu utext stmts p) <->
     (exists p', DiagOrderSpec.build_program_with f gen_fixed il iu ho stmts = Ok p')).

(* ====================================================================================== *)
(* C17. the five strictness options                                                       *)
(* ====================================================================================== *)
(* for the statements of a text: switching options off never rejects more and never changes the
   compiled program; two option sets that both accept compile the same program, and so does
   their union; acceptance under f is acceptance with every option off and with each enabled
   option alone *)
Definition stmt_text_options_only_reject_more : Prop :=
  forall uc il iu utext stmts,
    text_statements uc utext stmts ->
    (forall a b p, feat_le a b -> build_program b gen_fixed il iu stmts = Ok p ->
                   build_program a gen_fixed il iu stmts = Ok p) /\
    (forall a b p p', build_program a gen_fixed il iu stmts = Ok p ->
                      build_program b gen_fixed il iu stmts = Ok p' ->
                      p = p' /\ build_program (feat_join a b) gen_fixed il iu stmts = Ok p) /\
    (forall f, accepted il iu f stmts <->
               accepted il iu all_off stmts /\ Forall (fun g => accepted il iu g stmts) (enabled_singles f)).

(* a text accepted under two option sets simulates identically under both: the same program, the
   same reachable states, and from each of them the same cycle and the same run - same state,
   same output text, same error *)
Definition stmt_text_simulates_identically_under_two_sets : Prop :=
  forall uc a b il iu utext p p',
    accepted_text uc a il iu utext p -> accepted_text uc b il iu utext p' ->
    p = p' /\
    (forall s, reachable a p s <-> reachable b p s) /\
    forall s, reachable a p s ->
      forall o, step a o p s = step b o p s /\ forall fuel, run fuel a o p s = run fuel b o p s.

(* ====================================================================================== *)
(* C18. output options never change what is simulated                                     *)
(* ====================================================================================== *)
(* from every reachable state of an accepted text: one cycle under any two option sets reaches the
   same state or fails alike; a whole run under two option sets with the same timeout reaches the
   same state or fails alike; and with more output switches on (OutputSpec.opts_le; same table
   form) the smaller output is the larger one with whole lines deleted *)
Definition stmt_text_output_options_same_state : Prop :=
  forall uc f il iu utext p s,
    accepted_text uc f il iu utext p -> reachable f p s ->
    (forall o o',
       match step f o p s, step f o' p s with
       | Ok (s1, _), Ok (s2, _) => s1 = s2
       | Err e1, Err e2 => e1 = e2
       | _, _ => False
       end) /\
    (forall fuel o o', o_timeout o = o_timeout o' ->
       match run fuel f o p s, run fuel f o' p s with
       | Ok (s1, _), Ok (s2, _) => s1 = s2
       | Err e1, Err e2 => e1 = e2
       | _, _ => False
       end) /\
    (forall fuel o o',
       OutputSpec.opts_le o o' -> OutputSpec.same_table_form o o' -> o_timeout o = o_timeout o' ->
       match run fuel f o p s, run fuel f o' p s with
       | Ok (s1, t), Ok (s2, t') => s1 = s2 /\ OutputSpec.fewer_lines t t'
       | Err e1, Err e2 => e1 = e2
       | _, _ => False
       end).
