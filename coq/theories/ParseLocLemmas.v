(* Lemmas on the viable-prefix recogniser of ParseLoc.v, by itself (no reference to the model
   parser): fuel monotonicity, stability, completions, fuel sufficiency, kind invariance. *)
From Coq Require Import List Arith Lia Bool.
From HclV Require Import Base Expr Build Lexer Parser SpanParser SpanParserSpec ParseDiag ParseLoc.
Import ListNotations.
Open Scope list_scope.

Section Steps.
  Variable tiers : list tier.

  Lemma vp_tiers_S f ts toks : vp_tiers tiers (S f) ts toks =
    match ts with
    | [] => vp_term tiers f toks
    | (KLeft, ops) :: rest =>
        match vp_tiers tiers f rest toks with
        | Done toks1 => vp_left_loop tiers f rest ops toks1
        | other => other
        end
    | (KNonAssoc, ops) :: rest =>
        match vp_tiers tiers f rest toks with
        | Done (t :: toks1) =>
            match op_of_token ops t with
            | Some _ => vp_tiers tiers f rest toks1
            | None => Done (t :: toks1)
            end
        | other => other
        end
    | (KIn, _) :: rest =>
        match vp_tiers tiers f rest toks with
        | Done (t :: toks1) =>
            if token_eqb t TIn then
              match toks1 with
              | t2 :: toks2 =>
                  if token_eqb t2 TOpenBrace
                  then expect TCloseBrace (vp_commas_exprs tiers f toks2)
                  else Fail toks1
              | [] => More [TOpenBrace; TCloseBrace]
              end
            else Done (t :: toks1)
        | other => other
        end
    | (KBad, _) :: _ => Stuck
    end.
  Proof. reflexivity. Qed.

  Lemma vp_left_loop_S f rest ops toks : vp_left_loop tiers (S f) rest ops toks =
    match toks with
    | t :: toks1 =>
        match op_of_token ops t with
        | Some _ =>
            match vp_tiers tiers f rest toks1 with
            | Done toks2 => vp_left_loop tiers f rest ops toks2
            | other => other
            end
        | None => Done toks
        end
    | [] => Done toks
    end.
  Proof. reflexivity. Qed.

  Lemma vp_term_S f toks : vp_term tiers (S f) toks =
    match toks with
    | t :: toks1 =>
        match unop_of_token t with
        | Some _ => vp_simple tiers f toks1
        | None =>
            match vp_simple tiers f toks with
            | Done (t1 :: r1) => if token_eqb t1 TOpenBracket then vp_slice r1 else Done (t1 :: r1)
            | other => other
            end
        end
    | [] => More [c_id]
    end.
  Proof. reflexivity. Qed.

  Lemma vp_simple_S f toks : vp_simple tiers (S f) toks =
    match toks with
    | t :: toks1 =>
        match t with
        | TLit _ => Done toks1
        | TIdentifier _ => Done toks1
        | TOpenParen =>
            match vp_tiers tiers f tiers toks1 with
            | Done (t2 :: toks2) =>
                if token_eqb t2 TCloseParen then Done toks2
                else if token_eqb t2 TDotDot then expect TCloseParen (vp_tiers tiers f tiers toks2)
                else Fail (t2 :: toks2)
            | other => closing [TCloseParen] other
            end
        | TOpenBracket => expect TCloseBracket (vp_mux_options tiers f toks1)
        | _ => Fail toks
        end
    | [] => More [c_id]
    end.
  Proof. reflexivity. Qed.

  Lemma vp_mux_options_S f toks : vp_mux_options tiers (S f) toks =
    match toks with
    | t :: _ =>
        if token_eqb t TCloseBracket then Done toks
        else
          match vp_tiers tiers f tiers toks with
          | Done (t1 :: toks1) =>
              if token_eqb t1 TColon then
                match vp_tiers tiers f tiers toks1 with
                | Done (t2 :: toks2) =>
                    if token_eqb t2 TSemicolon then vp_mux_options tiers f toks2 else Done (t2 :: toks2)
                | other => other
                end
              else Fail (t1 :: toks1)
          | other => closing [TColon; c_id] other
          end
    | [] => Done toks
    end.
  Proof. reflexivity. Qed.

  Lemma vp_commas_exprs_S f toks : vp_commas_exprs tiers (S f) toks =
    match toks with
    | t :: _ =>
        if token_eqb t TCloseBrace then Done toks
        else
          match vp_tiers tiers f tiers toks with
          | Done (t1 :: toks1) =>
              if token_eqb t1 TComma then vp_commas_exprs tiers f toks1 else Done (t1 :: toks1)
          | other => other
          end
    | [] => Done toks
    end.
  Proof. reflexivity. Qed.
End Steps.

(* ====================================================================================== *)
(* 1. fuel monotonicity: a result other than Stuck stays with more fuel                   *)
(* ====================================================================================== *)
Ltac scrut H :=
  match type of H with
  | context [match ?l with [] => _ | _ :: _ => _ end] => is_var l; destruct l
  | context [if ?b then _ else _] => let E := fresh "Eb" in destruct b eqn:E
  | context [match op_of_token ?o ?t with _ => _ end] => let E := fresh "Eo" in destruct (op_of_token o t) eqn:E
  | context [match unop_of_token ?t with _ => _ end] => let E := fresh "Eu" in destruct (unop_of_token t) eqn:E
  end.

Section Mono.
  Variable tiers : list tier.

  Definition mono_at (f : nat) : Prop :=
    forall f', (f <= f')%nat ->
    (forall ts toks, vp_tiers tiers f ts toks <> Stuck -> vp_tiers tiers f' ts toks = vp_tiers tiers f ts toks) /\
    (forall rest ops toks, vp_left_loop tiers f rest ops toks <> Stuck ->
                           vp_left_loop tiers f' rest ops toks = vp_left_loop tiers f rest ops toks) /\
    (forall toks, vp_term tiers f toks <> Stuck -> vp_term tiers f' toks = vp_term tiers f toks) /\
    (forall toks, vp_simple tiers f toks <> Stuck -> vp_simple tiers f' toks = vp_simple tiers f toks) /\
    (forall toks, vp_mux_options tiers f toks <> Stuck -> vp_mux_options tiers f' toks = vp_mux_options tiers f toks) /\
    (forall toks, vp_commas_exprs tiers f toks <> Stuck -> vp_commas_exprs tiers f' toks = vp_commas_exprs tiers f toks).

  Ltac mono_call IH1 IH2 IH3 IH4 IH5 IH6 f H :=
    match type of H with
    | context [vp_tiers tiers f ?a ?b] =>
        let E := fresh "E" in
        destruct (vp_tiers tiers f a b) eqn:E;
        [rewrite (IH1 a b) by (rewrite E; discriminate); rewrite E ..|exfalso; apply H; reflexivity]
    | context [vp_left_loop tiers f ?a ?b ?c] =>
        let E := fresh "E" in
        destruct (vp_left_loop tiers f a b c) eqn:E;
        [rewrite (IH2 a b c) by (rewrite E; discriminate); rewrite E ..|exfalso; apply H; reflexivity]
    | context [vp_term tiers f ?a] =>
        let E := fresh "E" in
        destruct (vp_term tiers f a) eqn:E;
        [rewrite (IH3 a) by (rewrite E; discriminate); rewrite E ..|exfalso; apply H; reflexivity]
    | context [vp_simple tiers f ?a] =>
        let E := fresh "E" in
        destruct (vp_simple tiers f a) eqn:E;
        [rewrite (IH4 a) by (rewrite E; discriminate); rewrite E ..|exfalso; apply H; reflexivity]
    | context [vp_mux_options tiers f ?a] =>
        let E := fresh "E" in
        destruct (vp_mux_options tiers f a) eqn:E;
        [rewrite (IH5 a) by (rewrite E; discriminate); rewrite E ..|exfalso; apply H; reflexivity]
    | context [vp_commas_exprs tiers f ?a] =>
        let E := fresh "E" in
        destruct (vp_commas_exprs tiers f a) eqn:E;
        [rewrite (IH6 a) by (rewrite E; discriminate); rewrite E ..|exfalso; apply H; reflexivity]
    end.

  Ltac mono_go IH1 IH2 IH3 IH4 IH5 IH6 f H :=
    unfold expect, closing in *;
    repeat first [reflexivity | mono_call IH1 IH2 IH3 IH4 IH5 IH6 f H | scrut H | (exfalso; apply H; reflexivity)].

  Lemma mono_all : forall f, mono_at f.
  Proof.
    induction f as [|f IH]; intros f' Hle.
    - repeat split; intros; exfalso; apply H; reflexivity.
    - destruct f' as [|f']; [lia|]. destruct (IH f' ltac:(lia)) as (IH1 & IH2 & IH3 & IH4 & IH5 & IH6).
      repeat split.
      + intros ts toks H. rewrite !vp_tiers_S in *.
        destruct ts as [|[[| | |] ops] rest]; mono_go IH1 IH2 IH3 IH4 IH5 IH6 f H.
      + intros rest ops toks H. rewrite !vp_left_loop_S in *. mono_go IH1 IH2 IH3 IH4 IH5 IH6 f H.
      + intros toks H. rewrite !vp_term_S in *. mono_go IH1 IH2 IH3 IH4 IH5 IH6 f H.
      + intros toks H. rewrite !vp_simple_S in *. destruct toks as [|[] toks1]; mono_go IH1 IH2 IH3 IH4 IH5 IH6 f H.
      + intros toks H. rewrite !vp_mux_options_S in *. mono_go IH1 IH2 IH3 IH4 IH5 IH6 f H.
      + intros toks H. rewrite !vp_commas_exprs_S in *. mono_go IH1 IH2 IH3 IH4 IH5 IH6 f H.
  Qed.
End Mono.

(* ====================================================================================== *)
(* 2. stability: where and how a function stops depends only on the tokens before the     *)
(*    remaining ones and on the first of these                                            *)
(* ====================================================================================== *)
Ltac napp := repeat first [rewrite <- app_assoc | progress (cbn [app])].

Definition same_head (a b : list token) : Prop :=
  match a, b with x :: _, y :: _ => x = y | _, _ => False end.
Lemma same_head_app w a b : same_head a b -> same_head (w ++ a) (w ++ b).
Proof. intros H. destruct w; [exact H|reflexivity]. Qed.
Lemma same_head_inv t r b : same_head (t :: r) b -> exists r', b = t :: r'.
Proof. destruct b as [|y r']; [intros []|]. cbn. intros <-. exists r'. reflexivity. Qed.
Lemma same_head_cons t r r' : same_head (t :: r) (t :: r').
Proof. reflexivity. Qed.
Lemma same_head_nil_l b : same_head [] b -> False.
Proof. destruct b; exact (fun H => H). Qed.

(* the remaining tokens of a result that stopped at a token *)
Definition stops (r : vres) : option (list token) :=
  match r with Done rest | Fail rest => Some rest | _ => None end.
Definition retag (r : vres) (rest' : list token) : vres :=
  match r with Done _ => Done rest' | Fail _ => Fail rest' | other => other end.

Definition VStab (P : list token -> vres) : Prop :=
  forall toks r rest, P toks = r -> stops r = Some rest ->
    exists w, toks = w ++ rest /\ forall rest', same_head rest rest' -> P (w ++ rest') = retag r rest'.
Definition is_done (r : vres) : Prop := match r with Done _ => True | _ => False end.
Definition VStab1 (P : list token -> vres) : Prop :=
  forall toks r rest, P toks = r -> stops r = Some rest ->
    exists w, toks = w ++ rest /\ (is_done r -> w <> []) /\
      forall rest', same_head rest rest' -> P (w ++ rest') = retag r rest'.

Lemma VStab1_VStab P : VStab1 P -> VStab P.
Proof. intros H toks r rest E Hs. destruct (H toks r rest E Hs) as (w & Hw & _ & St). exists w. split; assumption. Qed.

Ltac sh_inv H :=
  let r' := fresh "r'" in
  match type of H with
  | same_head (?t :: ?r) ?b => destruct (same_head_inv t r b H) as (r' & ->)
  | same_head [] ?b => destruct (same_head_nil_l b H)
  end.

(* the first token of the input is still the first when the remaining tokens are replaced *)
Lemma head_keep t toks1 w x rest' : t :: toks1 = w ++ x -> same_head x rest' -> exists tl, w ++ rest' = t :: tl.
Proof.
  intros Hw Hh. destruct w as [|y w'].
  - cbn [app] in Hw. subst x. sh_inv Hh. exists r'. reflexivity.
  - cbn [app] in Hw. injection Hw as <- _. exists (w' ++ rest'). reflexivity.
Qed.

Lemma vp_slice_stab : VStab vp_slice.
Proof.
  intros toks r rest H Hs. unfold vp_slice in H.
  destruct toks as [|t2 r2]; [subst r; discriminate Hs|].
  destruct (is_lit t2) eqn:E2.
  2:{ subst r. injection Hs as <-. exists []. split; [reflexivity|]. intros rest' Hh. sh_inv Hh.
      cbn [app vp_slice retag]. rewrite E2. reflexivity. }
  destruct r2 as [|t3 r3]; [subst r; discriminate Hs|].
  destruct (token_eqb t3 TDotDot) eqn:E3.
  2:{ subst r. injection Hs as <-. exists [t2]. split; [reflexivity|]. intros rest' Hh. sh_inv Hh.
      cbn [app vp_slice retag]. rewrite E2, E3. reflexivity. }
  destruct r3 as [|t4 r4]; [subst r; discriminate Hs|].
  destruct (is_lit t4) eqn:E4.
  2:{ subst r. injection Hs as <-. exists [t2; t3]. split; [reflexivity|]. intros rest' Hh. sh_inv Hh.
      cbn [app vp_slice retag]. rewrite E2, E3, E4. reflexivity. }
  destruct r4 as [|t5 r5]; [subst r; discriminate Hs|].
  destruct (token_eqb t5 TCloseBracket) eqn:E5; subst r; injection Hs as <-.
  - exists [t2; t3; t4; t5]. split; [reflexivity|]. intros rest' Hh.
    cbn [app vp_slice retag]. rewrite E2, E3, E4, E5. reflexivity.
  - exists [t2; t3; t4]. split; [reflexivity|]. intros rest' Hh. sh_inv Hh.
    cbn [app vp_slice retag]. rewrite E2, E3, E4, E5. reflexivity.
Qed.

Lemma ne_app_l {A} (w1 w2 : list A) : w1 <> [] -> w1 ++ w2 <> [].
Proof. destruct w1; [congruence|discriminate]. Qed.

Section StabExpr.
  Variable tiers : list tier.

  Definition stab_at (f : nat) : Prop :=
    (forall ts, VStab1 (vp_tiers tiers f ts)) /\
    (forall rest ops, VStab (vp_left_loop tiers f rest ops)) /\
    VStab1 (vp_term tiers f) /\
    VStab1 (vp_simple tiers f) /\
    VStab (vp_mux_options tiers f) /\
    VStab (vp_commas_exprs tiers f).

  (* a result that is passed on: it stops where r stops *)
  Ltac passed r Hs := subst r; first [discriminate Hs | injection Hs as <-].
  Ltac nedone := first [intros _; discriminate | intros []| intros _; apply ne_app_l; auto; discriminate].

  Lemma stab_all : forall f, stab_at f.
  Proof.
    induction f as [|f IH].
    - unfold stab_at, VStab, VStab1. repeat split; intros; subst r; discriminate.
    - destruct IH as (IH1 & IH2 & IH3 & IH4 & IH5 & IH6).
      unfold stab_at. repeat split.
      + (* vp_tiers *)
        intros ts toks r rest0 H Hs. rewrite vp_tiers_S in H.
        destruct ts as [|[[| | |] ops] rest].
        * destruct (IH3 _ _ _ H Hs) as (w & Hw & Hne & St). exists w. split; [exact Hw|]. split; [exact Hne|].
          intros rest' Hh. rewrite vp_tiers_S. apply St. exact Hh.
        * (* KLeft *)
          destruct (vp_tiers tiers f rest toks) as [toks1|x|c|] eqn:E1.
          -- destruct (IH1 _ _ _ _ E1 eq_refl) as (w1 & Hw1 & Hne1 & St1).
             destruct (IH2 _ _ _ _ _ H Hs) as (w2 & Hw2 & St2).
             exists (w1 ++ w2). split; [rewrite Hw1, Hw2; napp; reflexivity|].
             split; [intros _; apply ne_app_l; apply Hne1; exact I|].
             intros rest' Hh. rewrite vp_tiers_S. napp.
             rewrite (St1 (w2 ++ rest')) by (rewrite Hw2; apply same_head_app; exact Hh).
             cbn [retag]. apply St2. exact Hh.
          -- passed r Hs. destruct (IH1 _ _ _ _ E1 eq_refl) as (w1 & Hw1 & Hne1 & St1).
             exists w1. split; [exact Hw1|]. split; [intros []|].
             intros rest' Hh. rewrite vp_tiers_S. rewrite (St1 rest' Hh). reflexivity.
          -- passed r Hs.
          -- passed r Hs.
        * (* KNonAssoc *)
          destruct (vp_tiers tiers f rest toks) as [toks1|x|c|] eqn:E1.
          -- destruct (IH1 _ _ _ _ E1 eq_refl) as (w1 & Hw1 & Hne1 & St1). specialize (Hne1 I).
             destruct toks1 as [|t toks1].
             { passed r Hs. exists w1. split; [exact Hw1|]. split; [intros _; exact Hne1|]. intros rest' Hh. sh_inv Hh. }
             destruct (op_of_token ops t) eqn:Eop.
             ++ destruct (IH1 _ _ _ _ H Hs) as (w2 & Hw2 & Hne2 & St2).
                exists (w1 ++ t :: w2). split; [rewrite Hw1, Hw2; napp; reflexivity|].
                split; [intros _; apply ne_app_l; exact Hne1|].
                intros rest' Hh. rewrite vp_tiers_S. napp.
                rewrite (St1 (t :: w2 ++ rest') (same_head_cons _ _ _)). cbn [retag]. rewrite Eop.
                apply St2. exact Hh.
             ++ passed r Hs. exists w1. split; [exact Hw1|]. split; [intros _; exact Hne1|].
                intros rest' Hh. sh_inv Hh. rewrite vp_tiers_S.
                rewrite (St1 (t :: r') (same_head_cons _ _ _)). cbn [retag]. rewrite Eop. reflexivity.
          -- passed r Hs. destruct (IH1 _ _ _ _ E1 eq_refl) as (w1 & Hw1 & Hne1 & St1).
             exists w1. split; [exact Hw1|]. split; [intros []|].
             intros rest' Hh. rewrite vp_tiers_S. rewrite (St1 rest' Hh). reflexivity.
          -- passed r Hs.
          -- passed r Hs.
        * (* KIn *)
          destruct (vp_tiers tiers f rest toks) as [toks1|x|c|] eqn:E1.
          -- destruct (IH1 _ _ _ _ E1 eq_refl) as (w1 & Hw1 & Hne1 & St1). specialize (Hne1 I).
             destruct toks1 as [|t toks1].
             { passed r Hs. exists w1. split; [exact Hw1|]. split; [intros _; exact Hne1|]. intros rest' Hh. sh_inv Hh. }
             destruct (token_eqb t TIn) eqn:Et.
             2:{ passed r Hs. exists w1. split; [exact Hw1|]. split; [intros _; exact Hne1|].
                 intros rest' Hh. sh_inv Hh. rewrite vp_tiers_S.
                 rewrite (St1 (t :: r') (same_head_cons _ _ _)). cbn [retag]. rewrite Et. reflexivity. }
             destruct toks1 as [|t2 toks2]; [passed r Hs|].
             destruct (token_eqb t2 TOpenBrace) eqn:Et2.
             2:{ passed r Hs. exists (w1 ++ [t]). split; [rewrite Hw1; napp; reflexivity|].
                 split; [intros []|].
                 intros rest' Hh. sh_inv Hh. rewrite vp_tiers_S. napp.
                 rewrite (St1 (t :: t2 :: r') (same_head_cons _ _ _)). cbn [retag]. rewrite Et, Et2. reflexivity. }
             unfold expect, closing in H.
             destruct (vp_commas_exprs tiers f toks2) as [toks3|x|c|] eqn:E2.
             ++ destruct (IH6 _ _ _ E2 eq_refl) as (w2 & Hw2 & St2).
                destruct toks3 as [|t3 toks3]; [passed r Hs|].
                destruct (token_eqb t3 TCloseBrace) eqn:Ec; passed r Hs.
                ** exists (w1 ++ t :: t2 :: w2 ++ [t3]). split; [rewrite Hw1, Hw2; napp; reflexivity|].
                   split; [intros _; apply ne_app_l; exact Hne1|].
                   intros rest' Hh. rewrite vp_tiers_S. napp.
                   rewrite (St1 (t :: t2 :: w2 ++ t3 :: rest') (same_head_cons _ _ _)). cbn [retag]. rewrite Et, Et2.
                   rewrite (St2 (t3 :: rest') (same_head_cons _ _ _)). cbn [retag expect]. rewrite Ec. reflexivity.
                ** exists (w1 ++ t :: t2 :: w2). split; [rewrite Hw1, Hw2; napp; reflexivity|].
                   split; [intros []|].
                   intros rest' Hh. sh_inv Hh. rewrite vp_tiers_S. napp.
                   rewrite (St1 (t :: t2 :: w2 ++ t3 :: r') (same_head_cons _ _ _)). cbn [retag]. rewrite Et, Et2.
                   rewrite (St2 (t3 :: r') (same_head_cons _ _ _)). cbn [retag expect]. rewrite Ec. reflexivity.
             ++ passed r Hs. destruct (IH6 _ _ _ E2 eq_refl) as (w2 & Hw2 & St2).
                exists (w1 ++ t :: t2 :: w2). split; [rewrite Hw1, Hw2; napp; reflexivity|].
                split; [intros []|].
                intros rest' Hh. rewrite vp_tiers_S. napp.
                rewrite (St1 (t :: t2 :: w2 ++ rest') (same_head_cons _ _ _)). cbn [retag]. rewrite Et, Et2.
                rewrite (St2 rest' Hh). reflexivity.
             ++ passed r Hs.
             ++ passed r Hs.
          -- passed r Hs. destruct (IH1 _ _ _ _ E1 eq_refl) as (w1 & Hw1 & Hne1 & St1).
             exists w1. split; [exact Hw1|]. split; [intros []|].
             intros rest' Hh. rewrite vp_tiers_S. rewrite (St1 rest' Hh). reflexivity.
          -- passed r Hs.
          -- passed r Hs.
        * passed r Hs.
      + (* vp_left_loop *)
        intros rest ops toks r rest0 H Hs. rewrite vp_left_loop_S in H.
        destruct toks as [|t toks1].
        { passed r Hs. exists []. split; [reflexivity|]. intros rest' Hh. sh_inv Hh. }
        destruct (op_of_token ops t) eqn:Eop.
        * destruct (vp_tiers tiers f rest toks1) as [toks2|x|c|] eqn:E2.
          -- destruct (IH1 _ _ _ _ E2 eq_refl) as (w2 & Hw2 & Hne2 & St2).
             destruct (IH2 _ _ _ _ _ H Hs) as (w3 & Hw3 & St3).
             exists (t :: w2 ++ w3). split; [rewrite Hw2, Hw3; napp; reflexivity|].
             intros rest' Hh. rewrite vp_left_loop_S. napp. rewrite Eop.
             rewrite (St2 (w3 ++ rest')) by (rewrite Hw3; apply same_head_app; exact Hh).
             cbn [retag]. apply St3. exact Hh.
          -- passed r Hs. destruct (IH1 _ _ _ _ E2 eq_refl) as (w2 & Hw2 & Hne2 & St2).
             exists (t :: w2). split; [rewrite Hw2; reflexivity|].
             intros rest' Hh. rewrite vp_left_loop_S. cbn [app]. rewrite Eop. rewrite (St2 rest' Hh). reflexivity.
          -- passed r Hs.
          -- passed r Hs.
        * passed r Hs. exists []. split; [reflexivity|]. intros rest' Hh. sh_inv Hh.
          rewrite vp_left_loop_S. cbn [app]. rewrite Eop. reflexivity.
      + (* vp_term *)
        intros toks r rest0 H Hs. rewrite vp_term_S in H.
        destruct toks as [|t toks1]; [passed r Hs|].
        destruct (unop_of_token t) eqn:Eu.
        * destruct (IH4 _ _ _ H Hs) as (w1 & Hw1 & Hne1 & St1).
          exists (t :: w1). split; [rewrite Hw1; reflexivity|]. split; [intros _; discriminate|].
          intros rest' Hh. rewrite vp_term_S. cbn [app]. rewrite Eu. apply St1. exact Hh.
        * destruct (vp_simple tiers f (t :: toks1)) as [toks2|x|c|] eqn:E1.
          -- destruct (IH4 _ _ _ E1 eq_refl) as (w1 & Hw1 & Hne1 & St1). specialize (Hne1 I).
             destruct toks2 as [|t1 r1].
             { passed r Hs. exists w1. split; [exact Hw1|]. split; [intros _; exact Hne1|]. intros rest' Hh. sh_inv Hh. }
             destruct (token_eqb t1 TOpenBracket) eqn:Eb.
             ++ destruct (vp_slice_stab _ _ _ H Hs) as (w2 & Hw2 & St2).
                exists (w1 ++ t1 :: w2). split; [rewrite Hw1, Hw2; napp; reflexivity|].
                split; [intros _; apply ne_app_l; exact Hne1|].
                intros rest' Hh.
                destruct (head_keep t toks1 w1 (t1 :: r1) (t1 :: w2 ++ rest') Hw1 (same_head_cons _ _ _)) as (tl & Htl).
                rewrite vp_term_S. napp. rewrite Htl, Eu, <- Htl.
                rewrite (St1 (t1 :: w2 ++ rest') (same_head_cons _ _ _)). cbn [retag]. rewrite Eb.
                apply St2. exact Hh.
             ++ passed r Hs. exists w1. split; [exact Hw1|]. split; [intros _; exact Hne1|].
                intros rest' Hh. destruct (head_keep t toks1 w1 _ rest' Hw1 Hh) as (tl & Htl). sh_inv Hh.
                rewrite vp_term_S. rewrite Htl, Eu, <- Htl.
                rewrite (St1 (t1 :: r') (same_head_cons _ _ _)). cbn [retag]. rewrite Eb. reflexivity.
          -- passed r Hs. destruct (IH4 _ _ _ E1 eq_refl) as (w1 & Hw1 & Hne1 & St1).
             exists w1. split; [exact Hw1|]. split; [intros []|].
             intros rest' Hh. destruct (head_keep t toks1 w1 _ rest' Hw1 Hh) as (tl & Htl).
             rewrite vp_term_S. rewrite Htl, Eu, <- Htl. rewrite (St1 rest' Hh). reflexivity.
          -- passed r Hs.
          -- passed r Hs.
      + (* vp_simple *)
        intros toks r rest0 H Hs. rewrite vp_simple_S in H.
        destruct toks as [|t toks1]; [passed r Hs|].
        assert (Hfail : forall (Hr : r = Fail (t :: toks1)),
                  (forall r', vp_simple tiers (S f) (t :: r') = Fail (t :: r')) ->
                  exists w, t :: toks1 = w ++ rest0 /\ (is_done r -> w <> []) /\
                    forall rest', same_head rest0 rest' -> vp_simple tiers (S f) (w ++ rest') = retag r rest').
        { intros -> Hall. injection Hs as <-. exists []. split; [reflexivity|]. split; [intros []|].
          intros rest' Hh. sh_inv Hh. cbn [app retag]. apply Hall. }
        assert (Hdone : forall (Hr : r = Done toks1),
                  (forall r', vp_simple tiers (S f) (t :: r') = Done r') ->
                  exists w, t :: toks1 = w ++ rest0 /\ (is_done r -> w <> []) /\
                    forall rest', same_head rest0 rest' -> vp_simple tiers (S f) (w ++ rest') = retag r rest').
        { intros -> Hall. injection Hs as <-. exists [t]. split; [reflexivity|]. split; [intros _; discriminate|].
          intros rest' Hh. cbn [app retag]. apply Hall. }
        destruct t; try (apply Hfail; [symmetry; exact H|intros; rewrite vp_simple_S; reflexivity]);
          try (apply Hdone; [symmetry; exact H|intros; rewrite vp_simple_S; reflexivity]); clear Hfail Hdone.
        * (* ( *)
          destruct (vp_tiers tiers f tiers toks1) as [toks2|x|c|] eqn:E1.
          -- destruct (IH1 _ _ _ _ E1 eq_refl) as (w1 & Hw1 & Hne1 & St1).
             destruct toks2 as [|t2 toks2]; [passed r Hs|].
             destruct (token_eqb t2 TCloseParen) eqn:Ec.
             { passed r Hs. exists (TOpenParen :: w1 ++ [t2]). split; [rewrite Hw1; napp; reflexivity|].
               split; [intros _; discriminate|].
               intros rest' Hh. rewrite vp_simple_S. napp.
               rewrite (St1 (t2 :: rest') (same_head_cons _ _ _)). cbn [retag]. rewrite Ec. reflexivity. }
             destruct (token_eqb t2 TDotDot) eqn:Ed.
             2:{ passed r Hs. exists (TOpenParen :: w1). split; [rewrite Hw1; reflexivity|]. split; [intros []|].
                 intros rest' Hh. sh_inv Hh. rewrite vp_simple_S. cbn [app].
                 rewrite (St1 (t2 :: r') (same_head_cons _ _ _)). cbn [retag]. rewrite Ec, Ed. reflexivity. }
             unfold expect, closing in H.
             destruct (vp_tiers tiers f tiers toks2) as [toks3|x|c|] eqn:E2.
             ++ destruct (IH1 _ _ _ _ E2 eq_refl) as (w2 & Hw2 & Hne2 & St2).
                destruct toks3 as [|t3 toks3]; [passed r Hs|].
                destruct (token_eqb t3 TCloseParen) eqn:Ec3; passed r Hs.
                ** exists (TOpenParen :: w1 ++ t2 :: w2 ++ [t3]). split; [rewrite Hw1, Hw2; napp; reflexivity|].
                   split; [intros _; discriminate|].
                   intros rest' Hh. rewrite vp_simple_S. napp.
                   rewrite (St1 (t2 :: w2 ++ t3 :: rest') (same_head_cons _ _ _)). cbn [retag]. rewrite Ec, Ed.
                   rewrite (St2 (t3 :: rest') (same_head_cons _ _ _)). cbn [retag expect]. rewrite Ec3. reflexivity.
                ** exists (TOpenParen :: w1 ++ t2 :: w2). split; [rewrite Hw1, Hw2; napp; reflexivity|].
                   split; [intros []|].
                   intros rest' Hh. sh_inv Hh. rewrite vp_simple_S. napp.
                   rewrite (St1 (t2 :: w2 ++ t3 :: r') (same_head_cons _ _ _)). cbn [retag]. rewrite Ec, Ed.
                   rewrite (St2 (t3 :: r') (same_head_cons _ _ _)). cbn [retag expect]. rewrite Ec3. reflexivity.
             ++ passed r Hs. destruct (IH1 _ _ _ _ E2 eq_refl) as (w2 & Hw2 & Hne2 & St2).
                exists (TOpenParen :: w1 ++ t2 :: w2). split; [rewrite Hw1, Hw2; napp; reflexivity|].
                split; [intros []|].
                intros rest' Hh. rewrite vp_simple_S. napp.
                rewrite (St1 (t2 :: w2 ++ rest') (same_head_cons _ _ _)). cbn [retag]. rewrite Ec, Ed.
                rewrite (St2 rest' Hh). reflexivity.
             ++ passed r Hs.
             ++ passed r Hs.
          -- unfold closing in H. passed r Hs. destruct (IH1 _ _ _ _ E1 eq_refl) as (w1 & Hw1 & Hne1 & St1).
             exists (TOpenParen :: w1). split; [rewrite Hw1; reflexivity|]. split; [intros []|].
             intros rest' Hh. rewrite vp_simple_S. cbn [app]. rewrite (St1 rest' Hh). reflexivity.
          -- unfold closing in H. passed r Hs.
          -- unfold closing in H. passed r Hs.
        * (* [ *)
          unfold expect, closing in H.
          destruct (vp_mux_options tiers f toks1) as [toks2|x|c|] eqn:E1.
          -- destruct (IH5 _ _ _ E1 eq_refl) as (w1 & Hw1 & St1).
             destruct toks2 as [|t2 toks2]; [passed r Hs|].
             destruct (token_eqb t2 TCloseBracket) eqn:Ec; passed r Hs.
             ++ exists (TOpenBracket :: w1 ++ [t2]). split; [rewrite Hw1; napp; reflexivity|].
                split; [intros _; discriminate|].
                intros rest' Hh. rewrite vp_simple_S. napp.
                rewrite (St1 (t2 :: rest') (same_head_cons _ _ _)). cbn [retag expect]. rewrite Ec. reflexivity.
             ++ exists (TOpenBracket :: w1). split; [rewrite Hw1; reflexivity|]. split; [intros []|].
                intros rest' Hh. sh_inv Hh. rewrite vp_simple_S. cbn [app].
                rewrite (St1 (t2 :: r') (same_head_cons _ _ _)). cbn [retag expect]. rewrite Ec. reflexivity.
          -- passed r Hs. destruct (IH5 _ _ _ E1 eq_refl) as (w1 & Hw1 & St1).
             exists (TOpenBracket :: w1). split; [rewrite Hw1; reflexivity|]. split; [intros []|].
             intros rest' Hh. rewrite vp_simple_S. cbn [app]. rewrite (St1 rest' Hh). reflexivity.
          -- passed r Hs.
          -- passed r Hs.
      + (* vp_mux_options *)
        intros toks r rest0 H Hs. rewrite vp_mux_options_S in H.
        destruct toks as [|t toks1].
        { passed r Hs. exists []. split; [reflexivity|]. intros rest' Hh. sh_inv Hh. }
        destruct (token_eqb t TCloseBracket) eqn:Ecb.
        { passed r Hs. exists []. split; [reflexivity|]. intros rest' Hh. sh_inv Hh.
          rewrite vp_mux_options_S. cbn [app retag]. rewrite Ecb. reflexivity. }
        unfold closing in H.
        destruct (vp_tiers tiers f tiers (t :: toks1)) as [toks2|x|c|] eqn:E1.
        * destruct (IH1 _ _ _ _ E1 eq_refl) as (w1 & Hw1 & Hne1 & St1).
          destruct toks2 as [|t1 toks2]; [passed r Hs|].
          assert (Hstart : forall tail, vp_mux_options tiers (S f) (w1 ++ t1 :: tail) =
                    if token_eqb t1 TColon then
                      match vp_tiers tiers f tiers tail with
                      | Done (t2 :: toks2) =>
                          if token_eqb t2 TSemicolon then vp_mux_options tiers f toks2 else Done (t2 :: toks2)
                      | other => other
                      end
                    else Fail (t1 :: tail)).
          { intros tail. destruct (head_keep t toks1 w1 _ (t1 :: tail) Hw1 (same_head_cons _ _ _)) as (tl & Htl).
            rewrite vp_mux_options_S, Htl, Ecb, <- Htl.
            rewrite (St1 (t1 :: tail) (same_head_cons _ _ _)). reflexivity. }
          destruct (token_eqb t1 TColon) eqn:Ecol.
          2:{ passed r Hs. exists w1. split; [exact Hw1|]. intros rest' Hh. sh_inv Hh. rewrite Hstart. reflexivity. }
          destruct (vp_tiers tiers f tiers toks2) as [toks3|x|c|] eqn:E2.
          -- destruct (IH1 _ _ _ _ E2 eq_refl) as (w2 & Hw2 & Hne2 & St2).
             destruct toks3 as [|t2 toks3].
             { passed r Hs. exists (w1 ++ t1 :: w2). split; [rewrite Hw1, Hw2; napp; reflexivity|].
               intros rest' Hh. sh_inv Hh. }
             destruct (token_eqb t2 TSemicolon) eqn:Esc.
             ++ destruct (IH5 _ _ _ H Hs) as (w3 & Hw3 & St3).
                exists (w1 ++ t1 :: w2 ++ t2 :: w3). split; [rewrite Hw1, Hw2, Hw3; napp; reflexivity|].
                intros rest' Hh. napp. rewrite Hstart.
                rewrite (St2 (t2 :: w3 ++ rest') (same_head_cons _ _ _)). cbn [retag]. rewrite Esc.
                apply St3. exact Hh.
             ++ passed r Hs. exists (w1 ++ t1 :: w2). split; [rewrite Hw1, Hw2; napp; reflexivity|].
                intros rest' Hh. sh_inv Hh. napp. rewrite Hstart.
                rewrite (St2 (t2 :: r') (same_head_cons _ _ _)). cbn [retag]. rewrite Esc. reflexivity.
          -- passed r Hs. destruct (IH1 _ _ _ _ E2 eq_refl) as (w2 & Hw2 & Hne2 & St2).
             exists (w1 ++ t1 :: w2). split; [rewrite Hw1, Hw2; napp; reflexivity|].
             intros rest' Hh. napp. rewrite Hstart. rewrite (St2 rest' Hh). reflexivity.
          -- passed r Hs.
          -- passed r Hs.
        * passed r Hs. destruct (IH1 _ _ _ _ E1 eq_refl) as (w1 & Hw1 & Hne1 & St1).
          exists w1. split; [exact Hw1|].
          intros rest' Hh. destruct (head_keep t toks1 w1 _ rest' Hw1 Hh) as (tl & Htl).
          rewrite vp_mux_options_S, Htl, Ecb, <- Htl. rewrite (St1 rest' Hh). reflexivity.
        * passed r Hs.
        * passed r Hs.
      + (* vp_commas_exprs *)
        intros toks r rest0 H Hs. rewrite vp_commas_exprs_S in H.
        destruct toks as [|t toks1].
        { passed r Hs. exists []. split; [reflexivity|]. intros rest' Hh. sh_inv Hh. }
        destruct (token_eqb t TCloseBrace) eqn:Ecb.
        { passed r Hs. exists []. split; [reflexivity|]. intros rest' Hh. sh_inv Hh.
          rewrite vp_commas_exprs_S. cbn [app retag]. rewrite Ecb. reflexivity. }
        destruct (vp_tiers tiers f tiers (t :: toks1)) as [toks2|x|c|] eqn:E1.
        * destruct (IH1 _ _ _ _ E1 eq_refl) as (w1 & Hw1 & Hne1 & St1).
          destruct toks2 as [|t1 toks2].
          { passed r Hs. exists w1. split; [exact Hw1|]. intros rest' Hh. sh_inv Hh. }
          assert (Hstart : forall tail, vp_commas_exprs tiers (S f) (w1 ++ t1 :: tail) =
                    if token_eqb t1 TComma then vp_commas_exprs tiers f tail else Done (t1 :: tail)).
          { intros tail. destruct (head_keep t toks1 w1 _ (t1 :: tail) Hw1 (same_head_cons _ _ _)) as (tl & Htl).
            rewrite vp_commas_exprs_S, Htl, Ecb, <- Htl.
            rewrite (St1 (t1 :: tail) (same_head_cons _ _ _)). reflexivity. }
          destruct (token_eqb t1 TComma) eqn:Ecm.
          -- destruct (IH6 _ _ _ H Hs) as (w2 & Hw2 & St2).
             exists (w1 ++ t1 :: w2). split; [rewrite Hw1, Hw2; napp; reflexivity|].
             intros rest' Hh. napp. rewrite Hstart. apply St2. exact Hh.
          -- passed r Hs. exists w1. split; [exact Hw1|].
             intros rest' Hh. sh_inv Hh. rewrite Hstart. reflexivity.
        * passed r Hs. destruct (IH1 _ _ _ _ E1 eq_refl) as (w1 & Hw1 & Hne1 & St1).
          exists w1. split; [exact Hw1|].
          intros rest' Hh. destruct (head_keep t toks1 w1 _ rest' Hw1 Hh) as (tl & Htl).
          rewrite vp_commas_exprs_S, Htl, Ecb, <- Htl. rewrite (St1 rest' Hh). reflexivity.
        * passed r Hs.
        * passed r Hs.
  Qed.

  Lemma vp_expr_stab f : VStab1 (vp_expr tiers f).
  Proof. exact (proj1 (stab_all f) tiers). Qed.
  Lemma vp_simple_stab f : VStab1 (vp_simple tiers f).
  Proof. exact (proj1 (proj2 (proj2 (proj2 (stab_all f))))). Qed.
  Lemma vp_mux_options_stab f : VStab (vp_mux_options tiers f).
  Proof. exact (proj1 (proj2 (proj2 (proj2 (proj2 (stab_all f)))))). Qed.
End StabExpr.

(* ---- declarations and statements ---- *)
Section StabDecl.
  Variable tiers : list tier.

  Ltac passed r Hs := subst r; first [discriminate Hs | injection Hs as <-].

  (* a result that stops before [rest0], all of whose decisions are in the tokens [w] before it and -
     if [peek] - the first of the remaining tokens *)
  Ltac here w := exists w; split; [reflexivity|]; intros rest' Hh; try sh_inv Hh; cbn [app retag].

  Lemma vp_width_value_stab f : VStab (vp_width_value tiers f).
  Proof.
    intros toks r rest0 H Hs. unfold vp_width_value in H.
    destruct toks as [|t3 rest3]; [passed r Hs|].
    destruct (is_lit t3) eqn:E3.
    2:{ passed r Hs. here (@nil token). unfold vp_width_value. rewrite E3. reflexivity. }
    destruct rest3 as [|t4 rest4]; [passed r Hs|].
    destruct (token_eqb t4 TAssign) eqn:E4.
    2:{ passed r Hs. here [t3]. unfold vp_width_value. rewrite E3, E4. reflexivity. }
    destruct (vp_expr_stab tiers f _ _ _ H Hs) as (w & Hw & _ & St).
    exists (t3 :: t4 :: w). split; [rewrite Hw; reflexivity|].
    intros rest' Hh. cbn [app]. unfold vp_width_value. rewrite E3, E4. apply St. exact Hh.
  Qed.

  Lemma vp_wire_decl_stab f : VStab (vp_wire_decl tiers f).
  Proof.
    intros toks r rest0 H Hs. unfold vp_wire_decl in H.
    destruct toks as [|t1 rest1]; [passed r Hs|].
    destruct (starts_name t1) eqn:E1.
    2:{ passed r Hs. here (@nil token). unfold vp_wire_decl. rewrite E1. reflexivity. }
    destruct rest1 as [|t2 rest2].
    { passed r Hs. exists [t1]. split; [reflexivity|]. intros rest' Hh. sh_inv Hh. }
    destruct (token_eqb t2 TColon) eqn:E2.
    - destruct rest2 as [|t3 rest3]; [passed r Hs|].
      destruct (is_lit t3) eqn:E3.
      2:{ passed r Hs. here [t1; t2]. unfold vp_wire_decl. rewrite E1, E2, E3. reflexivity. }
      destruct rest3 as [|t4 rest4].
      { passed r Hs. exists [t1; t2; t3]. split; [reflexivity|]. intros rest' Hh. sh_inv Hh. }
      destruct (token_eqb t4 TAssign) eqn:E4.
      + destruct (vp_expr_stab tiers f _ _ _ H Hs) as (w & Hw & _ & St).
        exists (t1 :: t2 :: t3 :: t4 :: w). split; [rewrite Hw; reflexivity|].
        intros rest' Hh. cbn [app]. unfold vp_wire_decl. rewrite E1, E2, E3, E4. apply St. exact Hh.
      + passed r Hs. here [t1; t2; t3]. unfold vp_wire_decl. rewrite E1, E2, E3, E4. reflexivity.
    - destruct (token_eqb t2 TAssign) eqn:E2a.
      + destruct (vp_expr_stab tiers f _ _ _ H Hs) as (w & Hw & _ & St).
        exists (t1 :: t2 :: w). split; [rewrite Hw; reflexivity|].
        intros rest' Hh. cbn [app]. unfold vp_wire_decl. rewrite E1, E2, E2a. apply St. exact Hh.
      + passed r Hs. here [t1]. unfold vp_wire_decl. rewrite E1, E2, E2a. reflexivity.
  Qed.

  Lemma vp_const_decl_stab f : VStab (vp_const_decl tiers f).
  Proof.
    intros toks r rest0 H Hs. unfold vp_const_decl in H.
    destruct toks as [|t1 rest1]; [passed r Hs|].
    destruct (starts_name t1) eqn:E1.
    2:{ passed r Hs. here (@nil token). unfold vp_const_decl. rewrite E1. reflexivity. }
    destruct rest1 as [|t2 rest2]; [passed r Hs|].
    destruct (token_eqb t2 TAssign) eqn:E2.
    - destruct (vp_expr_stab tiers f _ _ _ H Hs) as (w & Hw & _ & St).
      exists (t1 :: t2 :: w). split; [rewrite Hw; reflexivity|].
      intros rest' Hh. cbn [app]. unfold vp_const_decl. rewrite E1, E2. apply St. exact Hh.
    - destruct (token_eqb t2 TColon) eqn:E2c.
      + destruct (vp_width_value_stab f _ _ _ H Hs) as (w & Hw & St).
        exists (t1 :: t2 :: w). split; [rewrite Hw; reflexivity|].
        intros rest' Hh. cbn [app]. unfold vp_const_decl. rewrite E1, E2, E2c. apply St. exact Hh.
      + passed r Hs. here [t1]. unfold vp_const_decl. rewrite E1, E2, E2c. reflexivity.
  Qed.

  Lemma vp_reg_decl_stab f : VStab (vp_reg_decl tiers f).
  Proof.
    intros toks r rest0 H Hs. unfold vp_reg_decl in H.
    destruct toks as [|t1 rest1]; [passed r Hs|].
    destruct (starts_name t1) eqn:E1.
    - destruct rest1 as [|t2 rest2]; [passed r Hs|].
      destruct (token_eqb t2 TAssign) eqn:E2.
      + destruct (vp_expr_stab tiers f _ _ _ H Hs) as (w & Hw & _ & St).
        exists (t1 :: t2 :: w). split; [rewrite Hw; reflexivity|].
        intros rest' Hh. cbn [app]. unfold vp_reg_decl. rewrite E1, E2. apply St. exact Hh.
      + destruct (token_eqb t2 TColon) eqn:E2c.
        * destruct (vp_width_value_stab f _ _ _ H Hs) as (w & Hw & St).
          exists (t1 :: t2 :: w). split; [rewrite Hw; reflexivity|].
          intros rest' Hh. cbn [app]. unfold vp_reg_decl. rewrite E1, E2, E2c. apply St. exact Hh.
        * passed r Hs. here [t1]. unfold vp_reg_decl. rewrite E1, E2, E2c. reflexivity.
    - destruct (token_eqb t1 TWire) eqn:E1w.
      2:{ passed r Hs. here (@nil token). unfold vp_reg_decl. rewrite E1, E1w. reflexivity. }
      destruct rest1 as [|t2 rest2]; [passed r Hs|].
      destruct (starts_name t2) eqn:E2.
      2:{ passed r Hs. here [t1]. unfold vp_reg_decl. rewrite E1, E1w, E2. reflexivity. }
      destruct rest2 as [|t3 rest3]; [passed r Hs|].
      destruct (token_eqb t3 TAssign) eqn:E3.
      + destruct (vp_expr_stab tiers f _ _ _ H Hs) as (w & Hw & _ & St).
        exists (t1 :: t2 :: t3 :: w). split; [rewrite Hw; reflexivity|].
        intros rest' Hh. cbn [app]. unfold vp_reg_decl. rewrite E1, E1w, E2, E3. apply St. exact Hh.
      + destruct (token_eqb t3 TColon) eqn:E3c.
        * destruct (vp_width_value_stab f _ _ _ H Hs) as (w & Hw & St).
          exists (t1 :: t2 :: t3 :: w). split; [rewrite Hw; reflexivity|].
          intros rest' Hh. cbn [app]. unfold vp_reg_decl. rewrite E1, E1w, E2, E3, E3c. apply St. exact Hh.
        * passed r Hs. here [t1; t2]. unfold vp_reg_decl. rewrite E1, E1w, E2, E3, E3c. reflexivity.
  Qed.

  Lemma vp_list_stab starts sep item :
    (forall f, VStab (item f)) -> forall f, VStab (vp_list starts sep item f).
  Proof.
    intros Hitem. induction f as [|f IH]; intros toks r rest0 H Hs; [passed r Hs|].
    cbn [vp_list] in H.
    destruct toks as [|t1 toks1].
    { passed r Hs. exists []. split; [reflexivity|]. intros rest' Hh. sh_inv Hh. }
    destruct (starts t1) eqn:E1.
    2:{ passed r Hs. here (@nil token). cbn [vp_list]. rewrite E1. reflexivity. }
    destruct (item f (t1 :: toks1)) as [rest|x|c|] eqn:Ei.
    - destruct (Hitem f _ _ _ Ei eq_refl) as (w1 & Hw1 & St1).
      destruct rest as [|t rest].
      { passed r Hs. exists w1. split; [exact Hw1|]. intros rest' Hh. sh_inv Hh. }
      assert (Hstart : forall tail, vp_list starts sep item (S f) (w1 ++ t :: tail) =
                if token_eqb t sep then vp_list starts sep item f tail else Done (t :: tail)).
      { intros tail. destruct (head_keep t1 toks1 w1 _ (t :: tail) Hw1 (same_head_cons _ _ _)) as (tl & Htl).
        cbn [vp_list]. rewrite Htl, E1, <- Htl. rewrite (St1 (t :: tail) (same_head_cons _ _ _)). reflexivity. }
      destruct (token_eqb t sep) eqn:Es.
      + destruct (IH _ _ _ H Hs) as (w2 & Hw2 & St2).
        exists (w1 ++ t :: w2). split; [rewrite Hw1, Hw2; napp; reflexivity|].
        intros rest' Hh. napp. rewrite Hstart. apply St2. exact Hh.
      + passed r Hs. exists w1. split; [exact Hw1|]. intros rest' Hh. sh_inv Hh. rewrite Hstart. reflexivity.
    - passed r Hs. destruct (Hitem f _ _ _ Ei eq_refl) as (w1 & Hw1 & St1).
      exists w1. split; [exact Hw1|]. intros rest' Hh.
      destruct (head_keep t1 toks1 w1 _ rest' Hw1 Hh) as (tl & Htl).
      cbn [vp_list]. rewrite Htl, E1, <- Htl. rewrite (St1 rest' Hh). reflexivity.
    - passed r Hs.
    - passed r Hs.
  Qed.

  (* an expression does not fail at a name *)
  Lemma single_name : forall f ts t, starts_name t = true ->
    vp_tiers tiers f ts [t] = Done [] \/ vp_tiers tiers f ts [t] = Stuck.
  Proof.
    induction f as [|f IH]; intros ts t Ht; [right; reflexivity|].
    rewrite vp_tiers_S. destruct ts as [|[[| | |] ops] rest].
    - destruct f as [|f]; [right; reflexivity|]. rewrite vp_term_S.
      destruct t; try discriminate Ht. cbn [unop_of_token].
      destruct f as [|f]; [right; reflexivity|]. rewrite vp_simple_S. left. reflexivity.
    - destruct (IH rest t Ht) as [-> | ->]; [|right; reflexivity].
      destruct f as [|f]; [right; reflexivity|]. left. reflexivity.
    - destruct (IH rest t Ht) as [-> | ->]; [left|right]; reflexivity.
    - destruct (IH rest t Ht) as [-> | ->]; [left|right]; reflexivity.
    - right. reflexivity.
  Qed.

  Lemma expr_fail_first f t l : vp_expr tiers f (t :: l) = Fail (t :: l) -> starts_name t = false.
  Proof.
    intros H. destruct (starts_name t) eqn:Ht; [exfalso|reflexivity].
    destruct (vp_expr_stab tiers f _ _ _ H eq_refl) as (w & Hw & _ & St).
    assert (w = []) as ->.
    { destruct w as [|x w]; [reflexivity|]. exfalso. apply (f_equal (@List.length token)) in Hw.
      rewrite app_length in Hw. cbn [List.length] in Hw. lia. }
    specialize (St [t] (same_head_cons _ _ _)). cbn [app retag] in St.
    unfold vp_expr in St. destruct (single_name f tiers t Ht) as [E|E]; rewrite E in St; discriminate St.
  Qed.

  Lemma vp_targets_stop t1 r' : starts_name t1 = false -> vp_targets (t1 :: r') = t1 :: r'.
  Proof. intros H. cbn [vp_targets]. destruct r' as [|t2 r']; [reflexivity|]. rewrite H. reflexivity. Qed.

  (* (ID "=")* Expr *)
  Lemma vp_targets_expr_stab f : VStab (fun toks => vp_expr tiers f (vp_targets toks)).
  Proof.
    assert (Hmain : forall n toks, (List.length toks <= n)%nat ->
              forall r rest, vp_expr tiers f (vp_targets toks) = r -> stops r = Some rest ->
                exists w, toks = w ++ rest /\
                  forall rest', same_head rest rest' -> vp_expr tiers f (vp_targets (w ++ rest')) = retag r rest').
    { induction n as [|n IH]; intros toks Hlen r rest0 H Hs.
      - destruct toks; [|cbn in Hlen; lia]. cbn [vp_targets] in H.
        destruct (vp_expr_stab tiers f _ _ _ H Hs) as (w & Hw & _ & St).
        symmetry in Hw. apply app_eq_nil in Hw. destruct Hw as [-> ->].
        exists []. split; [reflexivity|]. intros rest' Hh. sh_inv Hh.
      - assert (Hstay : vp_targets toks = toks ->
                  (forall t1 t2 l, toks = t1 :: t2 :: l -> starts_name t1 && token_eqb t2 TAssign = false) ->
                  exists w, toks = w ++ rest0 /\
                    forall rest', same_head rest0 rest' -> vp_expr tiers f (vp_targets (w ++ rest')) = retag r rest').
        { intros Hst Hcond. rewrite Hst in H.
          destruct (vp_expr_stab tiers f _ _ _ H Hs) as (w & Hw & Hne & St).
          exists w. split; [exact Hw|]. intros rest' Hh.
          assert (Hsame : vp_targets (w ++ rest') = w ++ rest'); [|rewrite Hsame; apply St; exact Hh].
          destruct w as [|x1 [|x2 w']].
          - cbn [app] in Hw |- *. subst rest0.
            destruct r as [y|y| |]; try discriminate Hs; [exfalso; apply Hne; [exact I|reflexivity]|].
            injection Hs as ->. destruct toks as [|t1 l]; [sh_inv Hh|]. sh_inv Hh.
            apply vp_targets_stop. exact (expr_fail_first f t1 l H).
          - destruct rest0 as [|t2 l]; [sh_inv Hh|]. sh_inv Hh. cbn [app] in Hw |- *.
            cbn [vp_targets]. rewrite (Hcond x1 t2 l Hw). reflexivity.
          - cbn [app] in Hw |- *. cbn [vp_targets]. rewrite (Hcond x1 x2 (w' ++ rest0) Hw). reflexivity. }
        destruct toks as [|t1 [|t2 toks1]].
        + apply Hstay; [reflexivity|]. intros ? ? ? E. discriminate E.
        + apply Hstay; [reflexivity|]. intros ? ? ? E. discriminate E.
        + destruct (starts_name t1 && token_eqb t2 TAssign) eqn:Ec.
          * clear Hstay. cbn [vp_targets] in H. rewrite Ec in H.
            destruct (IH toks1 ltac:(cbn [List.length] in Hlen; lia) r rest0 H Hs) as (w & Hw & St).
            exists (t1 :: t2 :: w). split; [rewrite Hw; reflexivity|].
            intros rest' Hh. cbn [app vp_targets]. rewrite Ec. apply St. exact Hh.
          * apply Hstay; [cbn [vp_targets]; rewrite Ec; reflexivity|].
            intros ? ? ? E. injection E as <- <- <-. exact Ec. }
    intros toks r rest0 H Hs. exact (Hmain (List.length toks) toks (Nat.le_refl _) r rest0 H Hs).
  Qed.

  Lemma vp_assignment_stab f : VStab (vp_assignment tiers f).
  Proof.
    intros toks r rest0 H Hs. unfold vp_assignment in H.
    destruct toks as [|t1 rest1]; [passed r Hs|].
    destruct (starts_name t1) eqn:E1.
    2:{ passed r Hs. here (@nil token). unfold vp_assignment. rewrite E1. reflexivity. }
    destruct rest1 as [|t2 rest2]; [passed r Hs|].
    destruct (token_eqb t2 TOpenBracket) eqn:E2.
    - destruct rest2 as [|t3 rest3]; [passed r Hs|].
      destruct (token_eqb t3 TCloseBracket) eqn:E3.
      { passed r Hs. here [t1; t2]. unfold vp_assignment. rewrite E1, E2, E3. reflexivity. }
      unfold expect, closing in H.
      destruct (vp_mux_options tiers f (t3 :: rest3)) as [toks4|x|c|] eqn:Em.
      + destruct (vp_mux_options_stab tiers f _ _ _ Em eq_refl) as (w1 & Hw1 & St1).
        assert (Hstart : forall tail, same_head toks4 tail ->
                  vp_assignment tiers f (t1 :: t2 :: w1 ++ tail) = expect TCloseBracket (Done tail)).
        { intros tail Hh. destruct (head_keep t3 rest3 w1 _ tail Hw1 Hh) as (tl & Htl).
          unfold vp_assignment. rewrite E1, E2, Htl, E3, <- Htl. rewrite (St1 tail Hh). reflexivity. }
        destruct toks4 as [|t4 toks4]; [passed r Hs|].
        destruct (token_eqb t4 TCloseBracket) eqn:E4; passed r Hs.
        * exists (t1 :: t2 :: w1 ++ [t4]). split; [rewrite Hw1; napp; reflexivity|].
          intros rest' Hh. napp. rewrite (Hstart (t4 :: rest') (same_head_cons _ _ _)).
          cbn [expect retag]. rewrite E4. reflexivity.
        * exists (t1 :: t2 :: w1). split; [rewrite Hw1; reflexivity|].
          intros rest' Hh. sh_inv Hh. cbn [app]. rewrite (Hstart (t4 :: r') (same_head_cons _ _ _)).
          cbn [expect retag]. rewrite E4. reflexivity.
      + passed r Hs. destruct (vp_mux_options_stab tiers f _ _ _ Em eq_refl) as (w1 & Hw1 & St1).
        exists (t1 :: t2 :: w1). split; [rewrite Hw1; reflexivity|].
        intros rest' Hh. destruct (head_keep t3 rest3 w1 _ rest' Hw1 Hh) as (tl & Htl). cbn [app].
        unfold vp_assignment. rewrite E1, E2, Htl, E3, <- Htl. rewrite (St1 rest' Hh). reflexivity.
      + passed r Hs.
      + passed r Hs.
    - destruct (token_eqb t2 TAssign) eqn:E2a.
      + destruct (vp_targets_expr_stab f _ _ _ H Hs) as (w & Hw & St).
        assert (Hw2 : exists w', w = t1 :: t2 :: w').
        { cbn [vp_targets] in H. rewrite E1, E2a in H. cbn [andb] in H.
          destruct (vp_targets_expr_stab f _ _ _ H Hs) as (w' & Hw' & _).
          exists w'. rewrite Hw' in Hw. change (t1 :: t2 :: w' ++ rest0) with ((t1 :: t2 :: w') ++ rest0) in Hw.
          apply app_inv_tail in Hw. symmetry. exact Hw. }
        destruct Hw2 as (w' & ->).
        exists (t1 :: t2 :: w'). split; [exact Hw|].
        intros rest' Hh. specialize (St rest' Hh). cbn [app] in St |- *.
        unfold vp_assignment. rewrite E1, E2, E2a. exact St.
      + passed r Hs. here [t1]. unfold vp_assignment. rewrite E1, E2, E2a. reflexivity.
  Qed.

  Lemma vp_assignments_stab : forall f, VStab (vp_assignments tiers f).
  Proof.
    induction f as [|f IH]; intros toks r rest0 H Hs; [passed r Hs|].
    cbn [vp_assignments] in H.
    destruct (vp_assignment tiers f toks) as [rest|x|c|] eqn:Ea.
    - destruct (vp_assignment_stab f _ _ _ Ea eq_refl) as (w1 & Hw1 & St1).
      destruct rest as [|t toks2].
      { passed r Hs. exists w1. split; [exact Hw1|]. intros rest' Hh. sh_inv Hh. }
      destruct (token_eqb t TComma) eqn:Ec.
      2:{ passed r Hs. exists w1. split; [exact Hw1|]. intros rest' Hh. sh_inv Hh.
          cbn [vp_assignments]. rewrite (St1 (t :: r') (same_head_cons _ _ _)). cbn [retag]. rewrite Ec. reflexivity. }
      destruct toks2 as [|t2 toks3].
      { passed r Hs. exists (w1 ++ [t]). split; [rewrite Hw1; napp; reflexivity|]. intros rest' Hh. sh_inv Hh. }
      destruct (starts_name t2) eqn:E2.
      + destruct (IH _ _ _ H Hs) as (w2 & Hw2 & St2).
        exists (w1 ++ t :: w2). split; [rewrite Hw1, Hw2; napp; reflexivity|].
        intros rest' Hh. napp. cbn [vp_assignments].
        rewrite (St1 (t :: w2 ++ rest') (same_head_cons _ _ _)). cbn [retag]. rewrite Ec.
        destruct (head_keep t2 toks3 w2 _ rest' Hw2 Hh) as (tl & Htl). rewrite Htl, E2, <- Htl.
        apply St2. exact Hh.
      + passed r Hs. exists (w1 ++ [t]). split; [rewrite Hw1; napp; reflexivity|].
        intros rest' Hh. sh_inv Hh. napp. cbn [vp_assignments].
        rewrite (St1 (t :: t2 :: r') (same_head_cons _ _ _)). cbn [retag]. rewrite Ec, E2. reflexivity.
    - passed r Hs. destruct (vp_assignment_stab f _ _ _ Ea eq_refl) as (w1 & Hw1 & St1).
      exists w1. split; [exact Hw1|]. intros rest' Hh.
      cbn [vp_assignments]. rewrite (St1 rest' Hh). reflexivity.
    - passed r Hs.
    - passed r Hs.
  Qed.
End StabDecl.

(* ====================================================================================== *)
(* 3. a failure is at a token                                                             *)
(* ====================================================================================== *)
Section FailToken.
  Variable tiers : list tier.

  Definition fne_at (f : nat) : Prop :=
    (forall ts toks, vp_tiers tiers f ts toks <> Fail []) /\
    (forall rest ops toks, vp_left_loop tiers f rest ops toks <> Fail []) /\
    (forall toks, vp_term tiers f toks <> Fail []) /\
    (forall toks, vp_simple tiers f toks <> Fail []) /\
    (forall toks, vp_mux_options tiers f toks <> Fail []) /\
    (forall toks, vp_commas_exprs tiers f toks <> Fail []).

  Ltac fne_call IH1 IH2 IH3 IH4 IH5 IH6 f H :=
    match type of H with
    | context [vp_tiers tiers f ?a ?b] =>
        let E := fresh "E" in destruct (vp_tiers tiers f a b) as [?|[|? ?]|?|] eqn:E; [| exact (IH1 a b E) | | |]
    | context [vp_left_loop tiers f ?a ?b ?c] =>
        let E := fresh "E" in destruct (vp_left_loop tiers f a b c) as [?|[|? ?]|?|] eqn:E; [| exact (IH2 a b c E) | | |]
    | context [vp_term tiers f ?a] =>
        let E := fresh "E" in destruct (vp_term tiers f a) as [?|[|? ?]|?|] eqn:E; [| exact (IH3 a E) | | |]
    | context [vp_simple tiers f ?a] =>
        let E := fresh "E" in destruct (vp_simple tiers f a) as [?|[|? ?]|?|] eqn:E; [| exact (IH4 a E) | | |]
    | context [vp_mux_options tiers f ?a] =>
        let E := fresh "E" in destruct (vp_mux_options tiers f a) as [?|[|? ?]|?|] eqn:E; [| exact (IH5 a E) | | |]
    | context [vp_commas_exprs tiers f ?a] =>
        let E := fresh "E" in destruct (vp_commas_exprs tiers f a) as [?|[|? ?]|?|] eqn:E; [| exact (IH6 a E) | | |]
    end.

  Ltac fne_go IH1 IH2 IH3 IH4 IH5 IH6 f H :=
    unfold expect, closing, vp_slice in *;
    repeat first [discriminate H | fne_call IH1 IH2 IH3 IH4 IH5 IH6 f H | scrut H].

  Lemma fne_all : forall f, fne_at f.
  Proof.
    induction f as [|f IH].
    - repeat split; intros; discriminate.
    - destruct IH as (IH1 & IH2 & IH3 & IH4 & IH5 & IH6).
      repeat split.
      + intros ts toks H. rewrite vp_tiers_S in H.
        destruct ts as [|[[| | |] ops] rest]; fne_go IH1 IH2 IH3 IH4 IH5 IH6 f H.
      + intros rest ops toks H. rewrite vp_left_loop_S in H. fne_go IH1 IH2 IH3 IH4 IH5 IH6 f H.
      + intros toks H. rewrite vp_term_S in H. fne_go IH1 IH2 IH3 IH4 IH5 IH6 f H.
      + intros toks H. rewrite vp_simple_S in H. destruct toks as [|[] toks1]; fne_go IH1 IH2 IH3 IH4 IH5 IH6 f H.
      + intros toks H. rewrite vp_mux_options_S in H. fne_go IH1 IH2 IH3 IH4 IH5 IH6 f H.
      + intros toks H. rewrite vp_commas_exprs_S in H. fne_go IH1 IH2 IH3 IH4 IH5 IH6 f H.
  Qed.

  Lemma vp_expr_fne f toks : vp_expr tiers f toks <> Fail [].
  Proof. apply (fne_all f). Qed.
  Lemma vp_simple_fne f toks : vp_simple tiers f toks <> Fail [].
  Proof. apply (fne_all f). Qed.
  Lemma vp_mux_options_fne f toks : vp_mux_options tiers f toks <> Fail [].
  Proof. apply (fne_all f). Qed.
End FailToken.

(* ====================================================================================== *)
(* 4. progress, and the fuel that is enough                                               *)
(* ====================================================================================== *)
Lemma stab_len (P : list token -> vres) toks rest : VStab P -> P toks = Done rest ->
  (List.length rest <= List.length toks)%nat.
Proof.
  intros HS H. destruct (HS toks _ rest H eq_refl) as (w & -> & _). rewrite app_length. lia.
Qed.
Lemma stab1_len (P : list token -> vres) toks rest : VStab1 P -> P toks = Done rest ->
  (List.length rest < List.length toks)%nat.
Proof.
  intros HS H. destruct (HS toks _ rest H eq_refl) as (w & -> & Hne & _). rewrite app_length.
  specialize (Hne I). destruct w; [congruence|]. cbn [List.length]. lia.
Qed.
Lemma stab_fail_len (P : list token -> vres) toks rest : VStab P -> P toks = Fail rest ->
  (List.length rest <= List.length toks)%nat.
Proof.
  intros HS H. destruct (HS toks _ rest H eq_refl) as (w & -> & _). rewrite app_length. lia.
Qed.

Section Progress.
  Variable tiers : list tier.
  Lemma prog_tiers f ts toks rest : vp_tiers tiers f ts toks = Done rest -> (List.length rest < List.length toks)%nat.
  Proof. apply stab1_len. apply (stab_all tiers f). Qed.
  Lemma prog_loop f rs ops toks rest : vp_left_loop tiers f rs ops toks = Done rest -> (List.length rest <= List.length toks)%nat.
  Proof. apply stab_len. apply (stab_all tiers f). Qed.
  Lemma prog_term f toks rest : vp_term tiers f toks = Done rest -> (List.length rest < List.length toks)%nat.
  Proof. apply stab1_len. apply (stab_all tiers f). Qed.
  Lemma prog_simple f toks rest : vp_simple tiers f toks = Done rest -> (List.length rest < List.length toks)%nat.
  Proof. apply stab1_len. apply (stab_all tiers f). Qed.
  Lemma prog_mux f toks rest : vp_mux_options tiers f toks = Done rest -> (List.length rest <= List.length toks)%nat.
  Proof. apply stab_len. apply (stab_all tiers f). Qed.
  Lemma prog_commas f toks rest : vp_commas_exprs tiers f toks = Done rest -> (List.length rest <= List.length toks)%nat.
  Proof. apply stab_len. apply (stab_all tiers f). Qed.
  Lemma prog_expr f toks rest : vp_expr tiers f toks = Done rest -> (List.length rest < List.length toks)%nat.
  Proof. apply prog_tiers. Qed.
End Progress.

Definition ts_ok (ts : list tier) : Prop := forall k ops, In (k, ops) ts -> k <> KBad.
Lemma ts_ok_tl x ts : ts_ok (x :: ts) -> ts_ok ts.
Proof. intros H k ops Hin. apply (H k ops). right. exact Hin. Qed.

Section NoStuck.
  Variable tiers : list tier.
  Hypothesis Hok : tiers_ok tiers.
  Notation T := (List.length tiers).

  Definition BT (k n : nat) : nat := ((T + 4) * n + k + 3)%nat.
  Definition BTm (n : nat) : nat := ((T + 4) * n + 2)%nat.
  Definition BS (n : nat) : nat := ((T + 4) * n + 1)%nat.
  Definition BM (n : nat) : nat := ((T + 4) * (n + 1))%nat.

  Definition ns_at (f : nat) : Prop :=
    (forall ts toks, ts_ok ts -> (BT (List.length ts) (List.length toks) <= f)%nat -> vp_tiers tiers f ts toks <> Stuck) /\
    (forall rest ops toks, ts_ok rest -> (BT (List.length rest) (List.length toks) <= f)%nat ->
                           vp_left_loop tiers f rest ops toks <> Stuck) /\
    (forall toks, (BTm (List.length toks) <= f)%nat -> vp_term tiers f toks <> Stuck) /\
    (forall toks, (BS (List.length toks) <= f)%nat -> vp_simple tiers f toks <> Stuck) /\
    (forall toks, (BM (List.length toks) <= f)%nat -> vp_mux_options tiers f toks <> Stuck) /\
    (forall toks, (BM (List.length toks) <= f)%nat -> vp_commas_exprs tiers f toks <> Stuck).

  Ltac bound_tac := unfold BT, BTm, BS, BM in *; cbn [List.length] in *; nia.

  Ltac ns_call IH1 IH2 IH3 IH4 IH5 IH6 f H :=
    match type of H with
    | context [vp_tiers tiers f ?a ?b] =>
        let E := fresh "E" in
        destruct (vp_tiers tiers f a b) eqn:E;
        [apply prog_tiers in E | | | exfalso; revert E; apply IH1; [first [assumption | exact Hok | eapply ts_ok_tl; eassumption]|bound_tac]]
    | context [vp_left_loop tiers f ?a ?b ?c] =>
        let E := fresh "E" in
        destruct (vp_left_loop tiers f a b c) eqn:E;
        [apply prog_loop in E | | | exfalso; revert E; apply IH2; [first [assumption | eapply ts_ok_tl; eassumption]|bound_tac]]
    | context [vp_term tiers f ?a] =>
        let E := fresh "E" in
        destruct (vp_term tiers f a) eqn:E; [apply prog_term in E | | | exfalso; revert E; apply IH3; bound_tac]
    | context [vp_simple tiers f ?a] =>
        let E := fresh "E" in
        destruct (vp_simple tiers f a) eqn:E; [apply prog_simple in E | | | exfalso; revert E; apply IH4; bound_tac]
    | context [vp_mux_options tiers f ?a] =>
        let E := fresh "E" in
        destruct (vp_mux_options tiers f a) eqn:E; [apply prog_mux in E | | | exfalso; revert E; apply IH5; bound_tac]
    | context [vp_commas_exprs tiers f ?a] =>
        let E := fresh "E" in
        destruct (vp_commas_exprs tiers f a) eqn:E; [apply prog_commas in E | | | exfalso; revert E; apply IH6; bound_tac]
    end.

  Ltac ns_go IH1 IH2 IH3 IH4 IH5 IH6 f H :=
    unfold expect, closing, vp_slice in *;
    repeat first [discriminate H | ns_call IH1 IH2 IH3 IH4 IH5 IH6 f H | scrut H].

  Lemma ns_all : forall f, ns_at f.
  Proof.
    induction f as [|f IH].
    - repeat split; intros; exfalso; bound_tac.
    - destruct IH as (IH1 & IH2 & IH3 & IH4 & IH5 & IH6).
      repeat split.
      + intros ts toks Hts Hb H. rewrite vp_tiers_S in H.
        destruct ts as [|[[| | |] ops] rest]; [| | | |exact (Hts KBad ops (or_introl eq_refl) eq_refl)];
          ns_go IH1 IH2 IH3 IH4 IH5 IH6 f H.
      + intros rest ops toks Hts Hb H. rewrite vp_left_loop_S in H. ns_go IH1 IH2 IH3 IH4 IH5 IH6 f H.
      + intros toks Hb H. rewrite vp_term_S in H. ns_go IH1 IH2 IH3 IH4 IH5 IH6 f H.
      + intros toks Hb H. rewrite vp_simple_S in H. destruct toks as [|[] toks1]; ns_go IH1 IH2 IH3 IH4 IH5 IH6 f H.
      + intros toks Hb H. rewrite vp_mux_options_S in H. ns_go IH1 IH2 IH3 IH4 IH5 IH6 f H.
      + intros toks Hb H. rewrite vp_commas_exprs_S in H. ns_go IH1 IH2 IH3 IH4 IH5 IH6 f H.
  Qed.

  Lemma vp_expr_ns f toks : (BT T (List.length toks) <= f)%nat -> vp_expr tiers f toks <> Stuck.
  Proof. intros H. apply (ns_all f); [exact Hok|exact H]. Qed.
  Lemma vp_simple_ns f toks : (BS (List.length toks) <= f)%nat -> vp_simple tiers f toks <> Stuck.
  Proof. apply (ns_all f). Qed.
  Lemma vp_mux_options_ns f toks : (BM (List.length toks) <= f)%nat -> vp_mux_options tiers f toks <> Stuck.
  Proof. apply (ns_all f). Qed.
End NoStuck.

(* ====================================================================================== *)
(* 5. the same for declarations and statements                                            *)
(* ====================================================================================== *)
Lemma expect_stuck k r : expect k r = Stuck -> r = Stuck.
Proof. unfold expect, closing. destruct r as [[|t l]|x|c|]; try discriminate; [|reflexivity]. destruct (token_eqb t k); discriminate. Qed.
Lemma expect_fne k r : r <> Fail [] -> expect k r <> Fail [].
Proof.
  unfold expect, closing. destruct r as [[|t l]|x|c|]; try discriminate; [|intros H; exact H].
  destruct (token_eqb t k); discriminate.
Qed.

Section DeclMono.
  Variable tiers : list tier.

  Lemma mono_expr f f' toks : (f <= f')%nat -> vp_expr tiers f toks <> Stuck -> vp_expr tiers f' toks = vp_expr tiers f toks.
  Proof. intros Hle. apply (mono_all tiers f f' Hle). Qed.
  Lemma mono_simple f f' toks : (f <= f')%nat -> vp_simple tiers f toks <> Stuck -> vp_simple tiers f' toks = vp_simple tiers f toks.
  Proof. intros Hle. apply (mono_all tiers f f' Hle). Qed.
  Lemma mono_mux f f' toks : (f <= f')%nat -> vp_mux_options tiers f toks <> Stuck ->
    vp_mux_options tiers f' toks = vp_mux_options tiers f toks.
  Proof. intros Hle. apply (mono_all tiers f f' Hle). Qed.

  Ltac dwalk H := repeat first [reflexivity | scrut H].

  Lemma mono_width_value f f' toks : (f <= f')%nat -> vp_width_value tiers f toks <> Stuck ->
    vp_width_value tiers f' toks = vp_width_value tiers f toks.
  Proof. intros Hle H. unfold vp_width_value in *. dwalk H. apply mono_expr; assumption. Qed.

  Lemma mono_wire_decl f f' toks : (f <= f')%nat -> vp_wire_decl tiers f toks <> Stuck ->
    vp_wire_decl tiers f' toks = vp_wire_decl tiers f toks.
  Proof. intros Hle H. unfold vp_wire_decl in *. dwalk H; apply mono_expr; assumption. Qed.

  Lemma mono_const_decl f f' toks : (f <= f')%nat -> vp_const_decl tiers f toks <> Stuck ->
    vp_const_decl tiers f' toks = vp_const_decl tiers f toks.
  Proof.
    intros Hle H. unfold vp_const_decl in *. dwalk H; first [apply mono_expr | apply mono_width_value]; assumption.
  Qed.

  Lemma mono_reg_decl f f' toks : (f <= f')%nat -> vp_reg_decl tiers f toks <> Stuck ->
    vp_reg_decl tiers f' toks = vp_reg_decl tiers f toks.
  Proof.
    intros Hle H. unfold vp_reg_decl in *. dwalk H; first [apply mono_expr | apply mono_width_value]; assumption.
  Qed.

  Lemma mono_assignment f f' toks : (f <= f')%nat -> vp_assignment tiers f toks <> Stuck ->
    vp_assignment tiers f' toks = vp_assignment tiers f toks.
  Proof.
    intros Hle H. unfold vp_assignment in *. dwalk H; try (apply mono_expr; assumption).
    rewrite (mono_mux f f'); [reflexivity|exact Hle|]. intros E. apply H. rewrite E. reflexivity.
  Qed.

  Lemma mono_list starts sep (item : nat -> list token -> vres) :
    (forall f f' toks, (f <= f')%nat -> item f toks <> Stuck -> item f' toks = item f toks) ->
    forall f f' toks, (f <= f')%nat -> vp_list starts sep item f toks <> Stuck ->
      vp_list starts sep item f' toks = vp_list starts sep item f toks.
  Proof.
    intros Hitem. induction f as [|f IH]; intros f' toks Hle H; [exfalso; apply H; reflexivity|].
    destruct f' as [|f']; [lia|]. cbn [vp_list] in *.
    destruct toks as [|t1 toks1]; [reflexivity|]. destruct (starts t1); [|reflexivity].
    destruct (item f (t1 :: toks1)) as [rest|x|c|] eqn:Ei.
    - rewrite (Hitem f f') by (first [lia | rewrite Ei; discriminate]). rewrite Ei.
      destruct rest as [|t rest]; [reflexivity|]. destruct (token_eqb t sep); [|reflexivity].
      apply IH; [lia|exact H].
    - rewrite (Hitem f f') by (first [lia | rewrite Ei; discriminate]). rewrite Ei. reflexivity.
    - rewrite (Hitem f f') by (first [lia | rewrite Ei; discriminate]). rewrite Ei. reflexivity.
    - exfalso. apply H. reflexivity.
  Qed.

  Lemma mono_assignments : forall f f' toks, (f <= f')%nat -> vp_assignments tiers f toks <> Stuck ->
    vp_assignments tiers f' toks = vp_assignments tiers f toks.
  Proof.
    induction f as [|f IH]; intros f' toks Hle H; [exfalso; apply H; reflexivity|].
    destruct f' as [|f']; [lia|]. cbn [vp_assignments] in *.
    destruct (vp_assignment tiers f toks) as [rest|x|c|] eqn:Ea.
    - rewrite (mono_assignment f f') by (first [lia | rewrite Ea; discriminate]). rewrite Ea.
      destruct rest as [|t toks2]; [reflexivity|]. destruct (token_eqb t TComma); [|reflexivity].
      destruct toks2 as [|t2 toks3]; [reflexivity|]. destruct (starts_name t2); [|reflexivity].
      apply IH; [lia|exact H].
    - rewrite (mono_assignment f f') by (first [lia | rewrite Ea; discriminate]). rewrite Ea. reflexivity.
    - rewrite (mono_assignment f f') by (first [lia | rewrite Ea; discriminate]). rewrite Ea. reflexivity.
    - exfalso. apply H. reflexivity.
  Qed.

  Lemma mono_statement f f' toks : (f <= f')%nat -> fst (vp_statement tiers f toks) <> Stuck ->
    vp_statement tiers f' toks = vp_statement tiers f toks.
  Proof.
    intros Hle H. unfold vp_statement in *.
    destruct toks as [|t toks1]; [reflexivity|].
    destruct t; try reflexivity; cbn [fst] in H.
    - rewrite (mono_simple f f'); [reflexivity|exact Hle|exact H].
    - rewrite (mono_simple f f'); [reflexivity|exact Hle|exact H].
    - rewrite (mono_simple f f'); [reflexivity|exact Hle|exact H].
    - rewrite (mono_list _ _ _ mono_wire_decl f f'); [reflexivity|exact Hle|exact H].
    - rewrite (mono_list _ _ _ mono_const_decl f f'); [reflexivity|exact Hle|exact H].
    - f_equal. dwalk H. rewrite (mono_list _ _ _ mono_reg_decl f f'); [reflexivity|exact Hle|].
      intros E. apply H. rewrite E. reflexivity.
    - destruct (next_tok_is TAssign toks1 || next_tok_is TOpenBracket toks1); cbn [fst] in H.
      + rewrite (mono_assignments f f'); [reflexivity|exact Hle|exact H].
      + rewrite (mono_simple f f'); [reflexivity|exact Hle|exact H].
  Qed.

  Lemma mono_statements : forall f f' toks seen, (f <= f')%nat -> vp_statements tiers f toks seen <> Stuck ->
    vp_statements tiers f' toks seen = vp_statements tiers f toks seen.
  Proof.
    induction f as [|f IH]; intros f' toks seen Hle H; [exfalso; apply H; reflexivity|].
    destruct f' as [|f']; [lia|]. cbn [vp_statements] in *.
    destruct toks as [|t toks1]; [reflexivity|].
    destruct (token_eqb t TSemicolon).
    - destruct seen; [|reflexivity]. apply IH; [lia|exact H].
    - destruct (vp_statement tiers (20 * S (List.length (t :: toks1))) (t :: toks1)) as [[rest|x|c|] k]; try reflexivity.
      destruct k.
      + destruct rest as [|t2 rest]; [reflexivity|]. destruct (token_eqb t2 TSemicolon); [|reflexivity].
        apply IH; [lia|exact H].
      + apply IH; [lia|exact H].
  Qed.
End DeclMono.

Lemma expect_done k r rest : expect k r = Done rest -> exists t, r = Done (t :: rest) /\ token_eqb t k = true.
Proof.
  unfold expect, closing. destruct r as [[|t l]|x|c|]; try discriminate.
  destruct (token_eqb t k) eqn:E; [|discriminate]. intros H. injection H as <-. exists t. split; [reflexivity|exact E].
Qed.
Lemma expect_more k r c : expect k r = More c ->
  (r = Done [] /\ c = [k]) \/ (exists c1, r = More c1 /\ c = c1 ++ [k]).
Proof.
  unfold expect, closing. destruct r as [[|t l]|x|c1|]; try discriminate.
  - intros H. injection H as <-. left. split; reflexivity.
  - destruct (token_eqb t k); discriminate.
  - intros H. injection H as <-. right. exists c1. split; reflexivity.
Qed.

Section DeclProgress.
  Variable tiers : list tier.

  Ltac leaf H :=
    first [ discriminate H
          | (injection H as <-; cbn [List.length]; lia)
          | (apply prog_expr in H; cbn [List.length] in *; lia) ].
  Ltac pwalk H := repeat first [leaf H | scrut H].

  Lemma prog_width_value f toks rest : vp_width_value tiers f toks = Done rest -> (List.length rest < List.length toks)%nat.
  Proof. intros H. unfold vp_width_value in H. pwalk H. Qed.
  Lemma prog_wire_decl f toks rest : vp_wire_decl tiers f toks = Done rest -> (List.length rest < List.length toks)%nat.
  Proof. intros H. unfold vp_wire_decl in H. pwalk H. Qed.
  Lemma prog_const_decl f toks rest : vp_const_decl tiers f toks = Done rest -> (List.length rest < List.length toks)%nat.
  Proof.
    intros H. unfold vp_const_decl in H. pwalk H. apply prog_width_value in H. cbn [List.length] in *. lia.
  Qed.
  Lemma prog_reg_decl f toks rest : vp_reg_decl tiers f toks = Done rest -> (List.length rest < List.length toks)%nat.
  Proof.
    intros H. unfold vp_reg_decl in H. pwalk H; apply prog_width_value in H; cbn [List.length] in *; lia.
  Qed.

  Lemma vp_targets_len : forall n toks, (List.length toks <= n)%nat -> (List.length (vp_targets toks) <= List.length toks)%nat.
  Proof.
    induction n as [|n IH]; intros toks Hn.
    - destruct toks; [cbn; lia|cbn in Hn; lia].
    - destruct toks as [|t1 [|t2 toks1]]; [cbn; lia|cbn; lia|]. cbn [vp_targets].
      destruct (starts_name t1 && token_eqb t2 TAssign); [|lia].
      specialize (IH toks1 ltac:(cbn [List.length] in Hn; lia)). cbn [List.length]. lia.
  Qed.

  Lemma prog_assignment f toks rest : vp_assignment tiers f toks = Done rest -> (List.length rest < List.length toks)%nat.
  Proof.
    intros H. unfold vp_assignment in H. pwalk H;
      first [ (apply expect_done in H; destruct H as (tt & H & _); apply prog_mux in H; cbn [List.length] in *; lia)
            | match type of H with
              | vp_expr _ _ (vp_targets ?L) = _ =>
                  pose proof (vp_targets_len _ L (Nat.le_refl _)); apply prog_expr in H; cbn [List.length] in *; lia
              end ].
  Qed.

  Lemma prog_list starts sep (item : nat -> list token -> vres) :
    (forall f toks rest, item f toks = Done rest -> (List.length rest < List.length toks)%nat) ->
    forall f toks rest, vp_list starts sep item f toks = Done rest -> (List.length rest <= List.length toks)%nat.
  Proof.
    intros Hitem. induction f as [|f IH]; intros toks rest H; [discriminate H|].
    cbn [vp_list] in H. destruct toks as [|t1 toks1]; [injection H as <-; lia|].
    destruct (starts t1); [|injection H as <-; lia].
    destruct (item f (t1 :: toks1)) as [r1|x|c|] eqn:Ei; try discriminate H.
    apply Hitem in Ei. destruct r1 as [|t r1]; [injection H as <-; cbn [List.length]; lia|].
    destruct (token_eqb t sep); [|injection H as <-; lia].
    apply IH in H. cbn [List.length] in *. lia.
  Qed.

  Lemma prog_assignments : forall f toks rest, vp_assignments tiers f toks = Done rest ->
    (List.length rest < List.length toks)%nat.
  Proof.
    induction f as [|f IH]; intros toks rest H; [discriminate H|].
    cbn [vp_assignments] in H.
    destruct (vp_assignment tiers f toks) as [r1|x|c|] eqn:Ea; try discriminate H.
    apply prog_assignment in Ea. destruct r1 as [|t r1]; [injection H as <-; exact Ea|].
    destruct (token_eqb t TComma); [|injection H as <-; exact Ea].
    destruct r1 as [|t2 r2]; [injection H as <-; cbn [List.length] in *; lia|].
    destruct (starts_name t2); [|injection H as <-; cbn [List.length] in *; lia].
    apply IH in H. cbn [List.length] in *. lia.
  Qed.

  Lemma prog_statement f toks rest : fst (vp_statement tiers f toks) = Done rest ->
    (List.length rest < List.length toks)%nat.
  Proof.
    intros H. unfold vp_statement in H. destruct toks as [|t toks1]; [discriminate H|].
    destruct t; cbn [fst] in H; try discriminate H.
    - apply prog_simple in H. exact H.
    - apply prog_simple in H. exact H.
    - apply prog_simple in H. exact H.
    - apply (prog_list _ _ _ prog_wire_decl) in H. cbn [List.length]. lia.
    - apply (prog_list _ _ _ prog_const_decl) in H. cbn [List.length]. lia.
    - pwalk H. apply expect_done in H. destruct H as (t3 & H & _).
      apply (prog_list _ _ _ prog_reg_decl) in H. cbn [List.length] in *. lia.
    - destruct (next_tok_is TAssign toks1 || next_tok_is TOpenBracket toks1); cbn [fst] in H.
      + apply prog_assignments in H. exact H.
      + apply prog_simple in H. exact H.
  Qed.
End DeclProgress.

Section DeclFailToken.
  Variable tiers : list tier.

  Ltac fwalk H := repeat first [discriminate H | scrut H].

  Lemma fne_width_value f toks : vp_width_value tiers f toks <> Fail [].
  Proof. intros H. unfold vp_width_value in H. fwalk H. exact (vp_expr_fne tiers f _ H). Qed.
  Lemma fne_wire_decl f toks : vp_wire_decl tiers f toks <> Fail [].
  Proof. intros H. unfold vp_wire_decl in H. fwalk H; exact (vp_expr_fne tiers f _ H). Qed.
  Lemma fne_const_decl f toks : vp_const_decl tiers f toks <> Fail [].
  Proof.
    intros H. unfold vp_const_decl in H. fwalk H; first [exact (vp_expr_fne tiers f _ H) | exact (fne_width_value f _ H)].
  Qed.
  Lemma fne_reg_decl f toks : vp_reg_decl tiers f toks <> Fail [].
  Proof.
    intros H. unfold vp_reg_decl in H. fwalk H; first [exact (vp_expr_fne tiers f _ H) | exact (fne_width_value f _ H)].
  Qed.
  Lemma fne_assignment f toks : vp_assignment tiers f toks <> Fail [].
  Proof.
    intros H. unfold vp_assignment in H.
    fwalk H; first [exact (vp_expr_fne tiers f _ H) | (revert H; apply expect_fne; apply vp_mux_options_fne)].
  Qed.
  Lemma fne_list starts sep (item : nat -> list token -> vres) :
    (forall f toks, item f toks <> Fail []) -> forall f toks, vp_list starts sep item f toks <> Fail [].
  Proof.
    intros Hitem. induction f as [|f IH]; intros toks H; [discriminate H|].
    cbn [vp_list] in H. destruct toks as [|t1 toks1]; [discriminate H|].
    destruct (starts t1); [|discriminate H].
    destruct (item f (t1 :: toks1)) as [r1|x|c|] eqn:Ei; try discriminate H.
    - destruct r1 as [|t r1]; [discriminate H|]. destruct (token_eqb t sep); [|discriminate H]. exact (IH _ H).
    - injection H as ->. exact (Hitem _ _ Ei).
  Qed.
  Lemma fne_assignments : forall f toks, vp_assignments tiers f toks <> Fail [].
  Proof.
    induction f as [|f IH]; intros toks H; [discriminate H|].
    cbn [vp_assignments] in H.
    destruct (vp_assignment tiers f toks) as [r1|x|c|] eqn:Ea; try discriminate H.
    - destruct r1 as [|t r1]; [discriminate H|]. destruct (token_eqb t TComma); [|discriminate H].
      destruct r1 as [|t2 r2]; [discriminate H|]. destruct (starts_name t2); [|discriminate H]. exact (IH _ H).
    - injection H as ->. exact (fne_assignment _ _ Ea).
  Qed.
  Lemma fne_statement f toks : fst (vp_statement tiers f toks) <> Fail [].
  Proof.
    intros H. unfold vp_statement in H. destruct toks as [|t toks1]; [discriminate H|].
    destruct t; cbn [fst] in H; try discriminate H.
    - exact (vp_simple_fne tiers f _ H).
    - exact (vp_simple_fne tiers f _ H).
    - exact (vp_simple_fne tiers f _ H).
    - exact (fne_list _ _ _ fne_wire_decl f _ H).
    - exact (fne_list _ _ _ fne_const_decl f _ H).
    - fwalk H. revert H. apply expect_fne. apply (fne_list _ _ _ fne_reg_decl).
    - destruct (next_tok_is TAssign toks1 || next_tok_is TOpenBracket toks1); cbn [fst] in H.
      + exact (fne_assignments f _ H).
      + exact (vp_simple_fne tiers f _ H).
  Qed.
  Lemma fne_statements : forall f toks seen, vp_statements tiers f toks seen <> Fail [].
  Proof.
    induction f as [|f IH]; intros toks seen H; [discriminate H|].
    cbn [vp_statements] in H. destruct toks as [|t toks1]; [destruct seen; discriminate H|].
    destruct (token_eqb t TSemicolon).
    - destruct seen; [exact (IH _ _ H)|discriminate H].
    - destruct (vp_statement tiers (20 * S (List.length (t :: toks1))) (t :: toks1)) as [r k] eqn:Es.
      destruct r as [rest|x|c|]; try discriminate H.
      + destruct k; [|exact (IH _ _ H)].
        destruct rest as [|t2 rest]; [destruct seen; discriminate H|].
        destruct (token_eqb t2 TSemicolon); [exact (IH _ _ H)|discriminate H].
      + injection H as ->. apply (fne_statement (20 * S (List.length (t :: toks1))) (t :: toks1)). rewrite Es. reflexivity.
  Qed.
End DeclFailToken.

Section DeclNoStuck.
  Variable tiers : list tier.
  Hypothesis Hok : tiers_ok tiers.
  Notation T := (List.length tiers).
  Notation BTT n := (BT tiers T n).

  Lemma ns_expr_le f toks n : (List.length toks <= n)%nat -> (BTT n <= f)%nat -> vp_expr tiers f toks <> Stuck.
  Proof. intros Hn Hb. apply (vp_expr_ns tiers Hok). unfold BT in *. nia. Qed.

  Ltac nwalk H := repeat first [discriminate H | scrut H].
  Ltac ns_leaf H := revert H; apply (ns_expr_le _ _ _ (Nat.le_refl _)); unfold BT in *; cbn [List.length] in *; nia.

  Lemma ns_width_value f toks : (BTT (List.length toks) <= f)%nat -> vp_width_value tiers f toks <> Stuck.
  Proof. intros Hb H. unfold vp_width_value in H. nwalk H. ns_leaf H. Qed.
  Lemma ns_wire_decl f toks : (BTT (List.length toks) <= f)%nat -> vp_wire_decl tiers f toks <> Stuck.
  Proof. intros Hb H. unfold vp_wire_decl in H. nwalk H; ns_leaf H. Qed.
  Lemma ns_const_decl f toks : (BTT (List.length toks) <= f)%nat -> vp_const_decl tiers f toks <> Stuck.
  Proof.
    intros Hb H. unfold vp_const_decl in H.
    nwalk H; first [ns_leaf H | (revert H; apply ns_width_value; unfold BT in *; cbn [List.length] in *; nia)].
  Qed.
  Lemma ns_reg_decl f toks : (BTT (List.length toks) <= f)%nat -> vp_reg_decl tiers f toks <> Stuck.
  Proof.
    intros Hb H. unfold vp_reg_decl in H.
    nwalk H; first [ns_leaf H | (revert H; apply ns_width_value; unfold BT in *; cbn [List.length] in *; nia)].
  Qed.
  Lemma ns_assignment f toks : (BTT (List.length toks) <= f)%nat -> vp_assignment tiers f toks <> Stuck.
  Proof.
    intros Hb H. unfold vp_assignment in H.
    nwalk H;
      first [ (apply expect_stuck in H; revert H; apply (vp_mux_options_ns tiers Hok); unfold BT, BM in *; cbn [List.length] in *; nia)
            | match type of H with
              | vp_expr _ _ (vp_targets ?L) = _ =>
                  pose proof (vp_targets_len _ L (Nat.le_refl _)); revert H;
                  apply (ns_expr_le _ _ (List.length L)); [assumption|unfold BT in *; cbn [List.length] in *; nia]
              end ].
  Qed.

  Lemma ns_list starts sep (item : nat -> list token -> vres) :
    (forall f toks, (BTT (List.length toks) <= f)%nat -> item f toks <> Stuck) ->
    (forall f toks rest, item f toks = Done rest -> (List.length rest < List.length toks)%nat) ->
    forall f toks, (S (BTT (List.length toks)) <= f)%nat -> vp_list starts sep item f toks <> Stuck.
  Proof.
    intros Hitem Hprog. induction f as [|f IH]; intros toks Hb H; [lia|].
    cbn [vp_list] in H. destruct toks as [|t1 toks1]; [discriminate H|].
    destruct (starts t1); [|discriminate H].
    destruct (item f (t1 :: toks1)) as [r1|x|c|] eqn:Ei; try discriminate H.
    - apply Hprog in Ei. destruct r1 as [|t r1]; [discriminate H|]. destruct (token_eqb t sep); [|discriminate H].
      revert H. apply IH. unfold BT in *. cbn [List.length] in *. nia.
    - revert Ei. apply Hitem. lia.
  Qed.

  Lemma ns_assignments : forall f toks, (S (BTT (List.length toks)) <= f)%nat -> vp_assignments tiers f toks <> Stuck.
  Proof.
    induction f as [|f IH]; intros toks Hb H; [lia|].
    cbn [vp_assignments] in H.
    destruct (vp_assignment tiers f toks) as [r1|x|c|] eqn:Ea; try discriminate H.
    - apply prog_assignment in Ea. destruct r1 as [|t r1]; [discriminate H|]. destruct (token_eqb t TComma); [|discriminate H].
      destruct r1 as [|t2 r2]; [discriminate H|]. destruct (starts_name t2); [|discriminate H].
      revert H. apply IH. unfold BT in *. cbn [List.length] in *. nia.
    - revert Ea. apply ns_assignment. lia.
  Qed.

  Lemma ns_statement f toks : (S (BTT (List.length toks)) <= f)%nat -> fst (vp_statement tiers f toks) <> Stuck.
  Proof.
    intros Hb H. unfold vp_statement in H. destruct toks as [|t toks1]; [discriminate H|].
    assert (Hs : vp_simple tiers f (t :: toks1) <> Stuck).
    { apply (vp_simple_ns tiers Hok). unfold BT, BS in *. cbn [List.length] in *. nia. }
    destruct t; cbn [fst] in H; try discriminate H; try exact (Hs H).
    - revert H. apply (ns_list _ _ _ ns_wire_decl (prog_wire_decl tiers)). unfold BT in *. cbn [List.length] in *. nia.
    - revert H. apply (ns_list _ _ _ ns_const_decl (prog_const_decl tiers)). unfold BT in *. cbn [List.length] in *. nia.
    - nwalk H. apply expect_stuck in H. revert H.
      apply (ns_list _ _ _ ns_reg_decl (prog_reg_decl tiers)). unfold BT in *. cbn [List.length] in *. nia.
    - destruct (next_tok_is TAssign toks1 || next_tok_is TOpenBracket toks1); cbn [fst] in H; [|exact (Hs H)].
      revert H. apply ns_assignments. exact Hb.
  Qed.

  Hypothesis Hlen : (T <= 16)%nat.

  Lemma statement_fuel_ok n : (S (BTT n) <= 20 * S n)%nat.
  Proof. unfold BT. nia. Qed.

  Lemma ns_statements : forall f toks seen, (S (List.length toks) <= f)%nat -> vp_statements tiers f toks seen <> Stuck.
  Proof.
    induction f as [|f IH]; intros toks seen Hb H; [lia|].
    cbn [vp_statements] in H. destruct toks as [|t toks1]; [destruct seen; discriminate H|].
    destruct (token_eqb t TSemicolon).
    - destruct seen; [|discriminate H]. revert H. apply IH. cbn [List.length] in *. lia.
    - destruct (vp_statement tiers (20 * S (List.length (t :: toks1))) (t :: toks1)) as [r k] eqn:Es.
      assert (Hp : forall rest, r = Done rest -> (List.length rest < List.length (t :: toks1))%nat).
      { intros rest ->. apply (prog_statement tiers (20 * S (List.length (t :: toks1)))). rewrite Es. reflexivity. }
      destruct r as [rest|x|c|]; try discriminate H.
      + specialize (Hp rest eq_refl). destruct k.
        * destruct rest as [|t2 rest]; [destruct seen; discriminate H|].
          destruct (token_eqb t2 TSemicolon); [|discriminate H].
          revert H. apply IH. cbn [List.length] in *. lia.
        * revert H. apply IH. cbn [List.length] in *. lia.
      + apply (ns_statement (20 * S (List.length (t :: toks1))) (t :: toks1)); [apply statement_fuel_ok|].
        rewrite Es. reflexivity.
  Qed.

  Lemma vp_program_ns ks : vp_program tiers ks <> Stuck.
  Proof. apply ns_statements. lia. Qed.
End DeclNoStuck.

(* ---- statements: stability ---- *)
Section StabStatements.
  Variable tiers : list tier.

  Ltac passed r Hs := subst r; first [discriminate Hs | injection Hs as <-].

  Lemma next_tok_is_same k w a b : same_head a b -> next_tok_is k (w ++ a) = next_tok_is k (w ++ b).
  Proof.
    intros H. destruct w as [|x w]; [|reflexivity]. cbn [app].
    destruct a as [|y a]; [destruct (same_head_nil_l _ H)|]. sh_inv H. reflexivity.
  Qed.

  Lemma vp_statement_kind f t l l' : snd (vp_statement tiers f (t :: l)) = snd (vp_statement tiers f (t :: l')).
  Proof.
    unfold vp_statement. destruct t; try reflexivity.
    destruct (next_tok_is TAssign l || next_tok_is TOpenBracket l), (next_tok_is TAssign l' || next_tok_is TOpenBracket l');
      reflexivity.
  Qed.

  Lemma vp_statement_kind_fuel f f' toks : snd (vp_statement tiers f toks) = snd (vp_statement tiers f' toks).
  Proof.
    unfold vp_statement. destruct toks as [|t l]; [reflexivity|]. destruct t; try reflexivity.
    destruct (next_tok_is TAssign l || next_tok_is TOpenBracket l); reflexivity.
  Qed.

  (* an assignment does not fail at its first token when that is a name *)
  Lemma assignment_fail_pos f t l x : starts_name t = true -> vp_assignment tiers f (t :: l) = Fail x ->
    (List.length x <= List.length l)%nat.
  Proof.
    intros Ht H. unfold vp_assignment in H. rewrite Ht in H.
    destruct l as [|t2 rest2]; [discriminate H|].
    destruct (token_eqb t2 TOpenBracket).
    - destruct rest2 as [|t3 rest3]; [discriminate H|].
      destruct (token_eqb t3 TCloseBracket); [injection H as <-; cbn [List.length]; lia|].
      unfold expect, closing in H.
      destruct (vp_mux_options tiers f (t3 :: rest3)) as [r1|y|c|] eqn:Em; try discriminate H.
      + apply prog_mux in Em. destruct r1 as [|t4 r1]; [discriminate H|].
        destruct (token_eqb t4 TCloseBracket); [discriminate H|]. injection H as <-. cbn [List.length] in *. lia.
      + injection H as <-. apply (stab_fail_len _ _ _ (vp_mux_options_stab tiers f)) in Em. cbn [List.length] in *. lia.
    - destruct (token_eqb t2 TAssign) eqn:E2; [|injection H as <-; cbn [List.length]; lia].
      cbn [vp_targets] in H. rewrite Ht, E2 in H. cbn [andb] in H.
      apply (stab_fail_len _ _ _ (VStab1_VStab _ (vp_expr_stab tiers f))) in H.
      pose proof (vp_targets_len _ rest2 (Nat.le_refl _)). cbn [List.length] in *. lia.
  Qed.

  Lemma assignments_fail_pos : forall f t l x, starts_name t = true -> vp_assignments tiers f (t :: l) = Fail x ->
    (List.length x <= List.length l)%nat.
  Proof.
    intros [|f] t l x Ht H; [discriminate H|]. cbn [vp_assignments] in H.
    destruct (vp_assignment tiers f (t :: l)) as [r1|y|c|] eqn:Ea; try discriminate H.
    - apply prog_assignment in Ea. destruct r1 as [|t1 r1]; [discriminate H|].
      destruct (token_eqb t1 TComma); [|discriminate H].
      destruct r1 as [|t2 r2]; [discriminate H|]. destruct (starts_name t2); [|discriminate H].
      apply (stab_fail_len _ _ _ (vp_assignments_stab tiers f)) in H. cbn [List.length] in *. lia.
    - injection H as <-. exact (assignment_fail_pos f t l y Ht Ea).
  Qed.

  Lemma vp_statement_stab f : VStab1 (fun toks => fst (vp_statement tiers f toks)).
  Proof.
    intros toks r rest0 H Hs. unfold vp_statement in H.
    destruct toks as [|t toks1]; [passed r Hs|].
    assert (Hsimple : fst (vp_statement tiers f (t :: toks1)) = vp_simple tiers f (t :: toks1) ->
              (forall l, fst (vp_statement tiers f (t :: l)) = vp_simple tiers f (t :: l)) ->
              vp_simple tiers f (t :: toks1) = r ->
              exists w, t :: toks1 = w ++ rest0 /\ (is_done r -> w <> []) /\
                forall rest', same_head rest0 rest' -> fst (vp_statement tiers f (w ++ rest')) = retag r rest').
    { intros _ Hall Hr. destruct (vp_simple_stab tiers f _ _ _ Hr Hs) as (w & Hw & Hne & St).
      exists w. split; [exact Hw|]. split; [exact Hne|]. intros rest' Hh.
      destruct (head_keep t toks1 w _ rest' Hw Hh) as (tl & Htl). rewrite Htl, Hall, <- Htl. apply St. exact Hh. }
    assert (Hlist : forall starts sep item, (forall f, VStab (item f)) ->
              vp_list starts sep item f toks1 = r ->
              (forall l, fst (vp_statement tiers f (t :: l)) = vp_list starts sep item f l) ->
              exists w, t :: toks1 = w ++ rest0 /\ (is_done r -> w <> []) /\
                forall rest', same_head rest0 rest' -> fst (vp_statement tiers f (w ++ rest')) = retag r rest').
    { intros starts sep item Hitem Hr Hall.
      destruct (vp_list_stab starts sep item Hitem f _ _ _ Hr Hs) as (w & Hw & St).
      exists (t :: w). split; [rewrite Hw; reflexivity|]. split; [intros _; discriminate|].
      intros rest' Hh. cbn [app]. rewrite Hall. apply St. exact Hh. }
    destruct t; cbn [fst] in H;
      try (apply Hsimple; [reflexivity|intros; reflexivity|exact H]);
      try (passed r Hs; exists []; split; [reflexivity|]; split; [intros []|]; intros rest' Hh; sh_inv Hh; reflexivity).
    - apply (Hlist _ _ _ (vp_wire_decl_stab tiers) H). intros; reflexivity.
    - apply (Hlist _ _ _ (vp_const_decl_stab tiers) H). intros; reflexivity.
    - clear Hsimple Hlist.
      destruct toks1 as [|t1 rest1]; [passed r Hs|].
      destruct (starts_name t1) eqn:E1.
      2:{ passed r Hs. exists [TRegister]. split; [reflexivity|]. split; [intros []|].
          intros rest' Hh. sh_inv Hh. cbn [app vp_statement fst retag]. rewrite E1. reflexivity. }
      destruct rest1 as [|t2 toks2]; [passed r Hs|].
      destruct (token_eqb t2 TOpenBrace) eqn:E2.
      2:{ passed r Hs. exists [TRegister; t1]. split; [reflexivity|]. split; [intros []|].
          intros rest' Hh. sh_inv Hh. cbn [app vp_statement fst retag]. rewrite E1, E2. reflexivity. }
      unfold expect, closing in H.
      destruct (vp_list starts_reg_decl TSemicolon (vp_reg_decl tiers) f toks2) as [r1|x|c|] eqn:El.
      + destruct (vp_list_stab _ _ _ (vp_reg_decl_stab tiers) f _ _ _ El eq_refl) as (w1 & Hw1 & St1).
        destruct r1 as [|t3 r1]; [passed r Hs|].
        destruct (token_eqb t3 TCloseBrace) eqn:E3; passed r Hs.
        * exists (TRegister :: t1 :: t2 :: w1 ++ [t3]). split; [rewrite Hw1; napp; reflexivity|].
          split; [intros _; discriminate|]. intros rest' Hh. napp. cbn [vp_statement fst]. rewrite E1, E2.
          rewrite (St1 (t3 :: rest') (same_head_cons _ _ _)). cbn [retag expect]. rewrite E3. reflexivity.
        * exists (TRegister :: t1 :: t2 :: w1). split; [rewrite Hw1; reflexivity|].
          split; [intros []|]. intros rest' Hh. sh_inv Hh. cbn [app vp_statement fst]. rewrite E1, E2.
          rewrite (St1 (t3 :: r') (same_head_cons _ _ _)). cbn [retag expect]. rewrite E3. reflexivity.
      + passed r Hs. destruct (vp_list_stab _ _ _ (vp_reg_decl_stab tiers) f _ _ _ El eq_refl) as (w1 & Hw1 & St1).
        exists (TRegister :: t1 :: t2 :: w1). split; [rewrite Hw1; reflexivity|].
        split; [intros []|]. intros rest' Hh. cbn [app vp_statement fst]. rewrite E1, E2.
        rewrite (St1 rest' Hh). reflexivity.
      + passed r Hs.
      + passed r Hs.
    - (* a name *)
      clear Hlist.
      destruct (next_tok_is TAssign toks1 || next_tok_is TOpenBracket toks1) eqn:En; cbn [fst] in H.
      + clear Hsimple.
        destruct (vp_assignments_stab tiers f _ _ _ H Hs) as (w & Hw & St).
        destruct w as [|a w'].
        { exfalso. cbn [app] in Hw. subst rest0.
          destruct r as [y|y| |]; try discriminate Hs; injection Hs as ->.
          - apply prog_assignments in H. lia.
          - apply (assignments_fail_pos f (TIdentifier name) toks1 _ eq_refl) in H. cbn [List.length] in H. lia. }
        cbn [app] in Hw. injection Hw as <- Hw.
        exists (TIdentifier name :: w'). split; [rewrite Hw; reflexivity|]. split; [intros _; discriminate|].
        intros rest' Hh. cbn [app vp_statement].
        rewrite <- !(next_tok_is_same _ w' _ _ Hh), <- Hw, En. cbn [fst]. apply (St rest' Hh).
      + clear Hsimple. destruct f as [|f]; [passed r Hs|]. rewrite vp_simple_S in H. passed r Hs.
        exists [TIdentifier name]. split; [reflexivity|]. split; [intros _; discriminate|].
        intros rest' Hh. cbn [app vp_statement].
        rewrite <- !(next_tok_is_same _ [] _ _ Hh). cbn [app]. rewrite En. cbn [fst retag]. rewrite vp_simple_S. reflexivity.
  Qed.
End StabStatements.

Section StabProgram.
  Variable tiers : list tier.
  Hypothesis Hok : tiers_ok tiers.
  Hypothesis Hlen : (List.length tiers <= 16)%nat.
  Notation T := (List.length tiers).
  Notation BTT n := (BT tiers T n).

  Ltac passed r Hs := subst r; first [discriminate Hs | injection Hs as <-].

  (* the fuel does not matter once it is enough *)
  Lemma statement_fuel_stab F toks r rest0 :
    (S (BTT (List.length toks)) <= F)%nat -> fst (vp_statement tiers F toks) = r -> stops r = Some rest0 ->
    exists w, toks = w ++ rest0 /\ (is_done r -> w <> []) /\
      forall rest' F', same_head rest0 rest' -> (S (BTT (List.length (w ++ rest'))) <= F')%nat ->
        fst (vp_statement tiers F' (w ++ rest')) = retag r rest'.
  Proof.
    intros HF H Hs. destruct (vp_statement_stab tiers F _ _ _ H Hs) as (w & Hw & Hne & _).
    exists w. split; [exact Hw|]. split; [exact Hne|]. intros rest' F' Hh HF'.
    assert (Hns : fst (vp_statement tiers F toks) <> Stuck) by (rewrite H; intros ->; discriminate Hs).
    pose proof (mono_statement tiers F (Nat.max F F') toks (Nat.le_max_l _ _) Hns) as Hm.
    assert (H2 : fst (vp_statement tiers (Nat.max F F') toks) = r) by (rewrite Hm; exact H).
    destruct (vp_statement_stab tiers (Nat.max F F') _ _ _ H2 Hs) as (w' & Hw' & _ & St').
    assert (w' = w) as -> by (rewrite Hw in Hw'; apply app_inv_tail in Hw'; symmetry; exact Hw').
    rewrite <- (St' rest' Hh).
    rewrite (mono_statement tiers F' (Nat.max F F') (w ++ rest') (Nat.le_max_r _ _)); [reflexivity|].
    apply (ns_statement tiers Hok). exact HF'.
  Qed.

  Lemma statements_stab : forall g toks seen r rest0,
    (S (List.length toks) <= g)%nat -> vp_statements tiers g toks seen = r -> stops r = Some rest0 ->
    exists w, toks = w ++ rest0 /\
      forall rest' g', same_head rest0 rest' -> (S (List.length (w ++ rest')) <= g')%nat ->
        vp_statements tiers g' (w ++ rest') seen = retag r rest'.
  Proof.
    induction g as [|g IH]; intros toks seen r rest0 Hg H Hs; [lia|].
    cbn [vp_statements] in H.
    destruct toks as [|t toks1].
    { destruct seen; passed r Hs. exists []. split; [reflexivity|]. intros rest' g' Hh. sh_inv Hh. }
    destruct (token_eqb t TSemicolon) eqn:Et.
    - destruct seen.
      + destruct (IH toks1 true r rest0 ltac:(cbn [List.length] in Hg; lia) H Hs) as (w & Hw & St).
        exists (t :: w). split; [rewrite Hw; reflexivity|].
        intros rest' g' Hh Hg'. destruct g' as [|g']; [lia|]. cbn [app vp_statements]. rewrite Et.
        apply St; [exact Hh|cbn [app List.length] in Hg'; lia].
      + passed r Hs. exists []. split; [reflexivity|]. intros rest' g' Hh Hg'. sh_inv Hh.
        destruct g' as [|g']; [lia|]. cbn [app vp_statements retag]. rewrite Et. reflexivity.
    - destruct (vp_statement tiers (20 * S (List.length (t :: toks1))) (t :: toks1)) as [r1 k] eqn:Es.
      assert (Hfst : fst (vp_statement tiers (20 * S (List.length (t :: toks1))) (t :: toks1)) = r1) by (rewrite Es; reflexivity).
      assert (Hk : forall F' l, snd (vp_statement tiers F' (t :: l)) = k).
      { intros F' l. rewrite (vp_statement_kind tiers F' t l toks1).
        rewrite (vp_statement_kind_fuel tiers F' (20 * S (List.length (t :: toks1)))). rewrite Es. reflexivity. }
      assert (Hrun : forall w1 x, t :: toks1 = w1 ++ x -> forall tail, same_head x tail -> forall g',
                vp_statements tiers (S g') (w1 ++ tail) seen =
                let (r, k) := vp_statement tiers (20 * S (List.length (w1 ++ tail))) (w1 ++ tail) in
                match r with
                | Done rest =>
                    match k with
                    | NoSemi => vp_statements tiers g' rest true
                    | NeedSemi =>
                        match rest with
                        | t2 :: rest2 =>
                            if token_eqb t2 TSemicolon then vp_statements tiers g' rest2 true else Fail rest
                        | [] => if seen then Done [] else More [TSemicolon]
                        end
                    end
                | More c => More (match k with NeedSemi => c ++ [TSemicolon] | NoSemi => c end)
                | other => other
                end).
      { intros w1 x Hw1 tail Hh g'. destruct (head_keep t toks1 w1 x tail Hw1 Hh) as (tl & Htl).
        cbn [vp_statements]. rewrite Htl, Et. reflexivity. }
      assert (Hpair : forall w1 x, t :: toks1 = w1 ++ x -> forall tail, same_head x tail -> forall F' res,
                fst (vp_statement tiers F' (w1 ++ tail)) = res -> vp_statement tiers F' (w1 ++ tail) = (res, k)).
      { intros w1 x Hw1 tail Hh F' res Hres. destruct (head_keep t toks1 w1 x tail Hw1 Hh) as (tl & Htl).
        rewrite Htl in Hres |- *. specialize (Hk F' tl).
        destruct (vp_statement tiers F' (t :: tl)) as [a b]. cbn [fst snd] in *. subst. reflexivity. }
      destruct r1 as [rest1|x|c|].
      + destruct (statement_fuel_stab _ _ _ _ (statement_fuel_ok tiers Hlen _) Hfst eq_refl) as (w1 & Hw1 & Hne1 & St1).
        specialize (Hne1 I).
        assert (Hl1 : (List.length rest1 < List.length (t :: toks1))%nat).
        { rewrite Hw1, app_length. destruct w1; [congruence|cbn [List.length]; lia]. }
        destruct k.
        * destruct rest1 as [|t2 rest2].
          { destruct seen; passed r Hs. exists w1. split; [exact Hw1|]. intros rest' g' Hh. sh_inv Hh. }
          destruct (token_eqb t2 TSemicolon) eqn:E2.
          -- destruct (IH rest2 true r rest0 ltac:(cbn [List.length] in *; lia) H Hs) as (w2 & Hw2 & St2).
             exists (w1 ++ t2 :: w2). split; [rewrite Hw1, Hw2; napp; reflexivity|].
             intros rest' g' Hh Hg'. destruct g' as [|g']; [lia|]. napp.
             rewrite (Hrun w1 _ Hw1 (t2 :: w2 ++ rest') (same_head_cons _ _ _)).
             rewrite (Hpair w1 _ Hw1 (t2 :: w2 ++ rest') (same_head_cons _ _ _) _ _
                        (St1 (t2 :: w2 ++ rest') _ (same_head_cons _ _ _) (statement_fuel_ok tiers Hlen _))).
             cbn [retag]. rewrite E2. apply St2; [exact Hh|].
             rewrite <- app_assoc in Hg'. rewrite app_length in Hg'. cbn [app List.length] in Hg'.
             destruct w1; [congruence|]. cbn [List.length] in Hg'. lia.
          -- passed r Hs. exists w1. split; [exact Hw1|].
             intros rest' g' Hh Hg'. sh_inv Hh. destruct g' as [|g']; [lia|].
             rewrite (Hrun w1 _ Hw1 (t2 :: r') (same_head_cons _ _ _)).
             rewrite (Hpair w1 _ Hw1 (t2 :: r') (same_head_cons _ _ _) _ _
                        (St1 (t2 :: r') _ (same_head_cons _ _ _) (statement_fuel_ok tiers Hlen _))).
             cbn [retag]. rewrite E2. reflexivity.
        * destruct (IH rest1 true r rest0 ltac:(cbn [List.length] in *; lia) H Hs) as (w2 & Hw2 & St2).
          exists (w1 ++ w2). split; [rewrite Hw1, Hw2; napp; reflexivity|].
          intros rest' g' Hh Hg'. destruct g' as [|g']; [lia|]. napp.
          destruct rest0 as [|k0 rest0']; [sh_inv Hh|].
          assert (Hh1 : same_head rest1 (w2 ++ rest')) by (rewrite Hw2; apply same_head_app; exact Hh).
          rewrite (Hrun w1 _ Hw1 (w2 ++ rest') Hh1).
          rewrite (Hpair w1 _ Hw1 (w2 ++ rest') Hh1 _ _
                     (St1 (w2 ++ rest') _ Hh1 (statement_fuel_ok tiers Hlen _))).
          cbn [retag]. apply St2; [exact Hh|].
          rewrite <- app_assoc in Hg'. rewrite app_length in Hg'.
          destruct w1; [congruence|]. cbn [List.length] in Hg'. lia.
      + passed r Hs.
        destruct (statement_fuel_stab _ _ _ _ (statement_fuel_ok tiers Hlen _) Hfst eq_refl) as (w1 & Hw1 & _ & St1).
        exists w1. split; [exact Hw1|].
        intros rest' g' Hh Hg'. destruct g' as [|g']; [lia|].
        rewrite (Hrun w1 _ Hw1 rest' Hh).
        rewrite (Hpair w1 _ Hw1 rest' Hh _ _ (St1 rest' _ Hh (statement_fuel_ok tiers Hlen _))).
        reflexivity.
      + passed r Hs.
      + passed r Hs.
  Qed.

  (* the whole text: a failure at a token stays when what follows the token is replaced *)
  Lemma vp_program_fail_stable pre k post post' :
    vp_program tiers (pre ++ k :: post) = Fail (k :: post) ->
    vp_program tiers (pre ++ k :: post') = Fail (k :: post').
  Proof.
    unfold vp_program. intros H.
    destruct (statements_stab _ _ _ _ _ (Nat.le_refl _) H eq_refl) as (w & Hw & St).
    apply app_inv_tail in Hw. subst w.
    exact (St (k :: post') _ (same_head_cons _ _ _) (Nat.le_refl _)).
  Qed.

  Lemma vp_program_fail_suffix ks rest : vp_program tiers ks = Fail rest ->
    exists pre k post, ks = pre ++ k :: post /\ rest = k :: post.
  Proof.
    unfold vp_program. intros H.
    destruct (statements_stab _ _ _ _ _ (Nat.le_refl _) H eq_refl) as (w & Hw & _).
    destruct rest as [|k post]; [exfalso; exact (fne_statements tiers _ _ _ H)|].
    exists w, k, post. split; [exact Hw|reflexivity].
  Qed.
End StabProgram.

(* ====================================================================================== *)
(* 6. completions                                                                         *)
(* ====================================================================================== *)
(* tokens that cannot continue an expression *)
Definition stopper (t : token) : bool :=
  match t with
  | TCloseParen | TCloseBracket | TCloseBrace | TSemicolon | TComma | TColon | TDotDot => true
  | _ => false
  end.
Definition stop_head (l : list token) : Prop := match l with [] => True | t :: _ => stopper t = true end.

Lemma stopper_no_op ops t : stopper t = true -> op_of_token ops t = None.
Proof.
  intros Ht. unfold op_of_token.
  assert (H : forall op, token_eqb (binop_token op) t = false).
  { intros op. destruct t; try discriminate Ht; destruct op; reflexivity. }
  induction ops as [|op ops IH]; [reflexivity|]. cbn [find]. rewrite H. exact IH.
Qed.
Lemma stopper_facts t : stopper t = true ->
  token_eqb t TIn = false /\ token_eqb t TOpenBracket = false /\ unop_of_token t = None /\
  token_eqb t TAssign = false /\ token_eqb t TOpenBrace = false.
Proof. intros H. destruct t; try discriminate H; repeat split; reflexivity. Qed.

(* a result with remaining tokens stays when tokens are appended *)
Lemma stab_ext (P : list token -> vres) toks k rest tail :
  VStab P -> P toks = Done (k :: rest) -> P (toks ++ tail) = Done (k :: rest ++ tail).
Proof.
  intros HS H. destruct (HS _ _ _ H eq_refl) as (w & -> & St).
  rewrite <- app_assoc. cbn [app]. exact (St (k :: rest ++ tail) (same_head_cons _ _ _)).
Qed.

Lemma slice_done_nil r1 tail : vp_slice r1 = Done [] -> vp_slice (r1 ++ tail) = Done tail.
Proof.
  unfold vp_slice. intros H.
  destruct r1 as [|t2 [|t3 [|t4 [|t5 r5]]]]; try discriminate H;
    repeat match type of H with context [if ?b then _ else _] => destruct b eqn:?; try discriminate H end.
  injection H as ->. cbn [app]. repeat match goal with E : _ = true |- _ => rewrite E; clear E end. reflexivity.
Qed.
Lemma slice_more r1 c tail : vp_slice r1 = More c -> vp_slice (r1 ++ c ++ tail) = Done tail.
Proof.
  unfold vp_slice. intros H.
  destruct r1 as [|t2 [|t3 [|t4 [|t5 r5]]]];
    repeat match type of H with context [if ?b then _ else _] => destruct b eqn:?; try discriminate H end;
    try discriminate H; injection H as <-; cbn [app];
    repeat match goal with E : _ = true |- _ => rewrite E; clear E end; reflexivity.
Qed.

Section Completion.
  Variable tiers : list tier.
  Hypothesis Hok : tiers_ok tiers.
  Notation T := (List.length tiers).
  Notation D := (S (S (S (S T)))).

  Lemma ext_tiers f f' ts toks k rest tail : vp_tiers tiers f ts toks = Done (k :: rest) -> (f <= f')%nat ->
    vp_tiers tiers f' ts (toks ++ tail) = Done (k :: rest ++ tail).
  Proof.
    intros H Hle. apply (stab_ext _ _ _ _ _ (VStab1_VStab _ (proj1 (stab_all tiers f') ts))).
    rewrite (proj1 (mono_all tiers f f' Hle) ts toks); [exact H|rewrite H; discriminate].
  Qed.
  Lemma ext_simple f f' toks k rest tail : vp_simple tiers f toks = Done (k :: rest) -> (f <= f')%nat ->
    vp_simple tiers f' (toks ++ tail) = Done (k :: rest ++ tail).
  Proof.
    intros H Hle. apply (stab_ext _ _ _ _ _ (VStab1_VStab _ (vp_simple_stab tiers f'))).
    rewrite (mono_simple tiers f f'); [exact H|exact Hle|rewrite H; discriminate].
  Qed.
  Lemma ext_mux f f' toks k rest tail : vp_mux_options tiers f toks = Done (k :: rest) -> (f <= f')%nat ->
    vp_mux_options tiers f' (toks ++ tail) = Done (k :: rest ++ tail).
  Proof.
    intros H Hle. apply (stab_ext _ _ _ _ _ (vp_mux_options_stab tiers f')).
    rewrite (mono_mux tiers f f'); [exact H|exact Hle|rewrite H; discriminate].
  Qed.
  Lemma ext_commas f f' toks k rest tail : vp_commas_exprs tiers f toks = Done (k :: rest) -> (f <= f')%nat ->
    vp_commas_exprs tiers f' (toks ++ tail) = Done (k :: rest ++ tail).
  Proof.
    intros H Hle.
    apply (stab_ext _ _ _ _ _ (proj2 (proj2 (proj2 (proj2 (proj2 (stab_all tiers f'))))))).
    rewrite (proj2 (proj2 (proj2 (proj2 (proj2 (mono_all tiers f f' Hle))))) toks); [exact H|rewrite H; discriminate].
  Qed.

  (* a name is an expression *)
  Lemma id_tiers : forall ts f rest', ts_ok ts -> stop_head rest' -> (List.length ts + 3 <= f)%nat ->
    vp_tiers tiers f ts (c_id :: rest') = Done rest'.
  Proof.
    induction ts as [|[k ops] ts IH]; intros f rest' Hts Hst Hf.
    - destruct f as [|[|[|f]]]; try (cbn [List.length] in Hf; lia).
      rewrite vp_tiers_S, vp_term_S. unfold c_id. cbn [unop_of_token]. rewrite vp_simple_S. cbv beta iota.
      destruct rest' as [|t1 r1]; [reflexivity|]. cbn [stop_head] in Hst.
      destruct (stopper_facts t1 Hst) as (_ & -> & _). reflexivity.
    - destruct f as [|f]; [lia|]. cbn [List.length] in Hf.
      rewrite vp_tiers_S. rewrite (IH f rest' (ts_ok_tl _ _ Hts) Hst ltac:(lia)).
      destruct k.
      + destruct f as [|f]; [lia|]. rewrite vp_left_loop_S. destruct rest' as [|t r]; [reflexivity|].
        cbn [stop_head] in Hst. rewrite (stopper_no_op ops t Hst). reflexivity.
      + destruct rest' as [|t r]; [reflexivity|]. cbn [stop_head] in Hst. rewrite (stopper_no_op ops t Hst). reflexivity.
      + destruct rest' as [|t r]; [reflexivity|]. cbn [stop_head] in Hst.
        destruct (stopper_facts t Hst) as (-> & _). reflexivity.
      + exfalso. exact (Hts KBad ops (or_introl eq_refl) eq_refl).
  Qed.

  Lemma loop_stop f rs ops rest' : stop_head rest' -> (1 <= f)%nat -> vp_left_loop tiers f rs ops rest' = Done rest'.
  Proof.
    intros Hst Hf. destruct f as [|f]; [lia|]. rewrite vp_left_loop_S. destruct rest' as [|t r]; [reflexivity|].
    cbn [stop_head] in Hst. rewrite (stopper_no_op ops t Hst). reflexivity.
  Qed.

  Definition CPL (P : nat -> list token -> vres) (fol : list token -> Prop) (f : nat) (toks : list token) : Prop :=
    (P f toks = Done [] -> forall rest' f', fol rest' -> (f + D <= f')%nat -> P f' (toks ++ rest') = Done rest') /\
    (forall c, P f toks = More c -> forall rest' f', fol rest' -> (f + D <= f')%nat -> P f' (toks ++ c ++ rest') = Done rest').

  Definition fol_is (k : token) (l : list token) : Prop := exists r, l = k :: r.

  Definition compl_at (f : nat) : Prop :=
    (forall ts toks, ts_ok ts -> (List.length ts <= T)%nat -> CPL (fun f => vp_tiers tiers f ts) stop_head f toks) /\
    (forall rs ops toks, ts_ok rs -> (List.length rs <= T)%nat -> CPL (fun f => vp_left_loop tiers f rs ops) stop_head f toks) /\
    (forall toks, CPL (vp_term tiers) stop_head f toks) /\
    (forall toks, CPL (vp_simple tiers) stop_head f toks) /\
    (forall toks, CPL (vp_mux_options tiers) (fol_is TCloseBracket) f toks) /\
    (forall toks, CPL (vp_commas_exprs tiers) (fol_is TCloseBrace) f toks).

  Ltac fuel_S f' f'' := destruct f' as [|f'']; [lia|].
  (* the remaining tokens begin with a token that cannot continue an expression: the function stops *)
  Ltac stopped rest' Hst :=
    let t := fresh "t" in let l := fresh "l" in
    destruct rest' as [|t l]; [reflexivity|]; cbn [stop_head] in Hst; cbv beta iota;
    first [ rewrite (stopper_no_op _ t Hst); reflexivity
          | rewrite (proj1 (stopper_facts t Hst)); reflexivity
          | rewrite (proj1 (proj2 (stopper_facts t Hst))); reflexivity ].

  Lemma compl_all : forall f, compl_at f.
  Proof.
    induction f as [|f IH].
    - unfold compl_at, CPL. repeat split; intros; discriminate.
    - destruct IH as (IH1 & IH2 & IH3 & IH4 & IH5 & IH6).
      unfold compl_at. split; [|split; [|split; [|split; [|split]]]].
      + (* vp_tiers *)
        intros ts toks Hts Hlt.
        assert (Hrs : forall x rs, ts = x :: rs -> ts_ok rs /\ (List.length rs <= T)%nat).
        { intros x rs ->. split; [eapply ts_ok_tl; eassumption|cbn [List.length] in Hlt; lia]. }
        split; [intros H rest' f' Hst Hf|intros c0 H rest' f' Hst Hf];
          fuel_S f' f''; rewrite vp_tiers_S in H; rewrite vp_tiers_S.
        * (* Done [] *)
          destruct ts as [|[[| | |] ops] rs].
          -- exact (proj1 (IH3 toks) H rest' f'' Hst ltac:(lia)).
          -- destruct (Hrs _ _ eq_refl) as (Hrs1 & Hlr).
             destruct (vp_tiers tiers f rs toks) as [[|k r1]|x|c|] eqn:E1; try discriminate H.
             ++ rewrite (proj1 (IH1 rs toks Hrs1 Hlr) E1 rest' f'' Hst ltac:(lia)).
                apply loop_stop; [exact Hst|lia].
             ++ rewrite (ext_tiers _ f'' _ _ _ _ rest' E1 ltac:(lia)).
                exact (proj1 (IH2 rs ops (k :: r1) Hrs1 Hlr) H rest' f'' Hst ltac:(lia)).
          -- destruct (Hrs _ _ eq_refl) as (Hrs1 & Hlr).
             destruct (vp_tiers tiers f rs toks) as [[|k r1]|x|c|] eqn:E1; try discriminate H.
             ++ rewrite (proj1 (IH1 rs toks Hrs1 Hlr) E1 rest' f'' Hst ltac:(lia)). stopped rest' Hst.
             ++ rewrite (ext_tiers _ f'' _ _ _ _ rest' E1 ltac:(lia)).
                destruct (op_of_token ops k); [|discriminate H].
                exact (proj1 (IH1 rs r1 Hrs1 Hlr) H rest' f'' Hst ltac:(lia)).
          -- destruct (Hrs _ _ eq_refl) as (Hrs1 & Hlr).
             destruct (vp_tiers tiers f rs toks) as [[|k r1]|x|c|] eqn:E1; try discriminate H.
             ++ rewrite (proj1 (IH1 rs toks Hrs1 Hlr) E1 rest' f'' Hst ltac:(lia)). stopped rest' Hst.
             ++ rewrite (ext_tiers _ f'' _ _ _ _ rest' E1 ltac:(lia)).
                destruct (token_eqb k TIn); [|discriminate H].
                destruct r1 as [|t2 toks2]; [discriminate H|]. cbn [app].
                destruct (token_eqb t2 TOpenBrace); [|discriminate H].
                apply expect_done in H. destruct H as (t3 & H & Et3).
                rewrite (ext_commas _ f'' _ _ _ rest' H ltac:(lia)). cbn [app expect].
                rewrite Et3. reflexivity.
          -- discriminate H.
        * (* More c0 *)
          destruct ts as [|[[| | |] ops] rs].
          -- exact (proj2 (IH3 toks) c0 H rest' f'' Hst ltac:(lia)).
          -- destruct (Hrs _ _ eq_refl) as (Hrs1 & Hlr).
             destruct (vp_tiers tiers f rs toks) as [[|k r1]|x|c|] eqn:E1; try discriminate H.
             ++ exfalso. destruct f as [|f0]; [discriminate H|]. rewrite vp_left_loop_S in H. discriminate H.
             ++ rewrite (ext_tiers _ f'' _ _ _ _ (c0 ++ rest') E1 ltac:(lia)).
                exact (proj2 (IH2 rs ops (k :: r1) Hrs1 Hlr) c0 H rest' f'' Hst ltac:(lia)).
             ++ injection H as ->.
                rewrite (proj2 (IH1 rs toks Hrs1 Hlr) c0 E1 rest' f'' Hst ltac:(lia)).
                apply loop_stop; [exact Hst|lia].
          -- destruct (Hrs _ _ eq_refl) as (Hrs1 & Hlr).
             destruct (vp_tiers tiers f rs toks) as [[|k r1]|x|c|] eqn:E1; try discriminate H.
             ++ rewrite (ext_tiers _ f'' _ _ _ _ (c0 ++ rest') E1 ltac:(lia)).
                destruct (op_of_token ops k); [|discriminate H].
                exact (proj2 (IH1 rs r1 Hrs1 Hlr) c0 H rest' f'' Hst ltac:(lia)).
             ++ injection H as ->.
                rewrite (proj2 (IH1 rs toks Hrs1 Hlr) c0 E1 rest' f'' Hst ltac:(lia)). stopped rest' Hst.
          -- destruct (Hrs _ _ eq_refl) as (Hrs1 & Hlr).
             destruct (vp_tiers tiers f rs toks) as [[|k r1]|x|c|] eqn:E1; try discriminate H.
             ++ rewrite (ext_tiers _ f'' _ _ _ _ (c0 ++ rest') E1 ltac:(lia)).
                destruct (token_eqb k TIn); [|discriminate H].
                destruct r1 as [|t2 toks2].
                { injection H as <-. cbn [app]. cbn [token_eqb]. fuel_S f'' f3.
                  rewrite vp_commas_exprs_S. cbn [token_eqb expect]. reflexivity. }
                cbn [app]. destruct (token_eqb t2 TOpenBrace); [|discriminate H].
                destruct (expect_more _ _ _ H) as [(E2 & ->)|(c1 & E2 & ->)].
                ** cbn [app]. rewrite (proj1 (IH6 toks2) E2 (TCloseBrace :: rest') f'' ltac:(eexists; reflexivity) ltac:(lia)).
                   reflexivity.
                ** rewrite <- app_assoc. cbn [app].
                   rewrite (proj2 (IH6 toks2) c1 E2 (TCloseBrace :: rest') f'' ltac:(eexists; reflexivity) ltac:(lia)).
                   reflexivity.
             ++ injection H as ->.
                rewrite (proj2 (IH1 rs toks Hrs1 Hlr) c0 E1 rest' f'' Hst ltac:(lia)). stopped rest' Hst.
          -- discriminate H.
      + (* vp_left_loop *)
        intros rs ops toks Hrs1 Hlr.
        split; [intros H rest' f' Hst Hf|intros c0 H rest' f' Hst Hf];
          fuel_S f' f''; rewrite vp_left_loop_S in H.
        * destruct toks as [|t toks1]; [cbn [app]; apply loop_stop; [exact Hst|lia]|].
          rewrite vp_left_loop_S. cbn [app].
          destruct (op_of_token ops t); [|discriminate H].
          destruct (vp_tiers tiers f rs toks1) as [[|k r1]|x|c|] eqn:E1; try discriminate H.
          -- rewrite (proj1 (IH1 rs toks1 Hrs1 Hlr) E1 rest' f'' Hst ltac:(lia)).
             apply loop_stop; [exact Hst|lia].
          -- rewrite (ext_tiers _ f'' _ _ _ _ rest' E1 ltac:(lia)).
             exact (proj1 (IH2 rs ops (k :: r1) Hrs1 Hlr) H rest' f'' Hst ltac:(lia)).
        * destruct toks as [|t toks1]; [discriminate H|].
          rewrite vp_left_loop_S. cbn [app].
          destruct (op_of_token ops t); [|discriminate H].
          destruct (vp_tiers tiers f rs toks1) as [[|k r1]|x|c|] eqn:E1; try discriminate H.
          -- exfalso. destruct f as [|f0]; [discriminate H|]. rewrite vp_left_loop_S in H. discriminate H.
          -- rewrite (ext_tiers _ f'' _ _ _ _ (c0 ++ rest') E1 ltac:(lia)).
             exact (proj2 (IH2 rs ops (k :: r1) Hrs1 Hlr) c0 H rest' f'' Hst ltac:(lia)).
          -- injection H as ->.
             rewrite (proj2 (IH1 rs toks1 Hrs1 Hlr) c0 E1 rest' f'' Hst ltac:(lia)).
             apply loop_stop; [exact Hst|lia].
      + (* vp_term *)
        intros toks.
        split; [intros H rest' f' Hst Hf|intros c0 H rest' f' Hst Hf];
          fuel_S f' f''; rewrite vp_term_S in H.
        * destruct toks as [|t toks1]; [discriminate H|]. rewrite vp_term_S. cbn [app].
          destruct (unop_of_token t).
          -- exact (proj1 (IH4 toks1) H rest' f'' Hst ltac:(lia)).
          -- destruct (vp_simple tiers f (t :: toks1)) as [[|k r1]|x|c|] eqn:E1; try discriminate H.
             ++ change (t :: toks1 ++ rest') with ((t :: toks1) ++ rest').
                rewrite (proj1 (IH4 (t :: toks1)) E1 rest' f'' Hst ltac:(lia)). stopped rest' Hst.
             ++ change (t :: toks1 ++ rest') with ((t :: toks1) ++ rest').
                rewrite (ext_simple _ f'' _ _ _ rest' E1 ltac:(lia)).
                destruct (token_eqb k TOpenBracket); [|discriminate H].
                apply slice_done_nil. exact H.
        * destruct toks as [|t toks1].
          { injection H as <-. cbn [app]. rewrite vp_term_S. unfold c_id. cbn [unop_of_token].
            fuel_S f'' f3. rewrite vp_simple_S. cbv beta iota. stopped rest' Hst. }
          rewrite vp_term_S. cbn [app].
          destruct (unop_of_token t).
          -- exact (proj2 (IH4 toks1) c0 H rest' f'' Hst ltac:(lia)).
          -- destruct (vp_simple tiers f (t :: toks1)) as [[|k r1]|x|c|] eqn:E1; try discriminate H.
             ++ change (t :: toks1 ++ c0 ++ rest') with ((t :: toks1) ++ c0 ++ rest').
                rewrite (ext_simple _ f'' _ _ _ (c0 ++ rest') E1 ltac:(lia)).
                destruct (token_eqb k TOpenBracket); [|discriminate H].
                apply slice_more. exact H.
             ++ injection H as ->. change (t :: toks1 ++ c0 ++ rest') with ((t :: toks1) ++ c0 ++ rest').
                rewrite (proj2 (IH4 (t :: toks1)) c0 E1 rest' f'' Hst ltac:(lia)). stopped rest' Hst.
      + (* vp_simple *)
        intros toks.
        split; [intros H rest' f' Hst Hf|intros c0 H rest' f' Hst Hf];
          fuel_S f' f''; rewrite vp_simple_S in H.
        * destruct toks as [|t toks1]; [discriminate H|]. rewrite vp_simple_S. cbn [app].
          destruct t; try discriminate H; try (injection H as ->; reflexivity).
          -- (* ( *)
             destruct (vp_tiers tiers f tiers toks1) as [[|t2 toks2]|x|c|] eqn:E1; try discriminate H.
             rewrite (ext_tiers _ f'' _ _ _ _ rest' E1 ltac:(lia)).
             destruct (token_eqb t2 TCloseParen); [injection H as ->; reflexivity|].
             destruct (token_eqb t2 TDotDot); [|discriminate H].
             apply expect_done in H. destruct H as (t3 & H & Et3).
             rewrite (ext_tiers _ f'' _ _ _ _ rest' H ltac:(lia)). cbn [app expect]. rewrite Et3. reflexivity.
          -- (* [ *)
             apply expect_done in H. destruct H as (t3 & H & Et3).
             rewrite (ext_mux _ f'' _ _ _ rest' H ltac:(lia)). cbn [app expect]. rewrite Et3. reflexivity.
        * destruct toks as [|t toks1].
          { injection H as <-. cbn [app]. rewrite vp_simple_S. reflexivity. }
          rewrite vp_simple_S. cbn [app].
          destruct t; try discriminate H.
          -- (* ( *)
             destruct (vp_tiers tiers f tiers toks1) as [[|t2 toks2]|x|c|] eqn:E1; try discriminate H.
             ++ injection H as <-. cbn [app].
                rewrite (proj1 (IH1 tiers toks1 Hok (Nat.le_refl _)) E1 (TCloseParen :: rest') f'' eq_refl ltac:(lia)).
                reflexivity.
             ++ rewrite (ext_tiers _ f'' _ _ _ _ (c0 ++ rest') E1 ltac:(lia)).
                destruct (token_eqb t2 TCloseParen); [discriminate H|].
                destruct (token_eqb t2 TDotDot); [|discriminate H].
                destruct (expect_more _ _ _ H) as [(E2 & ->)|(c1 & E2 & ->)].
                ** cbn [app].
                   rewrite (proj1 (IH1 tiers toks2 Hok (Nat.le_refl _)) E2 (TCloseParen :: rest') f'' eq_refl ltac:(lia)).
                   reflexivity.
                ** rewrite <- app_assoc. cbn [app].
                   rewrite (proj2 (IH1 tiers toks2 Hok (Nat.le_refl _)) c1 E2 (TCloseParen :: rest') f'' eq_refl ltac:(lia)).
                   reflexivity.
             ++ injection H as <-. rewrite <- app_assoc. cbn [app].
                rewrite (proj2 (IH1 tiers toks1 Hok (Nat.le_refl _)) c E1 (TCloseParen :: rest') f'' eq_refl ltac:(lia)).
                reflexivity.
          -- (* [ *)
             destruct (expect_more _ _ _ H) as [(E2 & ->)|(c1 & E2 & ->)].
             ++ cbn [app].
                rewrite (proj1 (IH5 toks1) E2 (TCloseBracket :: rest') f'' ltac:(eexists; reflexivity) ltac:(lia)).
                reflexivity.
             ++ rewrite <- app_assoc. cbn [app].
                rewrite (proj2 (IH5 toks1) c1 E2 (TCloseBracket :: rest') f'' ltac:(eexists; reflexivity) ltac:(lia)).
                reflexivity.
      + (* vp_mux_options *)
        intros toks.
        split; [intros H rest' f' (r' & ->) Hf|intros c0 H rest' f' (r' & ->) Hf];
          fuel_S f' f''; rewrite vp_mux_options_S in H.
        * destruct toks as [|t toks1]; [cbn [app]; rewrite vp_mux_options_S; reflexivity|].
          rewrite vp_mux_options_S. cbn [app].
          destruct (token_eqb t TCloseBracket); [discriminate H|].
          change (t :: toks1 ++ TCloseBracket :: r') with ((t :: toks1) ++ TCloseBracket :: r').
          destruct (vp_tiers tiers f tiers (t :: toks1)) as [[|t1 toks2]|x|c|] eqn:E1; try discriminate H.
          rewrite (ext_tiers _ f'' _ _ _ _ (TCloseBracket :: r') E1 ltac:(lia)).
          destruct (token_eqb t1 TColon); [|discriminate H].
          destruct (vp_tiers tiers f tiers toks2) as [[|t2 toks3]|x|c|] eqn:E2; try discriminate H.
          -- rewrite (proj1 (IH1 tiers toks2 Hok (Nat.le_refl _)) E2 (TCloseBracket :: r') f'' eq_refl ltac:(lia)).
             reflexivity.
          -- rewrite (ext_tiers _ f'' _ _ _ _ (TCloseBracket :: r') E2 ltac:(lia)).
             destruct (token_eqb t2 TSemicolon); [|discriminate H].
             exact (proj1 (IH5 toks3) H (TCloseBracket :: r') f'' ltac:(eexists; reflexivity) ltac:(lia)).
        * destruct toks as [|t toks1]; [discriminate H|].
          rewrite vp_mux_options_S. cbn [app].
          destruct (token_eqb t TCloseBracket); [discriminate H|].
          change (t :: toks1 ++ c0 ++ TCloseBracket :: r') with ((t :: toks1) ++ c0 ++ TCloseBracket :: r').
          assert (Hid : forall g, (f + D <= g)%nat ->
                    vp_tiers tiers g tiers (c_id :: TCloseBracket :: r') = Done (TCloseBracket :: r')).
          { intros g Hg. apply id_tiers; [exact Hok|reflexivity|lia]. }
          destruct (vp_tiers tiers f tiers (t :: toks1)) as [[|t1 toks2]|x|c|] eqn:E1; try discriminate H.
          -- injection H as <-.
             change ([TColon; c_id] ++ TCloseBracket :: r') with (TColon :: c_id :: TCloseBracket :: r').
             rewrite (proj1 (IH1 tiers (t :: toks1) Hok (Nat.le_refl _)) E1 (TColon :: c_id :: TCloseBracket :: r') f''
                        eq_refl ltac:(lia)).
             cbn [token_eqb]. rewrite (Hid f'' ltac:(lia)). reflexivity.
          -- rewrite (ext_tiers _ f'' _ _ _ _ (c0 ++ TCloseBracket :: r') E1 ltac:(lia)).
             destruct (token_eqb t1 TColon); [|discriminate H].
             destruct (vp_tiers tiers f tiers toks2) as [[|t2 toks3]|x|c|] eqn:E2; try discriminate H.
             ++ rewrite (ext_tiers _ f'' _ _ _ _ (c0 ++ TCloseBracket :: r') E2 ltac:(lia)).
                destruct (token_eqb t2 TSemicolon); [|discriminate H].
                exact (proj2 (IH5 toks3) c0 H (TCloseBracket :: r') f'' ltac:(eexists; reflexivity) ltac:(lia)).
             ++ injection H as ->.
                rewrite (proj2 (IH1 tiers toks2 Hok (Nat.le_refl _)) c0 E2 (TCloseBracket :: r') f'' eq_refl ltac:(lia)).
                reflexivity.
          -- injection H as <-. rewrite <- app_assoc.
             change ([TColon; c_id] ++ TCloseBracket :: r') with (TColon :: c_id :: TCloseBracket :: r').
             rewrite (proj2 (IH1 tiers (t :: toks1) Hok (Nat.le_refl _)) c E1 (TColon :: c_id :: TCloseBracket :: r') f''
                        eq_refl ltac:(lia)).
             cbn [token_eqb]. rewrite (Hid f'' ltac:(lia)). reflexivity.
      + (* vp_commas_exprs *)
        intros toks.
        split; [intros H rest' f' (r' & ->) Hf|intros c0 H rest' f' (r' & ->) Hf];
          fuel_S f' f''; rewrite vp_commas_exprs_S in H.
        * destruct toks as [|t toks1]; [cbn [app]; rewrite vp_commas_exprs_S; reflexivity|].
          rewrite vp_commas_exprs_S. cbn [app].
          destruct (token_eqb t TCloseBrace); [discriminate H|].
          change (t :: toks1 ++ TCloseBrace :: r') with ((t :: toks1) ++ TCloseBrace :: r').
          destruct (vp_tiers tiers f tiers (t :: toks1)) as [[|t1 toks2]|x|c|] eqn:E1; try discriminate H.
          -- rewrite (proj1 (IH1 tiers (t :: toks1) Hok (Nat.le_refl _)) E1 (TCloseBrace :: r') f'' eq_refl ltac:(lia)).
             reflexivity.
          -- rewrite (ext_tiers _ f'' _ _ _ _ (TCloseBrace :: r') E1 ltac:(lia)).
             destruct (token_eqb t1 TComma); [|discriminate H].
             exact (proj1 (IH6 toks2) H (TCloseBrace :: r') f'' ltac:(eexists; reflexivity) ltac:(lia)).
        * destruct toks as [|t toks1]; [discriminate H|].
          rewrite vp_commas_exprs_S. cbn [app].
          destruct (token_eqb t TCloseBrace); [discriminate H|].
          change (t :: toks1 ++ c0 ++ TCloseBrace :: r') with ((t :: toks1) ++ c0 ++ TCloseBrace :: r').
          destruct (vp_tiers tiers f tiers (t :: toks1)) as [[|t1 toks2]|x|c|] eqn:E1; try discriminate H.
          -- rewrite (ext_tiers _ f'' _ _ _ _ (c0 ++ TCloseBrace :: r') E1 ltac:(lia)).
             destruct (token_eqb t1 TComma); [|discriminate H].
             exact (proj2 (IH6 toks2) c0 H (TCloseBrace :: r') f'' ltac:(eexists; reflexivity) ltac:(lia)).
          -- injection H as ->.
             rewrite (proj2 (IH1 tiers (t :: toks1) Hok (Nat.le_refl _)) c0 E1 (TCloseBrace :: r') f'' eq_refl ltac:(lia)).
             reflexivity.
  Qed.
End Completion.

(* the tokens of a completion: all satisfy any predicate that holds of the name, the literal and the
   punctuation used *)
Section ComplTokens.
  Variable tiers : list tier.
  Variable Q : token -> Prop.
  Hypothesis Qid : Q c_id.
  Hypothesis Qlit : Q c_lit.
  Hypothesis Q1 : Q TCloseParen.
  Hypothesis Q2 : Q TCloseBracket.
  Hypothesis Q3 : Q TCloseBrace.
  Hypothesis Q4 : Q TOpenBrace.
  Hypothesis Q5 : Q TColon.
  Hypothesis Q6 : Q TDotDot.

  Definition ct_at (f : nat) : Prop :=
    (forall ts toks c, vp_tiers tiers f ts toks = More c -> Forall Q c) /\
    (forall rs ops toks c, vp_left_loop tiers f rs ops toks = More c -> Forall Q c) /\
    (forall toks c, vp_term tiers f toks = More c -> Forall Q c) /\
    (forall toks c, vp_simple tiers f toks = More c -> Forall Q c) /\
    (forall toks c, vp_mux_options tiers f toks = More c -> Forall Q c) /\
    (forall toks c, vp_commas_exprs tiers f toks = More c -> Forall Q c).

  Lemma Forall_app2 (a b : list token) : Forall Q a -> Forall Q b -> Forall Q (a ++ b).
  Proof. intros Ha Hb. apply Forall_app. split; assumption. Qed.

  Ltac ct_leaf H :=
    first [ discriminate H
          | (injection H as <-; repeat first [apply Forall_app2 | constructor]; first [assumption | eassumption]) ].

  Ltac ct_call IH1 IH2 IH3 IH4 IH5 IH6 f H :=
    match type of H with
    | context [vp_tiers tiers f ?a ?b] =>
        let E := fresh "E" in destruct (vp_tiers tiers f a b) eqn:E; [| | apply IH1 in E |]
    | context [vp_left_loop tiers f ?a ?b ?c] =>
        let E := fresh "E" in destruct (vp_left_loop tiers f a b c) eqn:E; [| | apply IH2 in E |]
    | context [vp_term tiers f ?a] =>
        let E := fresh "E" in destruct (vp_term tiers f a) eqn:E; [| | apply IH3 in E |]
    | context [vp_simple tiers f ?a] =>
        let E := fresh "E" in destruct (vp_simple tiers f a) eqn:E; [| | apply IH4 in E |]
    | context [vp_mux_options tiers f ?a] =>
        let E := fresh "E" in destruct (vp_mux_options tiers f a) eqn:E; [| | apply IH5 in E |]
    | context [vp_commas_exprs tiers f ?a] =>
        let E := fresh "E" in destruct (vp_commas_exprs tiers f a) eqn:E; [| | apply IH6 in E |]
    end.

  Ltac ct_go IH1 IH2 IH3 IH4 IH5 IH6 f H :=
    unfold expect, closing, vp_slice in *;
    repeat first [ct_leaf H | ct_call IH1 IH2 IH3 IH4 IH5 IH6 f H | scrut H].

  Lemma ct_all : forall f, ct_at f.
  Proof.
    induction f as [|f IH].
    - repeat split; intros; discriminate.
    - destruct IH as (IH1 & IH2 & IH3 & IH4 & IH5 & IH6).
      repeat split.
      + intros ts toks c0 H. rewrite vp_tiers_S in H.
        destruct ts as [|[[| | |] ops] rest]; ct_go IH1 IH2 IH3 IH4 IH5 IH6 f H.
      + intros rest ops toks c0 H. rewrite vp_left_loop_S in H. ct_go IH1 IH2 IH3 IH4 IH5 IH6 f H.
      + intros toks c0 H. rewrite vp_term_S in H. ct_go IH1 IH2 IH3 IH4 IH5 IH6 f H.
      + intros toks c0 H. rewrite vp_simple_S in H. destruct toks as [|[] toks1]; ct_go IH1 IH2 IH3 IH4 IH5 IH6 f H.
      + intros toks c0 H. rewrite vp_mux_options_S in H. ct_go IH1 IH2 IH3 IH4 IH5 IH6 f H.
      + intros toks c0 H. rewrite vp_commas_exprs_S in H. ct_go IH1 IH2 IH3 IH4 IH5 IH6 f H.
  Qed.

  Lemma ct_expr f toks c : vp_expr tiers f toks = More c -> Forall Q c.
  Proof. apply (ct_all f). Qed.
  Lemma ct_simple f toks c : vp_simple tiers f toks = More c -> Forall Q c.
  Proof. apply (ct_all f). Qed.
  Lemma ct_mux f toks c : vp_mux_options tiers f toks = More c -> Forall Q c.
  Proof. apply (ct_all f). Qed.

  Lemma ct_expect k r c : Q k -> (forall c1, r = More c1 -> Forall Q c1) -> expect k r = More c -> Forall Q c.
  Proof.
    intros Hk Hr H. destruct (expect_more _ _ _ H) as [(_ & ->)|(c1 & E & ->)].
    - repeat constructor. exact Hk.
    - apply Forall_app2; [exact (Hr c1 E)|repeat constructor; exact Hk].
  Qed.

  (* declarations and statements use "=" and ";" too *)
  Hypothesis Q7 : Q TAssign.
  Hypothesis Q8 : Q TSemicolon.

  Ltac dleaf H :=
    first [ discriminate H
          | (injection H as <-; repeat first [apply Forall_app2 | constructor]; first [assumption | eassumption])
          | exact (ct_expr _ _ _ H) ].
  Ltac dwalk H := repeat first [dleaf H | scrut H].

  Lemma ct_width_value f toks c : vp_width_value tiers f toks = More c -> Forall Q c.
  Proof. intros H. unfold vp_width_value in H. dwalk H. Qed.
  Lemma ct_wire_decl f toks c : vp_wire_decl tiers f toks = More c -> Forall Q c.
  Proof. intros H. unfold vp_wire_decl in H. dwalk H. Qed.
  Lemma ct_const_decl f toks c : vp_const_decl tiers f toks = More c -> Forall Q c.
  Proof. intros H. unfold vp_const_decl in H. dwalk H; exact (ct_width_value _ _ _ H). Qed.
  Lemma ct_reg_decl f toks c : vp_reg_decl tiers f toks = More c -> Forall Q c.
  Proof. intros H. unfold vp_reg_decl in H. dwalk H; exact (ct_width_value _ _ _ H). Qed.
  Lemma ct_assignment f toks c : vp_assignment tiers f toks = More c -> Forall Q c.
  Proof.
    intros H. unfold vp_assignment in H. dwalk H.
    revert H. apply ct_expect; [exact Q2|]. intros c1 E. exact (ct_mux _ _ _ E).
  Qed.
  Lemma ct_list starts sep (item : nat -> list token -> vres) :
    (forall f toks c, item f toks = More c -> Forall Q c) ->
    forall f toks c, vp_list starts sep item f toks = More c -> Forall Q c.
  Proof.
    intros Hitem. induction f as [|f IH]; intros toks c H; [discriminate H|].
    cbn [vp_list] in H. destruct toks as [|t1 toks1]; [discriminate H|].
    destruct (starts t1); [|discriminate H].
    destruct (item f (t1 :: toks1)) as [[|t r1]|x|c1|] eqn:Ei; try discriminate H.
    - destruct (token_eqb t sep); [exact (IH _ _ H)|discriminate H].
    - injection H as <-. exact (Hitem _ _ _ Ei).
  Qed.
  Lemma ct_assignments : forall f toks c, vp_assignments tiers f toks = More c -> Forall Q c.
  Proof.
    induction f as [|f IH]; intros toks c H; [discriminate H|].
    cbn [vp_assignments] in H.
    destruct (vp_assignment tiers f toks) as [[|t r1]|x|c1|] eqn:Ea; try discriminate H.
    - destruct (token_eqb t TComma); [|discriminate H].
      destruct r1 as [|t2 r2]; [discriminate H|]. destruct (starts_name t2); [exact (IH _ _ H)|discriminate H].
    - injection H as <-. exact (ct_assignment _ _ _ Ea).
  Qed.
  Lemma ct_statement f toks c : fst (vp_statement tiers f toks) = More c -> Forall Q c.
  Proof.
    intros H. unfold vp_statement in H. destruct toks as [|t toks1].
    { injection H as <-. repeat constructor. exact Qid. }
    destruct t; cbn [fst] in H; try discriminate H; try exact (ct_simple _ _ _ H).
    - exact (ct_list _ _ _ ct_wire_decl _ _ _ H).
    - exact (ct_list _ _ _ ct_const_decl _ _ _ H).
    - dwalk H. revert H. apply ct_expect; [exact Q3|]. intros c1 E. exact (ct_list _ _ _ ct_reg_decl _ _ _ E).
    - destruct (next_tok_is TAssign toks1 || next_tok_is TOpenBracket toks1); cbn [fst] in H.
      + exact (ct_assignments _ _ _ H).
      + exact (ct_simple _ _ _ H).
  Qed.
  Lemma ct_statements : forall f toks seen c, vp_statements tiers f toks seen = More c -> Forall Q c.
  Proof.
    induction f as [|f IH]; intros toks seen c H; [discriminate H|].
    cbn [vp_statements] in H. destruct toks as [|t toks1].
    { destruct seen; [discriminate H|]. injection H as <-. repeat constructor; assumption. }
    destruct (token_eqb t TSemicolon).
    { destruct seen; [exact (IH _ _ _ H)|discriminate H]. }
    destruct (vp_statement tiers (20 * S (List.length (t :: toks1))) (t :: toks1)) as [r k] eqn:Es.
    assert (Hc : forall c1, r = More c1 -> Forall Q c1).
    { intros c1 ->. apply (ct_statement (20 * S (List.length (t :: toks1))) (t :: toks1)). rewrite Es. reflexivity. }
    destruct r as [rest|x|c1|]; try discriminate H.
    - destruct k; [|exact (IH _ _ _ H)].
      destruct rest as [|t2 rest2].
      + destruct seen; [discriminate H|]. injection H as <-. repeat constructor. exact Q8.
      + destruct (token_eqb t2 TSemicolon); [exact (IH _ _ _ H)|discriminate H].
    - injection H as <-. specialize (Hc c1 eq_refl). destruct k; [|exact Hc].
      apply Forall_app2; [exact Hc|repeat constructor; exact Q8].
  Qed.
End ComplTokens.

(* a completion of an expression contains no "=" *)
Definition no_assign (c : list token) : Prop := Forall (fun t => token_eqb t TAssign = false) c.
Lemma vp_expr_na tiers f toks c : vp_expr tiers f toks = More c -> no_assign c.
Proof. apply ct_expr; reflexivity. Qed.

(* the tokens of a completion are their own kinds *)
Lemma vp_program_completion_kinds tiers ks c : vp_program tiers ks = More c -> map kind_of c = c.
Proof.
  unfold vp_program. intros H.
  assert (HF : Forall (fun t => kind_of t = t) c) by (revert H; apply ct_statements; reflexivity).
  clear H. induction HF as [|t l Ht _ IH]; [reflexivity|]. cbn [map]. rewrite Ht, IH. reflexivity.
Qed.

(* ---- completions of declarations, statements and the whole text ---- *)
Lemma ext_gen (P : nat -> list token -> vres) :
  (forall f, VStab (P f)) ->
  (forall f f' toks, (f <= f')%nat -> P f toks <> Stuck -> P f' toks = P f toks) ->
  forall f f' toks k rest tail, P f toks = Done (k :: rest) -> (f <= f')%nat ->
    P f' (toks ++ tail) = Done (k :: rest ++ tail).
Proof.
  intros HS HM f f' toks k rest tail H Hle. apply (stab_ext _ _ _ _ _ (HS f')).
  rewrite (HM f f' toks Hle); [exact H|rewrite H; discriminate].
Qed.

Lemma vp_targets_app : forall n L E, (List.length L <= n)%nat ->
  (forall e E', E = e :: E' -> token_eqb e TAssign = false) ->
  (forall e1 e2 E', E = e1 :: e2 :: E' -> starts_name e1 && token_eqb e2 TAssign = false) ->
  vp_targets (L ++ E) = vp_targets L ++ E.
Proof.
  induction n as [|n IH]; intros L E Hn H1 H2.
  - destruct L; [|cbn in Hn; lia]. cbn [app vp_targets].
    destruct E as [|e1 [|e2 E']]; [reflexivity|reflexivity|]. cbn [vp_targets]. rewrite (H2 e1 e2 E' eq_refl). reflexivity.
  - destruct L as [|t1 [|t2 L1]].
    + cbn [app vp_targets].
      destruct E as [|e1 [|e2 E']]; [reflexivity|reflexivity|]. cbn [vp_targets]. rewrite (H2 e1 e2 E' eq_refl). reflexivity.
    + cbn [app vp_targets]. destruct E as [|e E']; [reflexivity|]. rewrite (H1 e E' eq_refl).
      rewrite Bool.andb_false_r. reflexivity.
    + cbn [app vp_targets]. destruct (starts_name t1 && token_eqb t2 TAssign); [|reflexivity].
      apply IH; [cbn [List.length] in Hn; lia|exact H1|exact H2].
Qed.

Section DeclCompletion.
  Variable tiers : list tier.
  Hypothesis Hok : tiers_ok tiers.
  Notation T := (List.length tiers).
  Notation D := (S (S (S (S T)))).
  Notation CPL := (CPL tiers).

  Lemma cpl_expr f toks : CPL (vp_expr tiers) stop_head f toks.
  Proof. exact (proj1 (compl_all tiers Hok f) tiers toks Hok (Nat.le_refl _)). Qed.
  Lemma cpl_simple f toks : CPL (vp_simple tiers) stop_head f toks.
  Proof. exact (proj1 (proj2 (proj2 (proj2 (compl_all tiers Hok f)))) toks). Qed.
  Lemma cpl_mux f toks : CPL (vp_mux_options tiers) (fol_is TCloseBracket) f toks.
  Proof. exact (proj1 (proj2 (proj2 (proj2 (proj2 (compl_all tiers Hok f))))) toks). Qed.

  Lemma id_expr g rest' : stop_head rest' -> (T + 3 <= g)%nat -> vp_expr tiers g (c_id :: rest') = Done rest'.
  Proof. intros Hst Hg. apply (id_tiers tiers); [exact Hok|exact Hst|lia]. Qed.

  Lemma fol_stop k rest' : stopper k = true -> fol_is k rest' -> stop_head rest'.
  Proof. intros Hk (r & ->). exact Hk. Qed.

  (* CPL of a function that has read some tokens and goes on with an expression *)
  Ltac use_expr H Hst Hf :=
    first [ exact (proj1 (cpl_expr _ _) H _ _ Hst Hf)
          | exact (proj2 (cpl_expr _ _) _ H _ _ Hst Hf) ].

  Lemma cpl_width_value f toks : CPL (vp_width_value tiers) stop_head f toks.
  Proof.
    split; [intros H rest' f' Hst Hf|intros c0 H rest' f' Hst Hf]; unfold vp_width_value in H |- *.
    - destruct toks as [|t3 [|t4 rest4]]; try discriminate H; cbn [app].
      + destruct (is_lit t3); discriminate H.
      + destruct (is_lit t3); [|discriminate H]. destruct (token_eqb t4 TAssign); [|discriminate H]. use_expr H Hst Hf.
    - destruct toks as [|t3 [|t4 rest4]]; cbn [app].
      + injection H as <-. cbn [app is_lit c_lit token_eqb]. apply id_expr; [exact Hst|lia].
      + destruct (is_lit t3); [|discriminate H]. injection H as <-. cbn [app token_eqb]. apply id_expr; [exact Hst|lia].
      + destruct (is_lit t3); [|discriminate H]. destruct (token_eqb t4 TAssign); [|discriminate H]. use_expr H Hst Hf.
  Qed.

  Definition semi_or_comma (rest' : list token) : Prop := fol_is TSemicolon rest' \/ fol_is TComma rest'.

  Lemma cpl_wire_decl f toks : CPL (vp_wire_decl tiers) (fol_is TSemicolon) f toks.
  Proof.
    split; [intros H rest' f' Hfol Hf|intros c0 H rest' f' Hfol Hf];
      pose proof (fol_stop TSemicolon _ eq_refl Hfol) as Hst; destruct Hfol as (r' & ->); unfold vp_wire_decl in H |- *.
    - destruct toks as [|t1 rest1]; [discriminate H|]. cbn [app]. destruct (starts_name t1); [|discriminate H].
      destruct rest1 as [|t2 rest2]; [reflexivity|]. cbn [app].
      destruct (token_eqb t2 TColon).
      + destruct rest2 as [|t3 rest3]; [discriminate H|]. cbn [app]. destruct (is_lit t3); [|discriminate H].
        destruct rest3 as [|t4 rest4]; [reflexivity|]. cbn [app].
        destruct (token_eqb t4 TAssign); [|discriminate H]. use_expr H Hst Hf.
      + destruct (token_eqb t2 TAssign); [|discriminate H]. use_expr H Hst Hf.
    - destruct toks as [|t1 rest1]; [injection H as <-; reflexivity|]. cbn [app].
      destruct (starts_name t1); [|discriminate H].
      destruct rest1 as [|t2 rest2]; [discriminate H|]. cbn [app].
      destruct (token_eqb t2 TColon).
      + destruct rest2 as [|t3 rest3]; [injection H as <-; reflexivity|]. cbn [app]. destruct (is_lit t3); [|discriminate H].
        destruct rest3 as [|t4 rest4]; [discriminate H|]. cbn [app].
        destruct (token_eqb t4 TAssign); [|discriminate H]. use_expr H Hst Hf.
      + destruct (token_eqb t2 TAssign); [|discriminate H]. use_expr H Hst Hf.
  Qed.

  Lemma cpl_const_decl f toks : CPL (vp_const_decl tiers) stop_head f toks.
  Proof.
    split; [intros H rest' f' Hst Hf|intros c0 H rest' f' Hst Hf]; unfold vp_const_decl in H |- *.
    - destruct toks as [|t1 [|t2 rest2]]; try discriminate H; cbn [app].
      + destruct (starts_name t1); discriminate H.
      + destruct (starts_name t1); [|discriminate H].
        destruct (token_eqb t2 TAssign); [use_expr H Hst Hf|].
        destruct (token_eqb t2 TColon); [|discriminate H].
        exact (proj1 (cpl_width_value _ _) H _ _ Hst Hf).
    - destruct toks as [|t1 [|t2 rest2]]; cbn [app].
      + injection H as <-. cbn [app starts_name c_id token_eqb]. apply id_expr; [exact Hst|lia].
      + destruct (starts_name t1); [|discriminate H]. injection H as <-. cbn [app token_eqb]. apply id_expr; [exact Hst|lia].
      + destruct (starts_name t1); [|discriminate H].
        destruct (token_eqb t2 TAssign); [use_expr H Hst Hf|].
        destruct (token_eqb t2 TColon); [|discriminate H].
        exact (proj2 (cpl_width_value _ _) _ H _ _ Hst Hf).
  Qed.

  Lemma cpl_reg_decl f toks : CPL (vp_reg_decl tiers) stop_head f toks.
  Proof.
    split; [intros H rest' f' Hst Hf|intros c0 H rest' f' Hst Hf]; unfold vp_reg_decl in H |- *.
    - destruct toks as [|t1 rest1]; [discriminate H|]. cbn [app].
      destruct (starts_name t1).
      + destruct rest1 as [|t2 rest2]; [discriminate H|]. cbn [app].
        destruct (token_eqb t2 TAssign); [use_expr H Hst Hf|].
        destruct (token_eqb t2 TColon); [|discriminate H].
        exact (proj1 (cpl_width_value _ _) H _ _ Hst Hf).
      + destruct (token_eqb t1 TWire); [|discriminate H].
        destruct rest1 as [|t2 rest2]; [discriminate H|]. cbn [app].
        destruct (starts_name t2); [|discriminate H].
        destruct rest2 as [|t3 rest3]; [discriminate H|]. cbn [app].
        destruct (token_eqb t3 TAssign); [use_expr H Hst Hf|].
        destruct (token_eqb t3 TColon); [|discriminate H].
        exact (proj1 (cpl_width_value _ _) H _ _ Hst Hf).
    - destruct toks as [|t1 rest1].
      { injection H as <-. cbn [app starts_name c_id token_eqb]. apply id_expr; [exact Hst|lia]. }
      cbn [app]. destruct (starts_name t1).
      + destruct rest1 as [|t2 rest2].
        { injection H as <-. cbn [app token_eqb]. apply id_expr; [exact Hst|lia]. }
        cbn [app]. destruct (token_eqb t2 TAssign); [use_expr H Hst Hf|].
        destruct (token_eqb t2 TColon); [|discriminate H].
        exact (proj2 (cpl_width_value _ _) _ H _ _ Hst Hf).
      + destruct (token_eqb t1 TWire); [|discriminate H].
        destruct rest1 as [|t2 rest2].
        { injection H as <-. cbn [app starts_name c_id token_eqb]. apply id_expr; [exact Hst|lia]. }
        cbn [app]. destruct (starts_name t2); [|discriminate H].
        destruct rest2 as [|t3 rest3].
        { injection H as <-. cbn [app token_eqb]. apply id_expr; [exact Hst|lia]. }
        cbn [app]. destruct (token_eqb t3 TAssign); [use_expr H Hst Hf|].
        destruct (token_eqb t3 TColon); [|discriminate H].
        exact (proj2 (cpl_width_value _ _) _ H _ _ Hst Hf).
  Qed.

  Lemma targets_ext toks c r' : no_assign c ->
    vp_targets (toks ++ c ++ TSemicolon :: r') = vp_targets toks ++ c ++ TSemicolon :: r'.
  Proof.
    intros Hc. apply (vp_targets_app _ _ _ (Nat.le_refl _)).
    - intros e E' HE. destruct c as [|x c']; cbn [app] in HE; injection HE as <- _; [reflexivity|].
      inversion Hc; assumption.
    - intros e1 e2 E' HE. destruct c as [|x [|y c']]; cbn [app] in HE.
      + injection HE as <- _. reflexivity.
      + injection HE as _ <- _. apply Bool.andb_false_r.
      + injection HE as _ <- _. inversion Hc as [|? ? _ Hc']. inversion Hc' as [|? ? Hy _]. rewrite Hy. apply Bool.andb_false_r.
  Qed.

  Lemma cpl_assignment f toks : CPL (vp_assignment tiers) (fol_is TSemicolon) f toks.
  Proof.
    split; [intros H rest' f' Hfol Hf|intros c0 H rest' f' Hfol Hf];
      pose proof (fol_stop TSemicolon _ eq_refl Hfol) as Hst; destruct Hfol as (r' & ->); unfold vp_assignment in H |- *.
    - destruct toks as [|t1 [|t2 rest2]]; try discriminate H; cbn [app].
      { destruct (starts_name t1); discriminate H. }
      destruct (starts_name t1) eqn:E1; [|discriminate H].
      destruct (token_eqb t2 TOpenBracket).
      + destruct rest2 as [|t3 rest3]; [discriminate H|]. cbn [app].
        destruct (token_eqb t3 TCloseBracket); [discriminate H|].
        apply expect_done in H. destruct H as (t4 & H & E4).
        change (t3 :: rest3 ++ TSemicolon :: r') with ((t3 :: rest3) ++ TSemicolon :: r').
        rewrite (ext_mux tiers _ f' _ _ _ (TSemicolon :: r') H ltac:(lia)). cbn [app expect]. rewrite E4. reflexivity.
      + destruct (token_eqb t2 TAssign) eqn:E2; [|discriminate H].
        change (t1 :: t2 :: rest2 ++ TSemicolon :: r') with ((t1 :: t2 :: rest2) ++ [] ++ TSemicolon :: r').
        rewrite (targets_ext _ [] r' ltac:(constructor)). cbn [app].
        exact (proj1 (cpl_expr _ _) H _ _ Hst Hf).
    - assert (Hmux : forall g, (D <= g)%nat ->
                vp_mux_options tiers g (c_id :: TColon :: c_id :: TCloseBracket :: TSemicolon :: r') =
                Done (TCloseBracket :: TSemicolon :: r')).
      { intros g Hg. destruct g as [|g]; [lia|]. rewrite vp_mux_options_S. cbn [c_id token_eqb].
        change (TIdentifier [120%N]) with c_id.
        pose proof (id_expr g (TColon :: c_id :: TCloseBracket :: TSemicolon :: r') eq_refl) as E1.
        unfold vp_expr in E1. rewrite E1 by lia.
        cbn [token_eqb].
        pose proof (id_expr g (TCloseBracket :: TSemicolon :: r') eq_refl) as E2.
        unfold vp_expr in E2. rewrite E2 by lia. reflexivity. }
      destruct toks as [|t1 [|t2 rest2]]; cbn [app].
      + injection H as <-. cbn [app starts_name c_id token_eqb vp_targets andb]. apply id_expr; [exact Hst|lia].
      + destruct (starts_name t1) eqn:E1; [|discriminate H]. injection H as <-.
        cbn [app token_eqb vp_targets]. rewrite E1. cbn [andb vp_targets token_eqb starts_name c_id].
        apply id_expr; [exact Hst|lia].
      + destruct (starts_name t1) eqn:E1; [|discriminate H].
        destruct (token_eqb t2 TOpenBracket).
        * destruct rest2 as [|t3 rest3].
          { injection H as <-. cbn [app c_id token_eqb]. change (TIdentifier [120%N]) with c_id.
            rewrite (Hmux f' ltac:(lia)). reflexivity. }
          cbn [app]. destruct (token_eqb t3 TCloseBracket); [discriminate H|].
          change (t3 :: rest3 ++ c0 ++ TSemicolon :: r') with ((t3 :: rest3) ++ c0 ++ TSemicolon :: r').
          destruct (expect_more _ _ _ H) as [(E2 & ->)|(c1 & E2 & ->)].
          -- change ([TCloseBracket] ++ TSemicolon :: r') with (TCloseBracket :: TSemicolon :: r').
             rewrite (proj1 (cpl_mux _ _) E2 (TCloseBracket :: TSemicolon :: r') f' ltac:(eexists; reflexivity) Hf).
             reflexivity.
          -- rewrite <- app_assoc.
             change ([TCloseBracket] ++ TSemicolon :: r') with (TCloseBracket :: TSemicolon :: r').
             rewrite (proj2 (cpl_mux _ _) c1 E2 (TCloseBracket :: TSemicolon :: r') f' ltac:(eexists; reflexivity) Hf).
             reflexivity.
        * destruct (token_eqb t2 TAssign) eqn:E2; [|discriminate H].
          change (t1 :: t2 :: rest2 ++ c0 ++ TSemicolon :: r') with ((t1 :: t2 :: rest2) ++ c0 ++ TSemicolon :: r').
          rewrite (targets_ext _ c0 r' (vp_expr_na tiers _ _ _ H)).
          exact (proj2 (cpl_expr _ _) _ H _ _ Hst Hf).
  Qed.

  (* Repeat<sep, item> followed by the token k, which is neither the separator nor the start of an item *)
  Lemma cpl_list starts sep (item : nat -> list token -> vres) k :
    (forall f, VStab (item f)) ->
    (forall f f' toks, (f <= f')%nat -> item f toks <> Stuck -> item f' toks = item f toks) ->
    (forall f toks, CPL item (fol_is k) f toks) ->
    token_eqb k sep = false -> starts k = false ->
    forall f toks, CPL (vp_list starts sep item) (fol_is k) f toks.
  Proof.
    intros HS HM Hitem Hk1 Hk2. induction f as [|f IH]; intros toks; [split; intros; discriminate|].
    split; [intros H rest' f' Hfol Hf|intros c0 H rest' f' Hfol Hf];
      destruct Hfol as (r' & ->); destruct f' as [|f'']; try lia; cbn [vp_list] in H |- *.
    - destruct toks as [|t1 toks1]; [cbn [app]; rewrite Hk2; reflexivity|]. cbn [app].
      destruct (starts t1); [|discriminate H].
      change (t1 :: toks1 ++ k :: r') with ((t1 :: toks1) ++ k :: r').
      destruct (item f (t1 :: toks1)) as [[|t rest]|x|c|] eqn:Ei; try discriminate H.
      + rewrite (proj1 (Hitem _ _) Ei (k :: r') f'' ltac:(eexists; reflexivity) ltac:(lia)). rewrite Hk1. reflexivity.
      + rewrite (ext_gen item HS HM _ f'' _ _ _ (k :: r') Ei ltac:(lia)).
        destruct (token_eqb t sep); [|discriminate H].
        exact (proj1 (IH rest) H (k :: r') f'' ltac:(eexists; reflexivity) ltac:(lia)).
    - destruct toks as [|t1 toks1]; [discriminate H|]. cbn [app].
      destruct (starts t1); [|discriminate H].
      change (t1 :: toks1 ++ c0 ++ k :: r') with ((t1 :: toks1) ++ c0 ++ k :: r').
      destruct (item f (t1 :: toks1)) as [[|t rest]|x|c|] eqn:Ei; try discriminate H.
      + rewrite (ext_gen item HS HM _ f'' _ _ _ (c0 ++ k :: r') Ei ltac:(lia)).
        destruct (token_eqb t sep); [|discriminate H].
        exact (proj2 (IH rest) c0 H (k :: r') f'' ltac:(eexists; reflexivity) ltac:(lia)).
      + injection H as ->.
        rewrite (proj2 (Hitem _ _) c0 Ei (k :: r') f'' ltac:(eexists; reflexivity) ltac:(lia)). rewrite Hk1. reflexivity.
  Qed.

  Lemma cpl_assignments : forall f toks, CPL (vp_assignments tiers) (fol_is TSemicolon) f toks.
  Proof.
    induction f as [|f IH]; intros toks; [split; intros; discriminate|].
    split; [intros H rest' f' Hfol Hf|intros c0 H rest' f' Hfol Hf];
      destruct Hfol as (r' & ->); destruct f' as [|f'']; try lia; cbn [vp_assignments] in H |- *.
    - destruct (vp_assignment tiers f toks) as [[|t rest]|x|c|] eqn:Ea; try discriminate H.
      + rewrite (proj1 (cpl_assignment _ _) Ea (TSemicolon :: r') f'' ltac:(eexists; reflexivity) ltac:(lia)). reflexivity.
      + rewrite (ext_gen _ (vp_assignment_stab tiers) (mono_assignment tiers) _ f'' _ _ _ (TSemicolon :: r') Ea ltac:(lia)).
        destruct (token_eqb t TComma); [|discriminate H].
        destruct rest as [|t2 rest2]; [reflexivity|]. cbn [app].
        destruct (starts_name t2); [|discriminate H].
        exact (proj1 (IH (t2 :: rest2)) H (TSemicolon :: r') f'' ltac:(eexists; reflexivity) ltac:(lia)).
    - destruct (vp_assignment tiers f toks) as [[|t rest]|x|c|] eqn:Ea; try discriminate H.
      + rewrite (ext_gen _ (vp_assignment_stab tiers) (mono_assignment tiers) _ f'' _ _ _ (c0 ++ TSemicolon :: r') Ea ltac:(lia)).
        destruct (token_eqb t TComma); [|discriminate H].
        destruct rest as [|t2 rest2]; [discriminate H|]. cbn [app].
        destruct (starts_name t2); [|discriminate H].
        exact (proj2 (IH (t2 :: rest2)) c0 H (TSemicolon :: r') f'' ltac:(eexists; reflexivity) ltac:(lia)).
      + injection H as ->.
        rewrite (proj2 (cpl_assignment _ _) c0 Ea (TSemicolon :: r') f'' ltac:(eexists; reflexivity) ltac:(lia)). reflexivity.
  Qed.
End DeclCompletion.

Lemma CPL_weaken tiers (P : nat -> list token -> vres) (fol fol' : list token -> Prop) f toks :
  (forall l, fol' l -> fol l) -> CPL tiers P fol f toks -> CPL tiers P fol' f toks.
Proof.
  intros Hw (H0 & H1). split.
  - intros H rest' f' Hf. apply H0; [exact H|apply Hw; exact Hf].
  - intros c H rest' f' Hf. apply H1; [exact H|apply Hw; exact Hf].
Qed.

Section ProgramCompletion.
  Variable tiers : list tier.
  Hypothesis Hok : tiers_ok tiers.
  Hypothesis Hlen : (List.length tiers <= 16)%nat.
  Notation T := (List.length tiers).
  Notation D := (S (S (S (S T)))).
  Notation CPL := (CPL tiers).

  Lemma semi_stop l : fol_is TSemicolon l -> stop_head l.
  Proof. apply fol_stop. reflexivity. Qed.
  Lemma brace_stop l : fol_is TCloseBrace l -> stop_head l.
  Proof. apply fol_stop. reflexivity. Qed.

  Lemma cpl_wire_list f toks : CPL (vp_list starts_name TComma (vp_wire_decl tiers)) (fol_is TSemicolon) f toks.
  Proof.
    apply (cpl_list tiers); [apply vp_wire_decl_stab|apply mono_wire_decl| |reflexivity|reflexivity].
    intros f0 toks0. apply cpl_wire_decl. exact Hok.
  Qed.
  Lemma cpl_const_list f toks : CPL (vp_list starts_name TComma (vp_const_decl tiers)) (fol_is TSemicolon) f toks.
  Proof.
    apply (cpl_list tiers); [apply vp_const_decl_stab|apply mono_const_decl| |reflexivity|reflexivity].
    intros f0 toks0. apply (CPL_weaken tiers _ stop_head); [exact semi_stop|apply cpl_const_decl; exact Hok].
  Qed.
  Lemma cpl_reg_list f toks : CPL (vp_list starts_reg_decl TSemicolon (vp_reg_decl tiers)) (fol_is TCloseBrace) f toks.
  Proof.
    apply (cpl_list tiers); [apply vp_reg_decl_stab|apply mono_reg_decl| |reflexivity|reflexivity].
    intros f0 toks0. apply (CPL_weaken tiers _ stop_head); [exact brace_stop|apply cpl_reg_decl; exact Hok].
  Qed.

  (* a statement that needs its ";" *)
  Lemma cpl_statement_semi F toks :
    snd (vp_statement tiers F toks) = NeedSemi ->
    CPL (fun F toks => fst (vp_statement tiers F toks)) (fol_is TSemicolon) F toks.
  Proof.
    intros Hk.
    assert (Hsimple : forall t toks1, (forall l, vp_statement tiers F (t :: l) = (vp_simple tiers F (t :: l), NeedSemi)) ->
              (forall F' l, vp_statement tiers F' (t :: l) = (vp_simple tiers F' (t :: l), NeedSemi)) ->
              CPL (fun F toks => fst (vp_statement tiers F toks)) (fol_is TSemicolon) F (t :: toks1)).
    { intros t toks1 Hs1 Hs2. destruct (cpl_simple tiers Hok F (t :: toks1)) as (C0 & C1).
      split.
      - intros H rest' F' Hfol Hf. cbn [app]. rewrite Hs2. cbn [fst]. rewrite Hs1 in H. cbn [fst] in H.
        exact (C0 H rest' F' (semi_stop _ Hfol) Hf).
      - intros c H rest' F' Hfol Hf. cbn [app]. rewrite Hs2. cbn [fst]. rewrite Hs1 in H. cbn [fst] in H.
        exact (C1 c H rest' F' (semi_stop _ Hfol) Hf). }
    destruct toks as [|t toks1].
    { split; [intros H; discriminate H|]. intros c H rest' F' (r' & ->) Hf. cbn in H. injection H as <-.
      destruct F' as [|F']; [lia|]. cbn [app vp_statement c_id next_tok_is token_eqb orb fst]. rewrite vp_simple_S. reflexivity. }
    destruct t; try (split; intros; discriminate); try (apply Hsimple; intros; reflexivity).
    - (* wire *)
      destruct (cpl_wire_list F toks1) as (C0 & C1). split.
      + intros H rest' F' Hfol Hf. cbn [app vp_statement fst] in H |- *. exact (C0 H rest' F' Hfol Hf).
      + intros c H rest' F' Hfol Hf. cbn [app vp_statement fst] in H |- *. exact (C1 c H rest' F' Hfol Hf).
    - (* const *)
      destruct (cpl_const_list F toks1) as (C0 & C1). split.
      + intros H rest' F' Hfol Hf. cbn [app vp_statement fst] in H |- *. exact (C0 H rest' F' Hfol Hf).
      + intros c H rest' F' Hfol Hf. cbn [app vp_statement fst] in H |- *. exact (C1 c H rest' F' Hfol Hf).
    - (* a name *)
      clear Hsimple. cbn [vp_statement].
      destruct (next_tok_is TAssign toks1 || next_tok_is TOpenBracket toks1) eqn:En.
      + assert (Hn : forall tail, next_tok_is TAssign (toks1 ++ tail) || next_tok_is TOpenBracket (toks1 ++ tail) = true).
        { intros tail. destruct toks1 as [|t2 l]; [discriminate En|exact En]. }
        destruct (cpl_assignments tiers Hok F (TIdentifier name :: toks1)) as (C0 & C1). split.
        * intros H rest' F' Hfol Hf. cbn [app]. cbn [vp_statement] in H |- *. rewrite En in H. rewrite Hn. cbn [fst] in H |- *. exact (C0 H rest' F' Hfol Hf).
        * intros c H rest' F' Hfol Hf. cbn [app]. cbn [vp_statement] in H |- *. rewrite En in H. rewrite Hn. cbn [fst] in H |- *. exact (C1 c H rest' F' Hfol Hf).
      + split.
        * intros H rest' F' (r' & ->) Hf. cbn [vp_statement] in H. rewrite En in H. cbn [fst] in H. destruct F as [|F0]; [discriminate H|].
          rewrite vp_simple_S in H. injection H as ->. cbn [app vp_statement next_tok_is token_eqb orb fst].
          destruct F' as [|F']; [lia|]. rewrite vp_simple_S. reflexivity.
        * intros c H. cbn [vp_statement] in H. rewrite En in H. cbn [fst] in H. destruct F as [|F0]; [discriminate H|]. rewrite vp_simple_S in H. discriminate H.
  Qed.

  (* a register bank: whatever follows *)
  Lemma cpl_statement_bank F toks c :
    snd (vp_statement tiers F toks) = NoSemi -> fst (vp_statement tiers F toks) = More c ->
    c <> [] /\ forall rest' F', (F + D <= F')%nat -> fst (vp_statement tiers F' (toks ++ c ++ rest')) = Done rest'.
  Proof.
    intros Hk H. destruct toks as [|t toks1]; [discriminate Hk|].
    destruct t; try discriminate Hk; [|cbn [vp_statement] in Hk; destruct (_ || _) in Hk; discriminate Hk].
    cbn [vp_statement fst] in H.
    assert (Hend : forall F' rest', (1 <= F')%nat ->
              expect TCloseBrace (vp_list starts_reg_decl TSemicolon (vp_reg_decl tiers) F' (TCloseBrace :: rest')) = Done rest').
    { intros F' rest' HF. destruct F' as [|F']; [lia|]. reflexivity. }
    destruct toks1 as [|t1 rest1].
    { injection H as <-. split; [discriminate|]. intros rest' F' HF. cbn [app vp_statement fst starts_name c_id token_eqb].
      apply Hend. lia. }
    destruct (starts_name t1) eqn:E1; [|discriminate H].
    destruct rest1 as [|t2 toks2].
    { injection H as <-. split; [discriminate|]. intros rest' F' HF. cbn [app vp_statement fst]. rewrite E1. cbn [token_eqb].
      apply Hend. lia. }
    destruct (token_eqb t2 TOpenBrace) eqn:E2; [|discriminate H].
    destruct (expect_more _ _ _ H) as [(El & ->)|(c1 & El & ->)].
    - split; [discriminate|]. intros rest' F' HF. cbn [app vp_statement fst]. rewrite E1, E2.
      rewrite (proj1 (cpl_reg_list _ _) El (TCloseBrace :: rest') F' ltac:(eexists; reflexivity) HF). reflexivity.
    - split; [destruct c1; discriminate|]. intros rest' F' HF. rewrite <- app_assoc. cbn [app vp_statement fst]. rewrite E1, E2.
      rewrite (proj2 (cpl_reg_list _ _) c1 El (TCloseBrace :: rest') F' ltac:(eexists; reflexivity) HF). reflexivity.
  Qed.

  Lemma fuel_gap n m : (1 <= m)%nat -> (20 * S n + D <= 20 * S (n + m))%nat.
  Proof. intros Hm. nia. Qed.

  Lemma statements_compl : forall g toks seen c,
    (S (List.length toks) <= g)%nat -> vp_statements tiers g toks seen = More c ->
    forall g', (S (List.length (toks ++ c)) <= g')%nat -> vp_statements tiers g' (toks ++ c) seen = Done [].
  Proof.
    induction g as [|g IH]; intros toks seen c Hg H g' Hg'; [lia|].
    cbn [vp_statements] in H.
    destruct toks as [|t toks1].
    { destruct seen; [discriminate H|]. injection H as <-. cbn [app].
      destruct g' as [|[|[|g']]]; try (cbn [List.length app] in Hg'; lia).
      reflexivity. }
    destruct g' as [|g'']; [lia|]. cbn [app vp_statements].
    destruct (token_eqb t TSemicolon) eqn:Et.
    { destruct seen; [|discriminate H].
      apply (IH toks1 true c); [cbn [List.length] in Hg; lia|exact H|cbn [app List.length] in Hg'; lia]. }
    change (t :: toks1 ++ c) with ((t :: toks1) ++ c).
    destruct (vp_statement tiers (20 * S (List.length (t :: toks1))) (t :: toks1)) as [r1 k] eqn:Es.
    assert (Hfst : fst (vp_statement tiers (20 * S (List.length (t :: toks1))) (t :: toks1)) = r1) by (rewrite Es; reflexivity).
    assert (Hsnd : snd (vp_statement tiers (20 * S (List.length (t :: toks1))) (t :: toks1)) = k) by (rewrite Es; reflexivity).
    assert (Hpair : forall tail res, fst (vp_statement tiers (20 * S (List.length ((t :: toks1) ++ tail))) ((t :: toks1) ++ tail)) = res ->
              vp_statement tiers (20 * S (List.length ((t :: toks1) ++ tail))) ((t :: toks1) ++ tail) = (res, k)).
    { intros tail res Hres. cbn [app] in Hres |- *.
      assert (K1 : snd (vp_statement tiers (20 * S (List.length (t :: toks1 ++ tail))) (t :: toks1 ++ tail)) = k).
      { rewrite (vp_statement_kind tiers _ t (toks1 ++ tail) toks1).
        rewrite (vp_statement_kind_fuel tiers _ (20 * S (List.length (t :: toks1))) (t :: toks1)). exact Hsnd. }
      destruct (vp_statement tiers (20 * S (List.length (t :: toks1 ++ tail))) (t :: toks1 ++ tail)) as [a b].
      cbn [fst snd] in *. subst. reflexivity. }
    assert (Hext : forall rest1 tail, r1 = Done rest1 -> rest1 <> [] ->
              fst (vp_statement tiers (20 * S (List.length ((t :: toks1) ++ tail))) ((t :: toks1) ++ tail)) = Done (rest1 ++ tail)).
    { intros rest1 tail -> Hne.
      destruct (statement_fuel_stab tiers Hok _ _ _ _ (statement_fuel_ok tiers Hlen _) Hfst eq_refl) as (w1 & Hw1 & _ & St1).
      rewrite Hw1, <- app_assoc.
      apply (St1 (rest1 ++ tail)); [|apply statement_fuel_ok; exact Hlen].
      destruct rest1 as [|x l]; [congruence|reflexivity]. }
    assert (Hlen1 : forall rest1, r1 = Done rest1 -> (List.length rest1 < List.length (t :: toks1))%nat).
    { intros rest1 ->. apply (prog_statement tiers (20 * S (List.length (t :: toks1)))). exact Hfst. }
    destruct r1 as [rest1|x|c1|]; try discriminate H.
    - specialize (Hlen1 rest1 eq_refl). destruct k.
      + destruct rest1 as [|t2 rest2].
        * destruct seen; [discriminate H|]. injection H as <-.
          rewrite (Hpair [TSemicolon] (Done [TSemicolon])).
          2:{ pose proof (cpl_statement_semi _ _ Hsnd) as (C0 & _).
              apply (C0 Hfst [TSemicolon]); [eexists; reflexivity|].
              rewrite app_length. apply fuel_gap. cbn [List.length]. lia. }
          cbn [token_eqb]. destruct g'' as [|g3]; [cbn [app List.length] in Hg'; rewrite app_length in Hg'; cbn [List.length] in Hg'; lia|].
          reflexivity.
        * destruct (token_eqb t2 TSemicolon) eqn:E2; [|discriminate H].
          rewrite (Hpair c _ (Hext _ c eq_refl ltac:(discriminate))). cbn [app]. rewrite E2.
          apply (IH rest2 true c); [cbn [List.length] in *; lia|exact H|].
          rewrite app_length in *. cbn [List.length] in *. lia.
      + rewrite (Hpair c _ (Hext _ c eq_refl ltac:(intros ->; destruct g; discriminate H))).
        apply (IH rest1 true c); [cbn [List.length] in *; lia|exact H|].
        rewrite app_length in *. cbn [List.length] in *. lia.
    - injection H as <-. destruct k.
      + rewrite app_assoc. rewrite <- (app_assoc (t :: toks1)).
        rewrite (Hpair (c1 ++ [TSemicolon]) (Done [TSemicolon])).
        2:{ pose proof (cpl_statement_semi _ _ Hsnd) as (_ & C1).
            apply (C1 c1 Hfst [TSemicolon]); [eexists; reflexivity|].
            rewrite !app_length. apply fuel_gap. cbn [List.length]. lia. }
        cbn [token_eqb]. destruct g'' as [|g3]; [|reflexivity].
        rewrite !app_length in Hg'. cbn [List.length] in Hg'. lia.
      + destruct (cpl_statement_bank _ _ _ Hsnd Hfst) as (Hne & C).
        assert (E0 : (t :: toks1) ++ c1 = (t :: toks1) ++ c1 ++ []) by (rewrite app_nil_r; reflexivity).
        rewrite E0. rewrite (Hpair (c1 ++ []) (Done [])).
        2:{ apply C. rewrite !app_length. apply fuel_gap. destruct c1; [congruence|cbn [List.length]; lia]. }
        destruct g'' as [|g3]; [|reflexivity].
        rewrite !app_length in Hg'. cbn [List.length] in Hg'. lia.
  Qed.

  Lemma vp_program_completion ks c : vp_program tiers ks = More c -> vp_program tiers (ks ++ c) = Done [].
  Proof.
    unfold vp_program. intros H. apply (statements_compl _ _ _ _ (Nat.le_refl _) H). lia.
  Qed.
End ProgramCompletion.
