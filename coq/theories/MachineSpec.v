(* Specifications for the simulator core (C03 register banks, C04 register file, C06 run
   loop and report, C18 options do not steer, and the frame facts C01/C05 rely on), as named
   propositions about Machine.v. *)
From HclV Require Import Base Expr Machine.
Open Scope string_scope.
Open Scope N_scope.

(* ---- what an action writes, reads, and whether it changes machine state ---------------- *)
Definition written (a : action) : option string :=
  match a with
  | AAssign n _ _ => Some n
  | AReadReg _ o => Some o
  | AReadMemory _ _ o _ _ => Some o
  | AWriteReg _ _ | AWriteMemory _ _ _ _ | ASetStatus _ => None
  end.

Definition is_effect (a : action) : bool :=
  match a with
  | AWriteReg _ _ | AWriteMemory _ _ _ _ | ASetStatus _ => true
  | _ => false
  end.

Definition opt_list (o : option string) : list string := match o with Some s => [s] | None => [] end.

Definition reads (a : action) : list string :=
  match a with
  | AAssign _ e _ => refs e
  | AReadReg n _ => [n]
  | AReadMemory en addr _ _ _ => addr :: opt_list en
  | AWriteReg n i => [n; i]
  | AWriteMemory en addr i _ => addr :: i :: opt_list en
  | ASetStatus w => [w]
  end.

(* frame: an action changes only the wire it writes; a non-effect action leaves memory,
   registers, status and cycle alone; an effect action leaves all wires alone *)
Definition stmt_values_frame : Prop :=
  forall f o a s s' t k,
    exec_action f o a s = Ok (s', t) -> written a <> Some k ->
    lookup (values s') k = lookup (values s) k.

Definition stmt_state_frame : Prop :=
  forall f o a s s' t,
    exec_action f o a s = Ok (s', t) ->
    cycle s' = cycle s /\
    (is_effect a = false ->
       mem s' = mem s /\ regs s' = regs s /\ last_status s' = last_status s) /\
    (is_effect a = true -> values s' = values s).

Definition stmt_actions_frame : Prop :=
  forall f o acts s s' t,
    exec_actions f o acts s = Ok (s', t) ->
    cycle s' = cycle s /\
    (forall k, (forall a, In a acts -> written a <> Some k) -> lookup (values s') k = lookup (values s) k) /\
    ((forall a, In a acts -> is_effect a = false) ->
       mem s' = mem s /\ regs s' = regs s /\ last_status s' = last_status s).

(* ---- C04: the register file ---------------------------------------------------------------- *)
Definition rf_read (rf : list N) (n : N) : N :=
  if n <? N.of_nat (List.length rf) then nth (N.to_nat n) rf 0 else 0.

Definition rf_write (rf : list N) (n v : N) : list N :=
  if (n <? N.of_nat (List.length rf)) && negb (n =? 15) then set_nth rf (N.to_nat n) (v mod two64) else rf.

(* a read port delivers the current content of the selected register and changes nothing else *)
Definition stmt_read_reg : Prop :=
  forall f o num outp s nv,
    lookup (values s) num = Some nv ->
    exists t, exec_action f o (AReadReg num outp) s =
      Ok (set_values s (upd (values s) outp (mkV (rf_read (regs s) (bits nv mod two64)) (Bits 64))), t).

(* a write port writes the selected register (never number 15) and changes nothing else *)
Definition stmt_write_reg : Prop :=
  forall f o num inp s nv iv,
    lookup (values s) num = Some nv -> lookup (values s) inp = Some iv ->
    exists t, exec_action f o (AWriteReg num inp) s =
      Ok (mkState (values s) (mem s) (rf_write (regs s) (bits nv mod two64) (bits iv))
                  (last_status s) (cycle s), t).

Definition stmt_rf_laws : Prop :=
  forall rf n v k, List.length rf = 16%nat ->
    List.length (rf_write rf n v) = 16%nat /\
    (n < 15 -> rf_read (rf_write rf n v) n = v mod two64) /\
    (k <> n -> rf_read (rf_write rf n v) k = rf_read rf k) /\
    (rf_read (rf_write rf 15 v) k = rf_read rf k) /\
    (16 <= k -> rf_read rf k = 0).

(* E port first, then M port: M wins on a collision; register 15 stays 0 *)
Definition stmt_M_wins : Prop :=
  forall rf e m vE vM, List.length rf = 16%nat -> m < 15 ->
    rf_read (rf_write (rf_write rf e vE) m vM) m = vM mod two64.

Definition stmt_reg15_zero : Prop :=
  rf_read (repeat 0 16) 15 = 0 /\
  forall rf n v, List.length rf = 16%nat -> rf_read rf 15 = 0 -> rf_read (rf_write rf n v) 15 = 0.

(* ---- C03: register banks ------------------------------------------------------------------- *)
Definition bank_outs (b : bank) : list string := map (fun x => snd (fst x)) (b_signals b).
Definition bank_ins (b : bank) : list string := map (fun x => fst (fst x)) (b_signals b).
Definition all_outs (banks : list bank) : list string := flat_map bank_outs banks.
Definition all_ins (banks : list bank) : list string := flat_map bank_ins banks.

(* what Program::new guarantees about the banks of an accepted program *)
Definition banks_wf (banks : list bank) : Prop :=
  NoDup (all_outs banks) /\
  (forall x, In x (all_outs banks) -> ~ In x (all_ins banks)) /\
  (forall b, In b banks ->
     ~ In (b_stall b) (all_outs banks) /\ ~ In (b_bubble b) (all_outs banks) /\
     ~ In (b_stall b) (all_ins banks) /\ ~ In (b_bubble b) (all_ins banks) /\
     NoDup (map fst (b_defaults b)) /\
     (forall x, In x (bank_outs b) <-> In x (map fst (b_defaults b)))).

(* the clock edge: bubble resets to the defaults, else stall keeps, else input is latched;
   every bank reads only its own signals; nothing but bank outputs changes *)
Definition stmt_clock_edge : Prop :=
  forall banks vals vals',
    banks_wf banks -> process_banks vals banks = Ok vals' ->
    (forall b i o w, In b banks -> In (i, o, w) (b_signals b) ->
       exists st bu,
         lookup vals (b_stall b) = Some st /\ lookup vals (b_bubble b) = Some bu /\
         lookup vals' o = if is_true bu then lookup (b_defaults b) o
                          else if is_true st then lookup vals o
                          else lookup vals i) /\
    (forall k, ~ In k (all_outs banks) -> lookup vals' k = lookup vals k).

(* the first cycle sees the defaults, control signals 0, registers 0, empty memory *)
Definition stmt_initial_state : Prop :=
  forall p s,
    banks_wf (p_banks p) -> initial_state p = Ok s ->
    cycle s = 0 /\ mem s = [] /\ regs s = repeat 0 16 /\ last_status s = None /\
    (forall b i o w, In b (p_banks p) -> In (i, o, w) (b_signals b) ->
       lookup (values s) o = lookup (b_defaults b) o) /\
    (forall b, In b (p_banks p) ->
       lookup (values s) (b_stall b) = Some false_value /\
       lookup (values s) (b_bubble b) = Some false_value).

(* ---- C06: the run loop ---------------------------------------------------------------------- *)
Fixpoint iter_step (k : nat) (f : features) (o : options) (p : program) (s : mstate) : result mstate :=
  match k with
  | O => Ok s
  | S j => do x <- step f o p s; iter_step j f o p (fst x)
  end.

Definition stmt_step_cycle : Prop :=
  forall f o p s s' t, step f o p s = Ok (s', t) -> cycle s' = cycle s + 1.

(* run executes cycles one at a time and stops at the first state that is done *)
Definition stmt_run_stops_exactly : Prop :=
  forall fuel f o p s s' t,
    run fuel f o p s = Ok (s', t) ->
    exists k,
      iter_step k f o p s = Ok s' /\ done o s' = true /\ cycle s' = cycle s + N.of_nat k /\
      (forall j, (j < k)%nat -> exists sj, iter_step j f o p s = Ok sj /\ done o sj = false).

(* fuel = remaining cycle budget is always enough: an error of run is an error of some step or
   of some dump, never exhaustion *)
Definition stmt_run_fuel_suffices : Prop :=
  forall fuel f o p s es,
    (N.to_nat (o_timeout o - cycle s) <= fuel)%nat ->
    run fuel f o p s = Err es ->
    exists k sk,
      iter_step k f o p s = Ok sk /\ done o sk = false /\
      (step f o p sk = Err es \/ (o_show_regs_mem o = true /\ dump_y86 o p sk = Err es)).

(* at most timeout cycles; none when the budget is already used up *)
Definition stmt_run_within_timeout : Prop :=
  (forall fuel f o p s s' t,
     run fuel f o p s = Ok (s', t) -> cycle s <= o_timeout o -> cycle s' <= o_timeout o) /\
  (forall fuel f o p s, o_timeout o <= cycle s -> run fuel f o p s = Ok (s, "")).

Inductive report_kind := RHalted | RTimedOut | RError (code : N) | RRunning.

Definition report (o : options) (s : mstate) : report_kind :=
  if halted s then RHalted
  else if timed_out o s then RTimedOut
  else if done o s then RError (status_or_default s 255)
  else RRunning.

(* the report in terms of the last Stat value (None before the first cycle), the number of
   executed cycles and the timeout: halt beats timeout beats error *)
Definition spec_report (stat : option N) (c T : N) : report_kind :=
  match stat with
  | Some 2 => RHalted
  | _ => if T <=? c then RTimedOut
         else match stat with
              | Some st => if (st =? 0) || (st =? 1) then RRunning else RError st
              | None => RRunning
              end
  end.

Definition stat_of (s : mstate) : option N :=
  match lookup (values s) "Stat" with Some v => Some (bits v mod 256) | None => None end.

Definition stmt_report_spec : Prop :=
  forall o s, report o s = spec_report (stat_of s) (cycle s) (o_timeout o).

Definition stmt_done_spec : Prop :=
  forall o s, done o s = match report o s with RRunning => false | _ => true end.

(* the text of the dump is selected by the report kind and prints the true cycle count *)
Definition header_of (r : report_kind) (c : N) : string :=
  match r with
  | RHalted => "+----------------------- halted in state: ------------------------------+"
  | RTimedOut => "+------------ timed out after " ++ pad_left " "%char 5 (dec c) ++ " cycles in state: -------------------+"
  | RError _ => "+------------------- error caused in state: ----------------------------+"
  | RRunning => "+------------------- between cycles " ++ pad_left " "%char 4 (dec c) ++ " and " ++
                pad_left " "%char 4 (dec (c + 1)) ++ " ----------------------+"
  end.

Definition footer_of (r : report_kind) : string :=
  match r with
  | RHalted => "+--------------------- (end of halted state) ---------------------------+"
  | RError _ => "+-------------------- (end of error state) -----------------------------+"
  | _ => "+-----------------------------------------------------------------------+"
  end.

(* "Cycles run" is printed for a halt or an error that does not coincide with the timeout *)
Definition tail_of (r : report_kind) (c : N) (timedout : bool) : string :=
  match r with
  | RHalted => if timedout then "" else "Cycles run: " ++ dec c ++ nl
  | RError code => "Cycles run: " ++ dec c ++ nl ++ "Error code: " ++
                   nth (N.to_nat code) y86_statuses "<unknown>" ++ nl
  | _ => ""
  end.

Definition stmt_dump_report : Prop :=
  forall o p s text,
    dump_y86 o p s = Ok text ->
    exists banks,
      text = header_of (report o s) (cycle s) ++ nl ++ dump_program_registers (regs s) ++ banks ++
             dump_memory (mem s) ++ footer_of (report o s) ++ nl ++
             tail_of (report o s) (cycle s) (timed_out o s) /\
      (o_show_banks o = false -> banks = "").

(* ---- C18: output options never steer the simulation ----------------------------------------- *)
Definition stmt_exec_options : Prop :=
  forall f o o' acts s,
    match exec_actions f o acts s, exec_actions f o' acts s with
    | Ok (s1, _), Ok (s2, _) => s1 = s2
    | Err e1, Err e2 => e1 = e2
    | _, _ => False
    end.

Definition stmt_step_options : Prop :=
  forall f o o' p s s1 t1 s2 t2,
    step f o p s = Ok (s1, t1) -> step f o' p s = Ok (s2, t2) -> s1 = s2.

Definition stmt_run_options : Prop :=
  forall fuel f o o' p s s1 t1 s2 t2,
    o_timeout o = o_timeout o' ->
    run fuel f o p s = Ok (s1, t1) -> run fuel f o' p s = Ok (s2, t2) -> s1 = s2.
