(* Proofs of the statements of ParserSoundSpec.v. *)
From HclV Require Import Base Expr Build Lexer Parser LexParseSpec LexParseProofs TriviaSpec TriviaProofs
  ParserSoundSpec.
From Coq Require Import ZifyBool ZifyNat ZifyN.
Open Scope list_scope.
Open Scope N_scope.

(* ====================================================================================== *)
(* facts about tokens and the documented table                                            *)
(* ====================================================================================== *)
Lemma token_eqb_eq a b : token_eqb a b = true -> a = b.
Proof. destruct a, b; try discriminate; reflexivity. Qed.

Lemma token_eqb_binop op : token_eqb (binop_token op) (binop_token op) = true.
Proof. destruct op; reflexivity. Qed.

Lemma op_of_token_some ops t op : op_of_token ops t = Some op -> In op ops /\ binop_token op = t.
Proof.
  unfold op_of_token. intros H. apply find_some in H. destruct H as [Hin Heq].
  split; [exact Hin|apply token_eqb_eq; exact Heq].
Qed.

Lemma op_of_token_none ops t op : op_of_token ops t = None -> In op ops -> binop_token op <> t.
Proof.
  unfold op_of_token. intros H Hin E. pose proof (find_none _ _ H op Hin) as Hf. cbn beta in Hf.
  rewrite <- E, token_eqb_binop in Hf. discriminate Hf.
Qed.

Lemma tier_cases m k ops : nth_error doc_tiers m = Some (k, ops) ->
  (k = KLeft /\ (forall op, In op ops <-> level_of op = m) /\ (forall op, In op ops -> is_nonassoc op = false)) \/
  (k = KNonAssoc /\ m = 2%nat /\ (forall op, In op ops -> level_of op = 2%nat /\ is_nonassoc op = true)) \/
  (k = KIn /\ m = in_level).
Proof.
  intros H.
  do 10 (destruct m as [|m];
         [cbn in H; injection H as <- <-;
          first [ left; split; [reflexivity|split; [intros op; split; [cbn [In]; intuition (subst; reflexivity)|destruct op; cbn; intros E; try discriminate E; tauto]|cbn [In]; intuition (subst; reflexivity)]]
                | right; left; split; [reflexivity|split; [reflexivity|cbn [In]; intuition (subst; reflexivity)]]
                | right; right; split; reflexivity ] |]).
  destruct m; discriminate H.
Qed.

Lemma left_op_levels op : is_nonassoc op = false -> level_of op <> 2%nat /\ level_of op <> 3%nat.
Proof. destruct op; cbn; intros H; try discriminate H; split; discriminate. Qed.

Lemma level_le_9 op : (level_of op <= 9)%nat.
Proof. destruct op; cbn; lia. Qed.

Lemma unop_token_of t u : unop_of_token t = Some u -> unop_token u = t.
Proof. destruct t; try discriminate; intros H; injection H as <-; reflexivity. Qed.

Lemma small_constant_inv t n : small_constant t = Some n -> exists v, t = TLit v /\ bits v = n /\ n <= 128.
Proof.
  destruct t; try discriminate. cbn [small_constant]. destruct (N.leb_spec (bits v) 128) as [Hle|]; [|discriminate].
  intros H. injection H as <-. exists v. repeat split. exact Hle.
Qed.

Lemma bytes_string_bytes name : Forall (fun b => b < 256) name -> bytes_of_string (string_of_name name) = name.
Proof.
  unfold string_of_name. induction 1 as [|b name Hb _ IH]; [reflexivity|].
  cbn [string_of_bytes bytes_of_string]. rewrite N_ascii_embedding by exact Hb. rewrite IH. reflexivity.
Qed.

(* a rendering for a position that allows tiers >= m is one for every looser position *)
Lemma renders_le m e ts m' : renders m e ts -> (m' <= m)%nat -> renders m' e ts.
Proof.
  intros H Hle. destruct H.
  - apply R_const.
  - apply R_wire.
  - apply R_bin; [lia|assumption|assumption].
  - apply R_un; [lia|assumption].
  - apply R_mux; assumption.
  - apply R_slice; [lia|assumption..].
  - apply R_cat; assumption.
  - apply R_in; [lia|assumption..].
  - apply R_paren; assumption.
Qed.

(* ====================================================================================== *)
(* 1. soundness                                                                           *)
(* ====================================================================================== *)
(* an operator of a left-associative tier of level >= m comes next only after a set membership *)
Definition nolop (m : nat) (e : expr) (rest : list tok) : Prop :=
  match rest with
  | [] => True
  | t :: _ => forall op, is_nonassoc op = false -> (m <= level_of op)%nat -> tk t = binop_token op ->
                (in_level < level_of op)%nat /\ ends_in e = true
  end.

Lemma nolop_high m e rest : (10 <= m)%nat -> nolop m e rest.
Proof. intros H. destruct rest as [|t r]; [exact I|]. intros op _ Hl. pose proof (level_le_9 op). lia. Qed.

Lemma nolop_le m m' e rest : (m <= m')%nat -> nolop m e rest -> nolop m' e rest.
Proof. intros H Hn. destruct rest as [|t r]; [exact I|]. intros op Hna Hl. apply Hn; [exact Hna|lia]. Qed.

Lemma nolop_ends m e e' rest : ends_in e' = ends_in e -> nolop m e rest -> nolop m e' rest.
Proof. intros He Hn. destruct rest as [|t r]; [exact I|]. intros op Hna Hl Ht. rewrite He. apply Hn; assumption. Qed.

(* lowering the level by one where the tier of that level is not left-associative *)
Lemma nolop_skip m k ops e rest : nth_error doc_tiers m = Some (k, ops) -> k <> KLeft ->
  nolop (S m) e rest -> nolop m e rest.
Proof.
  intros Hn Hk H. destruct rest as [|t r]; [exact I|]. intros op Hna Hl.
  destruct (left_op_levels op Hna) as [H2 H3].
  destruct (tier_cases m k ops Hn) as [(-> & _)|[(_ & -> & _)|(_ & ->)]]; [congruence| |];
    apply H; try exact Hna; unfold in_level in *; lia.
Qed.

Lemma nolop_in m l items rest : (in_level <= m)%nat -> nolop m (EIn l items) rest.
Proof.
  intros Hm. destruct rest as [|t r]; [exact I|]. intros op Hna Hl _.
  destruct (left_op_levels op Hna) as [_ H3]. unfold in_level in *. split; [lia|reflexivity].
Qed.

Definition SE (m : nat) (toks : list tok) (r : expr * list tok) : Prop :=
  exists pre, toks = pre ++ snd r /\ renders m (fst r) (map tk pre) /\ printable (fst r) /\
              nolop m (fst r) (snd r).
Definition SA (toks : list tok) (r : arms * list tok) : Prop :=
  exists pre, toks = pre ++ snd r /\ renders_arms (fst r) (map tk pre) /\ printable_arms (fst r).
Definition SI (toks : list tok) (r : exprs * list tok) : Prop :=
  exists pre, toks = pre ++ snd r /\ renders_items (fst r) (map tk pre) /\ printable_items (fst r).

Lemma byte_names_app a b : byte_names (a ++ b) -> byte_names a /\ byte_names b.
Proof. apply Forall_app. Qed.

Lemma byte_names_tail t l : byte_names (t :: l) -> byte_names l.
Proof. intros H. inversion H; assumption. Qed.

Definition sound_at (f : nat) : Prop :=
  (forall m toks r, (m <= 10)%nat -> byte_names toks ->
      parse_tiers doc_tiers f (from m) toks = Some r -> SE m toks r) /\
  (forall lv ops l toks r tl, nth_error doc_tiers lv = Some (KLeft, ops) -> byte_names toks ->
      nolop (S lv) l toks -> renders lv l tl -> printable l ->
      left_loop doc_tiers f (from (S lv)) ops l toks = Some r ->
      exists pre, toks = pre ++ snd r /\ renders lv (fst r) (tl ++ map tk pre) /\ printable (fst r) /\
                  nolop lv (fst r) (snd r)) /\
  (forall toks r, byte_names toks -> parse_term doc_tiers f toks = Some r -> SE 10 toks r) /\
  (forall toks r, byte_names toks -> parse_simple doc_tiers f toks = Some r -> SE 11 toks r) /\
  (forall toks r, byte_names toks -> parse_mux_options doc_tiers f toks = Some r -> SA toks r) /\
  (forall toks r, byte_names toks -> parse_commas_exprs doc_tiers f toks = Some r -> SI toks r).

Ltac use_SE H pre Htoks Hr Hp Hn :=
  destruct H as (pre & Htoks & Hr & Hp & Hn); cbn [fst snd] in Htoks, Hr, Hp, Hn.
Ltac list_eq := repeat (rewrite <- ?app_assoc; cbn [app]); reflexivity.

Section Steps.
  Variable f : nat.
  Hypothesis IH : sound_at f.

  Let IH1 := proj1 IH.
  Let IH2 := proj1 (proj2 IH).
  Let IH3 := proj1 (proj2 (proj2 IH)).
  Let IH4 := proj1 (proj2 (proj2 (proj2 IH))).
  Let IH5 := proj1 (proj2 (proj2 (proj2 (proj2 IH)))).
  Let IH6 := proj2 (proj2 (proj2 (proj2 (proj2 IH)))).

  Lemma step_tiers m toks r : (m <= 10)%nat -> byte_names toks ->
    parse_tiers doc_tiers (S f) (from m) toks = Some r -> SE m toks r.
  Proof.
    intros Hm Hbn H. rewrite parse_tiers_S in H.
    destruct (nth_error doc_tiers m) as [[k ops]|] eqn:Hnth.
    2:{ apply nth_none_big in Hnth. assert (m = 10%nat) by lia. subst m.
        change (from 10) with (@nil tier) in H. exact (IH3 _ _ Hbn H). }
    rewrite (nth_from _ _ Hnth) in H.
    destruct (tier_cases m k ops Hnth) as [(-> & Hlev & Hna)|[(-> & -> & Hcmp)|(-> & ->)]].
    - (* left-associative tier *)
      destruct (parse_tiers doc_tiers f (from (S m)) toks) as [[l toks1]|] eqn:E1; [|discriminate H].
      assert (Hm1 : (S m <= 10)%nat).
      { destruct (Nat.eq_dec m 10) as [->|]; [discriminate Hnth|lia]. }
      pose proof (IH1 _ _ _ Hm1 Hbn E1) as S1. use_SE S1 pre1 Ht1 Hr1 Hp1 Hn1.
      assert (Hbn1 : byte_names toks1) by (rewrite Ht1 in Hbn; exact (proj2 (byte_names_app _ _ Hbn))).
      destruct (IH2 m ops l toks1 r (map tk pre1) Hnth Hbn1 Hn1 (renders_le _ _ _ m Hr1 ltac:(lia)) Hp1 H)
        as (pre2 & Ht2 & Hr2 & Hp2 & Hn2).
      exists (pre1 ++ pre2). split; [rewrite Ht1, Ht2; list_eq|].
      split; [rewrite map_app; exact Hr2|]. split; [exact Hp2|exact Hn2].
    - (* comparisons *)
      destruct (parse_tiers doc_tiers f (from 3) toks) as [[l toks1]|] eqn:E1; [|discriminate H].
      pose proof (IH1 3%nat _ _ ltac:(lia) Hbn E1) as S1. use_SE S1 pre1 Ht1 Hr1 Hp1 Hn1.
      assert (Hstop : SE 2 toks (l, toks1)).
      { exists pre1. cbn [fst snd]. split; [exact Ht1|]. split; [apply (renders_le 3); [exact Hr1|lia]|].
        split; [exact Hp1|]. apply (nolop_skip 2 KNonAssoc ops); [exact Hnth|discriminate|exact Hn1]. }
      destruct toks1 as [|t toks1']; [injection H as <-; exact Hstop|].
      destruct (op_of_token ops (tk t)) as [op|] eqn:Eop; [|injection H as <-; exact Hstop].
      destruct (op_of_token_some _ _ _ Eop) as [Hin Htok]. destruct (Hcmp op Hin) as [Hlv Hnaop].
      destruct (parse_tiers doc_tiers f (from 3) toks1') as [[r0 toks2]|] eqn:E2; [|discriminate H].
      injection H as <-.
      assert (Hbn1 : byte_names toks1').
      { rewrite Ht1 in Hbn. exact (byte_names_tail _ _ (proj2 (byte_names_app _ _ Hbn))). }
      pose proof (IH1 3%nat _ _ ltac:(lia) Hbn1 E2) as S2. use_SE S2 pre2 Ht2 Hr2 Hp2 Hn2.
      exists (pre1 ++ t :: pre2). cbn [fst snd].
      split; [rewrite Ht1, Ht2; list_eq|].
      split; [|split; [exact (conj Hp1 Hp2)|]].
      + rewrite map_app. cbn [map]. rewrite <- Htok.
        apply (R_bin 2 op l r0 (map tk pre1) (map tk pre2)); [lia| |]; rewrite ?Hnaop, Hlv; assumption.
      + apply (nolop_skip 2 KNonAssoc ops); [exact Hnth|discriminate|].
        apply (nolop_ends 3 r0); [reflexivity|exact Hn2].
    - (* set membership *)
      destruct (parse_tiers doc_tiers f (from (S in_level)) toks) as [[l toks1]|] eqn:E1; [|discriminate H].
      pose proof (IH1 (S in_level) _ _ ltac:(unfold in_level; lia) Hbn E1) as S1. use_SE S1 pre1 Ht1 Hr1 Hp1 Hn1.
      assert (Hstop : SE in_level toks (l, toks1)).
      { exists pre1. cbn [fst snd]. split; [exact Ht1|]. split; [apply (renders_le (S in_level)); [exact Hr1|lia]|].
        split; [exact Hp1|]. apply (nolop_skip in_level KIn ops); [exact Hnth|discriminate|exact Hn1]. }
      destruct toks1 as [|t toks1']; [injection H as <-; exact Hstop|].
      destruct (token_eqb (tk t) TIn) eqn:Et; [|injection H as <-; exact Hstop].
      apply token_eqb_eq in Et.
      destruct toks1' as [|t2 toks2]; [discriminate H|].
      destruct (token_eqb (tk t2) TOpenBrace) eqn:Et2; [|discriminate H]. apply token_eqb_eq in Et2.
      destruct (parse_commas_exprs doc_tiers f toks2) as [[items toks3]|] eqn:E2; [|discriminate H].
      destruct toks3 as [|t3 toks3']; [discriminate H|].
      destruct (token_eqb (tk t3) TCloseBrace) eqn:Et3; [|discriminate H]. apply token_eqb_eq in Et3.
      injection H as <-.
      assert (Hbn2 : byte_names toks2).
      { rewrite Ht1 in Hbn. exact (byte_names_tail _ _ (byte_names_tail _ _ (proj2 (byte_names_app _ _ Hbn)))). }
      destruct (IH6 _ _ Hbn2 E2) as (pre2 & Ht2 & Hr2 & Hp2). cbn [fst snd] in Ht2, Hr2, Hp2.
      exists (pre1 ++ t :: t2 :: pre2 ++ [t3]). cbn [fst snd].
      split; [rewrite Ht1, Ht2; list_eq|].
      split; [|split; [exact (conj Hp1 Hp2)|apply nolop_in; lia]].
      rewrite map_app. cbn [map]. rewrite map_app. cbn [map]. rewrite Et, Et2, Et3.
      apply (R_in in_level l (map tk pre1) items (map tk pre2)); [lia|exact Hr1|exact Hr2].
  Qed.

  Lemma step_left lv ops l toks r tl : nth_error doc_tiers lv = Some (KLeft, ops) -> byte_names toks ->
    nolop (S lv) l toks -> renders lv l tl -> printable l ->
    left_loop doc_tiers (S f) (from (S lv)) ops l toks = Some r ->
    exists pre, toks = pre ++ snd r /\ renders lv (fst r) (tl ++ map tk pre) /\ printable (fst r) /\
                nolop lv (fst r) (snd r).
  Proof.
    intros Hnth Hbn Hn Hr Hp H. rewrite left_loop_S in H.
    destruct (tier_cases lv KLeft ops Hnth) as [(_ & Hlev & Hna)|[(Hk & _)|(Hk & _)]]; try discriminate Hk.
    assert (Hlv9 : (S lv <= 10)%nat).
    { destruct (Nat.le_gt_cases (S lv) 10) as [|Hgt]; [assumption|].
      assert (Hnone : nth_error doc_tiers lv = None) by (apply nth_error_None; cbn; lia). congruence. }
    assert (Hstop : forall t toks1, toks = t :: toks1 -> op_of_token ops (tk t) = None ->
              exists pre, toks = pre ++ snd (l, toks) /\ renders lv (fst (l, toks)) (tl ++ map tk pre) /\
                          printable (fst (l, toks)) /\ nolop lv (fst (l, toks)) (snd (l, toks))).
    { intros t toks1 -> Hnone. exists []. cbn [fst snd map app]. rewrite app_nil_r.
      split; [reflexivity|]. split; [exact Hr|]. split; [exact Hp|].
      intros op Hnaop Hl Ht.
      destruct (Nat.eq_dec (level_of op) lv) as [Heq|Hne].
      - exfalso. apply (op_of_token_none ops (tk t) op Hnone); [apply Hlev; exact Heq|symmetry; exact Ht].
      - apply Hn; [exact Hnaop|lia|exact Ht]. }
    destruct toks as [|t toks1].
    - injection H as <-. exists []. cbn [fst snd map app]. rewrite app_nil_r. repeat split; assumption.
    - destruct (op_of_token ops (tk t)) as [op|] eqn:Eop; [|injection H as <-; exact (Hstop t toks1 eq_refl Eop)].
      destruct (op_of_token_some _ _ _ Eop) as [Hin Htok].
      destruct (parse_tiers doc_tiers f (from (S lv)) toks1) as [[r0 toks2]|] eqn:E2; [|discriminate H].
      pose proof (IH1 _ _ _ Hlv9 (byte_names_tail _ _ Hbn) E2) as S2. use_SE S2 pre2 Ht2 Hr2 Hp2 Hn2.
      assert (Hbn2 : byte_names toks2).
      { apply byte_names_tail in Hbn. rewrite Ht2 in Hbn. exact (proj2 (byte_names_app _ _ Hbn)). }
      assert (Hlvop : level_of op = lv) by (apply Hlev; exact Hin).
      assert (Hr' : renders lv (EBin op l r0) (tl ++ [binop_token op] ++ map tk pre2)).
      { apply R_bin; [lia| |]; rewrite ?(Hna op Hin), Hlvop; assumption. }
      destruct (IH2 lv ops (EBin op l r0) toks2 r _ Hnth Hbn2 (nolop_ends _ r0 _ _ eq_refl Hn2) Hr' (conj Hp Hp2) H)
        as (pre3 & Ht3 & Hr3 & Hp3 & Hn3).
      exists (t :: pre2 ++ pre3). split; [rewrite Ht2, Ht3; list_eq|].
      split; [|split; [exact Hp3|exact Hn3]].
      cbn [map]. rewrite map_app, <- Htok. rewrite <- !app_assoc in Hr3. cbn [app] in Hr3 |- *. exact Hr3.
  Qed.

  Lemma SE_weaken m m' toks r : (m' <= m)%nat -> (10 <= m')%nat -> SE m toks r -> SE m' toks r.
  Proof.
    intros Hle H10 (pre & Ht & Hr & Hp & _). exists pre. split; [exact Ht|].
    split; [apply (renders_le m); assumption|]. split; [exact Hp|apply nolop_high; exact H10].
  Qed.

  Lemma step_term toks r : byte_names toks -> parse_term doc_tiers (S f) toks = Some r -> SE 10 toks r.
  Proof.
    intros Hbn H. rewrite parse_term_S in H.
    destruct toks as [|t toks1]; [discriminate H|].
    destruct (unop_of_token (tk t)) as [u|] eqn:Eu.
    - destruct (parse_simple doc_tiers f toks1) as [[e toks2]|] eqn:E1; [|discriminate H]. injection H as <-.
      pose proof (IH4 _ _ (byte_names_tail _ _ Hbn) E1) as S1. use_SE S1 pre1 Ht1 Hr1 Hp1 Hn1.
      exists (t :: pre1). cbn [fst snd]. split; [rewrite Ht1; reflexivity|].
      split; [|split; [exact Hp1|apply nolop_high; lia]].
      cbn [map]. rewrite <- (unop_token_of _ _ Eu).
      apply (R_un 10 u e (map tk pre1)); [unfold term_level; lia|exact Hr1].
    - destruct (parse_simple doc_tiers f (t :: toks1)) as [[e rest1]|] eqn:E1; [|discriminate H].
      pose proof (IH4 _ _ Hbn E1) as S1.
      assert (Hplain : SE 10 (t :: toks1) (e, rest1)) by (apply (SE_weaken 11); [lia|lia|exact S1]).
      destruct rest1 as [|t1 rest1]; [injection H as <-; exact Hplain|].
      destruct (token_eqb (tk t1) TOpenBracket) eqn:Eb.
      2:{ destruct rest1 as [|t2 [|t3 [|t4 [|t5 rest1]]]]; injection H as <-; exact Hplain. }
      apply token_eqb_eq in Eb.
      destruct rest1 as [|t2 [|t3 [|t4 [|t5 rest1]]]]; try discriminate H.
      destruct (small_constant (tk t2)) as [lo|] eqn:Elo; [|discriminate H].
      destruct (small_constant (tk t4)) as [hi|] eqn:Ehi; [|discriminate H].
      destruct (token_eqb (tk t3) TDotDot) eqn:E3; [|discriminate H].
      destruct (token_eqb (tk t5) TCloseBracket) eqn:E5; [|discriminate H].
      cbn [andb] in H. injection H as <-.
      apply token_eqb_eq in E3, E5.
      destruct (small_constant_inv _ _ Elo) as (vlo & Evlo & Hblo & Hlo).
      destruct (small_constant_inv _ _ Ehi) as (vhi & Evhi & Hbhi & Hhi).
      use_SE S1 pre1 Ht1 Hr1 Hp1 Hn1.
      exists (pre1 ++ [t1; t2; t3; t4; t5]). cbn [fst snd]. split; [rewrite Ht1; list_eq|].
      split; [|split; [exact (conj Hp1 (conj Hlo Hhi))|apply nolop_high; lia]].
      rewrite map_app. cbn [map]. rewrite Eb, Evlo, E3, Evhi, E5.
      apply R_slice; [unfold term_level; lia|exact Hr1|exact Hblo|exact Hbhi].
  Qed.

  Lemma step_simple toks r : byte_names toks -> parse_simple doc_tiers (S f) toks = Some r -> SE 11 toks r.
  Proof.
    intros Hbn H. rewrite parse_simple_S in H.
    destruct toks as [|t toks1]; [discriminate H|].
    assert (Hbt : byte_name (tk t)) by (inversion Hbn; assumption).
    pose proof (byte_names_tail _ _ Hbn) as Hbn1.
    destruct (tk t) eqn:Et; try discriminate H.
    - (* literal *)
      injection H as <-. exists [t]. cbn [fst snd map]. rewrite Et.
      split; [reflexivity|]. split; [apply R_const|]. split; [exact I|apply nolop_high; lia].
    - (* ( *)
      destruct (parse_tiers doc_tiers f doc_tiers toks1) as [[e toks2]|] eqn:E1; [|discriminate H].
      pose proof (IH1 0%nat _ _ ltac:(lia) Hbn1 E1) as S1. use_SE S1 pre1 Ht1 Hr1 Hp1 Hn1.
      destruct toks2 as [|t2 toks2]; [discriminate H|].
      destruct (token_eqb (tk t2) TCloseParen) eqn:Ec.
      + apply token_eqb_eq in Ec. injection H as <-.
        exists (t :: pre1 ++ [t2]). cbn [fst snd]. split; [rewrite Ht1; list_eq|].
        split; [|split; [exact Hp1|apply nolop_high; lia]].
        cbn [map]. rewrite map_app. cbn [map]. rewrite Et, Ec.
        apply (R_paren 11 e (map tk pre1)). exact Hr1.
      + destruct (token_eqb (tk t2) TDotDot) eqn:Ed; [|discriminate H]. apply token_eqb_eq in Ed.
        destruct (parse_tiers doc_tiers f doc_tiers toks2) as [[r0 toks3]|] eqn:E2; [|discriminate H].
        assert (Hbn2 : byte_names toks2).
        { rewrite Ht1 in Hbn1. exact (byte_names_tail _ _ (proj2 (byte_names_app _ _ Hbn1))). }
        pose proof (IH1 0%nat _ _ ltac:(lia) Hbn2 E2) as S2. use_SE S2 pre2 Ht2 Hr2 Hp2 Hn2.
        destruct toks3 as [|t3 toks3]; [discriminate H|].
        destruct (token_eqb (tk t3) TCloseParen) eqn:Ec3; [|discriminate H]. apply token_eqb_eq in Ec3.
        injection H as <-.
        exists (t :: pre1 ++ t2 :: pre2 ++ [t3]). cbn [fst snd]. split; [rewrite Ht1, Ht2; list_eq|].
        split; [|split; [exact (conj Hp1 Hp2)|apply nolop_high; lia]].
        cbn [map]. rewrite map_app. cbn [map]. rewrite map_app. cbn [map]. rewrite Et, Ed, Ec3.
        apply (R_cat 11 e r0 (map tk pre1) (map tk pre2)); assumption.
    - (* [ *)
      destruct (parse_mux_options doc_tiers f toks1) as [[a toks2]|] eqn:E1; [|discriminate H].
      destruct (IH5 _ _ Hbn1 E1) as (pre1 & Ht1 & Hr1 & Hp1). cbn [fst snd] in Ht1, Hr1, Hp1.
      destruct toks2 as [|t2 toks2]; [discriminate H|].
      destruct (token_eqb (tk t2) TCloseBracket) eqn:Ec; [|discriminate H]. apply token_eqb_eq in Ec.
      injection H as <-.
      exists (t :: pre1 ++ [t2]). cbn [fst snd]. split; [rewrite Ht1; list_eq|].
      split; [|split; [exact Hp1|apply nolop_high; lia]].
      cbn [map]. rewrite map_app. cbn [map]. rewrite Et, Ec.
      apply (R_mux 11 a (map tk pre1)). exact Hr1.
    - (* identifier *)
      injection H as <-. exists [t]. cbn [fst snd map]. rewrite Et.
      split; [reflexivity|]. split; [|split; [exact I|apply nolop_high; lia]].
      cbn [byte_name] in Hbt.
      rewrite <- (bytes_string_bytes name Hbt) at 2. apply R_wire.
  Qed.

  Lemma step_mux toks r : byte_names toks -> parse_mux_options doc_tiers (S f) toks = Some r -> SA toks r.
  Proof.
    intros Hbn H. rewrite parse_mux_options_S in H.
    destruct toks as [|t toks0].
    { injection H as <-. exists []. repeat split. apply RA_nil. }
    destruct (token_eqb (tk t) TCloseBracket).
    { injection H as <-. exists []. repeat split. apply RA_nil. }
    destruct (parse_tiers doc_tiers f doc_tiers (t :: toks0)) as [[c toks1]|] eqn:E1; [|discriminate H].
    pose proof (IH1 0%nat _ _ ltac:(lia) Hbn E1) as S1. use_SE S1 pre1 Ht1 Hr1 Hp1 Hn1.
    destruct toks1 as [|t1 toks1]; [discriminate H|].
    destruct (token_eqb (tk t1) TColon) eqn:Ec; [|discriminate H]. apply token_eqb_eq in Ec.
    destruct (parse_tiers doc_tiers f doc_tiers toks1) as [[v toks2]|] eqn:E2; [|discriminate H].
    assert (Hbn1 : byte_names toks1).
    { rewrite Ht1 in Hbn. exact (byte_names_tail _ _ (proj2 (byte_names_app _ _ Hbn))). }
    pose proof (IH1 0%nat _ _ ltac:(lia) Hbn1 E2) as S2. use_SE S2 pre2 Ht2 Hr2 Hp2 Hn2.
    assert (Hlast : SA (t :: toks0) (ACons c v ANil, toks2)).
    { exists (pre1 ++ t1 :: pre2). cbn [fst snd]. split; [rewrite Ht1, Ht2; list_eq|].
      split; [|exact (conj Hp1 (conj Hp2 I))].
      rewrite map_app. cbn [map]. rewrite Ec. apply (RA_last c v (map tk pre1) (map tk pre2)); assumption. }
    destruct toks2 as [|t2 toks2]; [injection H as <-; exact Hlast|].
    destruct (token_eqb (tk t2) TSemicolon) eqn:Es; [|injection H as <-; exact Hlast].
    apply token_eqb_eq in Es.
    destruct (parse_mux_options doc_tiers f toks2) as [[rest toks3]|] eqn:E3; [|discriminate H].
    injection H as <-.
    assert (Hbn2 : byte_names toks2).
    { rewrite Ht2 in Hbn1. exact (byte_names_tail _ _ (proj2 (byte_names_app _ _ Hbn1))). }
    destruct (IH5 _ _ Hbn2 E3) as (pre3 & Ht3 & Hr3 & Hp3). cbn [fst snd] in Ht3, Hr3, Hp3.
    exists (pre1 ++ t1 :: pre2 ++ t2 :: pre3). cbn [fst snd]. split; [rewrite Ht1, Ht2, Ht3; list_eq|].
    split; [|exact (conj Hp1 (conj Hp2 Hp3))].
    rewrite map_app. cbn [map]. rewrite map_app. cbn [map]. rewrite Ec, Es.
    apply (RA_cons c v rest (map tk pre1) (map tk pre2) (map tk pre3)); assumption.
  Qed.

  Lemma step_commas toks r : byte_names toks -> parse_commas_exprs doc_tiers (S f) toks = Some r -> SI toks r.
  Proof.
    intros Hbn H. rewrite parse_commas_exprs_S in H.
    destruct toks as [|t toks0].
    { injection H as <-. exists []. repeat split. apply RI_nil. }
    destruct (token_eqb (tk t) TCloseBrace).
    { injection H as <-. exists []. repeat split. apply RI_nil. }
    destruct (parse_tiers doc_tiers f doc_tiers (t :: toks0)) as [[e toks1]|] eqn:E1; [|discriminate H].
    pose proof (IH1 0%nat _ _ ltac:(lia) Hbn E1) as S1. use_SE S1 pre1 Ht1 Hr1 Hp1 Hn1.
    assert (Hlast : SI (t :: toks0) (XCons e XNil, toks1)).
    { exists pre1. cbn [fst snd]. split; [exact Ht1|]. split; [apply RI_last; exact Hr1|exact (conj Hp1 I)]. }
    destruct toks1 as [|t1 toks1]; [injection H as <-; exact Hlast|].
    destruct (token_eqb (tk t1) TComma) eqn:Ec; [|injection H as <-; exact Hlast].
    apply token_eqb_eq in Ec.
    destruct (parse_commas_exprs doc_tiers f toks1) as [[rest toks2]|] eqn:E2; [|discriminate H].
    injection H as <-.
    assert (Hbn1 : byte_names toks1).
    { rewrite Ht1 in Hbn. exact (byte_names_tail _ _ (proj2 (byte_names_app _ _ Hbn))). }
    destruct (IH6 _ _ Hbn1 E2) as (pre2 & Ht2 & Hr2 & Hp2). cbn [fst snd] in Ht2, Hr2, Hp2.
    exists (pre1 ++ t1 :: pre2). cbn [fst snd]. split; [rewrite Ht1, Ht2; list_eq|].
    split; [|exact (conj Hp1 Hp2)].
    rewrite map_app. cbn [map]. rewrite Ec.
    apply (RI_cons e rest (map tk pre1) (map tk pre2)); assumption.
  Qed.
End Steps.

Lemma sound_all : forall f, sound_at f.
Proof.
  induction f as [|f IH].
  - unfold sound_at. repeat split; intros; discriminate.
  - unfold sound_at. split; [|split; [|split; [|split; [|split]]]].
    + intros m toks r. apply step_tiers. exact IH.
    + intros lv ops l toks r tl. apply step_left. exact IH.
    + intros toks r. apply step_term. exact IH.
    + intros toks r. apply step_simple. exact IH.
    + intros toks r. apply step_mux. exact IH.
    + intros toks r. apply step_commas. exact IH.
Qed.

Theorem parser_sound_holds : stmt_parser_sound.
Proof.
  intros fuel toks e rest Hbn H. unfold parse_expr in H.
  destruct (proj1 (sound_all fuel) 0%nat toks (e, rest) ltac:(lia) Hbn H) as (pre & Ht & Hr & Hp & _).
  exists pre. repeat split; assumption.
Qed.

Theorem parser_stops_holds : stmt_parser_stops.
Proof.
  intros fuel toks e rest Hbn H. unfold parse_expr in H.
  destruct (proj1 (sound_all fuel) 0%nat toks (e, rest) ltac:(lia) Hbn H) as (_ & _ & _ & _ & Hn).
  cbn [fst snd] in Hn. destruct rest as [|t rest']; [exact I|].
  intros op Hna Ht. apply Hn; [exact Hna|lia|exact Ht].
Qed.

(* the hypothesis on names is needed: a "name" with an element above 255 is read as the wire "a",
   whose only spelling is the bytes of "a" *)
Lemma parser_sound_any_names_refuted : ~ stmt_parser_sound_any_names.
Proof.
  intros H.
  destruct (H 20%nat [at_pos (TIdentifier [353])] (EWire "a") [] ltac:(vm_compute; reflexivity))
    as (pre & Ht & Hr & _).
  rewrite app_nil_r in Ht. subst pre. cbn [map at_pos tk fst snd] in Hr.
  inversion Hr; subst; discriminate.
Qed.

Lemma map_tk_at_pos ts : map tk (map at_pos ts) = ts.
Proof. rewrite map_map. cbn. apply map_id. Qed.

Theorem parser_characterised_holds : stmt_parser_characterised.
Proof.
  intros ts rest e Hst Hbn. split.
  - intros [fuel H]. destruct (parser_sound_holds fuel _ e rest Hbn H) as (pre & Ht & Hr & Hp).
    apply app_inv_tail in Ht. subst pre. rewrite map_tk_at_pos in Hr. split; assumption.
  - intros [Hr Hp]. destruct (any_parenthesisation_holds e ts Hp Hr rest Hst) as [fuel0 F].
    exists fuel0. apply F. lia.
Qed.

Theorem parser_rejects_non_renderings_holds : stmt_parser_rejects_non_renderings.
Proof.
  intros ts rest Hst Hbn Hno fuel e H.
  destruct (proj1 (parser_characterised_holds ts rest e Hst Hbn) (ex_intro _ fuel H)) as [Hr Hp].
  exact (Hno e Hp Hr).
Qed.

(* ---- corner cases where the table matters ---- *)
Ltac byte_names_tac := unfold byte_names; repeat first [exact I | reflexivity | constructor].

(* if the parser stops before the end of ts, then ts is a rendering of nothing *)
Lemma stops_early_no_rendering ts F e0 rest0 :
  parse_expr doc_tiers F (map at_pos ts) = Some (e0, rest0) -> rest0 <> [] ->
  forall e, printable e -> ~ renders 0 e ts.
Proof.
  intros H0 Hne e Hp Hr.
  destruct (any_parenthesisation_holds e ts Hp Hr [] I) as [fuel0 F1].
  specialize (F1 (Nat.max fuel0 F) ltac:(lia)). rewrite app_nil_r in F1.
  unfold parse_expr in *. rewrite (pt_mono doc_tiers _ _ _ _ (Nat.max fuel0 F) H0) in F1 by lia.
  injection F1 as _ E. exact (Hne E).
Qed.

Definition idt (s : string) : token := TIdentifier (bytes_of_string s).
Definition w (s : string) : expr := EWire s.

(* comparisons and set memberships do not chain: the texts have no rendering, the parser stops
   before the second operator and its caller (expecting a separator) rejects *)
Example no_chaining :
  (forall e, printable e -> ~ renders 0 e [idt "a"; TEqual; idt "b"; TEqual; idt "c"]) /\
  (forall e, printable e -> ~ renders 0 e [idt "a"; TLess; idt "b"; TGreaterEqual; idt "c"]) /\
  (forall e, printable e -> ~ renders 0 e [idt "a"; TIn; TOpenBrace; idt "b"; TCloseBrace; TIn; TOpenBrace; idt "c"; TCloseBrace]) /\
  (forall e, printable e -> ~ renders 0 e [TMinus; idt "x"; TOpenBracket; num 0; TDotDot; num 1; TCloseBracket]) /\
  (forall e, printable e -> ~ renders 0 e [idt "a"; TIn; TOpenBrace; idt "b"; TCloseBrace; TPlus; idt "c"]) /\
  parse_text test_uclass doc_tiers (bytes_of_string "t = a == b == c;") = None /\
  parse_text test_uclass doc_tiers (bytes_of_string "t = a in {b} + c;") = None /\
  parse_text test_uclass doc_tiers (bytes_of_string "t = (a == b) == c;") <> None.
Proof.
  repeat match goal with |- _ /\ _ => split end;
    try (eapply (stops_early_no_rendering _ 100%nat); [vm_compute; reflexivity|discriminate]);
    vm_compute; try reflexivity; discriminate.
Qed.

(* what the table assigns where two tiers meet: "in" binds tighter than the comparisons and looser
   than | ; && looser than == ; + tighter than << ; unary operators tightest; - is left-associative *)
Example table_corner_cases :
  let p ts := parse_expr doc_tiers 100 (map at_pos ts) in
  p [idt "a"; TLess; idt "b"; TIn; TOpenBrace; idt "c"; TCloseBrace]
    = Some (EBin Less (w "a") (EIn (w "b") (XCons (w "c") XNil)), []) /\
  p [idt "a"; TIn; TOpenBrace; idt "b"; TCloseBrace; TLess; idt "c"]
    = Some (EBin Less (EIn (w "a") (XCons (w "b") XNil)) (w "c"), []) /\
  p [idt "a"; TOr; idt "b"; TIn; TOpenBrace; idt "c"; TCloseBrace]
    = Some (EIn (EBin Or (w "a") (w "b")) (XCons (w "c") XNil), []) /\
  p [idt "a"; TOrOr; idt "b"; TIn; TOpenBrace; idt "c"; TCloseBrace]
    = Some (EBin LogicalOr (w "a") (EIn (w "b") (XCons (w "c") XNil)), []) /\
  p [idt "a"; TEqual; idt "b"; TAndAnd; idt "c"; TNotEqual; idt "d"]
    = Some (EBin LogicalAnd (EBin Equal (w "a") (w "b")) (EBin NotEqual (w "c") (w "d")), []) /\
  p [idt "a"; TLeftShift; idt "b"; TPlus; idt "c"]
    = Some (EBin LeftShift (w "a") (EBin Add (w "b") (w "c")), []) /\
  p [TNot; idt "a"; TEqual; idt "b"] = Some (EBin Equal (EUn Not (w "a")) (w "b"), []) /\
  p [idt "a"; TMinus; idt "b"; TMinus; idt "c"]
    = Some (EBin Sub (EBin Sub (w "a") (w "b")) (w "c"), []) /\
  (* and by the characterisation these token lists are renderings of exactly these expressions *)
  renders 0 (EBin Less (w "a") (EIn (w "b") (XCons (w "c") XNil)))
    [idt "a"; TLess; idt "b"; TIn; TOpenBrace; idt "c"; TCloseBrace].
Proof.
  cbv zeta. repeat match goal with |- _ /\ _ => split end; try (vm_compute; reflexivity).
  assert (Hbn : byte_names (map at_pos [idt "a"; TLess; idt "b"; TIn; TOpenBrace; idt "c"; TCloseBrace] ++ []))
    by (cbn [map app]; byte_names_tac).
  apply (proj1 (parser_characterised_holds _ [] _ I Hbn)).
  exists 100%nat. vm_compute. reflexivity.
Qed.

(* ====================================================================================== *)
(* 3. statements: soundness                                                               *)
(* ====================================================================================== *)
Lemma ident_name name : Forall (fun b => b < 256) name -> ident (string_of_name name) = TIdentifier name.
Proof. intros H. unfold ident. rewrite bytes_string_bytes by exact H. reflexivity. Qed.

Lemma byte_names_head t l : byte_names (t :: l) -> byte_name (tk t).
Proof. intros H. inversion H; assumption. Qed.

Lemma parse_expr_sound f toks e rest : byte_names toks -> parse_expr doc_tiers f toks = Some (e, rest) ->
  exists pre, toks = pre ++ rest /\ renders 0 e (map tk pre) /\ printable e /\ byte_names rest.
Proof.
  intros Hbn H. destruct (parser_sound_holds f toks e rest Hbn H) as (pre & Ht & Hr & Hp).
  exists pre. repeat split; try assumption. rewrite Ht in Hbn. exact (proj2 (byte_names_app _ _ Hbn)).
Qed.

Lemma wires_sound f : forall toks d rest, byte_names toks ->
  parse_wire_decls f toks = Some (d, rest) ->
  exists pre, toks = pre ++ rest /\ renders_wires d (map tk pre).
Proof.
  induction f as [|f IH]; intros toks d rest Hbn H; [discriminate H|].
  cbn [parse_wire_decls] in H.
  assert (Hnil : forall toks0, Some (@nil (string * width), toks0) = Some (d, rest) ->
                   exists pre, toks0 = pre ++ rest /\ renders_wires d (map tk pre)).
  { intros toks0 E. injection E as <- <-. exists []. split; [reflexivity|apply RW_nil]. }
  destruct toks as [|t1 toks]; [exact (Hnil _ H)|].
  pose proof (byte_names_head _ _ Hbn) as Hb1.
  destruct toks as [|t2 toks]; [destruct (tk t1); try discriminate H; exact (Hnil _ H)|].
  destruct toks as [|t3 toks1]; [destruct (tk t1); try discriminate H; exact (Hnil _ H)|].
  destruct (tk t1) eqn:E1; try exact (Hnil _ H).
  destruct (small_constant (tk t3)) as [w|] eqn:E3; [|discriminate H].
  destruct (token_eqb (tk t2) TColon) eqn:E2; [|discriminate H]. apply token_eqb_eq in E2.
  destruct (small_constant_inv _ _ E3) as (v & Ev & Hbv & Hw). subst w.
  cbn [byte_name] in Hb1.
  assert (Hlast : forall toks0, toks1 = toks0 ->
            exists pre, t1 :: t2 :: t3 :: toks1 = pre ++ toks0 /\
                        renders_wires [(string_of_name name, Bits (bits v))] (map tk pre)).
  { intros toks0 <-. exists [t1; t2; t3]. split; [reflexivity|]. cbn [map]. rewrite E1, E2, Ev.
    rewrite <- (ident_name name Hb1). apply RW_last. exact Hw. }
  destruct toks1 as [|t4 toks2]; [injection H as <- <-; exact (Hlast [] eq_refl)|].
  destruct (token_eqb (tk t4) TComma) eqn:E4; [|injection H as <- <-; exact (Hlast _ eq_refl)].
  apply token_eqb_eq in E4.
  destruct (parse_wire_decls f toks2) as [[rest0 toks3]|] eqn:Er; [|discriminate H]. injection H as <- <-.
  assert (Hbn2 : byte_names toks2) by (do 4 apply byte_names_tail in Hbn; exact Hbn).
  destruct (IH _ _ _ Hbn2 Er) as (pre & -> & Hr).
  exists (t1 :: t2 :: t3 :: t4 :: pre). split; [reflexivity|]. cbn [map]. rewrite E1, E2, Ev, E4.
  rewrite <- (ident_name name Hb1). apply (RW_cons _ v rest0 (map tk pre)); assumption.
Qed.

Lemma consts_sound f : forall toks d rest, byte_names toks ->
  parse_const_decls doc_tiers f toks = Some (d, rest) ->
  exists pre, toks = pre ++ rest /\ renders_consts d (map tk pre) /\ Forall (fun ne => printable (snd ne)) d.
Proof.
  induction f as [|f IH]; intros toks d rest Hbn H; [discriminate H|].
  cbn [parse_const_decls] in H.
  assert (Hnil : forall toks0, Some (@nil (string * expr), toks0) = Some (d, rest) ->
                   exists pre, toks0 = pre ++ rest /\ renders_consts d (map tk pre) /\
                               Forall (fun ne => printable (snd ne)) d).
  { intros toks0 E. injection E as <- <-. exists []. split; [reflexivity|]. split; [apply RC_nil|constructor]. }
  destruct toks as [|t1 toks]; [exact (Hnil _ H)|].
  pose proof (byte_names_head _ _ Hbn) as Hb1.
  destruct toks as [|t2 toks1]; [destruct (tk t1); try discriminate H; exact (Hnil _ H)|].
  destruct (tk t1) eqn:E1; try exact (Hnil _ H).
  destruct (token_eqb (tk t2) TAssign) eqn:E2; [|discriminate H]. apply token_eqb_eq in E2.
  destruct (parse_expr doc_tiers f toks1) as [[e toks2]|] eqn:Ee; [|discriminate H].
  assert (Hbn1 : byte_names toks1) by (do 2 apply byte_names_tail in Hbn; exact Hbn).
  destruct (parse_expr_sound _ _ _ _ Hbn1 Ee) as (pre1 & Ht1 & Hr1 & Hp1 & Hbn2).
  cbn [byte_name] in Hb1.
  assert (Hlast : exists pre, t1 :: t2 :: toks1 = pre ++ toks2 /\
                    renders_consts [(string_of_name name, e)] (map tk pre) /\
                    Forall (fun ne => printable (snd ne)) [(string_of_name name, e)]).
  { exists (t1 :: t2 :: pre1). split; [rewrite Ht1; reflexivity|]. split; [|repeat constructor; exact Hp1].
    cbn [map]. rewrite E1, E2, <- (ident_name name Hb1). apply (RC_last _ e (map tk pre1)). exact Hr1. }
  destruct toks2 as [|t3 toks2]; [injection H as <- <-; exact Hlast|].
  destruct (token_eqb (tk t3) TComma) eqn:E3; [|injection H as <- <-; exact Hlast]. apply token_eqb_eq in E3.
  destruct (parse_const_decls doc_tiers f toks2) as [[rest0 toks3]|] eqn:Er; [|discriminate H]. injection H as <- <-.
  destruct (IH _ _ _ (byte_names_tail _ _ Hbn2) Er) as (pre2 & -> & Hr2 & Hp2).
  exists (t1 :: t2 :: pre1 ++ t3 :: pre2). split; [rewrite Ht1; list_eq|].
  split; [|constructor; [exact Hp1|exact Hp2]].
  cbn [map]. rewrite map_app. cbn [map]. rewrite E1, E2, E3, <- (ident_name name Hb1).
  apply (RC_cons _ e rest0 (map tk pre1) (map tk pre2)); assumption.
Qed.

Lemma targets_sound f : forall toks names rest, byte_names toks ->
  parse_targets f toks = (names, rest) ->
  exists pre, toks = pre ++ rest /\ byte_names rest /\
    ((names = [] /\ pre = []) \/ renders_targets names (map tk pre)).
Proof.
  induction f as [|f IH]; intros toks names rest Hbn H.
  - injection H as <- <-. exists []. repeat split; [exact Hbn|left; split; reflexivity].
  - cbn [parse_targets] in H.
    assert (Hnil : ([] : list string, toks) = (names, rest) ->
              exists pre, toks = pre ++ rest /\ byte_names rest /\
                ((names = [] /\ pre = []) \/ renders_targets names (map tk pre))).
    { intros E. injection E as <- <-. exists []. repeat split; [exact Hbn|left; split; reflexivity]. }
    destruct toks as [|t1 toks]; [exact (Hnil H)|].
    destruct toks as [|t2 toks1]; [exact (Hnil H)|].
    pose proof (byte_names_head _ _ Hbn) as Hb1.
    destruct (tk t1) eqn:E1; try exact (Hnil H).
    destruct (token_eqb (tk t2) TAssign) eqn:E2; [|exact (Hnil H)]. apply token_eqb_eq in E2.
    destruct (parse_targets f toks1) as [more rest0] eqn:Er. injection H as <- <-.
    assert (Hbn1 : byte_names toks1) by (do 2 apply byte_names_tail in Hbn; exact Hbn).
    destruct (IH _ _ _ Hbn1 Er) as (pre & -> & Hbr & Hmore).
    cbn [byte_name] in Hb1.
    exists (t1 :: t2 :: pre). split; [reflexivity|]. split; [exact Hbr|]. right.
    cbn [map]. rewrite E1, E2, <- (ident_name name Hb1).
    destruct Hmore as [[-> ->]|Hm]; [apply RT_one|apply (RT_cons _ more (map tk pre)); exact Hm].
Qed.

Lemma assigns_sound f : forall toks a rest, byte_names toks ->
  parse_assignments doc_tiers f toks = Some (a, rest) ->
  exists pre, toks = pre ++ rest /\ renders_assigns a (map tk pre) /\ Forall (fun ne => printable (snd ne)) a.
Proof.
  induction f as [|f IH]; intros toks a rest Hbn H; [discriminate H|].
  cbn [parse_assignments] in H.
  destruct (parse_targets (List.length toks) toks) as [names toks1] eqn:Et.
  destruct (targets_sound _ _ _ _ Hbn Et) as (pre0 & Ht0 & Hbn1 & Hnames).
  destruct names as [|n0 names0]; [discriminate H|].
  destruct Hnames as [[Hc _]|Hnames]; [discriminate Hc|].
  destruct (parse_expr doc_tiers f toks1) as [[e toks2]|] eqn:Ee; [|discriminate H].
  destruct (parse_expr_sound _ _ _ _ Hbn1 Ee) as (pre1 & Ht1 & Hr1 & Hp1 & Hbn2).
  assert (Hlast : exists pre, toks = pre ++ toks2 /\ renders_assigns [(n0 :: names0, e)] (map tk pre) /\
                    Forall (fun ne => printable (snd ne)) [(n0 :: names0, e)]).
  { exists (pre0 ++ pre1). split; [rewrite Ht0, Ht1; list_eq|]. split; [|repeat constructor; exact Hp1].
    rewrite map_app. apply RG_last; assumption. }
  destruct toks2 as [|t toks2]; [injection H as <- <-; exact Hlast|].
  destruct (token_eqb (tk t) TComma) eqn:Ec; [|injection H as <- <-; exact Hlast]. apply token_eqb_eq in Ec.
  assert (Hcomma : exists pre, toks = pre ++ toks2 /\ renders_assigns [(n0 :: names0, e)] (map tk pre) /\
                     Forall (fun ne => printable (snd ne)) [(n0 :: names0, e)]).
  { exists (pre0 ++ pre1 ++ [t]). split; [rewrite Ht0, Ht1; list_eq|]. split; [|repeat constructor; exact Hp1].
    rewrite !map_app. cbn [map]. rewrite Ec. apply RG_last_comma; assumption. }
  destruct toks2 as [|t2 toks3]; [injection H as <- <-; exact Hcomma|].
  destruct (tk t2) eqn:E2; try (injection H as <- <-; exact Hcomma).
  destruct (parse_assignments doc_tiers f (t2 :: toks3)) as [[rest0 toks4]|] eqn:Er; [|discriminate H].
  injection H as <- <-.
  destruct (IH _ _ _ (byte_names_tail _ _ Hbn2) Er) as (pre2 & Ht2 & Hr2 & Hp2).
  exists (pre0 ++ pre1 ++ t :: pre2). split; [rewrite Ht0, Ht1, Ht2; list_eq|].
  split; [|constructor; [exact Hp1|exact Hp2]].
  rewrite !map_app. cbn [map]. rewrite Ec.
  apply (RG_cons _ e rest0 (map tk pre0) (map tk pre1) (map tk pre2)); assumption.
Qed.

Lemma regs_sound f : forall toks regs rest, byte_names toks ->
  parse_register_decls doc_tiers f toks = Some (regs, rest) ->
  exists pre, toks = pre ++ rest /\ renders_regs regs (map tk pre) /\ Forall (fun r => printable (snd r)) regs.
Proof.
  induction f as [|f IH]; intros toks regs rest Hbn H; [discriminate H|].
  cbn [parse_register_decls] in H.
  assert (Hnil : forall toks0, Some (@nil (string * width * expr), toks0) = Some (regs, rest) ->
                   exists pre, toks0 = pre ++ rest /\ renders_regs regs (map tk pre) /\
                               Forall (fun r => printable (snd r)) regs).
  { intros toks0 E. injection E as <- <-. exists []. split; [reflexivity|]. split; [apply RR_nil|constructor]. }
  destruct toks as [|t1 toks]; [exact (Hnil _ H)|].
  pose proof (byte_names_head _ _ Hbn) as Hb1.
  destruct toks as [|t2 toks]; [destruct (tk t1); try discriminate H; exact (Hnil _ H)|].
  destruct toks as [|t3 toks]; [destruct (tk t1); try discriminate H; exact (Hnil _ H)|].
  destruct toks as [|t4 toks1]; [destruct (tk t1); try discriminate H; exact (Hnil _ H)|].
  destruct (tk t1) eqn:E1; try exact (Hnil _ H).
  destruct (small_constant (tk t3)) as [w|] eqn:E3; [|discriminate H].
  destruct (token_eqb (tk t2) TColon) eqn:E2; [|discriminate H]. apply token_eqb_eq in E2.
  destruct (token_eqb (tk t4) TAssign) eqn:E4; [|discriminate H]. apply token_eqb_eq in E4.
  cbn [andb] in H.
  destruct (small_constant_inv _ _ E3) as (v & Ev & Hbv & Hw). subst w.
  destruct (parse_expr doc_tiers f toks1) as [[e toks2]|] eqn:Ee; [|discriminate H].
  assert (Hbn1 : byte_names toks1) by (do 4 apply byte_names_tail in Hbn; exact Hbn).
  destruct (parse_expr_sound _ _ _ _ Hbn1 Ee) as (pre1 & Ht1 & Hr1 & Hp1 & Hbn2).
  cbn [byte_name] in Hb1.
  assert (Hlast : exists pre, t1 :: t2 :: t3 :: t4 :: toks1 = pre ++ toks2 /\
                    renders_regs [(string_of_name name, Bits (bits v), e)] (map tk pre) /\
                    Forall (fun r => printable (snd r)) [(string_of_name name, Bits (bits v), e)]).
  { exists (t1 :: t2 :: t3 :: t4 :: pre1). split; [rewrite Ht1; reflexivity|]. split; [|repeat constructor; exact Hp1].
    cbn [map]. rewrite E1, E2, Ev, E4, <- (ident_name name Hb1). apply (RR_last _ v e (map tk pre1)); assumption. }
  destruct toks2 as [|t5 toks2]; [injection H as <- <-; exact Hlast|].
  destruct (token_eqb (tk t5) TSemicolon) eqn:E5; [|injection H as <- <-; exact Hlast]. apply token_eqb_eq in E5.
  destruct (parse_register_decls doc_tiers f toks2) as [[rest0 toks3]|] eqn:Er; [|discriminate H]. injection H as <- <-.
  destruct (IH _ _ _ (byte_names_tail _ _ Hbn2) Er) as (pre2 & -> & Hr2 & Hp2).
  exists (t1 :: t2 :: t3 :: t4 :: pre1 ++ t5 :: pre2). split; [rewrite Ht1; list_eq|].
  split; [|constructor; [exact Hp1|exact Hp2]].
  cbn [map]. rewrite map_app. cbn [map]. rewrite E1, E2, Ev, E4, E5, <- (ident_name name Hb1).
  apply (RR_cons _ v e rest0 (map tk pre1) (map tk pre2)); assumption.
Qed.

Definition kind_of_stmt (s : stmt) : stmt_kind := if needs_semi s then NeedSemi else NoSemi.

Lemma statement_sound F toks s k rest : byte_names toks ->
  parse_statement doc_tiers F toks = Some (s, k, rest) ->
  exists pre, toks = pre ++ rest /\ renders_stmt s (map tk pre) /\ printable_stmt s /\ k = kind_of_stmt s /\
              byte_names rest.
Proof.
  intros Hbn H. unfold parse_statement in H.
  destruct toks as [|t toks1]; [discriminate H|].
  pose proof (byte_names_tail _ _ Hbn) as Hbn1.
  destruct (tk t) eqn:Et; try discriminate H.
  - destruct (parse_wire_decls F toks1) as [[d rest0]|] eqn:E; [|discriminate H]. injection H as <- <- <-.
    destruct (wires_sound _ _ _ _ Hbn1 E) as (pre & -> & Hr).
    exists (t :: pre). split; [reflexivity|]. cbn [map]. rewrite Et.
    split; [apply (RS_wire d (map tk pre)); exact Hr|]. split; [exact I|]. split; [reflexivity|].
    exact (proj2 (byte_names_app _ _ Hbn1)).
  - destruct (parse_const_decls doc_tiers F toks1) as [[d rest0]|] eqn:E; [|discriminate H]. injection H as <- <- <-.
    destruct (consts_sound _ _ _ _ Hbn1 E) as (pre & -> & Hr & Hp).
    exists (t :: pre). split; [reflexivity|]. cbn [map]. rewrite Et.
    split; [apply (RS_const d (map tk pre)); exact Hr|]. split; [exact Hp|]. split; [reflexivity|].
    exact (proj2 (byte_names_app _ _ Hbn1)).
  - destruct toks1 as [|t1 [|t2 toks2]]; try discriminate H.
    pose proof (byte_names_head _ _ Hbn1) as Hb1.
    destruct (tk t1) eqn:E1; try discriminate H.
    destruct (token_eqb (tk t2) TOpenBrace) eqn:E2; [|discriminate H]. apply token_eqb_eq in E2.
    destruct (parse_register_decls doc_tiers F toks2) as [[regs rest0]|] eqn:E; [|discriminate H].
    destruct rest0 as [|t3 rest0]; [discriminate H|].
    destruct (token_eqb (tk t3) TCloseBrace) eqn:E3; [|discriminate H]. apply token_eqb_eq in E3.
    injection H as <- <- <-.
    assert (Hbn2 : byte_names toks2) by (do 2 apply byte_names_tail in Hbn1; exact Hbn1).
    destruct (regs_sound _ _ _ _ Hbn2 E) as (pre & -> & Hr & Hp).
    cbn [byte_name] in Hb1.
    exists (t :: t1 :: t2 :: pre ++ [t3]). split; [list_eq|].
    cbn [map]. rewrite map_app. cbn [map]. rewrite Et, E1, E2, E3, <- (ident_name name Hb1).
    split; [apply (RS_bank _ regs (map tk pre)); exact Hr|]. split; [exact Hp|]. split; [reflexivity|].
    exact (byte_names_tail _ _ (proj2 (byte_names_app _ _ Hbn2))).
  - destruct (parse_assignments doc_tiers F (t :: toks1)) as [[a rest0]|] eqn:E; [|discriminate H].
    injection H as <- <- <-.
    destruct (assigns_sound _ _ _ _ Hbn E) as (pre & Ht & Hr & Hp).
    exists pre. split; [exact Ht|]. split; [apply RS_assign; exact Hr|]. split; [exact Hp|]. split; [reflexivity|].
    rewrite Ht in Hbn. exact (proj2 (byte_names_app _ _ Hbn)).
Qed.

Lemma statements_sound f : forall toks seen acc stmts, byte_names toks ->
  parse_statements doc_tiers f toks seen acc = Some stmts ->
  exists more, stmts = rev acc ++ more /\ Forall printable_stmt more /\
    (if seen then renders_more more (map tk toks) else renders_program more (map tk toks)).
Proof.
  induction f as [|f IH]; intros toks seen acc stmts Hbn H; [discriminate H|].
  cbn [parse_statements] in H.
  destruct toks as [|t toks1].
  { destruct seen; [|discriminate H]. injection H as <-. exists []. rewrite app_nil_r.
    split; [reflexivity|]. split; [constructor|apply RM_nil]. }
  destruct (token_eqb (tk t) TSemicolon) eqn:Es.
  { apply token_eqb_eq in Es. destruct seen; [|discriminate H].
    destruct (IH _ _ _ _ (byte_names_tail _ _ Hbn) H) as (more & -> & Hp & Hr).
    exists more. split; [reflexivity|]. split; [exact Hp|]. cbn [map]. rewrite Es. apply (RM_semi more). exact Hr. }
  destruct (parse_statement doc_tiers (20 * S (List.length (t :: toks1))) (t :: toks1)) as [[[s k] rest]|] eqn:E;
    [|discriminate H].
  destruct (statement_sound _ _ _ _ _ Hbn E) as (pre & Ht & Hr & Hp & -> & Hbnr).
  rewrite Ht, map_app. unfold kind_of_stmt in H.
  (* what follows a complete statement *)
  assert (Hgo : forall ts0 rest', complete_stmt s ts0 -> byte_names rest' ->
            parse_statements doc_tiers f rest' true (s :: acc) = Some stmts ->
            exists more, stmts = rev acc ++ more /\ Forall printable_stmt more /\
              (if seen then renders_more more (ts0 ++ map tk rest') else renders_program more (ts0 ++ map tk rest'))).
  { intros ts0 rest' Hc Hbn' H'. destruct (IH _ _ _ _ Hbn' H') as (more & -> & Hpm & Hrm).
    exists (s :: more). split; [cbn [rev]; rewrite <- app_assoc; reflexivity|].
    split; [constructor; assumption|].
    destruct seen; [apply RM_stmt; assumption|]. exists s, more, ts0, (map tk rest'). repeat split; assumption. }
  destruct (needs_semi s) eqn:Hns.
  - destruct rest as [|t2 rest].
    + destruct seen; [|discriminate H]. injection H as <-. exists [s]. cbn [rev]. split; [reflexivity|].
      split; [repeat constructor; exact Hp|]. cbn [map]. rewrite app_nil_r. apply RM_last; assumption.
    + destruct (token_eqb (tk t2) TSemicolon) eqn:E2; [|discriminate H]. apply token_eqb_eq in E2.
      cbn [map]. rewrite E2.
      replace (map tk pre ++ TSemicolon :: map tk rest) with ((map tk pre ++ [TSemicolon]) ++ map tk rest) by list_eq.
      apply Hgo; [|exact (byte_names_tail _ _ Hbnr)|exact H].
      unfold complete_stmt. rewrite Hns. exists (map tk pre). split; [exact Hr|reflexivity].
  - apply Hgo; [|exact Hbnr|exact H]. unfold complete_stmt. rewrite Hns. exact Hr.
Qed.

Lemma parse_sound toks stmts : byte_names toks -> parse doc_tiers toks = Some stmts ->
  renders_program stmts (map tk toks) /\ Forall printable_stmt stmts.
Proof.
  intros Hbn H. unfold parse in H.
  destruct (statements_sound _ _ _ _ _ Hbn H) as (more & -> & Hp & Hr). cbn [rev app]. split; assumption.
Qed.

(* ====================================================================================== *)
(* 3. the fuel of the model is always enough                                              *)
(* ====================================================================================== *)
(* a run that succeeds with some fuel succeeds with c + 13 * (number of tokens consumed) *)
Definition AD {A : Type} (run : nat -> option (A * list tok)) (c : nat) (toks : list tok) (r : A * list tok) : Prop :=
  exists pre, toks = pre ++ snd r /\ forall f', (c + 13 * List.length pre <= f')%nat -> run f' = Some r.

Definition adequate_at (f : nat) : Prop :=
  (forall ts toks r, (List.length ts <= 10)%nat -> parse_tiers doc_tiers f ts toks = Some r ->
      AD (fun f' => parse_tiers doc_tiers f' ts toks) (List.length ts + 3) toks r) /\
  (forall rt ops l toks r, (List.length rt <= 9)%nat -> left_loop doc_tiers f rt ops l toks = Some r ->
      AD (fun f' => left_loop doc_tiers f' rt ops l toks) 1 toks r) /\
  (forall toks r, parse_term doc_tiers f toks = Some r -> AD (fun f' => parse_term doc_tiers f' toks) 2 toks r) /\
  (forall toks r, parse_simple doc_tiers f toks = Some r -> AD (fun f' => parse_simple doc_tiers f' toks) 1 toks r) /\
  (forall toks r, parse_mux_options doc_tiers f toks = Some r ->
      AD (fun f' => parse_mux_options doc_tiers f' toks) 14 toks r) /\
  (forall toks r, parse_commas_exprs doc_tiers f toks = Some r ->
      AD (fun f' => parse_commas_exprs doc_tiers f' toks) 14 toks r).

Ltac use_AD H pre Ht F := destruct H as (pre & Ht & F); cbn [fst snd] in Ht.
Ltac len_norm := repeat (progress (rewrite ?app_length in *; cbn [List.length] in *)).
Ltac ad_now pre := exists pre; cbn [fst snd]; split; [list_eq|]; intros f' Hf'; destruct f' as [|f']; [len_norm; lia|].

Lemma doc_tiers_length : List.length doc_tiers = 10%nat.
Proof. reflexivity. Qed.

Section Adequate.
  Variable f : nat.
  Hypothesis IH : adequate_at f.

  Let IH1 := proj1 IH.
  Let IH2 := proj1 (proj2 IH).
  Let IH3 := proj1 (proj2 (proj2 IH)).
  Let IH4 := proj1 (proj2 (proj2 (proj2 IH))).
  Let IH5 := proj1 (proj2 (proj2 (proj2 (proj2 IH)))).
  Let IH6 := proj2 (proj2 (proj2 (proj2 (proj2 IH)))).

  Lemma ad_tiers ts toks r : (List.length ts <= 10)%nat -> parse_tiers doc_tiers (S f) ts toks = Some r ->
    AD (fun f' => parse_tiers doc_tiers f' ts toks) (List.length ts + 3) toks r.
  Proof.
    intros Hlen H. rewrite parse_tiers_S in H.
    destruct ts as [|[[| | |] ops] rt].
    - pose proof (IH3 _ _ H) as A. use_AD A pre Ht F. rewrite Ht. ad_now pre.
      rewrite parse_tiers_S, <- Ht. apply F. len_norm. lia.
    - cbn [List.length] in Hlen.
      destruct (parse_tiers doc_tiers f rt toks) as [[l toks1]|] eqn:E1; [|discriminate H].
      pose proof (IH1 rt _ _ ltac:(lia) E1) as A1. use_AD A1 pre1 Ht1 F1.
      pose proof (IH2 rt _ _ _ _ ltac:(lia) H) as A2. use_AD A2 pre2 Ht2 F2.
      rewrite Ht1, Ht2. ad_now (pre1 ++ pre2).
      rewrite parse_tiers_S. rewrite <- Ht2, <- Ht1. rewrite F1 by (len_norm; lia). apply F2. len_norm. lia.
    - cbn [List.length] in Hlen.
      destruct (parse_tiers doc_tiers f rt toks) as [[l toks1]|] eqn:E1; [|discriminate H].
      pose proof (IH1 rt _ _ ltac:(lia) E1) as A1. use_AD A1 pre1 Ht1 F1.
      assert (Hstop : forall r0, r0 = (l, toks1) ->
                (forall f', parse_tiers doc_tiers f' rt toks = Some (l, toks1) ->
                   parse_tiers doc_tiers (S f') ((KNonAssoc, ops) :: rt) toks = Some r0) ->
                AD (fun f' => parse_tiers doc_tiers f' ((KNonAssoc, ops) :: rt) toks) (S (List.length rt) + 3) toks r0).
      { intros r0 -> Hrun. rewrite Ht1. ad_now pre1. rewrite <- Ht1. apply Hrun. apply F1. len_norm. lia. }
      destruct toks1 as [|t toks1'].
      { injection H as <-. apply (Hstop _ eq_refl). intros f' E. rewrite parse_tiers_S, E. reflexivity. }
      destruct (op_of_token ops (tk t)) as [op|] eqn:Eop.
      2:{ injection H as <-. apply (Hstop _ eq_refl). intros f' E. rewrite parse_tiers_S, E, Eop. reflexivity. }
      destruct (parse_tiers doc_tiers f rt toks1') as [[r0 toks2]|] eqn:E2; [|discriminate H]. injection H as <-.
      pose proof (IH1 rt _ _ ltac:(lia) E2) as A2. use_AD A2 pre2 Ht2 F2.
      rewrite Ht1, Ht2. ad_now (pre1 ++ t :: pre2).
      rewrite parse_tiers_S. rewrite <- Ht2, <- Ht1. rewrite F1 by (len_norm; lia). rewrite Eop.
      rewrite F2 by (len_norm; lia). reflexivity.
    - cbn [List.length] in Hlen.
      destruct (parse_tiers doc_tiers f rt toks) as [[l toks1]|] eqn:E1; [|discriminate H].
      pose proof (IH1 rt _ _ ltac:(lia) E1) as A1. use_AD A1 pre1 Ht1 F1.
      assert (Hstop : forall r0, r0 = (l, toks1) ->
                (forall f', parse_tiers doc_tiers f' rt toks = Some (l, toks1) ->
                   parse_tiers doc_tiers (S f') ((KIn, ops) :: rt) toks = Some r0) ->
                AD (fun f' => parse_tiers doc_tiers f' ((KIn, ops) :: rt) toks) (S (List.length rt) + 3) toks r0).
      { intros r0 -> Hrun. rewrite Ht1. ad_now pre1. rewrite <- Ht1. apply Hrun. apply F1. len_norm. lia. }
      destruct toks1 as [|t toks1'].
      { injection H as <-. apply (Hstop _ eq_refl). intros f' E. rewrite parse_tiers_S, E. reflexivity. }
      destruct (token_eqb (tk t) TIn) eqn:Et.
      2:{ injection H as <-. apply (Hstop _ eq_refl). intros f' E. rewrite parse_tiers_S, E, Et. reflexivity. }
      destruct toks1' as [|t2 toks2]; [discriminate H|].
      destruct (token_eqb (tk t2) TOpenBrace) eqn:Et2; [|discriminate H].
      destruct (parse_commas_exprs doc_tiers f toks2) as [[items toks3]|] eqn:E2; [|discriminate H].
      destruct toks3 as [|t3 toks3']; [discriminate H|].
      destruct (token_eqb (tk t3) TCloseBrace) eqn:Et3; [|discriminate H]. injection H as <-.
      pose proof (IH6 _ _ E2) as A2. use_AD A2 pre2 Ht2 F2.
      rewrite Ht1, Ht2. ad_now (pre1 ++ t :: t2 :: pre2 ++ [t3]).
      rewrite parse_tiers_S. rewrite <- Ht2, <- Ht1. rewrite F1 by (len_norm; lia). rewrite Et, Et2.
      rewrite F2 by (len_norm; lia). rewrite Et3. reflexivity.
    - discriminate H.
  Qed.

  Lemma ad_left rt ops l toks r : (List.length rt <= 9)%nat -> left_loop doc_tiers (S f) rt ops l toks = Some r ->
    AD (fun f' => left_loop doc_tiers f' rt ops l toks) 1 toks r.
  Proof.
    intros Hlen H. rewrite left_loop_S in H.
    destruct toks as [|t toks1].
    { injection H as <-. ad_now (@nil tok). reflexivity. }
    destruct (op_of_token ops (tk t)) as [op|] eqn:Eop.
    2:{ injection H as <-. ad_now (@nil tok). rewrite left_loop_S, Eop. reflexivity. }
    destruct (parse_tiers doc_tiers f rt toks1) as [[r0 toks2]|] eqn:E1; [|discriminate H].
    pose proof (IH1 rt _ _ ltac:(lia) E1) as A1. use_AD A1 pre1 Ht1 F1.
    pose proof (IH2 _ _ _ _ _ Hlen H) as A2. use_AD A2 pre2 Ht2 F2.
    rewrite Ht1, Ht2. ad_now (t :: pre1 ++ pre2).
    rewrite left_loop_S, Eop. rewrite <- Ht2, <- Ht1. rewrite F1 by (len_norm; lia). apply F2. len_norm. lia.
  Qed.

  Lemma ad_term toks r : parse_term doc_tiers (S f) toks = Some r ->
    AD (fun f' => parse_term doc_tiers f' toks) 2 toks r.
  Proof.
    intros H. rewrite parse_term_S in H.
    destruct toks as [|t toks1]; [discriminate H|].
    destruct (unop_of_token (tk t)) as [u|] eqn:Eu.
    - destruct (parse_simple doc_tiers f toks1) as [[e toks2]|] eqn:E1; [|discriminate H]. injection H as <-.
      pose proof (IH4 _ _ E1) as A1. use_AD A1 pre1 Ht1 F1.
      rewrite Ht1. ad_now (t :: pre1). rewrite parse_term_S, Eu. rewrite <- Ht1. rewrite F1 by (len_norm; lia). reflexivity.
    - destruct (parse_simple doc_tiers f (t :: toks1)) as [[e rest1]|] eqn:E1; [|discriminate H].
      pose proof (IH4 _ _ E1) as A1. use_AD A1 pre1 Ht1 F1.
      (* the same continuation runs at every fuel *)
      assert (Hsame : forall f', parse_simple doc_tiers f' (t :: toks1) = Some (e, rest1) ->
                parse_term doc_tiers (S f') (t :: toks1) = Some r).
      { intros f' E. rewrite parse_term_S, Eu, E. exact H. }
      assert (Hsuffix : exists pre, t :: toks1 = pre ++ snd r /\ (List.length pre1 <= List.length pre)%nat).
      { destruct rest1 as [|t1 rest1]; [injection H as <-; exists pre1; split; [exact Ht1|lia]|].
        destruct (token_eqb (tk t1) TOpenBracket).
        2:{ destruct rest1 as [|t2 [|t3 [|t4 [|t5 rest1]]]]; injection H as <-; exists pre1; (split; [exact Ht1|lia]). }
        destruct rest1 as [|t2 [|t3 [|t4 [|t5 rest1]]]]; try discriminate H.
        destruct (small_constant (tk t2)); [|discriminate H]. destruct (small_constant (tk t4)); [|discriminate H].
        destruct (token_eqb (tk t3) TDotDot && token_eqb (tk t5) TCloseBracket); [|discriminate H].
        injection H as <-. exists (pre1 ++ [t1; t2; t3; t4; t5]). cbn [snd].
        split; [rewrite Ht1; list_eq|len_norm; lia]. }
      destruct Hsuffix as (pre & Hpre & Hl). exists pre. split; [exact Hpre|].
      intros f' Hf'. destruct f' as [|f']; [lia|]. apply Hsame. apply F1. lia.
  Qed.

  Lemma ad_simple toks r : parse_simple doc_tiers (S f) toks = Some r ->
    AD (fun f' => parse_simple doc_tiers f' toks) 1 toks r.
  Proof.
    intros H. rewrite parse_simple_S in H.
    destruct toks as [|t toks1]; [discriminate H|].
    destruct (tk t) eqn:Et; try discriminate H.
    - injection H as <-. ad_now [t]. rewrite parse_simple_S, Et. reflexivity.
    - destruct (parse_tiers doc_tiers f doc_tiers toks1) as [[e toks2]|] eqn:E1; [|discriminate H].
      pose proof (IH1 doc_tiers _ _ ltac:(rewrite doc_tiers_length; lia) E1) as A1. use_AD A1 pre1 Ht1 F1.
      rewrite doc_tiers_length in F1.
      destruct toks2 as [|t2 toks2]; [discriminate H|].
      destruct (token_eqb (tk t2) TCloseParen) eqn:Ec.
      + injection H as <-. rewrite Ht1. ad_now (t :: pre1 ++ [t2]).
        rewrite parse_simple_S, Et. rewrite <- Ht1. rewrite F1 by (len_norm; lia). rewrite Ec. reflexivity.
      + destruct (token_eqb (tk t2) TDotDot) eqn:Ed; [|discriminate H].
        destruct (parse_tiers doc_tiers f doc_tiers toks2) as [[r0 toks3]|] eqn:E2; [|discriminate H].
        pose proof (IH1 doc_tiers _ _ ltac:(rewrite doc_tiers_length; lia) E2) as A2. use_AD A2 pre2 Ht2 F2.
        rewrite doc_tiers_length in F2.
        destruct toks3 as [|t3 toks3]; [discriminate H|].
        destruct (token_eqb (tk t3) TCloseParen) eqn:Ec3; [|discriminate H]. injection H as <-.
        rewrite Ht1, Ht2. ad_now (t :: pre1 ++ t2 :: pre2 ++ [t3]).
        rewrite parse_simple_S, Et. rewrite <- Ht2, <- Ht1. rewrite F1 by (len_norm; lia). rewrite Ec, Ed.
        rewrite F2 by (len_norm; lia). rewrite Ec3. reflexivity.
    - destruct (parse_mux_options doc_tiers f toks1) as [[a toks2]|] eqn:E1; [|discriminate H].
      pose proof (IH5 _ _ E1) as A1. use_AD A1 pre1 Ht1 F1.
      destruct toks2 as [|t2 toks2]; [discriminate H|].
      destruct (token_eqb (tk t2) TCloseBracket) eqn:Ec; [|discriminate H]. injection H as <-.
      rewrite Ht1. ad_now (t :: pre1 ++ [t2]).
      rewrite parse_simple_S, Et. rewrite <- Ht1. rewrite F1 by (len_norm; lia). rewrite Ec. reflexivity.
    - injection H as <-. ad_now [t]. rewrite parse_simple_S, Et. reflexivity.
  Qed.

  Lemma ad_mux toks r : parse_mux_options doc_tiers (S f) toks = Some r ->
    AD (fun f' => parse_mux_options doc_tiers f' toks) 14 toks r.
  Proof.
    intros H. rewrite parse_mux_options_S in H.
    destruct toks as [|t toks0].
    { injection H as <-. ad_now (@nil tok). reflexivity. }
    destruct (token_eqb (tk t) TCloseBracket) eqn:Eb.
    { injection H as <-. ad_now (@nil tok). rewrite parse_mux_options_S, Eb. reflexivity. }
    destruct (parse_tiers doc_tiers f doc_tiers (t :: toks0)) as [[c toks1]|] eqn:E1; [|discriminate H].
    pose proof (IH1 doc_tiers _ _ ltac:(rewrite doc_tiers_length; lia) E1) as A1. use_AD A1 pre1 Ht1 F1.
    rewrite doc_tiers_length in F1.
    destruct toks1 as [|t1 toks1]; [discriminate H|].
    destruct (token_eqb (tk t1) TColon) eqn:Ec; [|discriminate H].
    destruct (parse_tiers doc_tiers f doc_tiers toks1) as [[v toks2]|] eqn:E2; [|discriminate H].
    pose proof (IH1 doc_tiers _ _ ltac:(rewrite doc_tiers_length; lia) E2) as A2. use_AD A2 pre2 Ht2 F2.
    rewrite doc_tiers_length in F2.
    destruct toks2 as [|t2 toks2].
    { injection H as <-. rewrite Ht1, Ht2. ad_now (pre1 ++ t1 :: pre2).
      rewrite parse_mux_options_S. rewrite <- Ht2, <- Ht1.
      rewrite Eb. rewrite F1 by (len_norm; lia). rewrite Ec. rewrite F2 by (len_norm; lia). reflexivity. }
    destruct (token_eqb (tk t2) TSemicolon) eqn:Es.
    2:{ injection H as <-. rewrite Ht1, Ht2. ad_now (pre1 ++ t1 :: pre2).
        rewrite parse_mux_options_S. rewrite <- Ht2, <- Ht1.
        rewrite Eb. rewrite F1 by (len_norm; lia). rewrite Ec. rewrite F2 by (len_norm; lia). rewrite Es. reflexivity. }
    destruct (parse_mux_options doc_tiers f toks2) as [[rest toks3]|] eqn:E3; [|discriminate H]. injection H as <-.
    pose proof (IH5 _ _ E3) as A3. use_AD A3 pre3 Ht3 F3.
    rewrite Ht1, Ht2, Ht3. ad_now (pre1 ++ t1 :: pre2 ++ t2 :: pre3).
    rewrite parse_mux_options_S. rewrite <- Ht3, <- Ht2, <- Ht1.
    rewrite Eb. rewrite F1 by (len_norm; lia). rewrite Ec. rewrite F2 by (len_norm; lia). rewrite Es.
    rewrite F3 by (len_norm; lia). reflexivity.
  Qed.

  Lemma ad_commas toks r : parse_commas_exprs doc_tiers (S f) toks = Some r ->
    AD (fun f' => parse_commas_exprs doc_tiers f' toks) 14 toks r.
  Proof.
    intros H. rewrite parse_commas_exprs_S in H.
    destruct toks as [|t toks0].
    { injection H as <-. ad_now (@nil tok). reflexivity. }
    destruct (token_eqb (tk t) TCloseBrace) eqn:Eb.
    { injection H as <-. ad_now (@nil tok). rewrite parse_commas_exprs_S, Eb. reflexivity. }
    destruct (parse_tiers doc_tiers f doc_tiers (t :: toks0)) as [[e toks1]|] eqn:E1; [|discriminate H].
    pose proof (IH1 doc_tiers _ _ ltac:(rewrite doc_tiers_length; lia) E1) as A1. use_AD A1 pre1 Ht1 F1.
    rewrite doc_tiers_length in F1.
    destruct toks1 as [|t1 toks1].
    { injection H as <-. rewrite Ht1. ad_now pre1.
      rewrite parse_commas_exprs_S. rewrite <- Ht1.
      rewrite Eb. rewrite F1 by (len_norm; lia). reflexivity. }
    destruct (token_eqb (tk t1) TComma) eqn:Ec.
    2:{ injection H as <-. rewrite Ht1. ad_now pre1.
        rewrite parse_commas_exprs_S. rewrite <- Ht1. rewrite Eb. rewrite F1 by (len_norm; lia). rewrite Ec. reflexivity. }
    destruct (parse_commas_exprs doc_tiers f toks1) as [[rest toks2]|] eqn:E2; [|discriminate H]. injection H as <-.
    pose proof (IH6 _ _ E2) as A2. use_AD A2 pre2 Ht2 F2.
    rewrite Ht1, Ht2. ad_now (pre1 ++ t1 :: pre2).
    rewrite parse_commas_exprs_S. rewrite <- Ht2, <- Ht1.
    rewrite Eb. rewrite F1 by (len_norm; lia). rewrite Ec. rewrite F2 by (len_norm; lia). reflexivity.
  Qed.
End Adequate.

Lemma adequate_all : forall f, adequate_at f.
Proof.
  induction f as [|f IH].
  - unfold adequate_at. repeat split; intros; discriminate.
  - unfold adequate_at. split; [|split; [|split; [|split; [|split]]]].
    + intros ts toks r. apply ad_tiers. exact IH.
    + intros rt ops l toks r. apply ad_left. exact IH.
    + intros toks r. apply ad_term. exact IH.
    + intros toks r. apply ad_simple. exact IH.
    + intros toks r. apply ad_mux. exact IH.
    + intros toks r. apply ad_commas. exact IH.
Qed.

(* ====================================================================================== *)
(* 3. statements: completeness                                                            *)
(* ====================================================================================== *)
Local Notation T := (map at_pos).

(* an expression read with the fuel the statement parsers have *)
Lemma expr_fuel e ts rest f : printable e -> renders 0 e ts -> stops rest ->
  (13 + 13 * List.length ts <= f)%nat -> parse_expr doc_tiers f (T ts ++ rest) = Some (e, rest).
Proof.
  intros Hp Hr Hst Hf. destruct (any_parenthesisation_holds e ts Hp Hr rest Hst) as [fuel0 F0].
  specialize (F0 fuel0 ltac:(lia)). unfold parse_expr in *.
  destruct (proj1 (adequate_all fuel0) doc_tiers _ _ ltac:(rewrite doc_tiers_length; lia) F0) as (pre & Ht & F).
  cbn [snd] in Ht. apply app_inv_tail in Ht. subst pre. apply F.
  rewrite doc_tiers_length, map_length. lia.
Qed.

(* no rendering of an expression contains "=" *)
Lemma renders_no_assign :
  (forall m e ts, renders m e ts -> ~ In TAssign ts) /\
  (forall a ts, renders_arms a ts -> ~ In TAssign ts) /\
  (forall xs ts, renders_items xs ts -> ~ In TAssign ts).
Proof.
  apply renders_all_ind; intros;
    repeat (rewrite ?in_app_iff; cbn [In]);
    try (destruct op; cbn [binop_token]); try (destruct u; cbn [unop_token]);
    intuition discriminate.
Qed.

(* what may follow a statement that needs a semicolon: the semicolon or the end *)
Definition after_stmt (rest : list tok) : Prop :=
  match rest with [] => True | t :: _ => tk t = TSemicolon end.

Lemma after_stmt_stops rest : after_stmt rest -> stops rest.
Proof. destruct rest as [|t r]; [exact (fun _ => I)|]. cbn. intros ->. reflexivity. Qed.

Lemma string_name n : string_of_name (bytes_of_string n) = n.
Proof. apply string_of_bytes_of_string. Qed.

Lemma small_lit v : bits v <= 128 -> small_constant (TLit v) = Some (bits v).
Proof. intros H. cbn [small_constant]. destruct (N.leb_spec (bits v) 128); [reflexivity|lia]. Qed.

Lemma wires_complete d ts : renders_wires d ts -> forall rest f, after_stmt rest -> (List.length ts < f)%nat ->
  parse_wire_decls f (T ts ++ rest) = Some (d, rest).
Proof.
  induction 1 as [|n v Hv|n v rest0 ts Hv _ IH]; intros rest f Hrest Hf.
  - destruct f as [|f]; [cbn [List.length] in Hf; lia|]. cbn [map app parse_wire_decls].
    destruct rest as [|t1 [|t2 [|t3 rest]]]; cbn [after_stmt] in Hrest; try rewrite Hrest; reflexivity.
  - destruct f as [|f]; [lia|]. cbn [map app parse_wire_decls]. rewrite !tk_at_pos. unfold ident.
    rewrite small_lit by exact Hv. cbn [token_eqb]. rewrite string_name.
    destruct rest as [|t4 rest]; [reflexivity|]. cbn [after_stmt] in Hrest. rewrite Hrest. reflexivity.
  - destruct f as [|f]; [lia|]. cbn [map app parse_wire_decls]. rewrite !tk_at_pos. unfold ident.
    rewrite small_lit by exact Hv. cbn [token_eqb]. rewrite string_name.
    rewrite (IH rest f Hrest) by (cbn [List.length app] in Hf; lia). reflexivity.
Qed.

Ltac nt := rewrite ?map_app, <- ?app_assoc; cbn [map app].

Lemma consts_complete d ts : renders_consts d ts -> Forall (fun ne => printable (snd ne)) d ->
  forall rest f, after_stmt rest -> (14 + 13 * List.length ts <= f)%nat ->
  parse_const_decls doc_tiers f (T ts ++ rest) = Some (d, rest).
Proof.
  induction 1 as [|n e te Hr|n e rest0 te ts Hr _ IH]; intros Hp rest f Hrest Hf.
  - destruct f as [|f]; [lia|]. cbn [map app parse_const_decls].
    destruct rest as [|t1 [|t2 rest]]; cbn [after_stmt] in Hrest; try rewrite Hrest; reflexivity.
  - destruct f as [|f]; [lia|]. inversion Hp as [|? ? Hpe _]; subst. cbn [snd] in Hpe.
    nt. cbn [parse_const_decls]. rewrite !tk_at_pos. unfold ident. cbn [token_eqb].
    rewrite (expr_fuel e te rest f Hpe Hr (after_stmt_stops _ Hrest)) by (len_norm; lia).
    rewrite string_name. destruct rest as [|t3 rest]; [reflexivity|]. cbn [after_stmt] in Hrest. rewrite Hrest. reflexivity.
  - destruct f as [|f]; [lia|]. inversion Hp as [|? ? Hpe Hp']; subst. cbn [snd] in Hpe.
    nt. cbn [parse_const_decls]. rewrite !tk_at_pos. unfold ident. cbn [token_eqb].
    rewrite (expr_fuel e te (at_pos TComma :: T ts ++ rest) f Hpe Hr) by (try exact eq_refl; len_norm; lia).
    rewrite tk_at_pos. cbn [token_eqb]. rewrite string_name.
    rewrite (IH Hp' rest f Hrest) by (len_norm; lia). reflexivity.
Qed.

Lemma parse_targets_S f toks :
  parse_targets (S f) toks =
  match toks with
  | t1 :: t2 :: toks1 =>
      match tk t1 with
      | TIdentifier name =>
          if token_eqb (tk t2) TAssign then
            let '(more, rest) := parse_targets f toks1 in (string_of_name name :: more, rest)
          else ([], toks)
      | _ => ([], toks)
      end
  | _ => ([], toks)
  end.
Proof. reflexivity. Qed.

Lemma targets_complete names tn : renders_targets names tn -> forall rest f,
  (List.length tn <= f)%nat ->
  match rest with _ :: r2 :: _ => tk r2 <> TAssign | _ => True end ->
  parse_targets f (T tn ++ rest) = (names, rest).
Proof.
  assert (Hstop : forall f rest, match rest with _ :: r2 :: _ => tk r2 <> TAssign | _ => True end ->
            parse_targets f rest = ([], rest)).
  { intros f rest Hr. destruct f as [|f]; [reflexivity|]. rewrite parse_targets_S.
    destruct rest as [|r1 [|r2 rest]]; try reflexivity. destruct (tk r1); try reflexivity.
    destruct (token_eqb (tk r2) TAssign) eqn:E; [|reflexivity]. apply token_eqb_eq in E. contradiction. }
  induction 1 as [n|n ns ts _ IH]; intros rest f Hf Hrest.
  - destruct f as [|f]; [cbn [List.length] in Hf; lia|].
    rewrite parse_targets_S. cbn [map app]. rewrite !tk_at_pos. unfold ident. cbn [token_eqb].
    rewrite (Hstop f rest Hrest), string_name. reflexivity.
  - destruct f as [|f]; [cbn [List.length app] in Hf; lia|].
    rewrite parse_targets_S. cbn [map app]. rewrite !tk_at_pos. unfold ident. cbn [token_eqb].
    rewrite (IH rest f) by (try exact Hrest; cbn [List.length app] in Hf; lia). rewrite string_name. reflexivity.
Qed.

Lemma targets_head names tn : renders_targets names tn -> exists n r, tn = ident n :: TAssign :: r /\ names <> [].
Proof. intros [n|n ns ts _]; [exists n, []|exists n, ts]; split; try reflexivity; discriminate. Qed.

Lemma assigns_head a ts : renders_assigns a ts -> exists n r, ts = ident n :: r.
Proof.
  intros [names e tn te Ht _|names e tn te Ht _|names e rest tn te ts0 Ht _ _];
    destruct (targets_head _ _ Ht) as (n & r & -> & _); eexists n, _; reflexivity.
Qed.

Lemma renders_nonempty m e ts : renders m e ts -> ts <> [].
Proof.
  intros H E. destruct H; try discriminate E;
    apply app_eq_nil in E; destruct E as [E1 E2]; try discriminate E1; discriminate E2.
Qed.

(* the token after the first token of an expression followed by a separator is not "=" *)
Lemma second_not_assign m e te rest : renders m e te ->
  match rest with [] => True | t :: _ => tk t <> TAssign end ->
  match T te ++ rest with _ :: r2 :: _ => tk r2 <> TAssign | _ => True end.
Proof.
  intros Hr Hrest. pose proof (proj1 renders_no_assign _ _ _ Hr) as Hno.
  pose proof (renders_nonempty _ _ _ Hr) as Hne.
  destruct te as [|x [|y te']]; [congruence| |]; cbn [map app].
  - destruct rest as [|r1 rest]; [exact I|exact Hrest].
  - rewrite tk_at_pos. intros E. apply Hno. right. left. exact E.
Qed.

Lemma parse_assignments_S f toks :
  parse_assignments doc_tiers (S f) toks =
  let '(names, toks1) := parse_targets (List.length toks) toks in
  match names with
  | [] => None
  | _ =>
      match parse_expr doc_tiers f toks1 with
      | Some (e, t :: toks2) =>
          if token_eqb (tk t) TComma then
            match toks2 with
            | t2 :: _ =>
                match tk t2 with
                | TIdentifier _ =>
                    match parse_assignments doc_tiers f toks2 with
                    | Some (rest, toks3) => Some ((names, e) :: rest, toks3)
                    | None => None
                    end
                | _ => Some ([(names, e)], toks2)
                end
            | [] => Some ([(names, e)], toks2)
            end
          else Some ([(names, e)], t :: toks2)
      | Some (e, []) => Some ([(names, e)], [])
      | None => None
      end
  end.
Proof. reflexivity. Qed.

Lemma assigns_complete a ts : renders_assigns a ts -> Forall (fun ne => printable (snd ne)) a ->
  forall rest f, after_stmt rest -> (14 + 13 * List.length ts <= f)%nat ->
  parse_assignments doc_tiers f (T ts ++ rest) = Some (a, rest).
Proof.
  induction 1 as [names e tn te Ht Hr|names e tn te Ht Hr|names e rest0 tn te ts Ht Hr Ha IH];
    intros Hp rest f Hrest Hf; (destruct f as [|f]; [lia|]);
    inversion Hp as [|? ? Hpe Hp']; subst; cbn [snd] in Hpe;
    destruct (targets_head _ _ Ht) as (n0 & r0 & _ & Hnn); rewrite parse_assignments_S.
  - rewrite map_app, <- app_assoc.
    rewrite (targets_complete names tn Ht (T te ++ rest)).
    2:{ rewrite !app_length, !map_length. lia. }
    2:{ apply (second_not_assign 0 e); [exact Hr|]. destruct rest as [|t r]; [exact I|].
        cbn [after_stmt] in Hrest. rewrite Hrest. discriminate. }
    destruct names as [|n1 names1]; [congruence|].
    rewrite (expr_fuel e te rest f Hpe Hr (after_stmt_stops _ Hrest)) by (len_norm; lia).
    destruct rest as [|t rest]; [reflexivity|]. cbn [after_stmt] in Hrest. rewrite Hrest. reflexivity.
  - rewrite !map_app, <- !app_assoc. cbn [map app].
    rewrite (targets_complete names tn Ht (T te ++ at_pos TComma :: rest)).
    2:{ rewrite !app_length, !map_length. lia. }
    2:{ apply (second_not_assign 0 e); [exact Hr|]. rewrite tk_at_pos. discriminate. }
    destruct names as [|n1 names1]; [congruence|].
    rewrite (expr_fuel e te (at_pos TComma :: rest) f Hpe Hr) by (try exact eq_refl; len_norm; lia).
    rewrite tk_at_pos. cbn [token_eqb].
    destruct rest as [|t rest]; [reflexivity|]. cbn [after_stmt] in Hrest. rewrite Hrest. reflexivity.
  - rewrite !map_app, <- !app_assoc. cbn [map app].
    rewrite (targets_complete names tn Ht (T te ++ at_pos TComma :: T ts ++ rest)).
    2:{ rewrite !app_length, !map_length. lia. }
    2:{ apply (second_not_assign 0 e); [exact Hr|]. rewrite tk_at_pos. discriminate. }
    destruct names as [|n1 names1]; [congruence|].
    rewrite (expr_fuel e te (at_pos TComma :: T ts ++ rest) f Hpe Hr) by (try exact eq_refl; len_norm; lia).
    rewrite tk_at_pos. cbn [token_eqb].
    destruct (assigns_head _ _ Ha) as (n2 & r2 & ->). cbn [map app]. rewrite tk_at_pos. unfold ident at 1.
    change (at_pos (ident n2) :: T r2 ++ rest) with (T (ident n2 :: r2) ++ rest).
    rewrite (IH Hp' rest f Hrest) by (len_norm; lia). reflexivity.
Qed.

Lemma parse_register_decls_S f toks :
  parse_register_decls doc_tiers (S f) toks =
  match toks with
  | t1 :: t2 :: t3 :: t4 :: toks1 =>
      match tk t1, small_constant (tk t3) with
      | TIdentifier name, Some w =>
          if token_eqb (tk t2) TColon && token_eqb (tk t4) TAssign then
            match parse_expr doc_tiers f toks1 with
            | Some (e, t5 :: toks2) =>
                if token_eqb (tk t5) TSemicolon then
                  match parse_register_decls doc_tiers f toks2 with
                  | Some (rest, toks3) => Some ((string_of_name name, Bits w, e) :: rest, toks3)
                  | None => None
                  end
                else Some ([(string_of_name name, Bits w, e)], t5 :: toks2)
            | Some (e, []) => Some ([(string_of_name name, Bits w, e)], [])
            | None => None
            end
          else None
      | TIdentifier _, None => None
      | _, _ => Some ([], toks)
      end
  | t1 :: _ => match tk t1 with TIdentifier _ => None | _ => Some ([], toks) end
  | [] => Some ([], toks)
  end.
Proof. reflexivity. Qed.

(* register declarations are followed by the closing brace *)
Lemma regs_complete regs ts : renders_regs regs ts -> Forall (fun r => printable (snd r)) regs ->
  forall rest f, (14 + 13 * List.length ts <= f)%nat ->
  parse_register_decls doc_tiers f (T ts ++ at_pos TCloseBrace :: rest) = Some (regs, at_pos TCloseBrace :: rest).
Proof.
  induction 1 as [|n v e te Hv Hr|n v e rest0 te ts Hv Hr _ IH]; intros Hp rest f Hf;
    (destruct f as [|f]; [lia|]); rewrite parse_register_decls_S.
  - cbn [map app]. destruct rest as [|t2 [|t3 [|t4 rest]]]; rewrite ?tk_at_pos; reflexivity.
  - inversion Hp as [|? ? Hpe _]; subst. cbn [snd] in Hpe.
    nt. rewrite !tk_at_pos. unfold ident. rewrite small_lit by exact Hv. cbn [token_eqb andb].
    rewrite (expr_fuel e te (at_pos TCloseBrace :: rest) f Hpe Hr) by (try exact eq_refl; len_norm; lia).
    rewrite tk_at_pos. cbn [token_eqb]. rewrite string_name. reflexivity.
  - inversion Hp as [|? ? Hpe Hp']; subst. cbn [snd] in Hpe.
    nt. rewrite !tk_at_pos. unfold ident. rewrite small_lit by exact Hv. cbn [token_eqb andb].
    rewrite (expr_fuel e te (at_pos TSemicolon :: T ts ++ at_pos TCloseBrace :: rest) f Hpe Hr)
      by (try exact eq_refl; len_norm; lia).
    rewrite tk_at_pos. cbn [token_eqb]. rewrite string_name.
    rewrite (IH Hp' rest f) by (len_norm; lia). reflexivity.
Qed.

Lemma statement_complete s ts : renders_stmt s ts -> printable_stmt s -> forall rest F,
  (needs_semi s = true -> after_stmt rest) -> (15 + 13 * List.length ts <= F)%nat ->
  parse_statement doc_tiers F (T ts ++ rest) = Some (s, kind_of_stmt s, rest).
Proof.
  intros [d ts0 Hd|d ts0 Hd|a ts0 Ha|n regs ts0 Hregs] Hp rest F Hrest HF; unfold parse_statement.
  - cbn [map app]. rewrite tk_at_pos.
    rewrite (wires_complete d ts0 Hd rest F (Hrest eq_refl)) by (len_norm; lia). reflexivity.
  - cbn [map app]. rewrite tk_at_pos.
    rewrite (consts_complete d ts0 Hd Hp rest F (Hrest eq_refl)) by (len_norm; lia). reflexivity.
  - destruct (assigns_head _ _ Ha) as (n & r & E).
    pose proof (assigns_complete a ts0 Ha Hp rest F (Hrest eq_refl) ltac:(lia)) as Hc.
    rewrite E in Hc |- *. cbn [map app] in Hc |- *. rewrite tk_at_pos. unfold ident at 1. rewrite Hc. reflexivity.
  - nt. rewrite !tk_at_pos. unfold ident. cbn [token_eqb].
    rewrite (regs_complete regs ts0 Hregs Hp rest F) by (len_norm; lia).
    rewrite tk_at_pos. cbn [token_eqb]. rewrite string_name. reflexivity.
Qed.

Lemma stmt_head s ts : renders_stmt s ts -> exists t r, ts = t :: r /\ token_eqb t TSemicolon = false.
Proof.
  intros [d ts0 _|d ts0 _|a ts0 Ha|n regs ts0 _].
  - exists TWire, ts0. split; reflexivity.
  - exists TConst, ts0. split; reflexivity.
  - destruct (assigns_head _ _ Ha) as (n & r & ->). exists (ident n), r. split; reflexivity.
  - eexists TRegister, _. split; reflexivity.
Qed.

Lemma parse_statements_S f toks seen acc :
  parse_statements doc_tiers (S f) toks seen acc =
  match toks with
  | [] => if seen then Some (rev acc) else None
  | t :: toks1 =>
      if token_eqb (tk t) TSemicolon then
        if seen then parse_statements doc_tiers f toks1 true acc else None
      else
        match parse_statement doc_tiers (20 * S (List.length toks)) toks with
        | Some (s, NoSemi, rest) => parse_statements doc_tiers f rest true (s :: acc)
        | Some (s, NeedSemi, t2 :: rest) =>
            if token_eqb (tk t2) TSemicolon then parse_statements doc_tiers f rest true (s :: acc) else None
        | Some (s, NeedSemi, []) => if seen then Some (rev (s :: acc)) else None
        | None => None
        end
  end.
Proof. reflexivity. Qed.

(* reading one complete statement *)
Lemma complete_step s ts0 : complete_stmt s ts0 -> printable_stmt s -> forall seen f acc ts,
  parse_statements doc_tiers (S f) (T (ts0 ++ ts)) seen acc = parse_statements doc_tiers f (T ts) true (s :: acc).
Proof.
  intros Hc Hp seen f acc ts. unfold complete_stmt in Hc. rewrite parse_statements_S.
  destruct (needs_semi s) eqn:Hns.
  - destruct Hc as (ts00 & Hr & ->). destruct (stmt_head _ _ Hr) as (t & r & E & Hsemi).
    assert (Hps : parse_statement doc_tiers (20 * S (List.length (T ((ts00 ++ [TSemicolon]) ++ ts))))
                    (T ((ts00 ++ [TSemicolon]) ++ ts)) = Some (s, NeedSemi, at_pos TSemicolon :: T ts)).
    { rewrite <- app_assoc. cbn [app]. rewrite map_app. cbn [map].
      rewrite (statement_complete s ts00 Hr Hp (at_pos TSemicolon :: T ts)); [unfold kind_of_stmt; rewrite Hns; reflexivity|intros _; reflexivity|].
      rewrite app_length, !map_length. cbn [List.length]. lia. }
    rewrite Hps. rewrite E. cbn [map app]. rewrite tk_at_pos, Hsemi. rewrite tk_at_pos. reflexivity.
  - destruct (stmt_head _ _ Hc) as (t & r & E & Hsemi).
    assert (Hps : parse_statement doc_tiers (20 * S (List.length (T (ts0 ++ ts)))) (T (ts0 ++ ts)) = Some (s, NoSemi, T ts)).
    { rewrite map_app.
      rewrite (statement_complete s ts0 Hc Hp (T ts)); [unfold kind_of_stmt; rewrite Hns; reflexivity|intros Habs; rewrite Hns in Habs; discriminate Habs|].
      rewrite app_length, !map_length. lia. }
    rewrite Hps. rewrite E. cbn [map app]. rewrite tk_at_pos, Hsemi. reflexivity.
Qed.

Lemma complete_length s ts0 : complete_stmt s ts0 -> (1 <= List.length ts0)%nat.
Proof.
  unfold complete_stmt. destruct (needs_semi s).
  - intros (ts00 & _ & ->). rewrite app_length. cbn [List.length]. lia.
  - intros Hr. destruct (stmt_head _ _ Hr) as (t & r & -> & _). cbn [List.length]. lia.
Qed.

Lemma more_complete more ts : renders_more more ts -> Forall printable_stmt more -> forall f acc,
  (List.length ts < f)%nat -> parse_statements doc_tiers f (T ts) true acc = Some (rev acc ++ more).
Proof.
  induction 1 as [|stmts ts _ IH|s stmts ts0 ts Hc _ IH|s ts0 Hns Hr]; intros Hp f acc Hf;
    (destruct f as [|f]; [lia|]).
  - rewrite parse_statements_S. cbn [map]. rewrite app_nil_r. reflexivity.
  - rewrite parse_statements_S. cbn [map app]. rewrite tk_at_pos. cbn [token_eqb].
    apply IH; [exact Hp|cbn [List.length app] in Hf; lia].
  - inversion Hp as [|? ? Hps Hp']; subst.
    rewrite (complete_step s ts0 Hc Hps), (IH Hp' f (s :: acc)).
    + cbn [rev]. rewrite <- app_assoc. reflexivity.
    + pose proof (complete_length _ _ Hc). rewrite app_length in Hf. lia.
  - inversion Hp as [|? ? Hps _]; subst. rewrite parse_statements_S.
    destruct (stmt_head _ _ Hr) as (t & r & E & Hsemi).
    assert (Hst : parse_statement doc_tiers (20 * S (List.length (T ts0))) (T ts0) = Some (s, NeedSemi, [])).
    { pose proof (statement_complete s ts0 Hr Hps [] (20 * S (List.length (T ts0))) (fun _ => I)) as Hc.
      rewrite app_nil_r in Hc. rewrite Hc by (rewrite map_length; lia). unfold kind_of_stmt. rewrite Hns. reflexivity. }
    rewrite Hst. rewrite E. cbn [map]. rewrite tk_at_pos, Hsemi. reflexivity.
Qed.

Lemma parse_complete stmts ts : renders_program stmts ts -> Forall printable_stmt stmts ->
  parse doc_tiers (T ts) = Some stmts.
Proof.
  intros (s & more & ts0 & ts1 & -> & Hc & Hm & ->) Hp. inversion Hp as [|? ? Hps Hp']; subst.
  unfold parse. cbn [List.length]. rewrite (complete_step s ts0 Hc Hps).
  rewrite (more_complete more ts1 Hm Hp'); [reflexivity|].
  pose proof (complete_length _ _ Hc). rewrite map_length, app_length. lia.
Qed.

Theorem parse_characterised_holds : stmt_parse_characterised.
Proof.
  intros toks stmts Hbn. split.
  - apply parse_sound. exact Hbn.
  - intros [Hr Hp]. rewrite <- (parse_norm doc_tiers toks). unfold norm. rewrite <- (map_map tk at_pos).
    apply parse_complete; assumption.
Qed.

(* ---- examples ---- *)
Definition lexed (s : string) : list tok := fst (lex test_uclass (bytes_of_string s)).

(* every kind of statement, trailing separators, stray semicolons, a last statement without ";" :
   the parser's result is what the grammar assigns *)
Example program_example :
  let toks := lexed "wire a : 8, b : 0b100, ; const K = 1, L = K + 1; ;; register xY { r : 8 = 0; s : 1 = r == K } a = b = (K), c = [ a : 1; 1 : 2; ], ; d = a in { 1, 2, }" in
  exists stmts,
    parse doc_tiers toks = Some stmts /\ List.length stmts = 5%nat /\
    renders_program stmts (map tk toks) /\ Forall printable_stmt stmts.
Proof.
  cbv zeta. eexists. split; [vm_compute; reflexivity|]. split; [reflexivity|].
  apply parse_characterised_holds; [vm_compute; byte_names_tac|vm_compute; reflexivity].
Qed.

(* the liberties of the grammar, all shared by the model (and, by the characterisation, by nothing
   else): empty declaration lists, trailing "," in declarations and assignments, trailing ";" in a
   register bank, stray ";" between statements, no ";" after a register bank or after the very
   last statement - but a program must begin with one complete statement *)
Definition accepts (s : string) : bool :=
  match parse doc_tiers (lexed s) with Some _ => true | None => false end.

Example liberties :
  map accepts ["wire;"; "const;"; "wire a:1,;"; "x = 1,;"; "register xY { }"; "register xY { r : 8 = 0; }";
               "x = 1;;; y = 2"; "register xY { } y = 2"; "x = 1; y = 2,"]%string
    = [true; true; true; true; true; true; true; true; true] /\
  map accepts [""; ";x = 1;"; "x = 1"; "register xY { ; }"; "wire ,;"; "x = ;"; "wire a;"; "const K = a = 1;";
               "x = 1,,;"; "wire a : 129;"; "register xY { r : 8 = 0 s : 1 = 0 }"; "x = 1 y = 2;"]%string
    = [false; false; false; false; false; false; false; false; false; false; false; false].
Proof. vm_compute. split; reflexivity. Qed.

Print Assumptions parser_sound_holds.
Print Assumptions parser_stops_holds.
Print Assumptions parser_sound_any_names_refuted.
Print Assumptions parser_characterised_holds.
Print Assumptions parser_rejects_non_renderings_holds.
Print Assumptions parse_characterised_holds.
