(* Model of src/lexer.rs.  The input is a list of bytes (valid UTF-8); it is first decoded into
   (byte offset, code point) pairs - Rust's char_indices() - and then tokenised exactly as
   Lexer::next does: spans are byte offsets.  Classification of non-ASCII characters (Rust's
   Unicode tables) is a parameter. *)
From HclV Require Import Base Expr.
Open Scope list_scope.
Open Scope N_scope.

Inductive token :=
| TAndAnd | TOrOr | TEqual | TNotEqual | TGreaterEqual | TGreater | TLessEqual | TLess
| TAssign | TRightShift | TLeftShift | TComma | TSemicolon
| TPlus | TMinus | TAnd | TOr | TXor | TTimes | TDivide | TNot
| TLit (v : wval)
| TOpenParen | TCloseParen | TOpenBrace | TCloseBrace | TOpenBracket | TCloseBracket
| TColon | TComplement | TDotDot
| TWire | TConst | TRegister | TIn
| TIdentifier (name : list N).

Inductive lex_error :=
| LexLexicalError (loc : nat)
| LexUnterminatedComment (loc : nat)
| LexInvalidConstant (s e : nat).

(* ---- UTF-8 decoding: char_indices -------------------------------------------------------- *)
Definition utf8_len (b : N) : nat :=
  if b <? 128 then 1%nat else if b <? 224 then 2%nat else if b <? 240 then 3%nat else 4%nat.

Fixpoint take_cont (l : list N) (n : nat) (acc : N) : N * list N :=
  match n, l with
  | S k, b :: r => take_cont r k (acc * 64 + (b mod 64))
  | _, _ => (acc, l)
  end.

Fixpoint char_indices (fuel : nat) (l : list N) (pos : nat) : list (nat * N) :=
  match fuel with
  | O => []
  | S f =>
      match l with
      | [] => []
      | b :: r =>
          let n := utf8_len b in
          let lead := if b <? 128 then b else if b <? 224 then b mod 32 else if b <? 240 then b mod 16 else b mod 8 in
          let '(cp, rest) := take_cont r (n - 1) lead in
          (pos, cp) :: char_indices f rest (pos + n)
      end
  end.

(* ---- character classes -------------------------------------------------------------------- *)
Inductive uclass := UWhite | UAlpha | UNumeric | UOther.

Section Lexer.
  Variable uclass_of : N -> uclass.          (* for code points >= 128 *)

  Definition is_ascii_alpha (c : N) : bool := ((65 <=? c) && (c <=? 90)) || ((97 <=? c) && (c <=? 122)).
  Definition is_decimal_char (c : N) : bool := (48 <=? c) && (c <=? 57).
  Definition is_binary_char (c : N) : bool := (48 <=? c) && (c <=? 49).
  Definition is_hexadecimal_char (c : N) : bool :=
    is_decimal_char c || ((97 <=? c) && (c <=? 102)) || ((65 <=? c) && (c <=? 70)).

  (* char::is_whitespace: for ASCII TAB LF VT FF CR and blank *)
  Definition is_whitespace (c : N) : bool :=
    if c <? 128 then ((9 <=? c) && (c <=? 13)) || (c =? 32)
    else match uclass_of c with UWhite => true | _ => false end.
  Definition is_alphabetic (c : N) : bool :=
    if c <? 128 then is_ascii_alpha c else match uclass_of c with UAlpha => true | _ => false end.
  Definition is_alphanumeric (c : N) : bool :=
    if c <? 128 then is_ascii_alpha c || is_decimal_char c
    else match uclass_of c with UAlpha | UNumeric => true | _ => false end.

  Definition is_identifier_char (c : N) : bool := is_alphanumeric c || (c =? 95).
  Definition is_start_identifier_char (c : N) : bool := is_alphabetic c || (c =? 95).
  Definition is_not_newline (c : N) : bool := negb (c =? 10) && negb (c =? 13).
  Definition is_not_star (c : N) : bool := negb (c =? 42).

  (* get_while: consume characters while p holds; the offset where it stopped (len at EOF) *)
  Fixpoint get_while (p : N -> bool) (cs : list (nat * N)) (len : nat) : list (nat * N) * nat :=
    match cs with
    | [] => ([], len)
    | (i, c) :: r => if p c then get_while p r len else (cs, i)
    end.

  Definition slice (bytes : list N) (s e : nat) : list N := firstn (e - s) (skipn s bytes).

  Fixpoint digits_value (radix : N) (ds : list N) (acc : N) : N :=
    match ds with
    | [] => acc
    | d :: r =>
        let v := if d <=? 57 then d - 48 else if d <=? 70 then d - 55 else d - 87 in
        digits_value radix r (radix * acc + v)
    end.

  Definition kw_wire : list N := [119; 105; 114; 101].
  Definition kw_const : list N := [99; 111; 110; 115; 116].
  Definition kw_register : list N := [114; 101; 103; 105; 115; 116; 101; 114].
  Definition kw_in : list N := [105; 110].

  Fixpoint bytes_eqb (a b : list N) : bool :=
    match a, b with
    | [], [] => true
    | x :: r, y :: t => (x =? y) && bytes_eqb r t
    | _, _ => false
    end.

  Definition resolve_identifier (name : list N) : token :=
    if bytes_eqb name kw_wire then TWire
    else if bytes_eqb name kw_const then TConst
    else if bytes_eqb name kw_register then TRegister
    else if bytes_eqb name kw_in then TIn
    else TIdentifier name.

  Definition constant_of (bytes : list N) (radix : N) (ts te : nat) (s e : nat) (w : option N)
    : (nat * token * nat) + lex_error :=
    (* digits are bytes[ts..te); the token spans [s, e) *)
    let v := digits_value radix (slice bytes ts te) 0 in
    if v <? two128 then
      match w with
      | None => inl (s, TLit (mkV v Unl), e)
      | Some n => if n <=? 128 then inl (s, TLit (mkV v (Bits n)), e) else inr (LexInvalidConstant s e)
      end
    else inr (LexInvalidConstant s e).

  (* handle_constant(i): the digit at i has been consumed; cs is what follows *)
  Definition handle_constant (bytes : list N) (len : nat) (i : nat) (cs : list (nat * N))
    : ((nat * token * nat) + lex_error) * list (nat * N) :=
    match cs with
    | (_, 120) :: r =>                                      (* 'x' *)
        match r with
        | [] => (inr (LexLexicalError len), [])
        | (j, c) :: r2 =>
            if is_hexadecimal_char c then
              let '(rest, last) := get_while is_hexadecimal_char r2 len in
              (constant_of bytes 16 (i + 2) last i last None, rest)
            else (inr (LexLexicalError j), r2)
        end
    | (_, 98) :: r =>                                       (* 'b' *)
        match r with
        | [] => (inr (LexLexicalError len), [])
        | (j, c) :: r2 =>
            if is_binary_char c then
              let '(rest, last) := get_while is_binary_char r2 len in
              match rest with
              | (k, c2) :: rest2 =>
                  if is_decimal_char c2 then (inr (LexLexicalError k), rest2)
                  else (constant_of bytes 2 (i + 2) last i last (Some (N.of_nat (last - (i + 2)))), rest)
              | [] => (constant_of bytes 2 (i + 2) last i last (Some (N.of_nat (last - (i + 2)))), rest)
              end
            else (inr (LexLexicalError j), r2)
        end
    | (_, c) :: _ =>
        if is_decimal_char c then
          let '(rest, last) := get_while is_decimal_char cs len in
          (constant_of bytes 10 i last i last None, rest)
        else (constant_of bytes 10 i (i + 1) i (i + 1) None, cs)
    | [] => (constant_of bytes 10 i (i + 1) i (i + 1) None, cs)
    end.

  (* the body of a block comment, after the opening "/*" has been consumed:
     Some rest = closed, None = unterminated *)
  Fixpoint skip_block_comment (fuel : nat) (cs : list (nat * N)) (len : nat) : option (list (nat * N)) :=
    match fuel with
    | O => None
    | S f =>
        let '(rest, _) := get_while is_not_star cs len in
        match rest with
        | [] => None
        | (_, _) :: r =>                       (* the '*' *)
            match r with
            | (_, 47) :: r2 => Some r2          (* '/' *)
            | _ => skip_block_comment f r len
            end
        end
    end.

  Definition two_char (i : nat) (dflt : token) (options : list (N * token)) (cs : list (nat * N))
    : (nat * token * nat) * list (nat * N) :=
    match cs with
    | (_, c) :: r =>
        match find (fun o => fst o =? c) options with
        | Some (_, t) => ((i, t, (i + 2)%nat), r)
        | None => ((i, dflt, (i + 1)%nat), cs)
        end
    | [] => ((i, dflt, (i + 1)%nat), cs)
    end.

  Inductive lex_step :=
  | LexTok (t : nat * token * nat) (rest : list (nat * N))
  | LexErr (e : lex_error) (rest : list (nat * N))
  | LexEnd.

  (* Lexer::next *)
  Fixpoint lex_next (fuel : nat) (bytes : list N) (len : nat) (cs : list (nat * N)) : lex_step :=
    match fuel with
    | O => LexEnd
    | S f =>
        match cs with
        | [] => LexEnd
        | (i, c) :: r =>
            if is_whitespace c then lex_next f bytes len r
            else if is_start_identifier_char c then
              let '(rest, last) := get_while is_identifier_char r len in
              LexTok (i, resolve_identifier (slice bytes i last), last) rest
            else if is_decimal_char c then
              match handle_constant bytes len i r with
              | (inl t, rest) => LexTok t rest
              | (inr e, rest) => LexErr e rest
              end
            else
              let simple t := LexTok (i, t, (i + 1)%nat) r in
              let two dflt options := let '(t, rest) := two_char i dflt options r in LexTok t rest in
              match c with
              | 35 => let '(rest, _) := get_while is_not_newline r len in lex_next f bytes len rest    (* # *)
              | 47 =>                                                                               (* / *)
                  match r with
                  | (_, 47) :: _ => let '(rest, _) := get_while is_not_newline r len in lex_next f bytes len rest
                  | (_, 42) :: r2 =>
                      match skip_block_comment (S (List.length r2)) r2 len with
                      | Some rest => lex_next f bytes len rest
                      | None => LexErr (LexUnterminatedComment i) []
                      end
                  | _ => simple TDivide
                  end
              | 38 => two TAnd [(38, TAndAnd)]
              | 124 => two TOr [(124, TOrOr)]
              | 61 => two TAssign [(61, TEqual)]
              | 62 => two TGreater [(62, TRightShift); (61, TGreaterEqual)]
              | 60 => two TLess [(60, TLeftShift); (61, TLessEqual)]
              | 33 => two TNot [(61, TNotEqual)]
              | 58 => simple TColon
              | 126 => simple TComplement
              | 44 => simple TComma
              | 59 => simple TSemicolon
              | 46 => match r with
                      | (_, 46) :: r2 => LexTok (i, TDotDot, (i + 2)%nat) r2
                      | _ => LexErr (LexLexicalError i) r
                      end
              | 43 => simple TPlus
              | 45 => simple TMinus
              | 94 => simple TXor
              | 42 => simple TTimes
              | 40 => simple TOpenParen
              | 41 => simple TCloseParen
              | 91 => simple TOpenBracket
              | 93 => simple TCloseBracket
              | 123 => simple TOpenBrace
              | 125 => simple TCloseBrace
              | _ => LexErr (LexLexicalError i) r
              end
        end
    end.

  (* all tokens up to the first error *)
  Fixpoint lex_loop (fuel : nat) (bytes : list N) (len : nat) (cs : list (nat * N))
           (acc : list (nat * token * nat)) : list (nat * token * nat) * option lex_error :=
    match fuel with
    | O => (rev acc, None)
    | S f =>
        match lex_next (S (List.length cs)) bytes len cs with
        | LexEnd => (rev acc, None)
        | LexErr e _ => (rev acc, Some e)
        | LexTok t rest => lex_loop f bytes len rest (t :: acc)
        end
    end.

  Definition lex (bytes : list N) : list (nat * token * nat) * option lex_error :=
    let len := List.length bytes in
    let cs := char_indices (S len) bytes 0 in
    lex_loop (S len) bytes len cs [].
End Lexer.

(* the classification used by the extracted driver: the few non-ASCII characters the generators
   use (Rust's Unicode tables are not modelled) *)
Definition test_uclass (c : N) : uclass :=
  if (c =? 160) || (c =? 0x3000) || (c =? 0x2003) || (c =? 0x2028) || (c =? 0x85) then UWhite
  else if (c =? 233) || (c =? 201) || (c =? 252) || (c =? 220) || (c =? 0x3b1) || (c =? 0x391) || (c =? 0x4e2d) then UAlpha     (* e-acute E-acute u-umlaut U-umlaut alpha Alpha zhong *)
  else if (c =? 0xb2) || (c =? 0x661) then UNumeric                                                (* superscript two, arabic-indic one *)
  else UOther.
