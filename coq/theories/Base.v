(* Base definitions shared by every model file: results, error kinds, text helpers. *)
From Coq Require Export List NArith ZArith Lia Bool String Ascii.
Export ListNotations.
Open Scope N_scope.

Arguments N.add : simpl never.
Arguments N.sub : simpl never.
Arguments N.mul : simpl never.
Arguments N.div : simpl never.
Arguments N.modulo : simpl never.
Arguments N.pow : simpl never.
Arguments N.shiftl : simpl never.
Arguments N.shiftr : simpl never.
Arguments N.land : simpl never.
Arguments N.lor : simpl never.
Arguments N.lxor : simpl never.
Arguments N.ltb : simpl never.
Arguments N.leb : simpl never.
Arguments N.eqb : simpl never.

(* --- error kinds: the variants of hclrs::Error the model can produce ------------- *)
Inductive ekind :=
| MismatchedMuxWidths | MismatchedExprWidths | MismatchedWireWidths
| MismatchedRegisterDefaultWidths | DuplicateRegister | RuntimeMismatchedWidths
| UndeclaredWireAssigned | UndeclaredWireRead | NonConstantWireRead
| UnsetWire | UnsetBuiltinWire | UnsetUndeclaredWire | UnsetRegisterInputWire
| RedeclaredWire | DoubleAssignedWire | DoubleAssignedRegisterWire
| DoubleDeclaredRegisterOutWire | DoubleAssignedFixedOutWire | RedeclaredBuiltinWire
| PartialFixedInput | WireLoop | InvalidWireWidth | InvalidRegisterBankName
| InvalidBitIndex | NonBooleanWidth | NoBitWidth | MisorderedBitIndexes
| InvalidConstant | WireTooWide | NoMuxDefaultOption | MultipleMuxDefaultOption
| UnreachableOptions | DivisionByZero | EmptyFile | UnparseableLine
| UnterminatedComment | LexicalError | ConstantAssigned
| Panicked      (* the Rust code would panic here (unwrap, assert, slice, ...) *)
| OutOfFuel.    (* a fuelled model loop ran out of fuel: excluded by the theorems *)

Definition ekind_name (k : ekind) : string :=
  match k with
  | MismatchedMuxWidths => "MismatchedMuxWidths"
  | MismatchedExprWidths => "MismatchedExprWidths"
  | MismatchedWireWidths => "MismatchedWireWidths"
  | MismatchedRegisterDefaultWidths => "MismatchedRegisterDefaultWidths"
  | DuplicateRegister => "DuplicateRegister"
  | RuntimeMismatchedWidths => "RuntimeMismatchedWidths"
  | UndeclaredWireAssigned => "UndeclaredWireAssigned"
  | UndeclaredWireRead => "UndeclaredWireRead"
  | NonConstantWireRead => "NonConstantWireRead"
  | UnsetWire => "UnsetWire"
  | UnsetBuiltinWire => "UnsetBuiltinWire"
  | UnsetUndeclaredWire => "UnsetUndeclaredWire"
  | UnsetRegisterInputWire => "UnsetRegisterInputWire"
  | RedeclaredWire => "RedeclaredWire"
  | DoubleAssignedWire => "DoubleAssignedWire"
  | DoubleAssignedRegisterWire => "DoubleAssignedRegisterWire"
  | DoubleDeclaredRegisterOutWire => "DoubleDeclaredRegisterOutWire"
  | DoubleAssignedFixedOutWire => "DoubleAssignedFixedOutWire"
  | RedeclaredBuiltinWire => "RedeclaredBuiltinWire"
  | PartialFixedInput => "PartialFixedInput"
  | WireLoop => "WireLoop"
  | InvalidWireWidth => "InvalidWireWidth"
  | InvalidRegisterBankName => "InvalidRegisterBankName"
  | InvalidBitIndex => "InvalidBitIndex"
  | NonBooleanWidth => "NonBooleanWidth"
  | NoBitWidth => "NoBitWidth"
  | MisorderedBitIndexes => "MisorderedBitIndexes"
  | InvalidConstant => "InvalidConstant"
  | WireTooWide => "WireTooWide"
  | NoMuxDefaultOption => "NoMuxDefaultOption"
  | MultipleMuxDefaultOption => "MultipleMuxDefaultOption"
  | UnreachableOptions => "UnreachableOptions"
  | DivisionByZero => "DivisionByZero"
  | EmptyFile => "EmptyFile"
  | UnparseableLine => "UnparseableLine"
  | UnterminatedComment => "UnterminatedComment"
  | LexicalError => "LexicalError"
  | ConstantAssigned => "ConstantAssigned"
  | Panicked => "Panicked"
  | OutOfFuel => "OutOfFuel"
  end%string.

Record err := mkErr { ek : ekind; enames : list string }.

Inductive result (A : Type) :=
| Ok (a : A)
| Err (e : list err).
Arguments Ok {A} a.
Arguments Err {A} e.

Definition err1 {A} (k : ekind) (names : list string) : result A := Err [mkErr k names].

Definition bind {A B} (r : result A) (f : A -> result B) : result B :=
  match r with Ok a => f a | Err e => Err e end.

Notation "'do' x <- r ; k" := (bind r (fun x => k))
  (at level 200, x name, r at level 100, k at level 200, right associativity).

Definition is_ok {A} (r : result A) : bool := match r with Ok _ => true | Err _ => false end.

(* --- machine word sizes -------------------------------------------------------- *)
Definition two128 : N := 2 ^ 128.
Definition two64 : N := 2 ^ 64.
Definition ones128 : N := two128 - 1.

(* --- text ---------------------------------------------------------------------- *)
Definition hexdigit (d : N) : ascii :=
  ascii_of_N (if d <? 10 then 48 + d else 87 + d).   (* '0'.. / 'a'.. *)

(* hexadecimal digits of n, most significant first, no leading zeros ("0" for 0): {:x} *)
Fixpoint hex_fuel (fuel : nat) (n : N) (acc : string) : string :=
  match fuel with
  | O => acc
  | S f => let acc' := String (hexdigit (n mod 16)) acc in
           if n <? 16 then acc' else hex_fuel f (n / 16) acc'
  end.
Definition hex (n : N) : string := hex_fuel (S (N.to_nat (N.size n))) n EmptyString.

Fixpoint dec_fuel (fuel : nat) (n : N) (acc : string) : string :=
  match fuel with
  | O => acc
  | S f => let acc' := String (ascii_of_N (48 + n mod 10)) acc in
           if n <? 10 then acc' else dec_fuel f (n / 10) acc'
  end.
Definition dec (n : N) : string := dec_fuel (S (N.to_nat (N.size n))) n EmptyString.

Fixpoint repeat_char (c : ascii) (n : nat) : string :=
  match n with O => EmptyString | S k => String c (repeat_char c k) end.

Definition slen (s : string) : N := N.of_nat (String.length s).

(* left pad to width w: {:>w} / {:0w} *)
Definition pad_left (c : ascii) (w : N) (s : string) : string :=
  (repeat_char c (N.to_nat (w - slen s)) ++ s)%string.
(* right pad to width w: {:w} for strings *)
Definition pad_right (c : ascii) (w : N) (s : string) : string :=
  (s ++ repeat_char c (N.to_nat (w - slen s)))%string.

(* number of Unicode scalar values in UTF-8 text: bytes that are not continuation bytes *)
Fixpoint clen (s : string) : N :=
  match s with
  | EmptyString => 0
  | String c r => let n := N_of_ascii c in (if (128 <=? n) && (n <? 192) then 0 else 1) + clen r
  end.

Fixpoint string_of_bytes (l : list N) : string :=
  match l with [] => EmptyString | b :: r => String (ascii_of_N b) (string_of_bytes r) end.

Definition nl : string := String (ascii_of_N 10) EmptyString.

Fixpoint concat_strings (l : list string) : string :=
  match l with [] => EmptyString | s :: r => (s ++ concat_strings r)%string end.

(* association lists keyed by strings, mirroring the insert/get subset of HashMap that is used *)
Section Alist.
  Context {V : Type}.
  Fixpoint lookup (m : list (string * V)) (k : string) : option V :=
    match m with
    | [] => None
    | (k', v) :: r => if String.eqb k k' then Some v else lookup r k
    end.
  (* replace in place if present, else append: key order = first-insertion order *)
  Fixpoint upd (m : list (string * V)) (k : string) (v : V) : list (string * V) :=
    match m with
    | [] => [(k, v)]
    | (k', v') :: r => if String.eqb k k' then (k', v) :: r else (k', v') :: upd r k v
    end.
  Definition has (m : list (string * V)) (k : string) : bool :=
    match lookup m k with Some _ => true | None => false end.
End Alist.

Fixpoint mem_str (k : string) (l : list string) : bool :=
  match l with [] => false | x :: r => String.eqb k x || mem_str k r end.

Lemma sapp_assoc (a b c : string) : ((a ++ b) ++ c = a ++ (b ++ c))%string.
Proof. induction a as [|x a IH]; cbn; [reflexivity | now rewrite IH]. Qed.

Lemma sapp_nil_r (a : string) : (a ++ "" = a)%string.
Proof. induction a as [|x a IH]; cbn; [reflexivity | now rewrite IH]. Qed.

Lemma sapp_length (a b : string) : String.length (a ++ b) = (String.length a + String.length b)%nat.
Proof. induction a as [|x a IH]; cbn; [reflexivity | now rewrite IH]. Qed.
