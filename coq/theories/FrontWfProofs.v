(* Proofs of FrontSpec.stmt_parse_wf, refutations of FrontSpec.stmt_lex_tokens_wf and
   FrontSpec.stmt_text_to_program_ok (false on ill-formed UTF-8), and proofs of the statements of
   FrontWfSpec.v. *)
From Coq Require Import List NArith String Lia ZifyBool ZifyNat ZifyN Bool.
From HclV Require Import Base Expr ExprSpec Machine MachineSpec MemSpec SchedSpec SchedProofs Build BuildSpec
     Generated BuildProofs Lexer Parser LexParseSpec LexParseProofs TriviaSpec TriviaProofs
     LexRoundTripSpec LexRoundTripProofs ParserSoundProofs FrontSpec FrontTotalSpec FrontTotalProofs
     HistorySpec HistoryProofs SpanParser SpanParserSpec SpanParserProofs Yo YoCodecSpec YoCodecProofs
     Tool ToolSpec ToolProofs FrontWfSpec.
Import ListNotations.
Open Scope list_scope.
Open Scope N_scope.

(* ====================================================================================== *)
(* Part 1: the parser - FrontSpec.stmt_parse_wf, for every table                          *)
(* ====================================================================================== *)
Definition WF (toks : list tok) : Prop := Forall (fun t => token_wf (tk t)) toks.

Lemma WF_tail t l : WF (t :: l) -> WF l.
Proof. intros H. inversion H; assumption. Qed.

Lemma WF_head t l : WF (t :: l) -> token_wf (tk t).
Proof. intros H. inversion H; assumption. Qed.

Lemma small_constant_le t n : small_constant t = Some n -> n <= 128.
Proof. intros H. destruct (small_constant_inv t n H) as (v & _ & _ & Hn). exact Hn. Qed.

Section ExprWf.
  Variable tiers : list tier.

  Definition wf_at (f : nat) : Prop :=
    (forall ts toks e rest, WF toks -> parse_tiers tiers f ts toks = Some (e, rest) -> wf_expr e /\ WF rest) /\
    (forall rt ops l toks e rest, WF toks -> wf_expr l ->
        left_loop tiers f rt ops l toks = Some (e, rest) -> wf_expr e /\ WF rest) /\
    (forall toks e rest, WF toks -> parse_term tiers f toks = Some (e, rest) -> wf_expr e /\ WF rest) /\
    (forall toks e rest, WF toks -> parse_simple tiers f toks = Some (e, rest) -> wf_expr e /\ WF rest) /\
    (forall toks a rest, WF toks -> parse_mux_options tiers f toks = Some (a, rest) -> wf_arms a /\ WF rest) /\
    (forall toks x rest, WF toks -> parse_commas_exprs tiers f toks = Some (x, rest) -> wf_items x /\ WF rest).

  Section Steps.
    Variable f : nat.
    Hypothesis IH : wf_at f.

    Let IH1 := proj1 IH.
    Let IH2 := proj1 (proj2 IH).
    Let IH3 := proj1 (proj2 (proj2 IH)).
    Let IH4 := proj1 (proj2 (proj2 (proj2 IH))).
    Let IH5 := proj1 (proj2 (proj2 (proj2 (proj2 IH)))).
    Let IH6 := proj2 (proj2 (proj2 (proj2 (proj2 IH)))).

    Lemma wf_step_tiers ts toks e rest :
      WF toks -> parse_tiers tiers (S f) ts toks = Some (e, rest) -> wf_expr e /\ WF rest.
    Proof.
      intros HW H. rewrite parse_tiers_S in H.
      destruct ts as [|[k ops] rt]; [exact (IH3 _ _ _ HW H)|].
      destruct k.
      - (* left-associative *)
        destruct (parse_tiers tiers f rt toks) as [[l toks1]|] eqn:E1; [|discriminate H].
        destruct (IH1 _ _ _ _ HW E1) as [Hl HW1]. exact (IH2 _ _ _ _ _ _ HW1 Hl H).
      - (* comparisons *)
        destruct (parse_tiers tiers f rt toks) as [[l toks1]|] eqn:E1; [|discriminate H].
        destruct (IH1 _ _ _ _ HW E1) as [Hl HW1].
        destruct toks1 as [|t toks1']; [injection H as <- <-; split; assumption|].
        destruct (op_of_token ops (tk t)) as [op|]; [|injection H as <- <-; split; assumption].
        destruct (parse_tiers tiers f rt toks1') as [[r toks2]|] eqn:E2; [|discriminate H].
        destruct (IH1 _ _ _ _ (WF_tail _ _ HW1) E2) as [Hr HW2].
        injection H as <- <-. split; [exact (conj Hl Hr)|exact HW2].
      - (* set membership *)
        destruct (parse_tiers tiers f rt toks) as [[l toks1]|] eqn:E1; [|discriminate H].
        destruct (IH1 _ _ _ _ HW E1) as [Hl HW1].
        destruct toks1 as [|t toks1']; [injection H as <- <-; split; assumption|].
        destruct (token_eqb (tk t) TIn); [|injection H as <- <-; split; assumption].
        destruct toks1' as [|t2 toks2]; [discriminate H|].
        destruct (token_eqb (tk t2) TOpenBrace); [|discriminate H].
        destruct (parse_commas_exprs tiers f toks2) as [[items toks3]|] eqn:E2; [|discriminate H].
        destruct (IH6 _ _ _ (WF_tail _ _ (WF_tail _ _ HW1)) E2) as [Hi HW3].
        destruct toks3 as [|t3 toks3']; [discriminate H|].
        destruct (token_eqb (tk t3) TCloseBrace); [|discriminate H].
        injection H as <- <-. split; [exact (conj Hl Hi)|exact (WF_tail _ _ HW3)].
      - discriminate H.
    Qed.

    Lemma wf_step_left rt ops l toks e rest :
      WF toks -> wf_expr l -> left_loop tiers (S f) rt ops l toks = Some (e, rest) -> wf_expr e /\ WF rest.
    Proof.
      intros HW Hl H. rewrite left_loop_S in H.
      destruct toks as [|t toks1]; [injection H as <- <-; split; assumption|].
      destruct (op_of_token ops (tk t)) as [op|]; [|injection H as <- <-; split; assumption].
      destruct (parse_tiers tiers f rt toks1) as [[r toks2]|] eqn:E2; [|discriminate H].
      destruct (IH1 _ _ _ _ (WF_tail _ _ HW) E2) as [Hr HW2].
      exact (IH2 _ _ (EBin op l r) _ _ _ HW2 (conj Hl Hr) H).
    Qed.

    Lemma wf_step_term toks e rest :
      WF toks -> parse_term tiers (S f) toks = Some (e, rest) -> wf_expr e /\ WF rest.
    Proof.
      intros HW H. rewrite parse_term_S in H.
      destruct toks as [|t toks1]; [discriminate H|].
      destruct (unop_of_token (tk t)) as [u|].
      - destruct (parse_simple tiers f toks1) as [[e1 toks2]|] eqn:E1; [|discriminate H].
        destruct (IH4 _ _ _ (WF_tail _ _ HW) E1) as [He HW2]. injection H as <- <-. split; assumption.
      - destruct (parse_simple tiers f (t :: toks1)) as [[e1 rest1]|] eqn:E1; [|discriminate H].
        destruct (IH4 _ _ _ HW E1) as [He HW1].
        destruct rest1 as [|t1 rest1]; [injection H as <- <-; split; assumption|].
        destruct (token_eqb (tk t1) TOpenBracket).
        2:{ destruct rest1 as [|t2 [|t3 [|t4 [|t5 rest1]]]]; injection H as <- <-; split; assumption. }
        destruct rest1 as [|t2 [|t3 [|t4 [|t5 rest1]]]]; try discriminate H.
        destruct (small_constant (tk t2)) as [lo|] eqn:Elo; [|discriminate H].
        destruct (small_constant (tk t4)) as [hi|] eqn:Ehi; [|discriminate H].
        destruct (token_eqb (tk t3) TDotDot && token_eqb (tk t5) TCloseBracket)%bool; [|discriminate H].
        injection H as <- <-.
        split; [exact (conj He (conj (small_constant_le _ _ Elo) (small_constant_le _ _ Ehi)))|].
        exact (WF_tail _ _ (WF_tail _ _ (WF_tail _ _ (WF_tail _ _ (WF_tail _ _ HW1))))).
    Qed.

    Lemma wf_step_simple toks e rest :
      WF toks -> parse_simple tiers (S f) toks = Some (e, rest) -> wf_expr e /\ WF rest.
    Proof.
      intros HW H. rewrite parse_simple_S in H.
      destruct toks as [|t toks1]; [discriminate H|].
      pose proof (WF_head _ _ HW) as Ht. pose proof (WF_tail _ _ HW) as HW1.
      destruct (tk t) eqn:Et; try discriminate H.
      - (* literal *) injection H as <- <-. split; [exact Ht|exact HW1].
      - (* ( *)
        destruct (parse_tiers tiers f tiers toks1) as [[e1 toks2]|] eqn:E1; [|discriminate H].
        destruct (IH1 _ _ _ _ HW1 E1) as [He HW2].
        destruct toks2 as [|t2 toks2]; [discriminate H|].
        destruct (token_eqb (tk t2) TCloseParen).
        + injection H as <- <-. split; [exact He|exact (WF_tail _ _ HW2)].
        + destruct (token_eqb (tk t2) TDotDot); [|discriminate H].
          destruct (parse_tiers tiers f tiers toks2) as [[r0 toks3]|] eqn:E2; [|discriminate H].
          destruct (IH1 _ _ _ _ (WF_tail _ _ HW2) E2) as [Hr HW3].
          destruct toks3 as [|t3 toks3]; [discriminate H|].
          destruct (token_eqb (tk t3) TCloseParen); [|discriminate H].
          injection H as <- <-. split; [exact (conj He Hr)|exact (WF_tail _ _ HW3)].
      - (* [ *)
        destruct (parse_mux_options tiers f toks1) as [[a toks2]|] eqn:E1; [|discriminate H].
        destruct (IH5 _ _ _ HW1 E1) as [Ha HW2].
        destruct toks2 as [|t2 toks2]; [discriminate H|].
        destruct (token_eqb (tk t2) TCloseBracket); [|discriminate H].
        injection H as <- <-. split; [exact Ha|exact (WF_tail _ _ HW2)].
      - (* identifier *) injection H as <- <-. split; [exact I|exact HW1].
    Qed.

    Lemma wf_step_mux toks a rest :
      WF toks -> parse_mux_options tiers (S f) toks = Some (a, rest) -> wf_arms a /\ WF rest.
    Proof.
      intros HW H. rewrite parse_mux_options_S in H.
      destruct toks as [|t toks0]; [injection H as <- <-; split; [exact I|exact HW]|].
      destruct (token_eqb (tk t) TCloseBracket); [injection H as <- <-; split; [exact I|exact HW]|].
      destruct (parse_tiers tiers f tiers (t :: toks0)) as [[c toks1]|] eqn:E1; [|discriminate H].
      destruct (IH1 _ _ _ _ HW E1) as [Hc HW1].
      destruct toks1 as [|t1 toks1]; [discriminate H|].
      destruct (token_eqb (tk t1) TColon); [|discriminate H].
      destruct (parse_tiers tiers f tiers toks1) as [[v toks2]|] eqn:E2; [|discriminate H].
      destruct (IH1 _ _ _ _ (WF_tail _ _ HW1) E2) as [Hv HW2].
      destruct toks2 as [|t2 toks2]; [injection H as <- <-; split; [exact (conj Hc (conj Hv I))|exact HW2]|].
      destruct (token_eqb (tk t2) TSemicolon); [|injection H as <- <-; split; [exact (conj Hc (conj Hv I))|exact HW2]].
      destruct (parse_mux_options tiers f toks2) as [[more toks3]|] eqn:E3; [|discriminate H].
      destruct (IH5 _ _ _ (WF_tail _ _ HW2) E3) as [Hm HW3].
      injection H as <- <-. split; [exact (conj Hc (conj Hv Hm))|exact HW3].
    Qed.

    Lemma wf_step_commas toks x rest :
      WF toks -> parse_commas_exprs tiers (S f) toks = Some (x, rest) -> wf_items x /\ WF rest.
    Proof.
      intros HW H. rewrite parse_commas_exprs_S in H.
      destruct toks as [|t toks0]; [injection H as <- <-; split; [exact I|exact HW]|].
      destruct (token_eqb (tk t) TCloseBrace); [injection H as <- <-; split; [exact I|exact HW]|].
      destruct (parse_tiers tiers f tiers (t :: toks0)) as [[e1 toks1]|] eqn:E1; [|discriminate H].
      destruct (IH1 _ _ _ _ HW E1) as [He HW1].
      destruct toks1 as [|t1 toks1]; [injection H as <- <-; split; [exact (conj He I)|exact HW1]|].
      destruct (token_eqb (tk t1) TComma); [|injection H as <- <-; split; [exact (conj He I)|exact HW1]].
      destruct (parse_commas_exprs tiers f toks1) as [[more toks2]|] eqn:E2; [|discriminate H].
      destruct (IH6 _ _ _ (WF_tail _ _ HW1) E2) as [Hm HW2].
      injection H as <- <-. split; [exact (conj He Hm)|exact HW2].
    Qed.
  End Steps.

  Lemma wf_all : forall f, wf_at f.
  Proof.
    induction f as [|f IH].
    - unfold wf_at. repeat split; intros; discriminate.
    - unfold wf_at. split; [|split; [|split; [|split; [|split]]]].
      + intros ts toks e rest. apply wf_step_tiers. exact IH.
      + intros rt ops l toks e rest. apply wf_step_left. exact IH.
      + intros toks e rest. apply wf_step_term. exact IH.
      + intros toks e rest. apply wf_step_simple. exact IH.
      + intros toks a rest. apply wf_step_mux. exact IH.
      + intros toks x rest. apply wf_step_commas. exact IH.
  Qed.

  Lemma parse_expr_wf f toks e rest :
    WF toks -> parse_expr tiers f toks = Some (e, rest) -> wf_expr e /\ WF rest.
  Proof. unfold parse_expr. apply (proj1 (wf_all f)). Qed.

  (* ---- declarations ---- *)
  Lemma wire_decls_wf f : forall toks d rest, WF toks -> parse_wire_decls f toks = Some (d, rest) ->
    Forall (fun nw : string * width => wf_width (snd nw)) d /\ WF rest.
  Proof.
    induction f as [|f IH]; intros toks d rest HW H; [discriminate H|].
    cbn [parse_wire_decls] in H.
    assert (Hnil : forall tk0, match tk0 with TIdentifier _ => None | _ => Some (@nil (string * width), toks) end
                               = Some (d, rest) ->
                   Forall (fun nw : string * width => wf_width (snd nw)) d /\ WF rest).
    { intros tk0 E. destruct tk0; try discriminate E; injection E as <- <-; (split; [constructor|exact HW]). }
    destruct toks as [|t1 [|t2 [|t3 toks1]]].
    - injection H as <- <-. split; [constructor|exact HW].
    - exact (Hnil _ H).
    - exact (Hnil _ H).
    - destruct (tk t1) eqn:Et1;
        try (destruct (small_constant (tk t3)); injection H as <- <-; (split; [constructor|exact HW])).
      destruct (small_constant (tk t3)) as [w|] eqn:Ew; [|discriminate H].
      pose proof (small_constant_le _ _ Ew) as Hw.
      pose proof (WF_tail _ _ (WF_tail _ _ (WF_tail _ _ HW))) as HW1.
      destruct (token_eqb (tk t2) TColon); [|discriminate H].
      destruct toks1 as [|t4 toks2].
      + injection H as <- <-. split; [constructor; [exact Hw|constructor]|exact HW1].
      + destruct (token_eqb (tk t4) TComma).
        * destruct (parse_wire_decls f toks2) as [[more toks3]|] eqn:E; [|discriminate H].
          destruct (IH _ _ _ (WF_tail _ _ HW1) E) as [Hm HW3].
          injection H as <- <-. split; [constructor; [exact Hw|exact Hm]|exact HW3].
        * injection H as <- <-. split; [constructor; [exact Hw|constructor]|exact HW1].
  Qed.

  Lemma const_decls_wf f : forall toks d rest, WF toks -> parse_const_decls tiers f toks = Some (d, rest) ->
    Forall (fun ne : string * expr => wf_expr (snd ne)) d /\ WF rest.
  Proof.
    induction f as [|f IH]; intros toks d rest HW H; [discriminate H|].
    cbn [parse_const_decls] in H.
    destruct toks as [|t1 [|t2 toks1]].
    - injection H as <- <-. split; [constructor|exact HW].
    - destruct (tk t1); try discriminate H; injection H as <- <-; (split; [constructor|exact HW]).
    - destruct (tk t1) eqn:Et1; try (injection H as <- <-; split; [constructor|exact HW]).
      destruct (token_eqb (tk t2) TAssign); [|discriminate H].
      destruct (parse_expr tiers f toks1) as [[e toks2]|] eqn:E1; [|discriminate H].
      destruct (parse_expr_wf _ _ _ _ (WF_tail _ _ (WF_tail _ _ HW)) E1) as [He HW2].
      destruct toks2 as [|t3 toks2].
      + injection H as <- <-. split; [constructor; [exact He|constructor]|exact HW2].
      + destruct (token_eqb (tk t3) TComma).
        * destruct (parse_const_decls tiers f toks2) as [[more toks3]|] eqn:E; [|discriminate H].
          destruct (IH _ _ _ (WF_tail _ _ HW2) E) as [Hm HW3].
          injection H as <- <-. split; [constructor; [exact He|exact Hm]|exact HW3].
        * injection H as <- <-. split; [constructor; [exact He|constructor]|exact HW2].
  Qed.

  Lemma targets_wf f : forall toks names rest, WF toks -> parse_targets f toks = (names, rest) -> WF rest.
  Proof.
    induction f as [|f IH]; intros toks names rest HW H; cbn [parse_targets] in H.
    - injection H as _ <-. exact HW.
    - destruct toks as [|t1 [|t2 toks1]]; try (injection H as _ <-; exact HW).
      destruct (tk t1); try (injection H as _ <-; exact HW).
      destruct (token_eqb (tk t2) TAssign); [|injection H as _ <-; exact HW].
      destruct (parse_targets f toks1) as [more rest0] eqn:E.
      injection H as _ <-. exact (IH _ _ _ (WF_tail _ _ (WF_tail _ _ HW)) E).
  Qed.

  Lemma assignments_wf f : forall toks a rest, WF toks -> parse_assignments tiers f toks = Some (a, rest) ->
    Forall (fun ne : list string * expr => wf_expr (snd ne)) a /\ WF rest.
  Proof.
    induction f as [|f IH]; intros toks a rest HW H; [discriminate H|].
    cbn [parse_assignments] in H.
    destruct (parse_targets (List.length toks) toks) as [names toks1] eqn:Et.
    pose proof (targets_wf _ _ _ _ HW Et) as HW1.
    destruct names as [|n0 names]; [discriminate H|].
    destruct (parse_expr tiers f toks1) as [[e toks2]|] eqn:E1; [|discriminate H].
    destruct (parse_expr_wf _ _ _ _ HW1 E1) as [He HW2].
    destruct toks2 as [|t toks2].
    - injection H as <- <-. split; [constructor; [exact He|constructor]|exact HW2].
    - destruct (token_eqb (tk t) TComma).
      + pose proof (WF_tail _ _ HW2) as HW3.
        destruct toks2 as [|t2 toks3].
        * injection H as <- <-. split; [constructor; [exact He|constructor]|exact HW3].
        * destruct (tk t2) eqn:Et2;
            try (injection H as <- <-; split; [constructor; [exact He|constructor]|exact HW3]).
          destruct (parse_assignments tiers f (t2 :: toks3)) as [[more toks4]|] eqn:E; [|discriminate H].
          destruct (IH _ _ _ HW3 E) as [Hm HW4].
          injection H as <- <-. split; [constructor; [exact He|exact Hm]|exact HW4].
      + injection H as <- <-. split; [constructor; [exact He|constructor]|exact HW2].
  Qed.

  Lemma register_decls_wf f : forall toks regs rest, WF toks ->
    parse_register_decls tiers f toks = Some (regs, rest) ->
    Forall (fun r : string * width * expr => wf_width (snd (fst r)) /\ wf_expr (snd r)) regs /\ WF rest.
  Proof.
    induction f as [|f IH]; intros toks regs rest HW H; [discriminate H|].
    cbn [parse_register_decls] in H.
    assert (Hnil : forall tk0, match tk0 with TIdentifier _ => None
                                         | _ => Some (@nil (string * width * expr), toks) end = Some (regs, rest) ->
                   Forall (fun r : string * width * expr => wf_width (snd (fst r)) /\ wf_expr (snd r)) regs /\ WF rest).
    { intros tk0 E. destruct tk0; try discriminate E; injection E as <- <-; (split; [constructor|exact HW]). }
    destruct toks as [|t1 [|t2 [|t3 [|t4 toks1]]]].
    - injection H as <- <-. split; [constructor|exact HW].
    - exact (Hnil _ H).
    - exact (Hnil _ H).
    - exact (Hnil _ H).
    - destruct (tk t1) eqn:Et1;
        try (destruct (small_constant (tk t3)); injection H as <- <-; (split; [constructor|exact HW])).
      destruct (small_constant (tk t3)) as [w|] eqn:Ew; [|discriminate H].
      pose proof (small_constant_le _ _ Ew) as Hw.
      destruct (token_eqb (tk t2) TColon && token_eqb (tk t4) TAssign)%bool; [|discriminate H].
      destruct (parse_expr tiers f toks1) as [[e toks2]|] eqn:E1; [|discriminate H].
      destruct (parse_expr_wf _ _ _ _ (WF_tail _ _ (WF_tail _ _ (WF_tail _ _ (WF_tail _ _ HW)))) E1) as [He HW2].
      destruct toks2 as [|t5 toks2].
      + injection H as <- <-. split; [constructor; [exact (conj Hw He)|constructor]|exact HW2].
      + destruct (token_eqb (tk t5) TSemicolon).
        * destruct (parse_register_decls tiers f toks2) as [[more toks3]|] eqn:E; [|discriminate H].
          destruct (IH _ _ _ (WF_tail _ _ HW2) E) as [Hm HW3].
          injection H as <- <-. split; [constructor; [exact (conj Hw He)|exact Hm]|exact HW3].
        * injection H as <- <-. split; [constructor; [exact (conj Hw He)|constructor]|exact HW2].
  Qed.

  Lemma statement_wf f toks s k rest :
    WF toks -> parse_statement tiers f toks = Some (s, k, rest) -> wf_stmt s /\ WF rest.
  Proof.
    intros HW H. unfold parse_statement in H.
    destruct toks as [|t toks1]; [discriminate H|].
    pose proof (WF_tail _ _ HW) as HW1.
    destruct (tk t) eqn:Et; try discriminate H.
    - destruct (parse_wire_decls f toks1) as [[d r]|] eqn:E; [|discriminate H].
      injection H as <- _ <-. exact (wire_decls_wf _ _ _ _ HW1 E).
    - destruct (parse_const_decls tiers f toks1) as [[d r]|] eqn:E; [|discriminate H].
      injection H as <- _ <-. exact (const_decls_wf _ _ _ _ HW1 E).
    - destruct toks1 as [|t1 [|t2 toks2]]; try discriminate H.
      destruct (tk t1); try discriminate H.
      destruct (token_eqb (tk t2) TOpenBrace); [|discriminate H].
      destruct (parse_register_decls tiers f toks2) as [[regs r]|] eqn:E; [|discriminate H].
      destruct (register_decls_wf _ _ _ _ (WF_tail _ _ (WF_tail _ _ HW1)) E) as [Hr HWr].
      destruct r as [|t3 r]; [discriminate H|].
      destruct (token_eqb (tk t3) TCloseBrace); [|discriminate H].
      injection H as <- _ <-. split; [exact Hr|exact (WF_tail _ _ HWr)].
    - destruct (parse_assignments tiers f (t :: toks1)) as [[a r]|] eqn:E; [|discriminate H].
      injection H as <- _ <-. exact (assignments_wf _ _ _ _ HW E).
  Qed.

  Lemma statements_wf f : forall toks seen acc stmts,
    WF toks -> Forall wf_stmt acc -> parse_statements tiers f toks seen acc = Some stmts -> Forall wf_stmt stmts.
  Proof.
    induction f as [|f IH]; intros toks seen acc stmts HW Hacc H; [discriminate H|].
    cbn [parse_statements] in H.
    destruct toks as [|t toks1].
    - destruct seen; [|discriminate H]. injection H as <-. apply Forall_rev. exact Hacc.
    - destruct (token_eqb (tk t) TSemicolon).
      + destruct seen; [|discriminate H]. exact (IH _ _ _ _ (WF_tail _ _ HW) Hacc H).
      + destruct (parse_statement tiers (20 * S (List.length (t :: toks1))) (t :: toks1)) as [[[s k] rest]|] eqn:E;
          [|discriminate H].
        destruct (statement_wf _ _ _ _ _ HW E) as [Hs HWr].
        destruct k.
        * destruct rest as [|t2 rest].
          -- destruct seen; [|discriminate H]. injection H as <-. change (Forall wf_stmt (rev (s :: acc))). apply Forall_rev. constructor; assumption.
          -- destruct (token_eqb (tk t2) TSemicolon); [|discriminate H].
             apply (IH _ _ _ _ (WF_tail _ _ HWr) (Forall_cons _ Hs Hacc) H).
        * apply (IH _ _ _ _ HWr (Forall_cons _ Hs Hacc) H).
  Qed.
End ExprWf.

Theorem parse_wf_holds : stmt_parse_wf.
Proof.
  intros tiers toks stmts HW H. unfold parse in H.
  exact (statements_wf tiers _ _ _ _ _ HW (Forall_nil _) H).
Qed.

(* non-vacuity: a token list with literals of every shape, parsed by the documented table *)
Example ex_parse_wf :
  let lit v w : tok := (O, TLit (mkV v w), O) in
  let t x : tok := (O, x, O) in
  let toks := [t TWire; t (TIdentifier [120]); t TColon; lit 128 Unl; t TSemicolon;
               t (TIdentifier [120]); t TAssign; lit 5 (Bits 3); t TPlus; t (TIdentifier [121]);
               t TOpenBracket; lit 0 Unl; t TDotDot; lit 128 Unl; t TCloseBracket; t TSemicolon] in
  Forall (fun t => token_wf (tk t)) toks /\
  parse doc_tiers toks =
    Some [SWire [("x"%string, Bits 128)];
          SAssign [(["x"%string], EBin Add (EConst (mkV 5 (Bits 3))) (ESlice (EWire "y") 0 128))]].
Proof.
  cbv zeta. split; [|vm_compute; reflexivity].
  repeat constructor; unfold tk, token_wf, fits; cbn [fst snd bits wd bits_or_128 wf_width]; lia.
Qed.

(* ====================================================================================== *)
(* Part 2: the lexer on arbitrary bytes - FrontSpec.stmt_lex_tokens_wf is false           *)
(* ====================================================================================== *)
(* "0b" followed by the bytes C0 B0: the model's decoder reads C0 B0 as the character U+0030 "0"
   (an over-long encoding, which no Rust &str contains), so the lexer sees the binary literal
   "0b0" of ONE digit spanning TWO bytes; the width is the byte length 2 and the value is computed
   from the bytes C0 B0: 299 *)
Lemma lex_tokens_wf_refuted : ~ stmt_lex_tokens_wf.
Proof.
  intros H.
  pose proof (H test_uclass [48; 98; 192; 176] [(0%nat, TLit (mkV 299 (Bits 2)), 4%nat)] None
                ltac:(vm_compute; reflexivity)) as H1.
  inversion H1 as [|? ? Hbad _]. unfold tk, token_wf, fits in Hbad. cbn [fst snd bits wd bits_or_128] in Hbad.
  destruct Hbad as [Hlt _]. vm_compute in Hlt. discriminate Hlt.
Qed.

(* the same bytes inside an otherwise ordinary program: accepted by the front end and by
   Program::new, and the program is not well typed (the literal 599 does not fit its 3 bits) *)
Definition bad_text : list N := bytes_of "pc = 0; Stat = 0b" ++ [192; 176] ++ bytes_of "1;".
Definition bad_stmts : list stmt :=
  [SAssign [(["pc"%string], EConst (mkV 0 Unl))]; SAssign [(["Stat"%string], EConst (mkV 599 (Bits 3)))]].

Lemma bad_text_parses : parse_text test_uclass doc_tiers bad_text = Some bad_stmts.
Proof. vm_compute. reflexivity. Qed.

Lemma text_to_program_ok_refuted : ~ stmt_text_to_program_ok.
Proof.
  intros H.
  destruct (build_program gen_features gen_fixed ascii_lower ascii_upper bad_stmts) as [p|es] eqn:Hb;
    [|vm_compute in Hb; discriminate Hb].
  destruct (H test_uclass doc_tiers gen_features ascii_lower ascii_upper bad_text bad_stmts p bad_text_parses Hb)
    as [G POK].
  destruct POK as [Hact _].
  vm_compute in Hb. injection Hb as <-.
  specialize (Hact (AAssign "Stat" (EConst (mkV 599 (Bits 3))) (Bits 3))
                   ltac:(cbn [p_actions In]; auto)).
  destruct Hact as (_ & _ & Hwf & _). cbn [wf_expr] in Hwf. destruct Hwf as [Hlt _].
  vm_compute in Hlt. discriminate Hlt.
Qed.

(* ====================================================================================== *)
(* Part 3: texts (UTF-8 encodings of characters)                                          *)
(* ====================================================================================== *)
Lemma lexable_token_wf uc t : lexable uc t -> token_wf t.
Proof.
  destruct t; try (intros _; exact I). destruct v as [b [n|]]; cbn [lexable token_wf]; unfold fits;
    cbn [bits wd bits_or_128 wf_width].
  - intros [[_ Hn] Hv]. split; [exact Hv|exact Hn].
  - intros Hv. split; [exact Hv|exact I].
Qed.

Theorem lex_tokens_wf_utf8_holds : stmt_lex_tokens_wf_utf8.
Proof.
  intros uc text toks err Hsc Hl. apply Forall_forall. intros t Hin.
  apply (lexable_token_wf uc). apply (lexer_output_lexable_holds uc text Hsc).
  rewrite Hl. cbn [fst]. apply in_map. exact Hin.
Qed.

Theorem text_stmts_wf_holds : stmt_text_stmts_wf.
Proof.
  intros uc tiers text stmts Hsc H. unfold parse_text in H.
  destruct (lex uc (utf8 text)) as [toks [e|]] eqn:El; [discriminate H|].
  exact (parse_wf_holds tiers toks stmts (lex_tokens_wf_utf8_holds uc text toks None Hsc El) H).
Qed.

Theorem parse_sp_wf_holds : stmt_parse_sp_wf.
Proof.
  intros tiers toks sstmts HW H.
  pose proof (erase_parse_sp_holds tiers toks) as E. rewrite H in E. cbn [option_map] in E.
  exact (parse_wf_holds tiers toks _ HW (eq_sym E)).
Qed.

Theorem parse_text_sp_wf_holds : stmt_parse_text_sp_wf.
Proof.
  intros uc tiers text sstmts Hsc H.
  pose proof (erase_parse_text_sp_holds uc tiers (utf8 text)) as E. rewrite H in E. cbn [option_map] in E.
  exact (text_stmts_wf_holds uc tiers text _ Hsc (eq_sym E)).
Qed.

Theorem text_to_program_ok_utf8_holds : stmt_text_to_program_ok_utf8.
Proof.
  intros uc tiers f il iu text stmts p Hsc Hp Hb.
  exact (accept_program_ok_gen f il iu gen_fixed_ok gen_fixed_widths_ok stmts p
           (text_stmts_wf_holds uc tiers text stmts Hsc Hp) Hb).
Qed.

(* ---- C07 for texts ---- *)
Lemma reachable_state_ok f G p s : program_ok f G p -> reachable f p s -> state_ok G p s.
Proof.
  intros POK R. induction R as [s0 H0|s img R IH Hw|o s s' out R IH Hst].
  - destruct (initial_state_safe_ok f G p POK) as [s1 [H1 SOK]]. rewrite H0 in H1. injection H1 as <-. exact SOK.
  - apply load_image_ok; assumption.
  - pose proof (step_safe_ok f o G p s POK IH) as Hs. rewrite Hst in Hs. exact Hs.
Qed.

Theorem text_accepted_program_ok_and_runs_holds : stmt_text_accepted_program_ok_and_runs.
Proof.
  intros uc tiers f il iu text stmts p Hsc Hp Hb.
  destruct (text_to_program_ok_utf8_holds uc tiers f il iu text stmts p Hsc Hp Hb) as [G POK].
  exists G. split; [exact POK|]. split; [exact (initial_state_safe_ok f G p POK)|].
  split; [intros s R; exact (reachable_state_ok f G p s POK R)|]. split.
  - intros o s R. pose proof (step_safe_ok f o G p s POK (reachable_state_ok f G p s POK R)) as Hs.
    destruct (step f o p s) as [[s' out]|es] eqn:Est; [|exact Hs].
    exact (reach_step f p o s s' out R Est).
  - intros fuel o s R Hfuel.
    exact (run_safe_ok fuel f o G p s POK (reachable_state_ok f G p s POK R) Hfuel).
Qed.

(* ---- the tool ---- *)
Lemma preamble_ascii : forallb (fun b => b <? 128) (bytes_of gen_preamble) = true.
Proof. vm_compute. reflexivity. Qed.

Lemma ascii_scalar l : forallb (fun b => b <? 128) l = true -> Forall scalar l.
Proof.
  intros H. apply Forall_forall. intros b Hb.
  pose proof (proj1 (forallb_forall _ _) H b Hb) as Hlt. cbn beta in Hlt. unfold scalar. lia.
Qed.

Lemma tool_text_utf8 utext : Forall scalar utext ->
  Forall scalar (bytes_of gen_preamble ++ utext) /\
  (bytes_of gen_preamble ++ utf8 utext = utf8 (bytes_of gen_preamble ++ utext)).
Proof.
  intros Hsc. split.
  - apply Forall_app. split; [apply ascii_scalar; exact preamble_ascii|exact Hsc].
  - rewrite utf8_app, (utf8_ascii _ preamble_ascii). reflexivity.
Qed.

Theorem tool_statements_wf_holds : stmt_tool_statements_wf.
Proof.
  intros files f utext stmts Hfile Hsc Hst.
  unfold statements_of, read_y86_hcl in Hst. rewrite Hfile in Hst.
  destruct gen_tiers as [tiers|]; [|discriminate Hst].
  destruct (tool_text_utf8 utext Hsc) as [Hsc' E]. rewrite E in Hst.
  exact (text_stmts_wf_holds test_uclass tiers _ stmts Hsc' Hst).
Qed.

Theorem tool_abort_is_division_by_zero_unconditional_holds : stmt_tool_abort_is_division_by_zero_unconditional.
Proof.
  intros files f y utext p start o es Hfile Hsc Hstart Hrun.
  destruct (statements_of files f) as [stmts|] eqn:Hst.
  - apply (tool_abort_is_division_by_zero_holds files f y stmts p start o es Hst); [|exact Hstart|exact Hrun].
    exact (tool_statements_wf_holds files f utext stmts Hfile Hsc Hst).
  - exfalso. unfold statements_of in Hst. unfold start_of in Hstart.
    destruct (read_y86_hcl files f) as [text|]; [|discriminate Hstart].
    unfold parse_y86_hcl in Hstart. destruct gen_tiers as [tiers|]; [|discriminate Hstart].
    rewrite Hst in Hstart. discriminate Hstart.
Qed.

(* ====================================================================================== *)
(* Part 4: arbitrary bytes in which every ASCII character is read from one byte           *)
(* ====================================================================================== *)
(* the lexer's state: in what is left of the character stream, a character below 128 at offset i
   is the byte at i, and the next character (or the end of the text) is at i + 1 *)
Fixpoint AL (bytes : list N) (len : nat) (cs : list (nat * N)) : Prop :=
  match cs with
  | [] => True
  | (i, c) :: r => (c < 128 -> nth_error bytes i = Some c /\ lb r len = S i) /\ AL bytes len r
  end.

Lemma AL_app bytes len pre r : AL bytes len (pre ++ r) -> AL bytes len r.
Proof.
  induction pre as [|[i c] pre IH]; [intros H; exact H|]. cbn [app AL]. intros [_ H]. exact (IH H).
Qed.

Lemma AL_suffix bytes len r cs : suffix r cs -> AL bytes len cs -> AL bytes len r.
Proof. intros [pre ->]. apply AL_app. Qed.

Lemma char_indices_AL bytes : forall f l pre,
  bytes = pre ++ l -> (List.length l < f)%nat ->
  (forall i c, In (i, c) (char_indices f l (List.length pre)) -> c < 128 -> nth_error bytes i = Some c) ->
  AL bytes (List.length bytes) (char_indices f l (List.length pre)).
Proof.
  induction f as [|f IH]; intros l pre Hb Hlen Hex; [lia|].
  destruct l as [|b r]; [exact I|].
  rewrite char_indices_cons in Hex |- *.
  remember (fst (take_cont r (utf8_len b - 1)
                   (if b <? 128 then b else if b <? 224 then b mod 32 else if b <? 240 then b mod 16 else b mod 8)))
    as cp eqn:Ecp.
  clear Ecp. cbn [List.length] in Hlen. cbn [AL]. split.
  - intros Hc. pose proof (Hex _ _ (or_introl eq_refl) Hc) as Hn. split; [exact Hn|].
    assert (Hb' : nth_error bytes (List.length pre) = Some b).
    { rewrite Hb, nth_error_app2 by lia. rewrite Nat.sub_diag. reflexivity. }
    rewrite Hb' in Hn. injection Hn as Hn. subst cp.
    assert (Hu : utf8_len b = 1%nat).
    { unfold utf8_len. destruct (N.ltb_spec b 128) as [_|Hge]; [reflexivity|lia]. }
    rewrite Hu. cbn [Nat.sub skipn].
    destruct r as [|b2 r2].
    + rewrite char_indices_nil. cbn [lb]. rewrite Hb, app_length. cbn [List.length]. lia.
    + destruct f as [|f']; [cbn [List.length] in Hlen; lia|].
      rewrite char_indices_cons. cbn [lb]. lia.
  - destruct (skipn (utf8_len b - 1) r) as [|b2 r2] eqn:Es; [rewrite char_indices_nil; exact I|].
    pose proof (skipn_length (utf8_len b - 1) r) as Hsl. rewrite Es in Hsl. cbn [List.length] in Hsl.
    pose proof (utf8_len_pos b) as Hpos.
    assert (Hp : (List.length pre + utf8_len b)%nat = List.length (pre ++ b :: firstn (utf8_len b - 1) r)).
    { rewrite app_length. cbn [List.length]. rewrite firstn_length_le by lia. lia. }
    rewrite Hp in Hex |- *. rewrite <- Es in Hex |- *. apply IH.
    + rewrite Hb, <- app_assoc. cbn [app]. rewrite firstn_skipn. reflexivity.
    + rewrite Es. cbn [List.length]. lia.
    + intros i c Hin Hc. apply (Hex i c); [right; exact Hin|exact Hc].
Qed.

Lemma ascii_exact_AL bytes :
  ascii_exact bytes -> AL bytes (List.length bytes) (char_indices (S (List.length bytes)) bytes 0).
Proof. intros H. apply (char_indices_AL bytes (S (List.length bytes)) bytes []); [reflexivity|lia|exact H]. Qed.

(* ---- the digits of a binary literal ---- *)
Lemma skipn_nth {A} (l : list A) : forall i x, nth_error l i = Some x -> skipn i l = x :: skipn (S i) l.
Proof.
  induction l as [|y l IH]; intros [|i] x H; try discriminate H.
  - injection H as ->. reflexivity.
  - cbn [nth_error] in H. cbn [skipn]. rewrite (IH i x H). reflexivity.
Qed.

Lemma slice_cons bytes i last c :
  nth_error bytes i = Some c -> (i < last)%nat -> slice bytes i last = c :: slice bytes (S i) last.
Proof.
  intros Hn Hlt. unfold slice. replace (last - i)%nat with (S (last - S i)) by lia.
  rewrite (skipn_nth bytes i c Hn). reflexivity.
Qed.

Lemma slice_empty bytes i : slice bytes i i = [].
Proof. unfold slice. rewrite Nat.sub_diag. reflexivity. Qed.

Lemma get_while_binary bytes len : forall cs rest last,
  AL bytes len cs -> get_while is_binary_char cs len = (rest, last) ->
  (lb cs len <= last)%nat /\ forallb bin_digit (slice bytes (lb cs len) last) = true /\
  List.length (slice bytes (lb cs len) last) = (last - lb cs len)%nat.
Proof.
  induction cs as [|[i c] r IH]; intros rest last HA H; cbn [get_while] in H.
  - injection H as _ <-. cbn [lb]. rewrite slice_empty. split; [lia|]. split; [reflexivity|]. cbn [List.length]. lia.
  - cbn [lb]. destruct (is_binary_char c) eqn:Hc.
    + cbn [AL] in HA. destruct HA as [Hi HAr].
      assert (Hc128 : c < 128) by (apply N.ltb_lt, bin_lt128; exact Hc).
      destruct (Hi Hc128) as [Hn Hnext].
      destruct (IH _ _ HAr H) as (Hle & Hall & Hlen). rewrite Hnext in Hle, Hall, Hlen.
      rewrite (slice_cons bytes i last c Hn) by lia.
      split; [lia|]. split.
      * cbn [forallb]. change (bin_digit c) with (is_binary_char c). rewrite Hc. exact Hall.
      * cbn [List.length]. rewrite Hlen. lia.
    + injection H as _ <-. rewrite slice_empty. split; [lia|]. split; [reflexivity|]. cbn [List.length]. lia.
Qed.

Lemma unsized_wf v s e : v < two128 -> token_wf (tk (s, TLit (mkV v Unl), e)).
Proof. intros H. unfold tk, token_wf, fits. cbn [fst snd bits wd bits_or_128 wf_width]. split; [exact H|exact I]. Qed.

Lemma handle_constant_wf bytes len i c0 r tok rest :
  AL bytes len ((i, c0) :: r) -> is_decimal_char c0 = true ->
  handle_constant bytes len i r = (inl tok, rest) -> token_wf (tk tok).
Proof.
  intros HA Hd H.
  assert (Hnone : forall radix ts te s e, constant_of bytes radix ts te s e None = inl tok -> token_wf (tk tok)).
  { intros radix ts te s e E. destruct (constant_of_none_inl _ _ _ _ _ _ _ E) as (v & Hv & ->).
    apply unsized_wf. exact Hv. }
  destruct r as [|[j c] r2].
  - change (handle_constant bytes len i []) with
      (constant_of bytes 10 i (i + 1) i (i + 1) None, @nil (nat * N)) in H.
    injection H as E _. exact (Hnone _ _ _ _ _ E).
  - destruct (N.eq_dec c 120) as [->|H120].
    { destruct r2 as [|[k h] r3]; [discriminate H|]. rewrite hc_hex_step in H.
      destruct (is_hexadecimal_char h); [|discriminate H].
      destruct (get_while is_hexadecimal_char r3 len) as [rest0 last]. injection H as E _.
      exact (Hnone _ _ _ _ _ E). }
    destruct (N.eq_dec c 98) as [->|H98].
    { destruct r2 as [|[k b0] r3]; [discriminate H|]. rewrite hc_bin_step in H.
      destruct (is_binary_char b0) eqn:Hb0; [|discriminate H].
      (* where the characters are *)
      cbn [AL] in HA. destruct HA as [H0 [H1 [H2 HA3]]].
      assert (Hc0 : c0 < 128) by (apply N.ltb_lt, dec_lt128; exact Hd).
      destruct (H0 Hc0) as [_ Hj]. cbn [lb] in Hj.
      destruct (H1 ltac:(lia)) as [_ Hk]. cbn [lb] in Hk.
      assert (Hb128 : b0 < 128) by (apply N.ltb_lt, bin_lt128; exact Hb0).
      destruct (H2 Hb128) as [Hnb Hnext].
      destruct (get_while is_binary_char r3 len) as [rest0 last] eqn:Eg.
      destruct (get_while_binary bytes len r3 rest0 last HA3 Eg) as (Hle & Hall & Hlen).
      rewrite Hnext in Hle, Hall, Hlen.
      assert (Hk2 : k = (i + 2)%nat) by lia. clear Hk Hj. subst k.
      assert (Hds : forallb bin_digit (slice bytes (i + 2) last) = true /\
                    List.length (slice bytes (i + 2) last) = (last - (i + 2))%nat).
      { rewrite (slice_cons bytes (i + 2) last b0 Hnb) by lia. split.
        - cbn [forallb]. change (bin_digit b0) with (is_binary_char b0). rewrite Hb0. exact Hall.
        - cbn [List.length]. rewrite Hlen. lia. }
      destruct Hds as [Hdall Hdlen].
      assert (Hconst : constant_of bytes 2 (i + 2) last i last (Some (N.of_nat (last - (i + 2)))) = inl tok ->
                       token_wf (tk tok)).
      { intros E. destruct (constant_of_some_inl _ _ _ _ _ _ _ _ E) as (Hn & ->).
        unfold tk, token_wf, fits. cbn [fst snd bits wd bits_or_128 wf_width]. split; [|exact Hn].
        rewrite digits_value_0, <- Hdlen. apply bin_positional_bound. exact Hdall. }
      destruct rest0 as [|[k2 c2] rest2].
      - injection H as E _. exact (Hconst E).
      - destruct (is_decimal_char c2); [discriminate H|]. injection H as E _. exact (Hconst E). }
    rewrite handle_constant_other in H by assumption.
    destruct (is_decimal_char c).
    + destruct (get_while is_decimal_char ((j, c) :: r2) len) as [rest0 last]. injection H as E _.
      exact (Hnone _ _ _ _ _ E).
    + injection H as E _. exact (Hnone _ _ _ _ _ E).
Qed.

Lemma resolve_identifier_wf name : token_wf (resolve_identifier name).
Proof.
  unfold resolve_identifier.
  destruct (bytes_eqb name kw_wire); [exact I|]. destruct (bytes_eqb name kw_const); [exact I|].
  destruct (bytes_eqb name kw_register); [exact I|]. destruct (bytes_eqb name kw_in); exact I.
Qed.

Lemma fixed_token_wf t : is_fixed t = true -> token_wf t.
Proof. destruct t; try discriminate; intros _; exact I. Qed.

Lemma lex_next_tok_wf uc bytes len : forall f cs tok rest,
  AL bytes len cs -> lex_next uc f bytes len cs = LexTok tok rest -> token_wf (tk tok).
Proof.
  induction f as [|f IH]; intros cs tok rest HA H; [discriminate H|].
  destruct cs as [|[i c] r]; [discriminate H|].
  pose proof HA as HA'. cbn [AL] in HA'. destruct HA' as [_ HAr].
  destruct (is_whitespace uc c) eqn:Hw.
  { rewrite ln_white in H by exact Hw. exact (IH _ _ _ HAr H). }
  destruct (is_start_identifier_char uc c) eqn:Hs.
  { rewrite ln_word in H by assumption.
    destruct (get_while (is_identifier_char uc) r len) as [rest0 last]. injection H as <- _.
    unfold tk. cbn [fst snd]. apply resolve_identifier_wf. }
  destruct (is_decimal_char c) eqn:Hd.
  { rewrite lex_next_digit in H by exact Hd.
    destruct (handle_constant bytes len i r) as [[tok0|e0] rest0] eqn:E; [|discriminate H].
    injection H as <- _. exact (handle_constant_wf bytes len i c r tok0 rest0 HA Hd E). }
  destruct (op_branch uc bytes len f i c r tok rest Hw Hs Hd H)
    as [(Hfix & _)|[(-> & E)|[(-> & j & r' & Er & E)|(-> & j & r2 & r3 & Er & Esk & E)]]].
  - apply fixed_token_wf. exact Hfix.
  - apply (IH _ _ _ (AL_suffix _ _ _ _ (get_while_fst_suffix is_not_newline r len) HAr) E).
  - apply (IH _ _ _ (AL_suffix _ _ _ _ (get_while_fst_suffix is_not_newline r len) HAr) E).
  - subst r. cbn [AL] in HAr. destruct HAr as [_ HA2].
    apply (IH _ _ _ (AL_suffix _ _ _ _ (proper_is_suffix _ _ (skip_block_comment_suffix _ _ _ _ Esk)) HA2) E).
Qed.

Lemma lex_loop_wf uc bytes len : forall fuel cs acc,
  AL bytes len cs -> Forall (fun t => token_wf (tk t)) acc ->
  Forall (fun t => token_wf (tk t)) (fst (lex_loop uc fuel bytes len cs acc)).
Proof.
  induction fuel as [|fuel IH]; intros cs acc HA Hacc.
  - cbn [lex_loop fst]. apply Forall_rev. exact Hacc.
  - cbn [lex_loop].
    destruct (lex_next uc (S (List.length cs)) bytes len cs) as [tok rest|e rest|] eqn:E.
    + apply IH.
      * pose proof (lex_next_progress_holds uc (S (List.length cs)) bytes len cs) as Hp. rewrite E in Hp.
        exact (AL_suffix _ _ _ _ (proper_is_suffix _ _ Hp) HA).
      * constructor; [exact (lex_next_tok_wf uc bytes len _ _ _ _ HA E)|exact Hacc].
    + cbn [fst]. apply Forall_rev. exact Hacc.
    + cbn [fst]. apply Forall_rev. exact Hacc.
Qed.

Theorem lex_tokens_wf_ascii_exact_holds : stmt_lex_tokens_wf_ascii_exact.
Proof.
  intros uc bytes toks err Hex Hl.
  pose proof (lex_loop_wf uc bytes (List.length bytes) (S (List.length bytes)) _ []
                (ascii_exact_AL bytes Hex) (Forall_nil _)) as HF.
  change (Forall (fun t => token_wf (tk t)) (fst (lex uc bytes))) in HF.
  rewrite Hl in HF. exact HF.
Qed.

(* every encoded text qualifies *)
Lemma cidx_in : forall text p0 pos c, In (pos, c) (cidx p0 text) ->
  exists a b, text = a ++ c :: b /\ pos = (p0 + blen a)%nat.
Proof.
  induction text as [|x text IH]; intros p0 pos c Hin; [destruct Hin|].
  cbn [cidx In] in Hin. destruct Hin as [E|Hin].
  - injection E as <- <-. exists [], text. split; [reflexivity|]. rewrite blen_nil. lia.
  - destruct (IH _ _ _ Hin) as (a & b & -> & ->). exists (x :: a), b. split; [reflexivity|].
    rewrite blen_cons. lia.
Qed.

Theorem utf8_ascii_exact_holds : stmt_utf8_ascii_exact.
Proof.
  intros text Hsc pos c Hin Hc.
  rewrite char_indices_utf8 in Hin; [|exact Hsc|pose proof (length_le_blen text) as Hl; unfold blen in Hl; lia].
  destruct (cidx_in _ _ _ _ Hin) as (a & b & -> & ->).
  rewrite utf8_app. cbn [utf8 flat_map]. unfold utf8_char at 1.
  destruct (N.ltb_spec c 128) as [_|Hge]; [|lia].
  cbn [app Nat.add]. unfold blen. rewrite nth_error_app2 by lia. rewrite Nat.sub_diag. reflexivity.
Qed.

Theorem text_stmts_wf_ascii_exact_holds : stmt_text_stmts_wf_ascii_exact.
Proof.
  intros uc tiers bytes stmts Hex H. unfold parse_text in H.
  destruct (lex uc bytes) as [toks [e|]] eqn:El; [discriminate H|].
  exact (parse_wf_holds tiers toks stmts (lex_tokens_wf_ascii_exact_holds uc bytes toks None Hex El) H).
Qed.

Theorem text_to_program_ok_ascii_exact_holds : stmt_text_to_program_ok_ascii_exact.
Proof.
  intros uc tiers f il iu bytes stmts p Hex Hp Hb.
  exact (accept_program_ok_gen f il iu gen_fixed_ok gen_fixed_widths_ok stmts p
           (text_stmts_wf_ascii_exact_holds uc tiers bytes stmts Hex Hp) Hb).
Qed.

(* the tool, for a file of arbitrary bytes such that preamble ++ file is ascii_exact *)
Theorem tool_abort_is_division_by_zero_ascii_exact_holds : stmt_tool_abort_is_division_by_zero_ascii_exact.
Proof.
  intros files f y b p start o es Hfile Hex Hstart Hrun.
  destruct (statements_of files f) as [stmts|] eqn:Hst.
  - apply (tool_abort_is_division_by_zero_holds files f y stmts p start o es Hst); [|exact Hstart|exact Hrun].
    unfold statements_of, read_y86_hcl in Hst. rewrite Hfile in Hst.
    destruct gen_tiers as [tiers|]; [|discriminate Hst].
    exact (text_stmts_wf_ascii_exact_holds test_uclass tiers _ stmts Hex Hst).
  - exfalso. unfold statements_of in Hst. unfold start_of in Hstart.
    destruct (read_y86_hcl files f) as [text|]; [|discriminate Hstart].
    unfold parse_y86_hcl in Hstart. destruct gen_tiers as [tiers|]; [|discriminate Hstart].
    rewrite Hst in Hstart. discriminate Hstart.
Qed.

(* ====================================================================================== *)
(* Part 5: non-vacuity on real program texts                                              *)
(* ====================================================================================== *)
(* a program text with a non-ASCII character (U+00E9, two bytes in UTF-8), literals of every kind
   (decimal up to 2^128-1, hexadecimal, binary of 3 and 8 digits), declared widths, a register
   bank, a slice, a case expression and a set membership *)
Definition ex_text : list N :=
  bytes_of "# caf" ++ [233] ++ bytes_of " - a counter
const K = 0x1F, BIG = 340282366920938463463374607431768211455;
wire x : 8, y : 4;
register fF { a : 8 = 0b00000001; }
x = F_a + K;
y = x[0..4];
f_a = [ y == 3 : 0b11111111; 1 : x ];
pc = 0;
Stat = [ x in { 1, 2 } : 0b010; 1 : 0b001 ];
".

Definition ex_stmts : list stmt :=
  Eval vm_compute in match parse_text test_uclass doc_tiers (utf8 ex_text) with Some s => s | None => [] end.
Definition ex_prog : program :=
  Eval vm_compute in
    match build_program gen_features gen_fixed ascii_lower ascii_upper ex_stmts with
    | Ok p => p
    | Err _ => mkProgram [] [] [] [] []
    end.

Lemma scalar_by_computation l : forallb (fun c => c <? 1114112) l = true -> Forall scalar l.
Proof.
  intros H. apply Forall_forall. intros c Hc.
  pose proof (proj1 (forallb_forall _ _) H c Hc) as Hlt. cbn beta in Hlt. unfold scalar. lia.
Qed.

Lemma ex_text_scalar : Forall scalar ex_text.
Proof. apply scalar_by_computation. vm_compute. reflexivity. Qed.

Lemma ex_text_parses : parse_text test_uclass doc_tiers (utf8 ex_text) = Some ex_stmts.
Proof. vm_compute. reflexivity. Qed.

Lemma ex_text_builds : build_program gen_features gen_fixed ascii_lower ascii_upper ex_stmts = Ok ex_prog.
Proof. vm_compute. reflexivity. Qed.

(* the hypotheses of stmt_lex_tokens_wf_utf8 / stmt_text_stmts_wf / stmt_text_to_program_ok_utf8 /
   stmt_text_accepted_program_ok_and_runs are met by this text; it is not ASCII; it has 8
   statements, 7 actions and a register bank *)
Example ex_text_front :
  Forall scalar ex_text /\ utf8 ex_text <> ex_text /\
  snd (lex test_uclass (utf8 ex_text)) = None /\
  parse_text test_uclass doc_tiers (utf8 ex_text) = Some ex_stmts /\ List.length ex_stmts = 8%nat /\
  build_program gen_features gen_fixed ascii_lower ascii_upper ex_stmts = Ok ex_prog /\
  List.length (p_actions ex_prog) = 7%nat /\ List.length (p_banks ex_prog) = 1%nat.
Proof.
  split; [exact ex_text_scalar|]. split; [intros E; apply (f_equal (@List.length N)) in E; vm_compute in E; discriminate E|].
  split; [vm_compute; reflexivity|]. split; [exact ex_text_parses|]. split; [reflexivity|].
  split; [exact ex_text_builds|]. split; reflexivity.
Qed.

(* the conclusions, instantiated: the program is well typed, and the state after loading an image
   and running two cycles is reachable, hence well typed *)
Example ex_text_runs :
  exists G s0 s1 s2 o1 o2,
    program_ok gen_features G ex_prog /\
    initial_state ex_prog = Ok s0 /\
    step gen_features default_options ex_prog (load_image s0 []) = Ok (s1, o1) /\
    step gen_features default_options ex_prog s1 = Ok (s2, o2) /\
    cycle s2 = 2 /\ reachable gen_features ex_prog s2 /\ state_ok G ex_prog s2.
Proof.
  destruct (text_accepted_program_ok_and_runs_holds test_uclass doc_tiers gen_features ascii_lower ascii_upper
              ex_text ex_stmts ex_prog ex_text_scalar ex_text_parses ex_text_builds)
    as (G & POK & _ & Hreach & _ & _).
  assert (Hall : match initial_state ex_prog with
                 | Ok a => match step gen_features default_options ex_prog (load_image a []) with
                           | Ok (b, _) => match step gen_features default_options ex_prog b with
                                          | Ok (c, _) => cycle c = 2
                                          | Err _ => False
                                          end
                           | Err _ => False
                           end
                 | Err _ => False
                 end) by (vm_compute; reflexivity).
  destruct (initial_state ex_prog) as [s0|] eqn:E0; [|contradiction].
  destruct (step gen_features default_options ex_prog (load_image s0 [])) as [[s1 o1]|] eqn:E1; [|contradiction].
  destruct (step gen_features default_options ex_prog s1) as [[s2 o2]|] eqn:E2; [|contradiction].
  assert (R2 : reachable gen_features ex_prog s2).
  { apply (reach_step _ _ default_options s1 s2 o2); [|exact E2].
    apply (reach_step _ _ default_options (load_image s0 []) s1 o1); [|exact E1].
    apply reach_load; [apply reach_init; exact E0|exact wf_mem_nil]. }
  exists G, s0, s1, s2, o1, o2.
  split; [exact POK|]. split; [reflexivity|]. split; [exact E1|]. split; [exact E2|].
  split; [exact Hall|]. split; [exact R2|apply Hreach; exact R2].
Qed.

(* the spanned parser on the same text *)
Example ex_text_sp :
  exists sstmts, parse_text_sp test_uclass doc_tiers (utf8 ex_text) = Some sstmts /\
                 map erase_stmt sstmts = ex_stmts /\ Forall wf_stmt (map erase_stmt sstmts).
Proof.
  destruct (parse_text_sp test_uclass doc_tiers (utf8 ex_text)) as [sstmts|] eqn:E; [|vm_compute in E; discriminate E].
  exists sstmts. split; [reflexivity|]. split.
  - pose proof (erase_parse_text_sp_holds test_uclass doc_tiers (utf8 ex_text)) as H. rewrite E, ex_text_parses in H.
    injection H as H. exact H.
  - exact (parse_text_sp_wf_holds test_uclass doc_tiers ex_text sstmts ex_text_scalar E).
Qed.

(* the tool: ToolProofs.ex_files "div.hcl" is a text, and its simulation aborts - by a division
   by zero *)
Example ex_tool_abort_unconditional :
  exists utext p start,
    ex_files "div.hcl"%string = Some (utf8 utext) /\ Forall scalar utext /\
    start_of ex_files "div.hcl" "p.yo" = Some (p, start) /\
    run (N.to_nat 9999) gen_features (set_timeout default_options 9999) p start = Err [mkErr DivisionByZero []].
Proof.
  destruct ex_abort_division_by_zero as (stmts & p & start & _ & _ & Hs & Hr).
  assert (Hasc : forallb (fun b => b <? 128) (bytes_of div_hcl) = true) by (vm_compute; reflexivity).
  exists (bytes_of div_hcl), p, start. split; [rewrite (utf8_ascii _ Hasc); vm_compute; reflexivity|].
  split; [apply ascii_scalar; exact Hasc|]. split; assumption.
Qed.

(* ascii_exact is strictly weaker than "UTF-8": the byte FF occurs in no encoding, but a text with
   FF FE inside a comment is ascii_exact (the decoder reads FF FE as one character >= 128) *)
Definition ascii_exactb (bytes : list N) : bool :=
  forallb (fun pc : nat * N =>
             if snd pc <? 128 then match nth_error bytes (fst pc) with Some b => b =? snd pc | None => false end
             else true)
          (char_indices (S (List.length bytes)) bytes 0).

Lemma ascii_exactb_ok bytes : ascii_exactb bytes = true -> ascii_exact bytes.
Proof.
  intros H pos c Hin Hc. pose proof (proj1 (forallb_forall _ _) H (pos, c) Hin) as Hb. cbn [fst snd] in Hb.
  destruct (N.ltb_spec c 128) as [_|Hge]; [|lia].
  destruct (nth_error bytes pos) as [b|]; [|discriminate Hb]. apply N.eqb_eq in Hb. rewrite Hb. reflexivity.
Qed.

Definition ex_bytes : list N := bytes_of "pc = 0; Stat = 0b001; # " ++ [255; 254].

Example ex_ascii_exact :
  ascii_exact ex_bytes /\ In 255 ex_bytes /\
  exists stmts p, parse_text test_uclass doc_tiers ex_bytes = Some stmts /\
                  build_program gen_features gen_fixed ascii_lower ascii_upper stmts = Ok p.
Proof.
  split; [apply ascii_exactb_ok; vm_compute; reflexivity|]. split; [vm_compute; tauto|].
  destruct (parse_text test_uclass doc_tiers ex_bytes) as [stmts|] eqn:E; [|vm_compute in E; discriminate E].
  exists stmts.
  destruct (build_program gen_features gen_fixed ascii_lower ascii_upper stmts) as [p|es] eqn:Eb.
  - exists p. split; reflexivity.
  - vm_compute in E. injection E as <-. vm_compute in Eb. discriminate Eb.
Qed.

(* the refuted text is, of course, not ascii_exact *)
Example bad_text_not_ascii_exact : ~ ascii_exact bad_text.
Proof.
  intros H. specialize (H 17%nat 48 ltac:(vm_compute; tauto) ltac:(lia)). vm_compute in H. discriminate H.
Qed.

Print Assumptions parse_wf_holds.
Print Assumptions lex_tokens_wf_refuted.
Print Assumptions text_to_program_ok_refuted.
Print Assumptions lex_tokens_wf_utf8_holds.
Print Assumptions lex_tokens_wf_ascii_exact_holds.
Print Assumptions utf8_ascii_exact_holds.
Print Assumptions text_stmts_wf_holds.
Print Assumptions text_stmts_wf_ascii_exact_holds.
Print Assumptions parse_sp_wf_holds.
Print Assumptions parse_text_sp_wf_holds.
Print Assumptions text_to_program_ok_utf8_holds.
Print Assumptions text_to_program_ok_ascii_exact_holds.
Print Assumptions text_accepted_program_ok_and_runs_holds.
Print Assumptions tool_statements_wf_holds.
Print Assumptions tool_abort_is_division_by_zero_unconditional_holds.
Print Assumptions tool_abort_is_division_by_zero_ascii_exact_holds.
Print Assumptions ex_parse_wf.
Print Assumptions ex_text_front.
Print Assumptions ex_text_runs.
Print Assumptions ex_text_sp.
Print Assumptions ex_tool_abort_unconditional.
Print Assumptions ex_ascii_exact.
Print Assumptions bad_text_not_ascii_exact.
