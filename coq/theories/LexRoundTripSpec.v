(* C11, continued: the spelling domain of the trivia theorem (TriviaSpec.lexable) is exactly the
   range of the lexer; printing tokens canonically is a right inverse of the lexer on that range;
   the characters that TriviaSpec.clash forbids after a token really change what is read. *)
From HclV Require Import Base Expr Build Lexer Parser LexParseSpec TriviaSpec.
Open Scope list_scope.
Open Scope N_scope.

(* ====================================================================================== *)
(* 1. the range of the lexer                                                              *)
(* ====================================================================================== *)
(* whatever the text (any characters, encoded in UTF-8 as Rust's &str is), with or without a
   lexical error later on: every token the lexer outputs is in the spelling domain - identifiers
   are a start character then identifier characters and never a keyword, unsized literals are
   below 2^128, sized ones have a width 1..128 and a value that fits it *)
Definition stmt_lexer_output_lexable : Prop :=
  forall uc text, Forall scalar text ->
    forall t, In t (map tk (fst (lex uc (utf8 text)))) -> lexable uc t.

(* draft: the same for arbitrary bytes - false: on ill-formed UTF-8 (which a Rust &str never is)
   the model's decoder can produce a letter from bytes that are not its encoding *)
Definition stmt_lexer_output_lexable_any_bytes : Prop :=
  forall uc bytes t, In t (map tk (fst (lex uc bytes))) -> lexable uc t.

(* ====================================================================================== *)
(* 2. canonical printing is a right inverse of the lexer                                  *)
(* ====================================================================================== *)
(* the canonical spellings, one blank between two tokens *)
Definition print_blank (ts : list token) : list N :=
  match ts with
  | [] => []
  | t :: r => spell t ++ flat_map (fun u => [32] ++ spell u) r
  end.

(* the canonical spellings, a blank only where the next token's first character would clash *)
Fixpoint print_min (uc : N -> uclass) (ts : list token) : list N :=
  match ts with
  | [] => []
  | t :: r =>
      spell t ++
      match r with
      | [] => []
      | u :: _ => (if must_separate uc t (spell t) (spell u) then [32] else []) ++ print_min uc r
      end
  end.

Definition lexes_to (uc : N -> uclass) (text : list N) (ts : list token) : Prop :=
  let r := lex uc (utf8 text) in map tk (fst r) = ts /\ snd r = None.

(* any tokens of the domain, printed either way, are read back *)
Definition stmt_print_lexes_back : Prop :=
  forall uc ts, Forall (lexable uc) ts ->
    Forall scalar (print_blank ts) /\ lexes_to uc (print_blank ts) ts /\
    Forall scalar (print_min uc ts) /\ lexes_to uc (print_min uc ts) ts.

(* in particular the tokens of any text (those before the first lexical error, if there is one) *)
Definition stmt_canonical_print_lexes_back : Prop :=
  forall uc text toks err, Forall scalar text -> lex uc (utf8 text) = (toks, err) ->
    lexes_to uc (print_blank (map tk toks)) (map tk toks) /\
    lexes_to uc (print_min uc (map tk toks)) (map tk toks).

(* re-printing a program from its tokens never changes its meaning *)
Definition stmt_reprint_same_meaning : Prop :=
  forall uc tiers text toks, Forall scalar text -> lex uc (utf8 text) = (toks, None) ->
    parse_text uc tiers (utf8 (print_blank (map tk toks))) = parse_text uc tiers (utf8 text) /\
    parse_text uc tiers (utf8 (print_min uc (map tk toks))) = parse_text uc tiers (utf8 text).

(* ====================================================================================== *)
(* 3. TriviaSpec.clash is exact                                                           *)
(* ====================================================================================== *)
(* putting a character that clashes directly after a token changes what is read first: the first
   token the lexer outputs (if any - there may be a lexical error instead) is not that token at
   the byte range of its spelling *)
Definition stmt_clash_exact : Prop :=
  forall uc t s c rest, spells uc t s -> clash uc t s c = true -> Forall scalar (s ++ c :: rest) ->
    hd_error (fst (lex uc (utf8 (s ++ c :: rest)))) <> Some (O, t, List.length (utf8 s)).

(* so TriviaSpec.may_follow is not only sufficient but necessary: a spelling followed by the text
   [next] is read as its token, at its byte range, exactly when [next] may follow it *)
Definition stmt_may_follow_exact : Prop :=
  forall uc t s next, spells uc t s -> Forall scalar (s ++ next) ->
    (may_follow uc t s next <->
     hd_error (fst (lex uc (utf8 (s ++ next)))) = Some (O, t, List.length (utf8 s))).
