(* C15 (+C16): proofs of the statements of YoCodecSpec.v - the yas-listing loader as a codec. *)
From HclV Require Import Base Expr Machine DumpParse DumpParseSpec DumpParseProofs.
From HclV Require Import Region RegionSpec RegionProofs RegionMultiProofs.
From HclV Require Import Yo YoSpec YoProofs MemSpec MemProofs YoCodecSpec.
From Coq Require Import Sorted ZifyN ZifyBool ZifyNat.
Open Scope N_scope.
Open Scope list_scope.

(* ================================================================================== *)
(* 0. digits                                                                          *)
(* ================================================================================== *)

(* a digit spelling: the character for d is a hex digit whose value is d *)
Definition good_dig (dig : N -> N) : Prop :=
  forall d, d < 16 -> is_hex (dig d) = true /\ hexv (dig d) = d.

Lemma good_dig_lower : good_dig hexdigit_lower.
Proof.
  intros d Hd. unfold hexdigit_lower, is_hex, hexv.
  destruct (d <? 10) eqn:H10.
  - split; [lia |]. destruct (48 + d <=? 57) eqn:H1; [lia | lia].
  - split; [lia |]. destruct (87 + d <=? 57) eqn:H1; [lia |].
    destruct (87 + d <=? 70) eqn:H2; lia.
Qed.

Lemma good_dig_upper : good_dig hexdigit_upper.
Proof.
  intros d Hd. unfold hexdigit_upper, is_hex, hexv.
  destruct (d <? 10) eqn:H10.
  - split; [lia |]. destruct (48 + d <=? 57) eqn:H1; [lia | lia].
  - split; [lia |]. destruct (55 + d <=? 57) eqn:H1; [lia |].
    destruct (55 + d <=? 70) eqn:H2; lia.
Qed.

Lemma good_dig_either (dig : N -> N) :
  dig = hexdigit_lower \/ dig = hexdigit_upper -> good_dig dig.
Proof. intros [H | H]; subst dig; [apply good_dig_lower | apply good_dig_upper]. Qed.

Lemma is_hex_hexv (b : N) : is_hex b = true -> hexv b < 16.
Proof.
  unfold is_hex, hexv. intros H.
  destruct (b <=? 57) eqn:H1; [lia |]. destruct (b <=? 70) eqn:H2; lia.
Qed.

Lemma is_hex_not_lf_cr (b : N) : is_hex b = true -> b <> 10 /\ b <> 13.
Proof. unfold is_hex. lia. Qed.

Section Digits.
  Variable dig : N -> N.
  Hypothesis Hdig : good_dig dig.
  Local Ltac Zify.zify_post_hook ::= Z.div_mod_to_equations.

  Lemma addr_field_hex (a : N) : forallb is_hex (addr_field dig a) = true.
  Proof.
    unfold addr_field. cbn [forallb].
    rewrite (proj1 (Hdig ((a / 256) mod 16) ltac:(lia))).
    rewrite (proj1 (Hdig ((a / 16) mod 16) ltac:(lia))).
    rewrite (proj1 (Hdig (a mod 16) ltac:(lia))). reflexivity.
  Qed.

  Lemma addr_field_value (a : N) : a < 4096 -> hex_value (addr_field dig a) 0 = a.
  Proof.
    intros Ha. unfold addr_field. cbn [hex_value].
    rewrite (proj2 (Hdig ((a / 256) mod 16) ltac:(lia))).
    rewrite (proj2 (Hdig ((a / 16) mod 16) ltac:(lia))).
    rewrite (proj2 (Hdig (a mod 16) ltac:(lia))). lia.
  Qed.

  Lemma bytes_field_hex (bs : list N) :
    Forall (fun b => b < 256) bs -> forallb is_hex (bytes_field dig bs) = true.
  Proof.
    intros Hbs. induction Hbs as [| b r Hb Hr IH]; [reflexivity |].
    unfold bytes_field in *. cbn [flat_map byte_digits app forallb].
    rewrite (proj1 (Hdig (b / 16) ltac:(lia))).
    rewrite (proj1 (Hdig (b mod 16) ltac:(lia))). exact IH.
  Qed.

  Lemma bytes_field_values (bs : list N) :
    Forall (fun b => b < 256) bs -> pair_values (bytes_field dig bs) = bs.
  Proof.
    intros Hbs. induction Hbs as [| b r Hb Hr IH]; [reflexivity |].
    unfold bytes_field in *. cbn [flat_map byte_digits app pair_values].
    rewrite (proj2 (Hdig (b / 16) ltac:(lia))).
    rewrite (proj2 (Hdig (b mod 16) ltac:(lia))). rewrite IH. f_equal. lia.
  Qed.

  Lemma bytes_field_length (bs : list N) :
    List.length (bytes_field dig bs) = (2 * List.length bs)%nat.
  Proof.
    induction bs as [| b r IH]; [reflexivity |].
    unfold bytes_field in *. cbn [flat_map byte_digits app List.length]. rewrite IH. lia.
  Qed.
End Digits.

Lemma even_double (n : nat) : Nat.even (2 * n) = true.
Proof. rewrite Nat.even_mul. reflexivity. Qed.

Lemma repeat_blank_cases (n : nat) : repeat 32 n = [] \/ exists t, repeat 32 n = 32 :: t.
Proof. destruct n as [| k]; [left; reflexivity | right; exists (repeat 32 k); reflexivity]. Qed.

Lemma nth_repeat_blank (n i : nat) : nth i (repeat 32 n) 0 = 32 \/ nth i (repeat 32 n) 0 = 0.
Proof.
  revert i. induction n as [| k IH]; intros i.
  - right. destruct i; reflexivity.
  - destruct i as [| j]; [left; reflexivity |]. cbn [repeat nth]. apply IH.
Qed.

(* a chunk a line can carry *)
Definition good_chunk (c : N * list N) : Prop :=
  fst c < 4096 /\ (List.length (snd c) <= 10)%nat /\ Forall (fun b => b < 256) (snd c).

Lemma print_line_spells_gen (dig : N -> N) (c : N * list N) :
  good_dig dig -> good_chunk c -> spells (print_line dig c) c.
Proof.
  intros Hdig (Ha & Hlen & Hbs). destruct c as [a bs]. cbn [fst snd] in *.
  unfold print_line. cbn [fst snd].
  exists (addr_field dig a), (bytes_field dig bs),
         (repeat 32 (20 - List.length (bytes_field dig bs))), [32].
  split; [reflexivity |]. split; [| split].
  - unfold data_line_ok. rewrite repeat_length, bytes_field_length.
    split; [reflexivity |].
    split; [apply addr_field_hex; exact Hdig |].
    split; [apply bytes_field_hex; assumption |].
    split; [apply even_double |].
    split; [lia |].
    split; [apply repeat_blank_cases |].
    split.
    + destruct (20 - 2 * List.length bs)%nat; reflexivity.
    + split.
      * intros i _. destruct (nth_repeat_blank (20 - 2 * List.length bs) i) as [H | H];
          rewrite H; reflexivity.
      * right. exists 32, []. split; reflexivity.
  - apply addr_field_value; assumption.
  - apply bytes_field_values; assumption.
Qed.

Theorem print_line_spells_holds : stmt_print_line_spells.
Proof.
  intros dig c Hd Ha Hlen Hbs. apply print_line_spells_gen.
  - apply good_dig_either. exact Hd.
  - repeat split; assumption.
Qed.

(* ================================================================================== *)
(* 1. lines that spell chunks load those chunks                                       *)
(* ================================================================================== *)

Definition put_chunk (m : memory) (c : N * list N) : memory := put_bytes m (fst c) (snd c).

Lemma spelling_apply (ls : list (list N)) (cs : list (N * list N)) :
  spelling ls cs -> forall m, apply_lines m ls = Some (fold_left put_chunk cs m).
Proof.
  intros Hsp. induction Hsp as [| l ls cs Hl Hsp IH | l ls c cs Hl Hsp IH]; intros m.
  - reflexivity.
  - cbn [apply_lines]. rewrite (ignored_lines_ok m l Hl). apply IH.
  - destruct Hl as (ad & bd & filler & rest & El & Hok & Ha & Hb).
    cbn [apply_lines fold_left]. rewrite El.
    rewrite (load_data_line_ok m ad bd filler rest Hok). rewrite IH.
    unfold put_chunk at 2. rewrite Ha, Hb. reflexivity.
Qed.

Lemma spelling_nonempty (ls : list (list N)) (cs : list (N * list N)) :
  spelling ls cs -> cs <> [] -> ls <> [].
Proof. intros Hsp Hcs. destruct Hsp; [contradiction | discriminate | discriminate]. Qed.

(* ---- putting ascending cells appends them ---------------------------------------- *)

Lemma sorted_app_l (l1 l2 : memory) : StronglySorted key_lt (l1 ++ l2) -> StronglySorted key_lt l1.
Proof.
  induction l1 as [| x r IH]; intros H; [constructor |].
  cbn [app] in H. apply StronglySorted_inv in H. destruct H as [Hr Hx].
  constructor; [apply IH; exact Hr |].
  apply Forall_app in Hx. exact (proj1 Hx).
Qed.

Lemma sorted_app_r (l1 l2 : memory) : StronglySorted key_lt (l1 ++ l2) -> StronglySorted key_lt l2.
Proof.
  induction l1 as [| x r IH]; intros H; [exact H |].
  cbn [app] in H. apply StronglySorted_inv in H. apply IH. exact (proj1 H).
Qed.

Lemma sorted_app_lt (l1 l2 : memory) (x y : N * N) :
  StronglySorted key_lt (l1 ++ l2) -> In x l1 -> In y l2 -> fst x < fst y.
Proof.
  induction l1 as [| z r IH]; intros H Hx Hy; [contradiction |].
  cbn [app] in H. apply StronglySorted_inv in H. destruct H as [Hr Hz].
  destruct Hx as [Hx | Hx].
  - subst z. rewrite Forall_forall in Hz. apply (Hz y). apply in_or_app. right. exact Hy.
  - apply IH; assumption.
Qed.

Lemma mem_put_append (acc : memory) (a v : N) :
  (forall kv, In kv acc -> fst kv < a) -> mem_put acc a v = acc ++ [(a, v)].
Proof.
  induction acc as [| [k w] r IH]; intros Hlt; [reflexivity |].
  cbn [mem_put app].
  assert (Hk : k < a) by (apply (Hlt (k, w)); left; reflexivity).
  destruct (a =? k) eqn:E1; [lia |]. destruct (a <? k) eqn:E2; [lia |].
  rewrite IH; [reflexivity |]. intros kv Hkv. apply Hlt. right. exact Hkv.
Qed.

Lemma put_bytes_append (bs : list N) : forall acc a,
  StronglySorted key_lt (acc ++ cells a bs) -> put_bytes acc a bs = acc ++ cells a bs.
Proof.
  induction bs as [| b r IH]; intros acc a Hs.
  - cbn [put_bytes cells]. rewrite app_nil_r. reflexivity.
  - cbn [put_bytes cells] in *.
    rewrite mem_put_append.
    + replace (acc ++ (a, b) :: cells (a + 1) r) with ((acc ++ [(a, b)]) ++ cells (a + 1) r)
        by (rewrite <- app_assoc; reflexivity).
      apply IH. rewrite <- app_assoc. exact Hs.
    + intros kv Hkv. apply (sorted_app_lt acc ((a, b) :: cells (a + 1) r) kv (a, b) Hs Hkv).
      left. reflexivity.
Qed.

Lemma chunk_cells_cons (c : N * list N) (cs : list (N * list N)) :
  chunk_cells (c :: cs) = cells (fst c) (snd c) ++ chunk_cells cs.
Proof. reflexivity. Qed.

Lemma chunk_cells_app (c1 c2 : list (N * list N)) :
  chunk_cells (c1 ++ c2) = chunk_cells c1 ++ chunk_cells c2.
Proof. unfold chunk_cells. apply flat_map_app. Qed.

Lemma put_chunks_append (cs : list (N * list N)) : forall acc,
  StronglySorted key_lt (acc ++ chunk_cells cs) -> fold_left put_chunk cs acc = acc ++ chunk_cells cs.
Proof.
  induction cs as [| c cs IH]; intros acc Hs.
  - cbn [fold_left chunk_cells flat_map]. rewrite app_nil_r. reflexivity.
  - cbn [fold_left]. rewrite chunk_cells_cons in *. rewrite app_assoc in Hs.
    unfold put_chunk at 2. rewrite put_bytes_append.
    + rewrite IH; [| exact Hs]. rewrite <- app_assoc. reflexivity.
    + apply sorted_app_l in Hs. exact Hs.
Qed.

(* ---- the file as a whole ----------------------------------------------------------- *)

Lemma load_spelling (cs : list (N * list N)) (data : list N) :
  split_lines data [] <> [] ->
  spelling (split_lines data []) cs -> StronglySorted key_lt (chunk_cells cs) ->
  load_from_y86 [] data = Ok (chunk_cells cs).
Proof.
  intros Hne Hsp Hs. rewrite load_file_ok.
  destruct (split_lines data []) as [| l ls] eqn:Hl; [contradiction |].
  rewrite (spelling_apply _ _ Hsp). rewrite put_chunks_append; [reflexivity | exact Hs].
Qed.

(* ================================================================================== *)
(* 2. the chunks of a memory                                                          *)
(* ================================================================================== *)

Lemma take_run_spec (n : nat) : forall a m bs rest,
  take_run n a m = (bs, rest) ->
  m = cells a bs ++ rest /\ (List.length bs <= n)%nat /\
  (List.length bs = n \/
   match rest with [] => True | kv :: _ => fst kv <> a + N.of_nat (List.length bs) end).
Proof.
  induction n as [| k IH]; intros a m bs rest H.
  - cbn [take_run] in H. injection H as Hb Hr. subst bs rest.
    split; [reflexivity |]. split; [apply Nat.le_refl |]. left. reflexivity.
  - cbn [take_run] in H. destruct m as [| [a' v] r].
    + injection H as Hb Hr. subst bs rest.
      split; [reflexivity |]. split; [cbn [List.length]; lia |]. right. exact I.
    + destruct (a' =? a) eqn:Ea.
      * destruct (take_run k (a + 1) r) as [bs1 rest1] eqn:Ht.
        injection H as Hb Hr. subst bs rest.
        destruct (IH (a + 1) r bs1 rest1 Ht) as (Hm & Hlen & Hmax).
        apply N.eqb_eq in Ea. subst a'.
        split; [cbn [cells app]; rewrite <- Hm; reflexivity |].
        split; [cbn [List.length]; lia |].
        destruct Hmax as [Hfull | Hgap]; [left; cbn [List.length]; lia |].
        right. destruct rest1 as [| kv t]; [exact I |]. cbn [List.length]. lia.
      * injection H as Hb Hr. subst bs rest.
        split; [reflexivity |]. split; [cbn [List.length]; lia |].
        right. cbn [fst List.length]. lia.
Qed.

Lemma cells_length (bs : list N) : forall a, List.length (cells a bs) = List.length bs.
Proof. induction bs as [| b r IH]; intros a; [reflexivity |]. cbn [cells List.length]. rewrite IH. reflexivity. Qed.

(* the first chunk starts at the first cell *)
Definition heads_agree (cs : list (N * list N)) (m : memory) : Prop :=
  match cs with [] => m = [] | c :: _ => exists v r, m = (fst c, v) :: r end.

Lemma chunks_fuel_spec (fuel : nat) : forall m, (List.length m <= fuel)%nat ->
  chunk_cells (chunks_fuel fuel m) = m /\
  Forall (fun c => (1 <= List.length (snd c) <= 10)%nat) (chunks_fuel fuel m) /\
  maximal_chunks (chunks_fuel fuel m) /\
  heads_agree (chunks_fuel fuel m) m.
Proof.
  induction fuel as [| f IH]; intros m Hlen.
  - destruct m as [| kv r]; [| cbn [List.length] in Hlen; lia].
    cbn [chunks_fuel]. repeat split. constructor.
  - destruct m as [| [a v] r].
    + cbn [chunks_fuel]. repeat split. constructor.
    + cbn [chunks_fuel]. destruct (take_run 9 (a + 1) r) as [bs rest] eqn:Ht.
      destruct (take_run_spec 9 (a + 1) r bs rest Ht) as (Hr & Hbl & Hmax).
      assert (Hrl : (List.length rest <= f)%nat).
      { cbn [List.length] in Hlen. rewrite Hr in Hlen. rewrite app_length in Hlen. lia. }
      destruct (IH rest Hrl) as (Hc & Hall & Hmx & Hh).
      split; [| split; [| split]].
      * rewrite chunk_cells_cons. cbn [fst snd cells app]. rewrite Hc, <- Hr. reflexivity.
      * constructor; [cbn [snd List.length]; lia | exact Hall].
      * cbn [maximal_chunks]. split; [| exact Hmx].
        destruct (chunks_fuel f rest) as [| c2 cs2]; [exact I |].
        cbn [fst snd List.length]. intros Hadj.
        destruct Hh as (v2 & r2 & Hrest).
        destruct Hmax as [Hfull | Hgap]; [lia |]. rewrite Hrest in Hgap. cbn [fst] in Hgap. lia.
      * cbn [heads_agree fst]. exists v, r. reflexivity.
Qed.

Theorem chunks_exact_holds : stmt_chunks_exact.
Proof.
  intros m. destruct (chunks_fuel_spec (List.length m) m (Nat.le_refl _)) as (H1 & H2 & H3 & _).
  split; [exact H1 |]. split; [exact H2 | exact H3].
Qed.

Lemma chunks_cells (m : memory) : chunk_cells (chunks m) = m.
Proof. exact (proj1 (chunks_exact_holds m)). Qed.

Lemma chunks_nonempty (m : memory) : m <> [] -> chunks m <> [].
Proof.
  intros Hm Hc. apply Hm. rewrite <- (chunks_cells m). rewrite Hc. reflexivity.
Qed.

(* every chunk of cs lies inside chunk_cells cs *)
Lemma cells_Forall (P : N * N -> Prop) (cs : list (N * list N)) :
  Forall P (chunk_cells cs) -> Forall (fun c => Forall P (cells (fst c) (snd c))) cs.
Proof.
  induction cs as [| c cs IH]; intros H; [constructor |].
  rewrite chunk_cells_cons in H. apply Forall_app in H. destruct H as [H1 H2].
  constructor; [exact H1 | apply IH; exact H2].
Qed.

Lemma cells_snd_Forall (P : N -> Prop) (bs : list N) : forall a,
  Forall (fun kv => P (snd kv)) (cells a bs) -> Forall P bs.
Proof.
  induction bs as [| b r IH]; intros a H; [constructor |].
  cbn [cells] in H. apply Forall_cons_iff in H. destruct H as [Hb Hr].
  constructor; [exact Hb | apply (IH (a + 1)); exact Hr].
Qed.

Lemma chunks_good (m : memory) : wf_mem m -> below_4096 m -> Forall good_chunk (chunks m).
Proof.
  intros [_ Hb] Hlow.
  assert (Hall : Forall (fun kv => fst kv < 4096 /\ snd kv < 256) (chunk_cells (chunks m))).
  { rewrite chunks_cells. rewrite Forall_forall in *. intros [a v] Hin.
    split; [exact (Hlow a v Hin) | exact (proj2 (Hb (a, v) Hin))]. }
  apply cells_Forall in Hall.
  destruct (chunks_exact_holds m) as (_ & Hlen & _).
  rewrite Forall_forall in *. intros [a bs] Hin.
  specialize (Hall (a, bs) Hin). specialize (Hlen (a, bs) Hin). cbn [fst snd] in *.
  unfold good_chunk. cbn [fst snd]. split; [| split].
  - destruct bs as [| b r]; [cbn [List.length] in Hlen; lia |].
    cbn [cells] in Hall. apply Forall_cons_iff in Hall. exact (proj1 (proj1 Hall)).
  - lia.
  - apply (cells_snd_Forall (fun b => b < 256) bs a).
    eapply Forall_impl; [| exact Hall]. intros kv Hkv. exact (proj2 Hkv).
Qed.

Theorem load_any_spelling_holds : stmt_load_any_spelling.
Proof.
  intros m data [Hs _] Hne Hsp.
  rewrite <- (chunks_cells m) at 1. apply load_spelling; [exact Hne | exact Hsp |].
  rewrite chunks_cells. exact Hs.
Qed.

(* ================================================================================== *)
(* 3. the printed text, cut into lines again                                          *)
(* ================================================================================== *)

Definition plain (b : N) : Prop := b <> 10 /\ b <> 13.

Lemma strip_cr_cons2 (x y : N) (r : list N) : strip_cr (x :: y :: r) = x :: strip_cr (y :: r).
Proof.
  destruct x as [| p]; [reflexivity |].
  destruct p as [p | p |]; try reflexivity.
  destruct p as [p | p |]; try reflexivity.
  destruct p as [p | p |]; try reflexivity.
  destruct p as [p | p |]; reflexivity.
Qed.

Lemma strip_cr_one (x : N) : x <> 13 -> strip_cr [x] = [x].
Proof.
  intros Hx.
  destruct x as [| p]; [reflexivity |].
  destruct p as [p | p |]; try reflexivity.
  destruct p as [p | p |]; try reflexivity.
  destruct p as [p | p |]; try reflexivity.
  destruct p as [p | p |]; try reflexivity. contradiction.
Qed.

Lemma strip_cr_plain (l : list N) : Forall plain l -> strip_cr l = l.
Proof.
  intros H. induction H as [| x r Hx Hr IH]; [reflexivity |].
  destruct r as [| y t].
  - apply strip_cr_one. exact (proj2 Hx).
  - rewrite strip_cr_cons2, IH. reflexivity.
Qed.

Lemma strip_cr_plain_cr (l : list N) : Forall plain l -> strip_cr (l ++ [13]) = l.
Proof.
  intros H. induction H as [| x r Hx Hr IH]; [reflexivity |].
  cbn [app]. destruct r as [| y t].
  - cbn [app]. rewrite strip_cr_cons2. reflexivity.
  - cbn [app] in *. rewrite strip_cr_cons2, IH. reflexivity.
Qed.

Lemma plain_nolf (l : list N) : Forall plain l -> count_lf l = 0%nat.
Proof.
  intros H. induction H as [| x r Hx Hr IH]; [reflexivity |].
  rewrite count_lf_cons, IH. unfold is_lf. destruct Hx as [Hx _].
  destruct (x =? 10) eqn:E; [lia | reflexivity].
Qed.

Lemma hex_plain (l : list N) : forallb is_hex l = true -> Forall plain l.
Proof.
  intros H. rewrite forallb_forall in H. apply Forall_forall. intros b Hb.
  apply is_hex_not_lf_cr. apply H. exact Hb.
Qed.

Lemma repeat_plain (n : nat) : Forall plain (repeat 32 n).
Proof. apply Forall_forall. intros b Hb. apply repeat_spec in Hb. subst b. split; discriminate. Qed.

Lemma print_line_plain (dig : N -> N) (c : N * list N) :
  good_dig dig -> good_chunk c -> Forall plain (print_line dig c).
Proof.
  intros Hdig (Ha & Hlen & Hbs). unfold print_line, data_line.
  assert (Hlit : forall l : list N, forallb (fun b => negb (b =? 10) && negb (b =? 13)) l = true ->
                                   Forall plain l).
  { intros l Hl. rewrite forallb_forall in Hl. apply Forall_forall. intros b Hb.
    specialize (Hl b Hb). unfold plain. lia. }
  apply Forall_app; split; [apply Hlit; reflexivity |].
  apply Forall_app; split; [apply hex_plain; apply addr_field_hex; exact Hdig |].
  apply Forall_app; split; [apply Hlit; reflexivity |].
  apply Forall_app; split; [apply hex_plain; apply bytes_field_hex; assumption |].
  apply Forall_app; split; [apply repeat_plain |].
  apply Hlit; reflexivity.
Qed.

Lemma print_line_nonempty (dig : N -> N) (c : N * list N) : print_line dig c <> [].
Proof. unfold print_line, data_line. discriminate. Qed.

(* LF-terminated lines, followed by anything *)
Lemma split_lines_joined (ls : list (list N)) (tail : list N) :
  Forall (fun l => count_lf l = 0%nat) ls ->
  split_lines (flat_map (fun l => l ++ [10]) ls ++ tail) [] = map strip_cr ls ++ split_lines tail [].
Proof.
  intros H. induction H as [| l r Hl Hr IH]; [reflexivity |].
  cbn [flat_map map app]. rewrite <- !app_assoc. cbn [app].
  rewrite split_lines_lf by exact Hl. cbn [rev app]. rewrite IH. reflexivity.
Qed.

Lemma print_chunks_lf (dig : N -> N) (cs : list (N * list N)) :
  print_chunks dig [10] cs = flat_map (fun l => l ++ [10]) (map (print_line dig) cs).
Proof.
  unfold print_chunks. induction cs as [| c r IH]; [reflexivity |].
  cbn [flat_map map]. rewrite IH. reflexivity.
Qed.

Lemma print_chunks_crlf (dig : N -> N) (cs : list (N * list N)) :
  print_chunks dig [13; 10] cs =
  flat_map (fun l => l ++ [10]) (map (fun c => print_line dig c ++ [13]) cs).
Proof.
  unfold print_chunks. induction cs as [| c r IH]; [reflexivity |].
  cbn [flat_map map]. rewrite IH. rewrite <- !app_assoc. reflexivity.
Qed.

Lemma print_chunks_lines (dig : N -> N) (eol : list N) (cs : list (N * list N)) :
  good_dig dig -> eol = [10] \/ eol = [13; 10] -> Forall good_chunk cs ->
  split_lines (print_chunks dig eol cs) [] = map (print_line dig) cs.
Proof.
  intros Hdig Heol Hcs.
  assert (Hpl : Forall (fun c => Forall plain (print_line dig c)) cs).
  { eapply Forall_impl; [| exact Hcs]. intros c Hc. apply print_line_plain; assumption. }
  destruct Heol as [He | He]; subst eol.
  - rewrite print_chunks_lf. rewrite <- (app_nil_r (flat_map _ _)).
    rewrite split_lines_joined.
    + cbn [split_lines]. rewrite app_nil_r. rewrite map_map.
      apply map_ext_in. intros c Hc. apply strip_cr_plain.
      rewrite Forall_forall in Hpl. apply Hpl. exact Hc.
    + apply Forall_forall. intros l Hl. apply in_map_iff in Hl. destruct Hl as (c & Hc & Hin).
      subst l. apply plain_nolf. rewrite Forall_forall in Hpl. apply Hpl. exact Hin.
  - rewrite print_chunks_crlf. rewrite <- (app_nil_r (flat_map _ _)).
    rewrite split_lines_joined.
    + cbn [split_lines]. rewrite app_nil_r. rewrite map_map.
      apply map_ext_in. intros c Hc. apply strip_cr_plain_cr.
      rewrite Forall_forall in Hpl. apply Hpl. exact Hc.
    + apply Forall_forall. intros l Hl. apply in_map_iff in Hl. destruct Hl as (c & Hc & Hin).
      subst l. rewrite count_lf_app. rewrite plain_nolf; [reflexivity |].
      rewrite Forall_forall in Hpl. apply Hpl. exact Hin.
Qed.

Lemma printed_lines_spell (dig : N -> N) (cs : list (N * list N)) :
  good_dig dig -> Forall good_chunk cs -> spelling (map (print_line dig) cs) cs.
Proof.
  intros Hdig Hcs. induction Hcs as [| c r Hc Hr IH]; [constructor |].
  cbn [map]. apply sp_data; [| exact IH]. apply print_line_spells_gen; assumption.
Qed.

Lemma load_print_chunks (dig : N -> N) (eol : list N) (cs : list (N * list N)) :
  good_dig dig -> eol = [10] \/ eol = [13; 10] -> cs <> [] -> Forall good_chunk cs ->
  StronglySorted key_lt (chunk_cells cs) ->
  load_from_y86 [] (print_chunks dig eol cs) = Ok (chunk_cells cs).
Proof.
  intros Hdig Heol Hne Hcs Hs.
  apply load_spelling; [| | exact Hs]; rewrite print_chunks_lines by assumption.
  - destruct cs; [contradiction | discriminate].
  - apply printed_lines_spell; assumption.
Qed.

Lemma load_print_chunks_unterminated (dig : N -> N) (cs : list (N * list N)) :
  good_dig dig -> cs <> [] -> Forall good_chunk cs ->
  StronglySorted key_lt (chunk_cells cs) ->
  load_from_y86 [] (removelast (print_chunks dig [10] cs)) = Ok (chunk_cells cs).
Proof.
  intros Hdig Hne Hcs Hs.
  assert (Hlines : split_lines (removelast (print_chunks dig [10] cs)) [] = map (print_line dig) cs).
  { destruct (exists_last Hne) as (cs' & c & Ecs). subst cs.
    apply Forall_app in Hcs. destruct Hcs as [Hcs' Hc]. apply Forall_cons_iff in Hc.
    destruct Hc as [Hc _].
    rewrite print_chunks_lf. rewrite map_app, flat_map_app. cbn [map flat_map].
    rewrite app_nil_r. rewrite !app_assoc. rewrite removelast_last.
    rewrite split_lines_joined.
    - rewrite split_lines_nolf.
      + cbn [rev app]. f_equal. rewrite map_map. apply map_ext_in. intros c0 Hc0.
        apply strip_cr_plain. apply print_line_plain; [exact Hdig |].
        rewrite Forall_forall in Hcs'. apply Hcs'. exact Hc0.
      + apply plain_nolf. apply print_line_plain; assumption.
      + cbn [rev app]. apply print_line_nonempty.
    - apply Forall_forall. intros l Hl. apply in_map_iff in Hl. destruct Hl as (c0 & Hc0 & Hin).
      subst l. apply plain_nolf. apply print_line_plain; [exact Hdig |].
      rewrite Forall_forall in Hcs'. apply Hcs'. exact Hin. }
  apply load_spelling; [| | exact Hs]; rewrite Hlines.
  - destruct cs; [contradiction | discriminate].
  - apply printed_lines_spell; assumption.
Qed.

Theorem load_print_styles_holds : stmt_load_print_styles.
Proof.
  intros dig eol m Hd He Hwf Hlow Hne. unfold print_yo_with.
  rewrite <- (chunks_cells m) at 2.
  apply load_print_chunks.
  - apply good_dig_either. exact Hd.
  - exact He.
  - apply chunks_nonempty. exact Hne.
  - apply chunks_good; assumption.
  - rewrite chunks_cells. exact (proj1 Hwf).
Qed.

Theorem load_print_holds : stmt_load_print.
Proof.
  intros m Hwf Hlow Hne. unfold print_yo.
  apply load_print_styles_holds; try assumption; left; reflexivity.
Qed.

Theorem load_print_unterminated_holds : stmt_load_print_unterminated.
Proof.
  intros dig m Hd Hwf Hlow Hne. unfold print_yo_with.
  rewrite <- (chunks_cells m) at 2.
  apply load_print_chunks_unterminated.
  - apply good_dig_either. exact Hd.
  - apply chunks_nonempty. exact Hne.
  - apply chunks_good; assumption.
  - rewrite chunks_cells. exact (proj1 Hwf).
Qed.

(* ================================================================================== *)
(* 4. reading a line by columns                                                       *)
(* ================================================================================== *)

(* the shape accepts_only_ok delivers (weaker than data_line_ok: nothing about UTF-8) *)
Definition data_shape (ad bd filler : list N) : Prop :=
  List.length ad = 3%nat /\ forallb is_hex ad = true /\
  forallb is_hex bd = true /\ Nat.even (List.length bd) = true /\
  (List.length bd + List.length filler = 20)%nat /\ (filler = [] \/ exists t, filler = 32 :: t).

Lemma hex_prefix_app (bd filler : list N) :
  forallb is_hex bd = true -> (filler = [] \/ exists t, filler = 32 :: t) ->
  hex_prefix (bd ++ filler) = bd.
Proof.
  intros Hbd Hf. induction bd as [| b r IH].
  - cbn [app]. destruct Hf as [Hf | [t Hf]]; subst filler; reflexivity.
  - cbn [forallb] in Hbd. apply andb_true_iff in Hbd. destruct Hbd as [Hb Hr].
    cbn [app hex_prefix]. rewrite Hb, (IH Hr). reflexivity.
Qed.

Lemma skipn_pre (p q : list N) (n : nat) : List.length p = n -> skipn n (p ++ q) = q.
Proof.
  intros H. subst n. rewrite skipn_app, skipn_all, Nat.sub_diag. reflexivity.
Qed.

Lemma firstn_pre (p q : list N) (n : nat) : List.length p = n -> firstn n (p ++ q) = p.
Proof.
  intros H. subst n. rewrite firstn_app, firstn_all, Nat.sub_diag. cbn [firstn]. apply app_nil_r.
Qed.

Lemma decode_shape (ad bd filler rest : list N) :
  data_shape ad bd filler ->
  decode_line (data_line ad bd filler rest) = Some (hex_value ad 0, pair_values bd).
Proof.
  intros (Hlen & _ & Hbd & _ & Hfl & Hfill).
  destruct ad as [| a0 [| a1 [| a2 [| a3 ad']]]]; try (cbn in Hlen; discriminate).
  assert (H20 : List.length (bd ++ filler) = 20%nat) by (rewrite app_length; exact Hfl).
  unfold data_line. rewrite (app_assoc bd filler).
  rewrite <- (hex_prefix_app bd filler Hbd Hfill) at 2.
  set (F := bd ++ filler) in *. set (T := [32; 124] ++ rest).
  set (L := [48; 120] ++ [a0; a1; a2] ++ [58; 32] ++ F ++ T).
  assert (A0 : firstn 2 L = [48; 120]) by reflexivity.
  assert (A1 : firstn 2 (skipn 5 L) = [58; 32]) by reflexivity.
  assert (A2 : firstn 3 (skipn 2 L) = [a0; a1; a2]) by reflexivity.
  assert (A3 : firstn 20 (skipn 7 L) = F).
  { change (skipn 7 L) with (F ++ T). apply firstn_pre. exact H20. }
  assert (A4 : firstn 2 (skipn 27 L) = [32; 124]).
  { change (skipn 27 L) with (skipn 20 (F ++ T)). rewrite (skipn_pre F T 20 H20). reflexivity. }
  unfold decode_line. rewrite A0, A1, A2, A3, A4. reflexivity.
Qed.

Theorem decode_data_line_holds : stmt_decode_data_line.
Proof.
  intros ad bd filler rest (H1 & H2 & H3 & H4 & H5 & H6 & _). apply decode_shape.
  repeat split; assumption.
Qed.

Lemma list_eqb_firstn2_head (l : list N) (x y : N) :
  list_eqb (firstn 2 l) [x; y] = true -> exists t, l = x :: y :: t.
Proof.
  intros H. apply list_eqb_eq in H.
  destruct l as [| a [| b t]]; cbn [firstn] in H; try discriminate.
  injection H as Ha Hb. subst. exists t. reflexivity.
Qed.

Theorem decode_ignorable_holds : stmt_decode_ignorable.
Proof.
  intros l Hl. unfold decode_line.
  destruct (list_eqb (firstn 2 l) [48; 120]) eqn:E0; [| reflexivity].
  destruct (list_eqb (firstn 2 (skipn 5 l)) [58; 32]) eqn:E1; [| reflexivity].
  destruct (list_eqb (firstn 2 (skipn 27 l)) [32; 124]) eqn:E2; [| reflexivity].
  exfalso. destruct Hl as [Hc | Hp].
  - apply comment_prefix_head in Hc. destruct Hc as [t Ht]. subst l.
    apply list_eqb_firstn2_head in E0. destruct E0 as [t' E0]. discriminate.
  - apply list_eqb_firstn2_head in E2. destruct E2 as [t E2].
    unfold has_pipe in Hp. rewrite <- (firstn_skipn 27 l) in Hp. rewrite E2 in Hp.
    rewrite existsb_app in Hp. cbn [existsb] in Hp. rewrite N.eqb_refl in Hp.
    rewrite !orb_true_r in Hp. discriminate.
Qed.

Lemma hex_value3_bound (ad : list N) :
  List.length ad = 3%nat -> forallb is_hex ad = true -> hex_value ad 0 < 4096.
Proof.
  intros Hlen Hhex.
  destruct ad as [| a0 [| a1 [| a2 [| a3 ad']]]]; try (cbn in Hlen; discriminate).
  cbn [forallb] in Hhex.
  apply andb_true_iff in Hhex. destruct Hhex as [H0 Hhex].
  apply andb_true_iff in Hhex. destruct Hhex as [H1 Hhex].
  apply andb_true_iff in Hhex. destruct Hhex as [H2 _].
  apply is_hex_hexv in H0. apply is_hex_hexv in H1. apply is_hex_hexv in H2.
  cbn [hex_value]. lia.
Qed.

Lemma pair_values_facts (bd : list N) :
  forallb is_hex bd = true ->
  (2 * List.length (pair_values bd) <= List.length bd)%nat /\
  Forall (fun b => b < 256) (pair_values bd).
Proof.
  induction bd as [| a | a b r IH] using list_ind2; intros Hhex.
  - split; [cbn; lia | constructor].
  - split; [cbn; lia | constructor].
  - cbn [forallb] in Hhex.
    apply andb_true_iff in Hhex. destruct Hhex as [Ha Hhex].
    apply andb_true_iff in Hhex. destruct Hhex as [Hb Hr].
    destruct (IH Hr) as [IH1 IH2]. cbn [pair_values List.length]. split; [lia |].
    constructor; [| exact IH2].
    apply is_hex_hexv in Ha. apply is_hex_hexv in Hb. lia.
Qed.

Theorem accepted_line_decodes_holds : stmt_accepted_line_decodes.
Proof.
  intros m l m' H.
  destruct (accepts_only_ok m l m' H)
    as [(ad & bd & filler & rest & El & H1 & H2 & H3 & H4 & H5 & H6 & Hm) | [Hm Hign]].
  - subst l. rewrite decode_shape by (repeat split; assumption).
    destruct (pair_values_facts bd H3) as [Hl Hb].
    split; [apply hex_value3_bound; assumption |].
    split; [lia |]. split; [exact Hb | exact Hm].
  - rewrite (decode_ignorable_holds l Hign). exact Hm.
Qed.

(* ================================================================================== *)
(* 5. any accepted file, as a byte map                                                *)
(* ================================================================================== *)

Theorem mem_get_In_holds : stmt_mem_get_In.
Proof.
  intros m a v [Hs _]. induction Hs as [| [k w] r Hr IH Hk]; cbn [mem_get In].
  - split; [contradiction | discriminate].
  - split.
    + intros [Heq | Hin].
      * injection Heq as Hk1 Hw1. subst k w. rewrite N.eqb_refl. reflexivity.
      * rewrite Forall_forall in Hk. specialize (Hk (a, v) Hin). unfold key_lt in Hk.
        cbn [fst] in Hk. destruct (a =? k) eqn:E1; [lia |]. destruct (a <? k) eqn:E2; [lia |].
        apply IH. exact Hin.
    + destruct (a =? k) eqn:E1.
      * intros Hv. injection Hv as Hv. apply N.eqb_eq in E1. subst. left. reflexivity.
      * destruct (a <? k) eqn:E2; [discriminate |]. intros Hv. right. apply IH. exact Hv.
Qed.

Lemma put_bytes_wf (bs : list N) : forall m a,
  wf_mem m -> a + N.of_nat (List.length bs) <= two64 -> Forall (fun b => b < 256) bs ->
  wf_mem (put_bytes m a bs).
Proof.
  induction bs as [| b r IH]; intros m a Hm Ha Hbs; [exact Hm |].
  cbn [put_bytes]. apply Forall_cons_iff in Hbs. destruct Hbs as [Hb Hr].
  cbn [List.length] in Ha. apply IH.
  - apply mem_put_ok; [exact Hm | lia | exact Hb].
  - lia.
  - exact Hr.
Qed.

(* what one accepted line does to the byte map *)
Lemma load_line_get (m : memory) (l : list N) (m' : memory) :
  wf_mem m -> load_line m l = Some m' ->
  wf_mem m' /\
  forall x, mem_get m' x = match line_byte l x with Some v => Some v | None => mem_get m x end.
Proof.
  intros Hm H. pose proof (accepted_line_decodes_holds m l m' H) as Hd.
  unfold line_byte. destruct (decode_line l) as [[a bs] |].
  - destruct Hd as (Ha & Hlen & Hbs & Hm'). subst m'. split.
    + apply put_bytes_wf; [exact Hm | rewrite two64_lit; lia | exact Hbs].
    + intros x. rewrite put_bytes_get_ok.
      destruct ((a <=? x) && (x <? a + N.of_nat (List.length bs))); reflexivity.
  - subst m'. split; [exact Hm | reflexivity].
Qed.

Lemma apply_lines_get (lines : list (list N)) : forall m m',
  wf_mem m -> apply_lines m lines = Some m' ->
  wf_mem m' /\
  forall x, mem_get m' x = match last_byte lines x with Some v => Some v | None => mem_get m x end.
Proof.
  induction lines as [| l r IH]; intros m m' Hm H.
  - cbn [apply_lines] in H. injection H as H. subst m'. split; [exact Hm | reflexivity].
  - cbn [apply_lines] in H. destruct (load_line m l) as [m1 |] eqn:Hl; [| discriminate].
    destruct (load_line_get m l m1 Hm Hl) as [Hm1 Hg1].
    destruct (IH m1 m' Hm1 H) as [Hm' Hg]. split; [exact Hm' |].
    intros x. rewrite Hg. cbn [last_byte].
    destruct (last_byte r x) as [v |]; [reflexivity |]. apply Hg1.
Qed.

(* every line of an accepted file starts below 0x1000 and has at most 10 bytes *)
Definition line_in_range (l : list N) : Prop :=
  match decode_line l with
  | Some (a, bs) => a < 4096 /\ (List.length bs <= 10)%nat
  | None => True
  end.

Lemma apply_lines_range (lines : list (list N)) : forall m m',
  apply_lines m lines = Some m' -> Forall line_in_range lines.
Proof.
  induction lines as [| l r IH]; intros m m' H; [constructor |].
  cbn [apply_lines] in H. destruct (load_line m l) as [m1 |] eqn:Hl; [| discriminate].
  constructor; [| exact (IH m1 m' H)].
  pose proof (accepted_line_decodes_holds m l m1 Hl) as Hd. unfold line_in_range.
  destruct (decode_line l) as [[a bs] |]; [| exact I].
  destruct Hd as (Ha & Hlen & _). split; assumption.
Qed.

Lemma last_byte_source (lines : list (list N)) (x v : N) :
  last_byte lines x = Some v -> exists l, In l lines /\ line_byte l x = Some v.
Proof.
  induction lines as [| l r IH]; cbn [last_byte]; [discriminate |].
  destruct (last_byte r x) as [w |] eqn:Hr.
  - intros H. destruct (IH H) as (l' & Hin & Hb). exists l'. split; [right; exact Hin | exact Hb].
  - intros H. exists l. split; [left; reflexivity | exact H].
Qed.

Lemma last_byte_covered (lines : list (list N)) (l : list N) (x : N) :
  In l lines -> line_byte l x <> None -> last_byte lines x <> None.
Proof.
  induction lines as [| l' r IH]; intros Hin Hb; [contradiction |].
  cbn [last_byte]. destruct (last_byte r x) as [w |] eqn:Hr; [discriminate |].
  destruct Hin as [Heq | Hin]; [subst l'; exact Hb |].
  exfalso. apply (IH Hin Hb). reflexivity.
Qed.

(* a line that gives x a byte covers x *)
Lemma line_byte_range (l : list N) (x v : N) :
  line_byte l x = Some v ->
  exists a bs, decode_line l = Some (a, bs) /\ a <= x < a + N.of_nat (List.length bs).
Proof.
  unfold line_byte. destruct (decode_line l) as [[a bs] |]; [| discriminate].
  destruct ((a <=? x) && (x <? a + N.of_nat (List.length bs))) eqn:E; [| discriminate].
  intros _. exists a, bs. split; [reflexivity | lia].
Qed.

Lemma accepted_file_lines (m0 : memory) (data : list N) (m : memory) :
  load_from_y86 m0 data = Ok m -> apply_lines m0 (split_lines data []) = Some m.
Proof.
  rewrite load_file_ok. destruct (split_lines data []) as [| l r]; [discriminate |].
  destruct (apply_lines m0 (l :: r)) as [m1 |]; [| discriminate].
  intros H. injection H as H. subst m1. reflexivity.
Qed.

Theorem load_is_a_function_of_bytes_holds : stmt_load_is_a_function_of_bytes.
Proof.
  intros m0 data m Hm0 H. apply accepted_file_lines in H.
  destruct (apply_lines_get _ m0 m Hm0 H) as [Hm Hg].
  split; [exact Hm |]. split; [exact Hg |].
  intros a v Hin. apply (mem_get_In_holds m a v Hm) in Hin. rewrite Hg in Hin.
  destruct (last_byte (split_lines data []) a) as [w |] eqn:Hlb.
  - right. apply last_byte_source in Hlb. destruct Hlb as (l & Hl & Hb).
    apply line_byte_range in Hb. destruct Hb as (s & bs & Hd & Hr).
    pose proof (apply_lines_range _ m0 m H) as Hall. rewrite Forall_forall in Hall.
    specialize (Hall l Hl). unfold line_in_range in Hall. rewrite Hd in Hall. lia.
  - left. apply (mem_get_In_holds m0 a v Hm0). exact Hin.
Qed.

Lemma wf_mem_nil : wf_mem [].
Proof. split; constructor. Qed.

Theorem load_fresh_holds : stmt_load_fresh.
Proof.
  intros data m H.
  destruct (load_is_a_function_of_bytes_holds [] data m wf_mem_nil H) as (Hm & Hg & Hb).
  split; [exact Hm |]. split.
  - intros x. rewrite Hg. destruct (last_byte (split_lines data []) x); reflexivity.
  - intros a v Hin. destruct (Hb a v Hin) as [Hnil | Hle]; [contradiction | exact Hle].
Qed.

(* ================================================================================== *)
(* 6. which memories are images of listings                                           *)
(* ================================================================================== *)

Lemma images_are_expressible (data : list N) (m : memory) :
  load_from_y86 [] data = Ok m -> expressible m.
Proof.
  intros H. destruct (load_fresh_holds data m H) as (Hm & Hg & _).
  split; [exact Hm |]. intros a v Hin Hhigh.
  apply (mem_get_In_holds m a v Hm) in Hin. rewrite Hg in Hin.
  apply last_byte_source in Hin. destruct Hin as (l & Hl & Hb).
  apply line_byte_range in Hb. destruct Hb as (s & bs & Hd & Hr).
  apply accepted_file_lines in H.
  pose proof (apply_lines_range _ [] m H) as Hall. rewrite Forall_forall in Hall.
  specialize (Hall l Hl). unfold line_in_range in Hall. rewrite Hd in Hall.
  split; [lia |]. intros x Hx.
  assert (Hcov : line_byte l x <> None).
  { unfold line_byte. rewrite Hd.
    assert (Hc : (s <=? x) && (x <? s + N.of_nat (List.length bs)) = true) by lia.
    rewrite Hc. discriminate. }
  pose proof (last_byte_covered _ l x Hl Hcov) as Hlb. rewrite <- Hg in Hlb.
  destruct (mem_get m x) as [w |] eqn:Hw; [| contradiction].
  exists w. apply (mem_get_In_holds m x w Hm). exact Hw.
Qed.

(* ---- splitting a memory at an address ------------------------------------------------ *)

Lemma sorted_filter (f : N * N -> bool) (m : memory) :
  StronglySorted key_lt m -> StronglySorted key_lt (filter f m).
Proof.
  intros Hs. induction Hs as [| kv r Hr IH Hk]; [constructor |].
  cbn [filter]. destruct (f kv); [| exact IH]. constructor; [exact IH |].
  rewrite Forall_forall in *. intros y Hy. apply filter_In in Hy. apply Hk. exact (proj1 Hy).
Qed.

Lemma wf_filter (f : N * N -> bool) (m : memory) : wf_mem m -> wf_mem (filter f m).
Proof.
  intros [Hs Hb]. split; [apply sorted_filter; exact Hs |].
  rewrite Forall_forall in *. intros y Hy. apply filter_In in Hy. apply Hb. exact (proj1 Hy).
Qed.

Lemma filter_none (f : N * N -> bool) (m : memory) :
  (forall kv, In kv m -> f kv = false) -> filter f m = [].
Proof.
  induction m as [| kv r IH]; intros H; [reflexivity |].
  cbn [filter]. rewrite (H kv (or_introl eq_refl)). apply IH. intros y Hy. apply H. right. exact Hy.
Qed.

Lemma filter_all (f : N * N -> bool) (m : memory) :
  (forall kv, In kv m -> f kv = true) -> filter f m = m.
Proof.
  induction m as [| kv r IH]; intros H; [reflexivity |].
  cbn [filter]. rewrite (H kv (or_introl eq_refl)). f_equal. apply IH. intros y Hy. apply H. right. exact Hy.
Qed.

Lemma parts_join (b : N) (m : memory) :
  StronglySorted key_lt m -> part_below b m ++ part_from b m = m.
Proof.
  unfold part_below, part_from. intros Hs. induction Hs as [| [k v] r Hr IH Hk]; [reflexivity |].
  cbn [filter fst]. destruct (k <? b) eqn:E; cbn [negb].
  - cbn [app]. rewrite IH. reflexivity.
  - rewrite Forall_forall in Hk.
    rewrite filter_none, filter_all; [reflexivity | |].
    + intros [k2 v2] Hin. specialize (Hk _ Hin). unfold key_lt in Hk. cbn [fst] in *. lia.
    + intros [k2 v2] Hin. specialize (Hk _ Hin). unfold key_lt in Hk. cbn [fst] in *. lia.
Qed.

(* a sorted list of cells whose addresses fill an interval from s is a run from s *)
Lemma contiguous_cells (l : memory) : forall s,
  StronglySorted key_lt l ->
  (forall kv, In kv l -> s <= fst kv) ->
  (forall k v, In (k, v) l -> forall x, s <= x <= k -> exists w, In (x, w) l) ->
  l = cells s (map snd l).
Proof.
  induction l as [| [k v] r IH]; intros s Hs Hlow Hfill; [reflexivity |].
  apply StronglySorted_inv in Hs. destruct Hs as [Hr Hk]. rewrite Forall_forall in Hk.
  assert (Hks : k = s).
  { pose proof (Hlow (k, v) (or_introl eq_refl)) as H1. cbn [fst] in H1.
    destruct (Hfill k v (or_introl eq_refl) s ltac:(lia)) as [w [Hw | Hw]].
    - injection Hw as Hw _. exact Hw.
    - specialize (Hk _ Hw). unfold key_lt in Hk. cbn [fst] in Hk. lia. }
  subst k. cbn [map snd cells]. f_equal. apply IH.
  - exact Hr.
  - intros kv Hin. specialize (Hk _ Hin). unfold key_lt in Hk. cbn [fst] in Hk. lia.
  - intros k2 v2 Hin x Hx.
    destruct (Hfill k2 v2 (or_intror Hin) x ltac:(lia)) as [w [Hw | Hw]].
    + injection Hw as Hw _. lia.
    + exists w. exact Hw.
Qed.

Lemma cells_nth (bs : list N) : forall a i, (i < List.length bs)%nat ->
  In (a + N.of_nat i, nth i bs 0) (cells a bs).
Proof.
  induction bs as [| b r IH]; intros a i Hi; [cbn [List.length] in Hi; lia |].
  cbn [cells]. destruct i as [| j].
  - left. cbn [nth]. f_equal. lia.
  - right. cbn [nth]. replace (a + N.of_nat (S j)) with (a + 1 + N.of_nat j) by lia.
    apply IH. cbn [List.length] in Hi. lia.
Qed.

Lemma part_from_In (b : N) (m : memory) (k v : N) :
  In (k, v) (part_from b m) <-> In (k, v) m /\ b <= k.
Proof.
  unfold part_from. rewrite filter_In. cbn [fst]. split; intros [H1 H2]; (split; [exact H1 | lia]).
Qed.

Lemma part_below_In (b : N) (m : memory) (k v : N) :
  In (k, v) (part_below b m) <-> In (k, v) m /\ k < b.
Proof.
  unfold part_below. rewrite filter_In. cbn [fst]. split; intros [H1 H2]; (split; [exact H1 | lia]).
Qed.

Lemma expressible_tail (m : memory) :
  expressible m ->
  part_from 4095 m = cells 4095 (map snd (part_from 4095 m)) /\
  (List.length (map snd (part_from 4095 m)) <= 10)%nat.
Proof.
  intros [Hwf Hex].
  assert (Hrun : part_from 4095 m = cells 4095 (map snd (part_from 4095 m))).
  { apply contiguous_cells.
    - apply sorted_filter. exact (proj1 Hwf).
    - intros [k v] Hin. apply part_from_In in Hin. cbn [fst]. exact (proj2 Hin).
    - intros k v Hin x Hx. apply part_from_In in Hin. destruct Hin as [Hin Hk].
      destruct (N.eq_dec k 4095) as [Ek | Ek].
      + exists v. apply part_from_In. replace x with k by lia. split; [exact Hin | lia].
      + destruct (Hex k v Hin ltac:(lia)) as [_ Hfill].
        destruct (Hfill x ltac:(lia)) as [w Hw].
        exists w. apply part_from_In. split; [exact Hw | lia]. }
  split; [exact Hrun |].
  destruct (Nat.le_gt_cases (List.length (map snd (part_from 4095 m))) 10) as [Hle | Hgt];
    [exact Hle | exfalso].
  pose proof (cells_nth (map snd (part_from 4095 m)) 4095 10 Hgt) as Hin.
  rewrite <- Hrun in Hin. apply part_from_In in Hin. destruct Hin as [Hin _].
  destruct (Hex _ _ Hin ltac:(lia)) as [Hle _]. lia.
Qed.

Lemma chunks_over_cells (m : memory) : expressible m -> chunk_cells (chunks_over m) = m.
Proof.
  intros Hex. destruct (expressible_tail m Hex) as [Hrun _].
  unfold chunks_over. rewrite chunk_cells_app, chunks_cells.
  rewrite <- (parts_join 4095 m (proj1 (proj1 Hex))) at 3. f_equal.
  destruct (part_from 4095 m) as [| kv r] eqn:Hp; [reflexivity |].
  rewrite Hrun at 2. cbn [chunk_cells flat_map fst snd]. apply app_nil_r.
Qed.

Lemma chunks_over_good (m : memory) : expressible m -> Forall good_chunk (chunks_over m).
Proof.
  intros Hex. destruct (expressible_tail m Hex) as [Hrun Hlen].
  destruct Hex as [Hwf Hex]. unfold chunks_over. apply Forall_app. split.
  - apply chunks_good.
    + apply wf_filter. exact Hwf.
    + intros a v Hin. apply part_below_In in Hin. lia.
  - destruct (part_from 4095 m) as [| kv r] eqn:Hp; [constructor |].
    constructor; [| constructor]. unfold good_chunk. cbn [fst snd].
    split; [lia |]. split; [exact Hlen |].
    apply Forall_forall. intros b Hb. apply in_map_iff in Hb. destruct Hb as ([k v] & Hv & Hin).
    cbn [snd] in Hv. subst v. rewrite <- Hp in Hin. apply part_from_In in Hin.
    destruct Hwf as [_ Hbytes]. rewrite Forall_forall in Hbytes.
    exact (proj2 (Hbytes _ (proj1 Hin))).
Qed.

Theorem load_print_over_holds : stmt_load_print_over.
Proof.
  intros m Hex Hne. unfold print_yo_over.
  rewrite <- (chunks_over_cells m Hex) at 2.
  apply load_print_chunks.
  - apply good_dig_lower.
  - left. reflexivity.
  - intros Hc. apply Hne. rewrite <- (chunks_over_cells m Hex), Hc. reflexivity.
  - apply chunks_over_good. exact Hex.
  - rewrite chunks_over_cells by exact Hex. exact (proj1 (proj1 Hex)).
Qed.

Theorem listing_images_holds : stmt_listing_images.
Proof.
  intros m. split.
  - intros [data H]. exact (images_are_expressible data m H).
  - intros Hex. destruct m as [| kv r].
    + exists [32]. reflexivity.
    + exists (print_yo_over (kv :: r)). apply load_print_over_holds; [exact Hex | discriminate].
Qed.

(* ---- four-digit address fields ---------------------------------------------------------- *)

Theorem four_digit_address_refused_holds : stmt_four_digit_address_refused.
Proof.
  intros m ad bd filler rest Hlen.
  destruct ad as [| a0 [| a1 [| a2 [| a3 [| a4 ad']]]]]; try (cbn in Hlen; discriminate).
  destruct (load_line_cases m (data_line [a0; a1; a2; a3] bd filler rest))
    as [(addr & field & rest' & El & Hal & _ & _) | Hfall].
  - exfalso.
    (* column 6 holds ':' in the line, ' ' in a three-digit data line *)
    destruct addr as [| b0 [| b1 [| b2 [| b3 addr']]]]; try (cbn in Hal; discriminate Hal).
    unfold data_line in El. cbn [app] in El. discriminate El.
  - rewrite Hfall.
    assert (Hp : has_pipe (data_line [a0; a1; a2; a3] bd filler rest) = true).
    { unfold has_pipe, data_line. rewrite !existsb_app. cbn [existsb]. rewrite N.eqb_refl.
      rewrite !orb_true_r. reflexivity. }
    rewrite Hp. unfold data_line. cbn [app].
    change comment_prefix with (32 :: (repeat 32 27 ++ [124])). cbn [starts_with].
    reflexivity.
Qed.

(* ================================================================================== *)
(* 7. with the state dump                                                             *)
(* ================================================================================== *)

Theorem load_dump_roundtrip_holds : stmt_load_dump_roundtrip.
Proof.
  intros m Hwf Hlow Hne. exists m. split.
  - apply load_print_holds; assumption.
  - apply memory_readback_holds. exact Hwf.
Qed.

Theorem file_dump_roundtrip_holds : stmt_file_dump_roundtrip.
Proof.
  intros data m H. destruct (load_fresh_holds data m H) as (Hm & Hg & _).
  exists m. split; [apply memory_readback_holds; exact Hm | exact Hg].
Qed.

(* ================================================================================== *)
(* 8. non-vacuity: concrete instances by computation                                  *)
(* ================================================================================== *)

Fixpoint txt (s : string) : list N :=
  match s with EmptyString => [] | String c r => N_of_ascii c :: txt r end.
Definition lf : string := String (ascii_of_N 10) EmptyString.
Definition crlf : string := String (ascii_of_N 13) lf.

(* irmovq $256, %rsp at 0x000 (a line of exactly 10 bytes, no filler) and halt at 0x020 (a gap) *)
Definition ex_prog : memory :=
  cells 0 [48; 244; 0; 1; 0; 0; 0; 0; 0; 0] ++ cells 32 [0].

Lemma ex_prog_hyps : wf_mem ex_prog /\ below_4096 ex_prog /\ ex_prog <> [].
Proof.
  split; [| split].
  - split.
    + repeat (constructor; [| repeat (constructor; [unfold key_lt; cbn [fst]; lia |]); constructor]).
      constructor.
    + repeat (constructor; [cbn [fst snd]; rewrite two64_lit; lia |]). constructor.
  - intros a v Hin. vm_compute in Hin.
    repeat (destruct Hin as [Hin | Hin]; [injection Hin as Ha _; subst a; reflexivity |]).
    contradiction.
  - discriminate.
Qed.

Example ex_print_yo :
  print_yo ex_prog =
  txt ("0x000: 30f40001000000000000 | " ++ lf ++ "0x020: 00                   | " ++ lf)%string.
Proof. vm_compute. reflexivity. Qed.

Example ex_load_print : load_from_y86 [] (print_yo ex_prog) = Ok ex_prog.
Proof. vm_compute. reflexivity. Qed.

Example ex_load_print_by_theorem : load_from_y86 [] (print_yo ex_prog) = Ok ex_prog.
Proof.
  destruct ex_prog_hyps as (H1 & H2 & H3). exact (load_print_holds ex_prog H1 H2 H3).
Qed.

Example ex_print_styles :
  print_yo_with hexdigit_upper [13; 10] ex_prog =
  txt ("0x000: 30F40001000000000000 | " ++ crlf ++ "0x020: 00                   | " ++ crlf)%string /\
  load_from_y86 [] (print_yo_with hexdigit_upper [13; 10] ex_prog) = Ok ex_prog /\
  load_from_y86 [] (removelast (print_yo_with hexdigit_upper [10] ex_prog)) = Ok ex_prog.
Proof. vm_compute. repeat split; reflexivity. Qed.

(* a yas-style listing of the same program: comment lines, instruction text, mixed case, a label
   line without '|'; its lines spell the chunks of ex_prog *)
Definition ex_listing : list N :=
  txt ("                            | # a comment" ++ lf ++
       "0x000: 30F40001000000000000 |     irmovq $256, %rsp" ++ crlf ++
       "no pipe here" ++ lf ++
       "0x020: 00                   | halt")%string.

Example ex_any_spelling :
  chunks ex_prog = [(0, [48; 244; 0; 1; 0; 0; 0; 0; 0; 0]); (32, [0])] /\
  load_from_y86 [] ex_listing = Ok ex_prog.
Proof. vm_compute. split; reflexivity. Qed.

Example ex_listing_spells : spelling (split_lines ex_listing []) (chunks ex_prog).
Proof.
  assert (Hok : forall ad bd filler rest,
            List.length ad = 3%nat -> forallb is_hex ad = true -> forallb is_hex bd = true ->
            Nat.even (List.length bd) = true -> (List.length bd + List.length filler = 20)%nat ->
            forallb (N.eqb 32) filler = true -> forallb (fun b => b <? 128) rest = true ->
            data_line_ok ad bd filler rest).
  { intros ad bd filler rest H1 H2 H3 H4 H5 H6 H7. unfold data_line_ok.
    assert (Hblank : forall b, In b filler -> b = 32).
    { intros b Hb. rewrite forallb_forall in H6. specialize (H6 b Hb).
      apply N.eqb_eq in H6. symmetry. exact H6. }
    repeat split; try assumption.
    - destruct filler as [| b t]; [left; reflexivity | right].
      exists t. rewrite (Hblank b (or_introl eq_refl)). reflexivity.
    - destruct filler as [| b t]; [reflexivity |]. cbn [firstn forallb].
      rewrite (Hblank b (or_introl eq_refl)). reflexivity.
    - intros i Hi. rewrite (Hblank (nth i filler 0) (nth_In filler 0 Hi)). reflexivity.
    - destruct rest as [| b t]; [left; reflexivity | right]. exists b, t. split; [reflexivity |].
      cbn [forallb] in H7. apply andb_true_iff in H7. unfold is_cont. lia. }
  replace (split_lines ex_listing []) with
    [txt "                            | # a comment";
     data_line (txt "000") (txt "30F40001000000000000") [] (txt "     irmovq $256, %rsp");
     txt "no pipe here";
     data_line (txt "020") (txt "00") (repeat 32 18) (txt " halt")]
    by (vm_compute; reflexivity).
  replace (chunks ex_prog) with [(0, [48; 244; 0; 1; 0; 0; 0; 0; 0; 0]); (32, [0])]
    by (vm_compute; reflexivity).
  apply sp_ignored; [left; vm_compute; reflexivity |].
  apply sp_data.
  { eexists _, _, _, _. split; [reflexivity |]. split; [apply Hok; vm_compute; reflexivity |].
    split; vm_compute; reflexivity. }
  apply sp_ignored; [right; vm_compute; reflexivity |].
  apply sp_data.
  { eexists _, _, _, _. split; [reflexivity |]. split; [apply Hok; vm_compute; reflexivity |].
    split; vm_compute; reflexivity. }
  constructor.
Qed.

(* 13 consecutive bytes: a line of 10 and a line of 3 *)
Example ex_chunks_13 :
  chunks (cells 256 [1; 2; 3; 4; 5; 6; 7; 8; 9; 10; 11; 12; 13]) =
  [(256, [1; 2; 3; 4; 5; 6; 7; 8; 9; 10]); (266, [11; 12; 13])].
Proof. vm_compute. reflexivity. Qed.

(* the byte map of a file with overlapping lines: the later line wins *)
Definition ex_overlap : list N :=
  txt ("0x010: 0102030405           | " ++ lf ++ "0x012: ffee                 | " ++ lf)%string.

Example ex_overlap_map :
  load_from_y86 [] ex_overlap = Ok [(16, 1); (17, 2); (18, 255); (19, 238); (20, 5)] /\
  map (last_byte (split_lines ex_overlap [])) [15; 16; 17; 18; 19; 20; 21] =
  [None; Some 1; Some 2; Some 255; Some 238; Some 5; None].
Proof. vm_compute. split; reflexivity. Qed.

(* a line at 0xff8 running over 0x1000: ten bytes at 0xff8 .. 0x1001 *)
Definition ex_over : memory := cells 4088 [1; 2; 3; 4; 5; 6; 7; 8; 9; 10].

Example ex_over_loads :
  load_from_y86 [] (txt ("0xff8: 0102030405060708090a | " ++ lf)%string) = Ok ex_over /\
  In (4097, 10) ex_over /\
  print_yo_over ex_over =
  txt ("0xff8: 01020304050607       | " ++ lf ++ "0xfff: 08090a               | " ++ lf)%string /\
  load_from_y86 [] (print_yo_over ex_over) = Ok ex_over.
Proof. vm_compute. repeat split; try reflexivity. do 9 right. left. reflexivity. Qed.

(* eleven bytes from 0xff8: expressible, but only with the line break before 0xfff - a second
   chunk at 0x1002 has no address field *)
Definition ex_over11 : memory := cells 4088 [1; 2; 3; 4; 5; 6; 7; 8; 9; 10; 11].

Example ex_over11_needs_print_over :
  load_from_y86 [] (print_yo_over ex_over11) = Ok ex_over11 /\
  load_from_y86 [] (print_yo ex_over11) <> Ok ex_over11.
Proof. vm_compute. split; [reflexivity | discriminate]. Qed.

Example ex_over11_expressible : expressible ex_over11.
Proof. apply (images_are_expressible (print_yo_over ex_over11)). vm_compute. reflexivity. Qed.

(* a single byte at 0x1000 is in no listing's image *)
Example ex_4096_not_expressible : ~ exists data, load_from_y86 [] data = Ok [(4096, 1)].
Proof.
  intros Hex. apply listing_images_holds in Hex. destruct Hex as [_ Hex].
  destruct (Hex 4096 1 (or_introl eq_refl) ltac:(lia)) as [_ Hfill].
  destruct (Hfill 4095 ltac:(lia)) as [w [Hw | Hw]]; [discriminate | contradiction].
Qed.

(* the line yas prints for code at 0x1000 is refused, and so is the file *)
Example ex_four_digits :
  load_from_y86 [] (txt ("0x1000: 30f40001000000000000 |     irmovq $256, %rsp" ++ lf)%string)
  = err1 UnparseableLine [] /\
  load_line [] (data_line (txt "1000") (txt "30f40001000000000000") [] (txt " irmovq")) = None.
Proof. vm_compute. split; reflexivity. Qed.

(* listing -> memory -> dump -> memory *)
Example ex_roundtrip :
  exists m', load_from_y86 [] (print_yo ex_prog) = Ok m' /\
             parse_memory_section (dump_memory m') = Some ex_prog.
Proof.
  destruct ex_prog_hyps as (H1 & H2 & H3). exact (load_dump_roundtrip_holds ex_prog H1 H2 H3).
Qed.

Example ex_roundtrip_computed :
  parse_memory_section (dump_memory ex_prog) = Some ex_prog.
Proof. vm_compute. reflexivity. Qed.

Print Assumptions print_line_spells_holds.
Print Assumptions chunks_exact_holds.
Print Assumptions load_any_spelling_holds.
Print Assumptions load_print_holds.
Print Assumptions load_print_styles_holds.
Print Assumptions load_print_unterminated_holds.
Print Assumptions decode_data_line_holds.
Print Assumptions decode_ignorable_holds.
Print Assumptions accepted_line_decodes_holds.
Print Assumptions mem_get_In_holds.
Print Assumptions load_is_a_function_of_bytes_holds.
Print Assumptions load_fresh_holds.
Print Assumptions listing_images_holds.
Print Assumptions load_print_over_holds.
Print Assumptions four_digit_address_refused_holds.
Print Assumptions load_dump_roundtrip_holds.
Print Assumptions file_dump_roundtrip_holds.
