(* C12, the OUTPUT: "same inputs, same output, on every run" - with the allowance that the lines
   printed per ACTION under -d / --trace-assignments may come in the order of the schedule, which
   follows the iteration order of randomly seeded hash tables.

   TextLevelSpec.stmt_text_hash_order_free shows that the hash orders of Program::new never reach
   the machine state, the final dump, or the output of a silent (-q) run;
   TextLevelSpec.stmt_text_hash_order_same_output_draft ("the whole output, under every option
   set") is refuted under --trace-assignments.  Here the gap between the two is closed:

   1. which switches make an action print (section 1): assignments under o_trace_assignments
      only; the built-in components under o_trace_fixed only - except ONE line, the disassembly
      line "pc = 0x..; loaded [..]" that an instruction-memory read action prints under
      o_show_disassembly.  The command line sets o_trace_fixed exactly under -d and
      o_trace_assignments exactly under --trace-assignments.  Everything else a cycle prints is
      not printed by an action: the state dump comes before the actions, the -d wire table after
      them, and the table is sorted.
   2. the text the actions of a cycle print is a function of the FINAL wire values of the cycle
      (section 2): the concatenation, in schedule order, of one message per action, each message
      computed from the values the wires hold when all actions have run.
   3. hence (section 3): two valid schedules of the same actions, run under options with both
      trace switches off, print byte-identical text - provided the list has at most one
      instruction-memory read action or the disassembly is off (with two such actions the two
      lines can swap: the unconditional draft is refuted).  Programs built from the compiled
      table have exactly one.
   4. lifted to a cycle, a run (with the -i prompt lines), the run followed by the final dump,
      and to program texts under any two hash orders (sections 4, 5): the WHOLE standard output
      is byte-identical under every option set with the two trace switches off: no option, -q,
      -t, -i, --ungroup-debug-wires, any timeout, and their combinations.  -d is excluded (it
      sets o_trace_fixed), --trace-assignments is excluded.
   5. for the excluded modes (section 6) the exact complement: cycle by cycle, the per-action
      messages of the two runs are a permutation of one another and everything else (dump before
      the cycle, wire table, prompt, final dump) is in place; so the two outputs have the same
      lines as multisets.

   Definitions only; proofs and examples are in OutputOrderProofs.v. *)
From Coq Require Import List NArith String Permutation.
From HclV Require Import Base Expr Disasm Machine MachineSpec MemSpec SchedSpec Build BuildSpec Generated
     Lexer Parser LexParseSpec TriviaSpec HistorySpec Cli CliArgs Tool TableSpec DumpParse
     FrontWfSpec TextLevelSpec.
From HclV Require OrderSpec DiagOrderSpec OutputSpec.
Import ListNotations.
Open Scope string_scope.
Open Scope list_scope.
Open Scope N_scope.

(* ====================================================================================== *)
(* 1. which switches make an action print                                                 *)
(* ====================================================================================== *)
Definition action_lines_off (o : options) : Prop :=
  o_trace_assignments o = false /\ o_trace_fixed o = false.

(* an instruction-memory read action: AReadMemory with the is_instr flag (in the compiled table:
   the component "instruction memory", pc -> i10bytes, and no other) *)
Definition is_instr_port (a : action) : bool :=
  match a with AReadMemory _ _ _ _ true => true | _ => false end.

Definition stmt_action_text_switches : Prop :=
  forall f o a s s' t, exec_action f o a s = Ok (s', t) ->
    match a with
    | AAssign _ _ _ => o_trace_assignments o = false -> t = ""
    | ASetStatus _ => t = ""
    | AReadMemory _ _ _ _ is_instr =>
        o_trace_fixed o = false -> is_instr && o_show_disassembly o = false -> t = ""
    | _ => o_trace_fixed o = false -> t = ""
    end.

(* the command line: -d switches o_trace_fixed on and nothing else does; --trace-assignments
   switches o_trace_assignments on and nothing else does (Tool.run_options_of: the options record
   main_real builds; the timeout does not matter) *)
Definition stmt_flags_and_action_lines : Prop :=
  forall fs t,
    let o := set_timeout (run_options_of fs) t in
    o_trace_fixed o = has_flag FDebug fs /\ o_trace_assignments o = has_flag FTrace fs /\
    (action_lines_off o <-> has_flag FDebug fs = false /\ has_flag FTrace fs = false).

(* the compiled table has exactly one instruction-memory read action *)
Definition stmt_one_instruction_port_in_table : Prop :=
  filter is_instr_port (map ff_action gen_fixed) = [port_instr].

(* ====================================================================================== *)
(* 2. the text of a cycle's actions, from the final wire values                           *)
(* ====================================================================================== *)
(* the message of action [a] in a cycle whose wires settle to [vals] and whose register file has
   [nregs] registers (16): what Machine.exec_action prints for it, read off the FINAL values *)
Definition action_text (o : options) (vals : list (string * wval)) (nregs : nat) (a : action) : string :=
  match a with
  | AAssign name _ _ =>
      if o_trace_assignments o then
        match lookup vals name with
        | Some r => name ++ " set to 0x" ++ hex (bits r) ++ nl
        | None => ""
        end
      else ""
  | AReadMemory is_read address out_port nbytes is_instr =>
      match enabled vals is_read, lookup vals address, lookup vals out_port with
      | Ok true, Some av, Some v =>
          (if o_trace_fixed o then
             out_port ++ " set to 0x" ++ hex (bits v) ++ " (reading " ++ dec nbytes ++
             " bytes from memory at " ++ address ++ "=0x" ++ hex (bits av) ++ ")" ++ nl
           else "") ++
          (if is_instr && o_show_disassembly o then trace_line (bits av) (bits v) else "")
      | Ok false, _, _ =>
          if o_trace_fixed o then "not reading from memory since " ++ opt_string is_read ++ " is 0" ++ nl
          else ""
      | _, _, _ => ""
      end
  | AWriteMemory is_write address in_port nbytes =>
      match enabled vals is_write, lookup vals address, lookup vals in_port with
      | Ok true, Some av, Some iv =>
          if o_trace_fixed o then
            "writing " ++ in_port ++ "=" ++ dec (bits iv) ++ " to memory at " ++ address ++
            "=0x" ++ hex (bits av) ++ nl
          else ""
      | Ok false, _, _ =>
          if o_trace_fixed o then "not writing to memory since " ++ opt_string is_write ++ " is 0" ++ nl
          else ""
      | _, _, _ => ""
      end
  | ASetStatus _ => ""
  | AReadReg number out_port =>
      match lookup vals number, lookup vals out_port with
      | Some nv, Some ov =>
          let n := bits nv mod two64 in
          if (n <? N.of_nat nregs) && o_trace_fixed o then
            "set " ++ out_port ++ " to 0x" ++ hex (bits ov) ++ " from register " ++ number ++ "=" ++ dec n ++
            " (" ++ name_register n ++ ")" ++ nl
          else ""
      | _, _ => ""
      end
  | AWriteReg number in_port =>
      match lookup vals number, lookup vals in_port with
      | Some nv, Some iv =>
          let n := bits nv mod two64 in
          if (n <? N.of_nat nregs) && negb (n =? zero_register) && o_trace_fixed o then
            "writing " ++ in_port ++ "=0x" ++ hex (bits iv mod two64) ++ " into register " ++ number ++ "=" ++
            dec n ++ " (" ++ name_register n ++ ")" ++ nl
          else ""
      | _, _ => ""
      end
  end.

(* the messages of a whole action list, in schedule order *)
Definition action_messages (o : options) (vals : list (string * wval)) (nregs : nat)
           (acts : list action) : list string :=
  map (action_text o vals nregs) acts.

(* the actions of a valid schedule print exactly their messages, one after the other: the text is
   determined by the schedule ORDER and the FINAL wire values - not by the intermediate states *)
Definition stmt_cycle_text_from_final_values : Prop :=
  forall f o known acts s s1 t,
    valid_schedule known acts = true ->
    exec_actions f o acts s = Ok (s1, t) ->
    t = concat_strings (action_messages o (values s1) (List.length (regs s)) acts).

(* with both trace switches off, the only non-empty messages are the disassembly lines of the
   instruction-memory read actions that are not switched off *)
Definition stmt_messages_with_lines_off : Prop :=
  forall o vals nregs a,
    action_lines_off o ->
    (is_instr_port a && o_show_disassembly o = false -> action_text o vals nregs a = "") /\
    (forall en addr outp nb av v,
       a = AReadMemory en addr outp nb true -> o_show_disassembly o = true ->
       enabled vals en = Ok true -> lookup vals addr = Some av -> lookup vals outp = Some v ->
       action_text o vals nregs a = trace_line (bits av) (bits v)).

(* ====================================================================================== *)
(* 3. two schedules of the same actions print the same text                               *)
(* ====================================================================================== *)
(* two schedules of the same actions: both valid, the pure actions a permutation of one another,
   the state-changing (output-less) actions in the same order - what two hash orders of
   Program::new give (DiagOrderSpec.same_program + TextLevelProofs.with_effects_in_table_order) *)
Definition same_actions (known : list string) (acts acts' : list action) : Prop :=
  valid_schedule known acts = true /\ valid_schedule known acts' = true /\
  Permutation (pure_part acts) (pure_part acts') /\ effect_part acts = effect_part acts'.

(* at most one line can be printed by the actions when both trace switches are off *)
Definition at_most_one_line (o : options) (acts : list action) : Prop :=
  (List.length (filter is_instr_port acts) <= 1)%nat \/ o_show_disassembly o = false.

(* THE STATEMENT (item 2 of the task): from machine states that agree (OrderSpec.same_machine: same
   value of every wire, same memory, registers, status, cycle count - in particular from the same
   state), under options with both trace switches off, the two schedules succeed together and
   give states that agree AND BYTE-IDENTICAL TEXT *)
Definition stmt_exec_actions_text_order_free : Prop :=
  forall f o known acts acts' s s' s1 t1,
    same_actions known acts acts' -> action_lines_off o -> at_most_one_line o acts ->
    OrderSpec.same_machine s s' ->
    exec_actions f o acts s = Ok (s1, t1) ->
    exists s2 t2, exec_actions f o acts' s' = Ok (s2, t2) /\ OrderSpec.same_machine s1 s2 /\ t1 = t2.

(* DRAFT (false): the same without [at_most_one_line] - two instruction-memory read actions
   (no program built from the compiled table has two) print their lines in schedule order *)
Definition stmt_exec_actions_text_order_free_draft : Prop :=
  forall f o known acts acts' s s1 t1 s2 t2,
    same_actions known acts acts' -> action_lines_off o ->
    exec_actions f o acts s = Ok (s1, t1) -> exec_actions f o acts' s = Ok (s2, t2) -> t1 = t2.

(* in general (any options): the two texts are the concatenations of the same messages, those of
   the pure actions permuted, those of the state-changing actions in place after them *)
Definition stmt_exec_actions_same_messages : Prop :=
  forall f o known acts acts' s s' s1 t1,
    same_actions known acts acts' -> OrderSpec.same_machine s s' ->
    exec_actions f o acts s = Ok (s1, t1) ->
    exists s2 t2 pm pm' em,
      exec_actions f o acts' s' = Ok (s2, t2) /\ OrderSpec.same_machine s1 s2 /\
      t1 = concat_strings (pm ++ em) /\ t2 = concat_strings (pm' ++ em) /\
      Permutation pm pm' /\ Forall OutputSpec.whole_lines (pm ++ em) /\
      pm = action_messages o (values s1) (List.length (regs s)) (pure_part acts) /\
      pm' = action_messages o (values s1) (List.length (regs s)) (pure_part acts') /\
      em = action_messages o (values s1) (List.length (regs s)) (effect_part acts).

(* ====================================================================================== *)
(* 4. a cycle, a run, a session                                                           *)
(* ====================================================================================== *)
(* two programs that differ only in the order of the constant table and of the scheduled actions
   (OrderSpec.same_program), both well typed, printing their register banks in the same order *)
Definition same_program_for_output (f : features) (G G' : string -> option width) (p p' : program) : Prop :=
  program_ok f G p /\ program_ok f G' p' /\ OrderSpec.same_program p p' /\
  (forall l, banks_of_letter (p_banks p) l = banks_of_letter (p_banks p') l).

(* two states of the two programs that agree; the value maps are maps (distinct keys: true of
   every state the simulator reaches, TableSpec.stmt_initial_keys_distinct / stmt_step_keys_distinct) *)
Definition same_state_for_output (G G' : string -> option width) (p p' : program) (s s' : mstate) : Prop :=
  state_ok G p s /\ state_ok G' p' s' /\ OrderSpec.same_machine s s' /\
  NoDup (map fst (values s)) /\ NoDup (map fst (values s')).

(* both fail alike, or both succeed in states that agree and with texts related by R *)
Definition same_outcome_text (R : string -> string -> Prop) (r r' : result (mstate * string)) : Prop :=
  match r, r' with
  | Ok (s1, t1), Ok (s2, t2) => OrderSpec.same_machine s1 s2 /\ R t1 t2
  | Err e1, Err e2 => e1 = e2
  | _, _ => False
  end.

(* the run with the -i prompt followed by the final state dump: the standard output of a
   simulation (ToolSpec.stmt_tool_final_state: text ++ dump) *)
Definition session_prompting (prompt : string) (fuel : nat) (f : features) (o : options) (p : program)
           (s : mstate) : result (mstate * string) :=
  do x <- run_prompting prompt fuel f o p s;
  do d <- dump_y86 o p (fst x);
  Ok (fst x, (snd x ++ d)%string).

Definition stmt_step_text_order_free : Prop :=
  forall f G G' p p' o s s',
    same_program_for_output f G G' p p' -> same_state_for_output G G' p p' s s' ->
    action_lines_off o -> at_most_one_line o (p_actions p) ->
    same_outcome_text eq (step f o p s) (step f o p' s').

Definition stmt_run_text_order_free : Prop :=
  forall f G G' p p' o prompt fuel s s',
    same_program_for_output f G G' p p' -> same_state_for_output G G' p p' s s' ->
    action_lines_off o -> at_most_one_line o (p_actions p) ->
    same_outcome_text eq (run_prompting prompt fuel f o p s) (run_prompting prompt fuel f o p' s') /\
    same_outcome_text eq (run fuel f o p s) (run fuel f o p' s').

Definition stmt_session_text_order_free : Prop :=
  forall f G G' p p' o prompt fuel s s',
    same_program_for_output f G G' p p' -> same_state_for_output G G' p p' s s' ->
    action_lines_off o -> at_most_one_line o (p_actions p) ->
    same_outcome_text eq (session_prompting prompt fuel f o p s) (session_prompting prompt fuel f o p' s') /\
    same_outcome_text eq (OutputSpec.session fuel f o p s) (OutputSpec.session fuel f o p' s').

(* ====================================================================================== *)
(* 5. program texts: the whole standard output does not depend on the hash orders         *)
(* ====================================================================================== *)
(* For the statements of a text and any two hash orders under which Program::new accepts them
   (it accepts under one iff under the other: TextLevelSpec.stmt_text_hash_order_free): started in
   their initial states on the same well-formed memory image, under EVERY option set with the two
   trace switches off - whatever the other switches, the table form, the timeout, the prompt -
   the two simulations fail alike or end in states that agree and print BYTE-IDENTICAL standard
   output (the text of the run, prompt lines included, followed by the final state dump). *)
Definition stmt_text_hash_order_same_output_default : Prop :=
  forall uc f il iu ho ho' utext stmts p p' s0 s0' img o prompt fuel,
    text_statements uc utext stmts -> DiagOrderSpec.ord_ok ho -> DiagOrderSpec.ord_ok ho' ->
    DiagOrderSpec.build_program_with f gen_fixed il iu ho stmts = Ok p ->
    DiagOrderSpec.build_program_with f gen_fixed il iu ho' stmts = Ok p' ->
    initial_state p = Ok s0 -> initial_state p' = Ok s0' -> wf_mem img ->
    action_lines_off o ->
    same_outcome_text eq (session_prompting prompt fuel f o p (load_image s0 img))
                         (session_prompting prompt fuel f o p' (load_image s0' img)) /\
    same_outcome_text eq (run_prompting prompt fuel f o p (load_image s0 img))
                         (run_prompting prompt fuel f o p' (load_image s0' img)).

(* in terms of the command line: any flags without -d and --trace-assignments *)
Definition stmt_text_hash_order_same_output_flags : Prop :=
  forall uc f il iu ho ho' utext stmts p p' s0 s0' img fs t fuel,
    text_statements uc utext stmts -> DiagOrderSpec.ord_ok ho -> DiagOrderSpec.ord_ok ho' ->
    DiagOrderSpec.build_program_with f gen_fixed il iu ho stmts = Ok p ->
    DiagOrderSpec.build_program_with f gen_fixed il iu ho' stmts = Ok p' ->
    initial_state p = Ok s0 -> initial_state p' = Ok s0' -> wf_mem img ->
    has_flag FDebug fs = false -> has_flag FTrace fs = false ->
    let o := set_timeout (run_options_of fs) t in
    same_outcome_text eq (session_prompting (prompt_of fs) fuel f o p (load_image s0 img))
                         (session_prompting (prompt_of fs) fuel f o p' (load_image s0' img)).

(* the program of an accepted text has exactly one instruction-memory read action, under every
   hash order *)
Definition stmt_text_one_instruction_port : Prop :=
  forall uc f il iu ho utext stmts p,
    text_statements uc utext stmts -> DiagOrderSpec.ord_ok ho ->
    DiagOrderSpec.build_program_with f gen_fixed il iu ho stmts = Ok p ->
    filter is_instr_port (p_actions p) = [port_instr].

(* ====================================================================================== *)
(* 6. the traced modes: the same lines, cycle by cycle                                    *)
(* ====================================================================================== *)
(* the text of one cycle, up to the order of the messages of its pure actions: the same messages
   (each a piece of whole lines) permuted, then the same rest (messages of the state-changing
   actions, wire table) *)
Definition cycle_text_up_to_order (t t' : string) : Prop :=
  exists pm pm' rest,
    t = (concat_strings pm ++ rest)%string /\ t' = (concat_strings pm' ++ rest)%string /\
    Permutation pm pm' /\ Forall OutputSpec.whole_lines pm /\ OutputSpec.whole_lines rest.

(* the text of a run, cycle by cycle: before each cycle the same state dump [d], then the cycle's
   text up to the order of its messages, then the same prompt line *)
Inductive run_text_up_to_order (prompt : string) : string -> string -> Prop :=
| rto_done : run_text_up_to_order prompt "" ""
| rto_cycle : forall d t t' r r',
    OutputSpec.whole_lines d -> cycle_text_up_to_order t t' -> run_text_up_to_order prompt r r' ->
    run_text_up_to_order prompt (d ++ t ++ prompt ++ r)%string (d ++ t' ++ prompt ++ r')%string.

(* ... followed by the same final dump *)
Definition session_text_up_to_order (prompt : string) (t t' : string) : Prop :=
  exists r r' d, t = (r ++ d)%string /\ t' = (r' ++ d)%string /\ run_text_up_to_order prompt r r' /\ OutputSpec.whole_lines d.

(* the same lines with the same multiplicities *)
Definition same_lines (t t' : string) : Prop :=
  exists l l', lines t = Some l /\ lines t' = Some l' /\ Permutation l l'.

Definition stmt_up_to_order_same_lines : Prop :=
  forall prompt t t', OutputSpec.whole_lines prompt ->
    (cycle_text_up_to_order t t' -> same_lines t t') /\
    (run_text_up_to_order prompt t t' -> same_lines t t') /\
    (session_text_up_to_order prompt t t' -> same_lines t t').

(* one cycle / a run / a session of two such programs under ANY options *)
Definition stmt_step_same_lines_traced : Prop :=
  forall f G G' p p' o s s',
    same_program_for_output f G G' p p' -> same_state_for_output G G' p p' s s' ->
    same_outcome_text cycle_text_up_to_order (step f o p s) (step f o p' s').

Definition stmt_run_same_lines_traced : Prop :=
  forall f G G' p p' o prompt fuel s s',
    same_program_for_output f G G' p p' -> same_state_for_output G G' p p' s s' ->
    same_outcome_text (run_text_up_to_order prompt)
      (run_prompting prompt fuel f o p s) (run_prompting prompt fuel f o p' s') /\
    same_outcome_text (session_text_up_to_order prompt)
      (session_prompting prompt fuel f o p s) (session_prompting prompt fuel f o p' s').

(* program texts under two hash orders, ANY options (in particular -d and --trace-assignments):
   cycle by cycle the same dump, the same messages up to order, the same table, the same prompt,
   then the same final dump; hence the same lines as multisets *)
Definition stmt_text_hash_order_same_lines_traced : Prop :=
  forall uc f il iu ho ho' utext stmts p p' s0 s0' img o prompt fuel,
    text_statements uc utext stmts -> DiagOrderSpec.ord_ok ho -> DiagOrderSpec.ord_ok ho' ->
    DiagOrderSpec.build_program_with f gen_fixed il iu ho stmts = Ok p ->
    DiagOrderSpec.build_program_with f gen_fixed il iu ho' stmts = Ok p' ->
    initial_state p = Ok s0 -> initial_state p' = Ok s0' -> wf_mem img ->
    OutputSpec.whole_lines prompt ->
    same_outcome_text (fun t t' => session_text_up_to_order prompt t t' /\ same_lines t t')
      (session_prompting prompt fuel f o p (load_image s0 img))
      (session_prompting prompt fuel f o p' (load_image s0' img)).
