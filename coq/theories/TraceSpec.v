(* C18 / C20: the messages of the built-in components (-d: trace_fixed_functionality), of the
   assignments (--trace-assignments) and the instruction trace line report the quantities
   actually used.

   Part A: READERS of each message form, written the way a script would: take the final newline
   off, split the line at blanks, compare the fixed words, split 'name=value' at '=', convert
   the numbers with [unhex] / [undec].  They do not mention the printer (Machine.exec_action,
   Disasm.trace_line).  Text helpers (strip_prefix, split_on, fields, span, ...) are those of
   DumpParse.v.
   Part B: the statements; proofs are in TraceProofs.v. *)
From HclV Require Import Base Expr Disasm DisasmProofs Machine MemSpec DumpParse DumpParseSpec.
Open Scope string_scope.
Open Scope N_scope.

(* ================================================================================== *)
(* A. the readers                                                                     *)
(* ================================================================================== *)

(* ---- numbers ---- *)
Definition decval (c : ascii) : option N :=
  let n := N_of_ascii c in if (48 <=? n) && (n <=? 57) then Some (n - 48) else None.
Fixpoint undec_acc (s : string) (acc : N) : option N :=
  match s with
  | EmptyString => Some acc
  | String c r => match decval c with Some d => undec_acc r (10 * acc + d) | None => None end
  end.
(* a non-empty string of decimal digits *)
Definition undec (s : string) : option N :=
  match s with EmptyString => None | _ => undec_acc s 0 end.

(* '0x' hexadecimal-digits *)
Definition hex_field (s : string) : option N :=
  match strip_prefix "0x" s with
  | Some d => unhex d
  | None => None
  end.

(* 'key=value' with exactly one '=' *)
Definition key_value (s : string) : option (string * string) :=
  match fields is_equals s with
  | (k, [v]) => Some (k, v)
  | _ => None
  end.

(* '(' text ')' *)
Definition in_parens (s : string) : option string :=
  match strip_prefix "(" s with
  | Some r => strip_suffix ")" r
  | None => None
  end.

Fixpoint list_eqb (a b : list string) : bool :=
  match a, b with
  | [], [] => true
  | x :: a', y :: b' => String.eqb x y && list_eqb a' b'
  | _, _ => false
  end.

(* the blank-separated fields of a one-line message (its final newline taken off) *)
Definition message_fields (msg : string) : option (list string) :=
  match strip_suffix nl msg with
  | Some line => Some (split_on is_space line)
  | None => None
  end.

(* ---- 'NAME set to 0xVALUE': (name, value) ---- *)
Definition parse_assign_msg (msg : string) : option (string * N) :=
  match message_fields msg with
  | Some [name; k1; k2; v] =>
      if list_eqb [k1; k2] ["set"; "to"] then
        match hex_field v with
        | Some x => Some (name, x)
        | None => None
        end
      else None
  | _ => None
  end.

(* ---- 'OUT set to 0xDATA (reading N bytes from memory at ADDRESS=0xA)':
        (out port, data, number of bytes, address wire, address) ---- *)
Definition parse_read_memory_msg (msg : string) : option (string * N * N * string * N) :=
  match message_fields msg with
  | Some [out; k1; k2; v; k3; n; k4; k5; k6; k7; last] =>
      if list_eqb [k1; k2; k3; k4; k5; k6; k7] ["set"; "to"; "(reading"; "bytes"; "from"; "memory"; "at"] then
        match hex_field v, undec n, strip_suffix ")" last with
        | Some data, Some count, Some kv =>
            match key_value kv with
            | Some (address, a) =>
                match hex_field a with
                | Some av => Some (out, data, count, address, av)
                | None => None
                end
            | None => None
            end
        | _, _, _ => None
        end
      else None
  | _ => None
  end.

(* ---- 'not reading from memory since WIRE is 0' / 'not writing to memory since WIRE is 0' ---- *)
Definition parse_not_reading_msg (msg : string) : option string :=
  match message_fields msg with
  | Some [k1; k2; k3; k4; k5; w; k6; k7] =>
      if list_eqb [k1; k2; k3; k4; k5; k6; k7] ["not"; "reading"; "from"; "memory"; "since"; "is"; "0"]
      then Some w else None
  | _ => None
  end.
Definition parse_not_writing_msg (msg : string) : option string :=
  match message_fields msg with
  | Some [k1; k2; k3; k4; k5; w; k6; k7] =>
      if list_eqb [k1; k2; k3; k4; k5; k6; k7] ["not"; "writing"; "to"; "memory"; "since"; "is"; "0"]
      then Some w else None
  | _ => None
  end.

(* ---- 'writing IN=DATA to memory at ADDRESS=0xA' (DATA in decimal):
        (in port, data, address wire, address) ---- *)
Definition parse_write_memory_msg (msg : string) : option (string * N * string * N) :=
  match message_fields msg with
  | Some [k1; kv1; k2; k3; k4; kv2] =>
      if list_eqb [k1; k2; k3; k4] ["writing"; "to"; "memory"; "at"] then
        match key_value kv1, key_value kv2 with
        | Some (port, d), Some (address, a) =>
            match undec d, hex_field a with
            | Some data, Some av => Some (port, data, address, av)
            | _, _ => None
            end
        | _, _ => None
        end
      else None
  | _ => None
  end.

(* ---- 'set OUT to 0xCONTENT from register NUMBER=N (NAME)':
        (out port, content, number wire, register number, register name) ---- *)
Definition parse_read_reg_msg (msg : string) : option (string * N * string * N * string) :=
  match message_fields msg with
  | Some [k1; out; k2; v; k3; k4; kv; nm] =>
      if list_eqb [k1; k2; k3; k4] ["set"; "to"; "from"; "register"] then
        match hex_field v, key_value kv, in_parens nm with
        | Some content, Some (number, n), Some rname =>
            match undec n with
            | Some idx => Some (out, content, number, idx, rname)
            | None => None
            end
        | _, _, _ => None
        end
      else None
  | _ => None
  end.

(* ---- 'writing IN=0xVALUE into register NUMBER=N (NAME)':
        (in port, value, number wire, register number, register name) ---- *)
Definition parse_write_reg_msg (msg : string) : option (string * N * string * N * string) :=
  match message_fields msg with
  | Some [k1; kv1; k2; k3; kv2; nm] =>
      if list_eqb [k1; k2; k3] ["writing"; "into"; "register"] then
        match key_value kv1, key_value kv2, in_parens nm with
        | Some (port, v), Some (number, n), Some rname =>
            match hex_field v, undec n with
            | Some value, Some idx => Some (port, value, number, idx, rname)
            | _, _ => None
            end
        | _, _, _ => None
        end
      else None
  | _ => None
  end.

(* ---- 'pc = 0xPC; loaded [HH HH ... : TEXT]': (pc, bytes in the order shown, text) ---- *)
(* as many 'HH ' groups as there are *)
Fixpoint take_bytes (s : string) : list N * string :=
  match s with
  | String a r1 =>
      if is_hexdigit a then
        match r1 with
        | String b (String c r) =>
            if is_hexdigit b && is_space c then
              match unhex (String a (String b EmptyString)) with
              | Some v => let '(l, rest) := take_bytes r in (v :: l, rest)
              | None => ([], s)
              end
            else ([], s)
        | _ => ([], s)
        end
      else ([], s)
  | EmptyString => ([], s)
  end.

Definition parse_trace_line (msg : string) : option (N * list N * string) :=
  match strip_prefix "pc = 0x" msg with
  | None => None
  | Some r1 =>
      let '(digits, r2) := span is_hexdigit r1 in
      match unhex digits, strip_prefix "; loaded [" r2 with
      | Some pc, Some r3 =>
          let '(bytes, r4) := take_bytes r3 in
          match strip_prefix ": " r4 with
          | Some r5 =>
              match strip_suffix ("]" ++ nl) r5 with
              | Some text => Some (pc, bytes, text)
              | None => None
              end
          | None => None
          end
      | _, _ => None
      end
  end.

(* ================================================================================== *)
(* B. the statements                                                                  *)
(* ================================================================================== *)

(* numbers read back *)
Definition stmt_dec_roundtrip : Prop := forall n, undec (dec n) = Some n.

(* side conditions on wire names (names produced by the lexer are identifiers and meet them) *)
Definition no_blank (s : string) : bool := no_char is_space s.
Definition key_name (s : string) : bool := no_char (fun c => is_space c || is_equals c) s.

(* a component with an enable wire is switched off when that wire's value is 0 *)
Definition disabled (vals : list (string * wval)) (en : option string) : Prop :=
  exists w v, en = Some w /\ lookup vals w = Some v /\ bits v = 0.

(* ---- assignments (--trace-assignments) ---- *)
(* the line names the wire and shows the value stored in it: the value of the expression cut
   to the wire's declared width *)
Definition stmt_assign_msg : Prop :=
  forall f o s s' text name e w,
    o_trace_assignments o = true -> no_blank name = true ->
    exec_action f o (AAssign name e w) s = Ok (s', text) ->
    exists r0,
      eval f (lookup (values s)) e = Ok r0 /\
      lookup (values s') name = Some (as_width w r0) /\
      parse_assign_msg text = Some (name, bits (as_width w r0)).

(* ---- memory reads (-d) ---- *)
(* the message names the output port and shows the data put on it = the [nbytes] bytes of memory
   at the address = (value of the address wire) mod 2^64, the number of bytes, the address
   wire's name and its value.  It is followed by the instruction trace line when the port is
   the instruction memory and the disassembly option is on. *)
Definition stmt_read_memory_msg : Prop :=
  forall f o s s' text is_read address out_port nbytes is_instr,
    o_trace_fixed o = true -> no_blank out_port = true -> key_name address = true ->
    exec_action f o (AReadMemory is_read address out_port nbytes is_instr) s = Ok (s', text) ->
    ~ disabled (values s) is_read ->
    exists av msg,
      lookup (values s) address = Some av /\
      let data := mem_read (mem s) (bits av mod two64) nbytes in
      lookup (values s') out_port = Some data /\
      text = msg ++ (if is_instr && o_show_disassembly o then trace_line (bits av) (bits data) else "") /\
      parse_read_memory_msg msg = Some (out_port, bits data, nbytes, address, bits av) /\
      parse_not_reading_msg msg = None.

(* switched off: the message names the enable wire, whose value is 0; nothing is read (the
   output port is set to 0) *)
Definition stmt_not_reading_msg : Prop :=
  forall f o s s' text is_read address out_port nbytes is_instr,
    o_trace_fixed o = true ->
    (forall w, is_read = Some w -> no_blank w = true) ->
    exec_action f o (AReadMemory is_read address out_port nbytes is_instr) s = Ok (s', text) ->
    disabled (values s) is_read ->
    exists w v, is_read = Some w /\ lookup (values s) w = Some v /\ bits v = 0 /\
                parse_not_reading_msg text = Some w /\
                (exists z, lookup (values s') out_port = Some z /\ bits z = 0) /\ mem s' = mem s.

(* ---- memory writes (-d) ---- *)
(* the message names the input port and shows its value (in DECIMAL), the address wire's name
   and its value (in hexadecimal); the memory afterwards is the memory with the low [nbytes]
   bytes of that value written at (address value) mod 2^64 *)
Definition stmt_write_memory_msg : Prop :=
  forall f o s s' text is_write address in_port nbytes,
    o_trace_fixed o = true -> key_name in_port = true -> key_name address = true ->
    exec_action f o (AWriteMemory is_write address in_port nbytes) s = Ok (s', text) ->
    ~ disabled (values s) is_write ->
    exists av iv,
      lookup (values s) address = Some av /\ lookup (values s) in_port = Some iv /\
      mem s' = mem_write (mem s) (bits av mod two64) (bits iv) nbytes /\
      parse_write_memory_msg text = Some (in_port, bits iv, address, bits av) /\
      parse_not_writing_msg text = None.

Definition stmt_not_writing_msg : Prop :=
  forall f o s s' text is_write address in_port nbytes,
    o_trace_fixed o = true ->
    (forall w, is_write = Some w -> no_blank w = true) ->
    exec_action f o (AWriteMemory is_write address in_port nbytes) s = Ok (s', text) ->
    disabled (values s) is_write ->
    exists w v, is_write = Some w /\ lookup (values s) w = Some v /\ bits v = 0 /\
                parse_not_writing_msg text = Some w /\ s' = s.

(* ---- register file reads (-d) ---- *)
(* n = (value of the number wire) mod 2^64.  When n is a register number the message names the
   output port, shows the register's content = the new value of the port, the number wire's
   name, n in decimal and the register's name; otherwise nothing is printed (and the port
   reads 0) *)
Definition stmt_read_reg_msg : Prop :=
  forall f o s s' text number out_port,
    o_trace_fixed o = true -> no_blank out_port = true -> key_name number = true ->
    exec_action f o (AReadReg number out_port) s = Ok (s', text) ->
    exists nv, lookup (values s) number = Some nv /\
      let n := bits nv mod two64 in
      if n <? N.of_nat (List.length (regs s)) then
        let content := nth (N.to_nat n) (regs s) 0 in
        lookup (values s') out_port = Some (mkV content (Bits 64)) /\
        parse_read_reg_msg text = Some (out_port, content, number, n, name_register n)
      else text = "" /\ lookup (values s') out_port = Some (mkV 0 (Bits 64)).

(* ---- register file writes (-d) ---- *)
(* when n is a register number other than 15 the message names the input port and shows the
   value written = (value of the port) mod 2^64 = the register's new content (in hexadecimal),
   the number wire's name, n and the register's name; otherwise nothing is printed and nothing
   is written *)
Definition stmt_write_reg_msg : Prop :=
  forall f o s s' text number in_port,
    o_trace_fixed o = true -> key_name in_port = true -> key_name number = true ->
    exec_action f o (AWriteReg number in_port) s = Ok (s', text) ->
    exists nv, lookup (values s) number = Some nv /\
      let n := bits nv mod two64 in
      if (n <? N.of_nat (List.length (regs s))) && negb (n =? 15) then
        exists iv, lookup (values s) in_port = Some iv /\
          nth (N.to_nat n) (regs s') 0 = bits iv mod two64 /\
          parse_write_reg_msg text = Some (in_port, bits iv mod two64, number, n, name_register n)
      else text = "" /\ s' = s.

(* ---- C20: the instruction trace line ---- *)
(* the line reads back to the pc, bytes 0 .. len-1 of the fetched value (least significant
   first = memory order) where len is the length the disassembler reports, and the
   disassembler's text - whatever that text contains *)
Definition stmt_trace_line_readback : Prop :=
  forall pc v,
    parse_trace_line (trace_line pc v) =
    Some (pc, map (fun k => (v / 256 ^ N.of_nat k) mod 256) (seq 0 (N.to_nat (fst (disassemble v)))),
          snd (disassemble v)).

(* in a cycle: for the instruction memory port with the disassembly option on, the line shows
   the value of the address wire (the current pc), the first len bytes of memory at that
   address (mod 2^64), in memory order, where len = 1, 2, 9 or 10 by the opcode nibble of the
   first byte, and the disassembly of the fetched value.  [len <= nbytes]: the port must fetch
   at least as many bytes as the longest instruction it may show (10 for the Y86 port). *)
Definition stmt_trace_line_cycle : Prop :=
  forall f o s s' text is_read address out_port nbytes,
    o_show_disassembly o = true -> wf_mem (mem s) ->
    exec_action f o (AReadMemory is_read address out_port nbytes true) s = Ok (s', text) ->
    ~ disabled (values s) is_read ->
    exists av msg line,
      lookup (values s) address = Some av /\
      text = msg ++ line /\ (o_trace_fixed o = false -> msg = "") /\
      let pc := bits av mod two64 in
      let v := bits (mem_read (mem s) pc nbytes) in
      let len := len_by_icode ((byte_at (mem s) pc / 16) mod 16) in
      (1 <= nbytes -> len <= nbytes ->
       parse_trace_line line =
       Some (bits av,
             map (fun i => byte_at (mem s) ((pc + N.of_nat i) mod two64)) (seq 0 (N.to_nat len)),
             snd (disassemble v))).

(* ---- a whole cycle ---- *)
Definition no_newline (s : string) : bool := no_char is_newline s.
Definition action_names_ok (a : action) : bool :=
  match a with
  | AAssign name _ _ => no_newline name
  | AReadReg number out_port => no_newline number && no_newline out_port
  | AReadMemory en address out_port _ _ =>
      no_newline (opt_string en) && no_newline address && no_newline out_port
  | AWriteReg number in_port => no_newline number && no_newline in_port
  | AWriteMemory en address in_port _ =>
      no_newline (opt_string en) && no_newline address && no_newline in_port
  | ASetStatus _ => true
  end.

Definition is_disabled (vals : list (string * wval)) (en : option string) : bool :=
  match en with Some w => wire_bits vals w =? 0 | None => false end.

(* how many lines an action prints in state s:
   - an assignment: one under --trace-assignments;
   - a memory read: one under -d (the read message or the 'not reading' message), and the
     trace line when it is the instruction port, disassembly is on and the port is not
     switched off;
   - a memory write: one under -d (the write message or the 'not writing' message);
   - a register read: one under -d when the number is a register number;
   - a register write: one under -d when the number is a register number other than 15;
   - setting the status: none *)
Definition message_count (o : options) (a : action) (s : mstate) : nat :=
  let b2n (b : bool) := if b then 1%nat else 0%nat in
  match a with
  | AAssign _ _ _ => b2n (o_trace_assignments o)
  | AReadMemory en _ _ _ is_instr =>
      (b2n (o_trace_fixed o) +
       b2n (is_instr && o_show_disassembly o && negb (is_disabled (values s) en)))%nat
  | AWriteMemory _ _ _ _ => b2n (o_trace_fixed o)
  | ASetStatus _ => 0%nat
  | AReadReg number _ =>
      b2n (o_trace_fixed o && (wire_bits (values s) number mod two64 <? N.of_nat (List.length (regs s))))
  | AWriteReg number _ =>
      let n := wire_bits (values s) number mod two64 in
      b2n (o_trace_fixed o && (n <? N.of_nat (List.length (regs s))) && negb (n =? 15))
  end.

(* the actions of a cycle executed one after the other from state s, each with the lines it
   printed in the state it ran in *)
Inductive cycle_lines (f : features) (o : options)
  : list action -> mstate -> list (list string) -> mstate -> Prop :=
| cl_nil : forall s, cycle_lines f o [] s [] s
| cl_cons : forall a r s s1 t ls lss s',
    exec_action f o a s = Ok (s1, t) ->
    lines t = Some ls -> List.length ls = message_count o a s ->
    cycle_lines f o r s1 lss s' ->
    cycle_lines f o (a :: r) s (ls :: lss) s'.

(* the text of the actions of a cycle is, line for line, the messages of its actions in schedule
   order: for each action exactly the [message_count] lines it printed - nothing else, nothing
   missing, nothing reordered.  (Machine.step appends the wire table to this text:
   TableSpec.stmt_step_prints_table.) *)
Definition stmt_cycle_messages : Prop :=
  forall f o acts s s' text,
    forallb action_names_ok acts = true ->
    exec_actions f o acts s = Ok (s', text) ->
    exists lss, cycle_lines f o acts s lss s' /\ lines text = Some (List.concat lss).

(* ---- the side conditions are needed (refuted in TraceProofs.v) ---- *)
(* without "no blank in the name" the assignment line cannot be split into its fields *)
Definition stmt_assign_msg_unconditional : Prop :=
  forall f o s s' text name e w,
    o_trace_assignments o = true ->
    exec_action f o (AAssign name e w) s = Ok (s', text) ->
    exists v, parse_assign_msg text = Some (name, v).
(* without "no '=' in the port name" the 'port=value' field of a memory write is ambiguous *)
Definition stmt_write_memory_msg_unconditional : Prop :=
  forall f o s s' text is_write address in_port nbytes,
    o_trace_fixed o = true ->
    exec_action f o (AWriteMemory is_write address in_port nbytes) s = Ok (s', text) ->
    ~ disabled (values s) is_write ->
    exists v a, parse_write_memory_msg text = Some (in_port, v, address, a).
