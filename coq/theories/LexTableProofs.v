From HclV Require Import Base Expr Lexer LexParseSpec Generated LexTable.
Open Scope string_scope.
Open Scope list_scope.
Open Scope N_scope.

Theorem lex_table_matches_holds : stmt_lex_table_matches.
Proof. intro uc. vm_compute. reflexivity. Qed.

Lemma bytes_eqb_eq : forall a b, bytes_eqb a b = true -> a = b.
Proof.
  induction a as [|x a IH]; intros [|y b] H; cbn [bytes_eqb] in H; try discriminate; [reflexivity|].
  apply andb_prop in H. destruct H as [H1 H2]. apply N.eqb_eq in H1. subst y. f_equal. apply IH, H2.
Qed.

Theorem no_other_keywords_holds : stmt_no_other_keywords.
Proof.
  intros kws name Hk Hn.
  vm_compute in Hk. injection Hk as Hk. subst kws.
  unfold resolve_identifier.
  destruct (bytes_eqb name kw_wire) eqn:E1.
  { exfalso. apply Hn. apply bytes_eqb_eq in E1. subst name. vm_compute. tauto. }
  destruct (bytes_eqb name kw_const) eqn:E2.
  { exfalso. apply Hn. apply bytes_eqb_eq in E2. subst name. vm_compute. tauto. }
  destruct (bytes_eqb name kw_register) eqn:E3.
  { exfalso. apply Hn. apply bytes_eqb_eq in E3. subst name. vm_compute. tauto. }
  destruct (bytes_eqb name kw_in) eqn:E4.
  { exfalso. apply Hn. apply bytes_eqb_eq in E4. subst name. vm_compute. tauto. }
  reflexivity.
Qed.
