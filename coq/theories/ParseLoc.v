(* WHERE THE FIRST SYNTAX ERROR IS.  Definitions only (executable, extractable).

   src/parser.lalrpop is compiled by LALRPOP into an LR(1) automaton (lane-table construction).
   On a text that is not a sentence of the grammar the FIRST thing the generated parser does
   (lalrpop-util 0.19.12, state_machine.rs, Parser::parse / parse_eof -> error_recovery) is to build

       ParseError::UnrecognizedToken { token: (start, tok, end), expected }     for a token, or
       ParseError::UnrecognizedEOF   { location: last_location, expected }      at the end of input

   where last_location is the END offset of the last token read (0 if there is none); errors.rs
   (impl From<ParseErrorType> for Error) turns both into Error::UnrecognizedToken { location, .. }
   with location = (start, end) of the token, resp. (last_location, last_location + 1): a ONE-byte
   range just after the last token (this is the range whose rendering commit 6c3fe12 made safe when
   the byte after the last token begins a multi-byte character).  Only then does error recovery
   start (the <error:!> productions), which may record further errors, or give up and return the
   first one.

   WHICH token.  An LR automaton - canonical, LALR or lane-table - never SHIFTS a token that cannot
   continue a sentence (it may perform reductions first): the token it complains about is the first
   token t_i such that t_0 ... t_i is not a prefix of any sentence of the grammar, and the end of
   input if the whole text is a proper prefix of a sentence.  "The grammar" includes the
   productions the author wrote to ACCEPT malformed constructs with a diagnostic (ParseDiag.v) -
   they are ordinary productions - and excludes nothing else: the <error:!> productions only
   consume the pseudo-token the recovery procedure inserts, and every one of them has a sibling
   production without it that begins with the same symbols, so they do not change which token
   sequences are prefixes of sentences.

   THIS FILE: a recogniser of the viable prefixes of that grammar, written as a recursive-descent
   "prefix parser" over the token KINDS (the payload of a literal or identifier plays no part in
   the syntax).  It follows SpanParser.v / ParseDiag.v function by function - same fuels, same case
   analysis - but instead of None it says WHERE and WHY it stopped:

       Done rest     the construct is complete; [rest] follows it
       Fail rest     [rest] = t :: _ : the token t cannot continue any sentence
       More comp     the input ended inside the construct; [comp] is one way to complete it
                     (an explicit completion: the tokens read so far followed by [comp] - and by a
                     token that cannot continue the construct, or nothing - are Done)
       Stuck         out of fuel (never with the fuels used here: ParseLocProofs)

   The two fallible actions of the grammar (a width or bit index above 128: ParseDiag.v, DFatal) are
   NOT syntax: every literal is acceptable where a literal is expected.  A text in which such an
   action fires BEFORE the first non-viable token is read never gets an `unexpected token`.

   first_error_index / first_error_span are what the rest of the development uses (the recogniser runs
   on the KINDS of the tokens: kind_of); [completion] is the explicit witness of viability.

   Cross-checked against the real parser (harness commands "parse" and "front": the first
   UnrecognizedToken of the error list against first_error_span_text): the figures are at the end of
   ParseLocProofs.v.  No disagreement was found: the valid-prefix property does hold for this generated
   parser, its error-recovery productions and LALRPOP's lane-table automaton included. *)
From HclV Require Import Base Expr Build Lexer Parser SpanParser ParseDiag.
Open Scope list_scope.

Inductive vres :=
| Done (rest : list token)
| Fail (rest : list token)
| More (comp : list token)
| Stuck.

(* the tokens used in completions *)
Definition c_id : token := TIdentifier [120%N].           (* x *)
Definition c_lit : token := TLit (mkV 0%N Unl).           (* 0 *)

Definition is_lit (t : token) : bool := match t with TLit _ => true | _ => false end.

(* the kind of a token: its constructor - the value of a literal and the spelling of an identifier
   are forgotten *)
Definition kind_of (t : token) : token :=
  match t with
  | TLit _ => c_lit
  | TIdentifier _ => c_id
  | other => other
  end.
Definition kinds (toks : list tok) : list token := map (fun t => kind_of (tk t)) toks.

(* the input ended inside a construct that [after] closes *)
Definition closing (after : list token) (r : vres) : vres :=
  match r with
  | Done [] => More after
  | More c => More (c ++ after)
  | other => other
  end.

(* [r] then the token [k]: the construct must be followed by k *)
Definition expect (k : token) (r : vres) : vres :=
  match r with
  | Done (t :: rest) => if token_eqb t k then Done rest else Fail (t :: rest)
  | other => closing [k] other
  end.

(* "[" SimpleConstant ".." SimpleConstant "]" after the "[" *)
Definition vp_slice (toks : list token) : vres :=
  match toks with
  | [] => More [c_lit; TDotDot; c_lit; TCloseBracket]
  | t2 :: r2 =>
      if is_lit t2 then
        match r2 with
        | [] => More [TDotDot; c_lit; TCloseBracket]
        | t3 :: r3 =>
            if token_eqb t3 TDotDot then
              match r3 with
              | [] => More [c_lit; TCloseBracket]
              | t4 :: r4 =>
                  if is_lit t4 then
                    match r4 with
                    | [] => More [TCloseBracket]
                    | t5 :: r5 => if token_eqb t5 TCloseBracket then Done r5 else Fail r4
                    end
                  else Fail r3
              end
            else Fail r2
        end
      else Fail toks
  end.

Section ViablePrefix.
  Variable tiers : list tier.

  (* ---- expressions: SpanParser.parse_tiers_sp ... parse_commas_exprs_sp ----------------------- *)
  Fixpoint vp_tiers (fuel : nat) (ts : list tier) (toks : list token) {struct fuel} : vres :=
    match fuel with
    | O => Stuck
    | S f =>
        match ts with
        | [] => vp_term f toks
        | (KLeft, ops) :: rest =>
            match vp_tiers f rest toks with
            | Done toks1 => vp_left_loop f rest ops toks1
            | other => other
            end
        | (KNonAssoc, ops) :: rest =>
            match vp_tiers f rest toks with
            | Done (t :: toks1) =>
                match op_of_token ops t with
                | Some _ => vp_tiers f rest toks1
                | None => Done (t :: toks1)
                end
            | other => other
            end
        | (KIn, _) :: rest =>
            match vp_tiers f rest toks with
            | Done (t :: toks1) =>
                if token_eqb t TIn then
                  match toks1 with
                  | t2 :: toks2 =>
                      if token_eqb t2 TOpenBrace
                      then expect TCloseBrace (vp_commas_exprs f toks2)
                      else Fail toks1
                  | [] => More [TOpenBrace; TCloseBrace]
                  end
                else Done (t :: toks1)
            | other => other
            end
        | (KBad, _) :: _ => Stuck
        end
    end
  with vp_left_loop (fuel : nat) (rest : list tier) (ops : list binop) (toks : list token) {struct fuel} : vres :=
    match fuel with
    | O => Stuck
    | S f =>
        match toks with
        | t :: toks1 =>
            match op_of_token ops t with
            | Some _ =>
                match vp_tiers f rest toks1 with
                | Done toks2 => vp_left_loop f rest ops toks2
                | other => other
                end
            | None => Done toks
            end
        | [] => Done toks
        end
    end
  with vp_term (fuel : nat) (toks : list token) {struct fuel} : vres :=
    match fuel with
    | O => Stuck
    | S f =>
        match toks with
        | t :: toks1 =>
            match unop_of_token t with
            | Some _ => vp_simple f toks1
            | None =>
                match vp_simple f toks with
                | Done (t1 :: r1) => if token_eqb t1 TOpenBracket then vp_slice r1 else Done (t1 :: r1)
                | other => other
                end
            end
        | [] => More [c_id]
        end
    end
  with vp_simple (fuel : nat) (toks : list token) {struct fuel} : vres :=
    match fuel with
    | O => Stuck
    | S f =>
        match toks with
        | t :: toks1 =>
            match t with
            | TLit _ => Done toks1
            | TIdentifier _ => Done toks1
            | TOpenParen =>
                match vp_tiers f tiers toks1 with
                | Done (t2 :: toks2) =>
                    if token_eqb t2 TCloseParen then Done toks2
                    else if token_eqb t2 TDotDot then expect TCloseParen (vp_tiers f tiers toks2)
                    else Fail (t2 :: toks2)
                | other => closing [TCloseParen] other
                end
            | TOpenBracket => expect TCloseBracket (vp_mux_options f toks1)
            | _ => Fail toks
            end
        | [] => More [c_id]
        end
    end
  with vp_mux_options (fuel : nat) (toks : list token) {struct fuel} : vres :=
    match fuel with
    | O => Stuck
    | S f =>
        match toks with
        | t :: _ =>
            if token_eqb t TCloseBracket then Done toks
            else
              match vp_tiers f tiers toks with
              | Done (t1 :: toks1) =>
                  if token_eqb t1 TColon then
                    match vp_tiers f tiers toks1 with
                    | Done (t2 :: toks2) =>
                        if token_eqb t2 TSemicolon then vp_mux_options f toks2 else Done (t2 :: toks2)
                    | other => other
                    end
                  else Fail (t1 :: toks1)
              | other => closing [TColon; c_id] other
              end
        | [] => Done toks
        end
    end
  with vp_commas_exprs (fuel : nat) (toks : list token) {struct fuel} : vres :=
    match fuel with
    | O => Stuck
    | S f =>
        match toks with
        | t :: _ =>
            if token_eqb t TCloseBrace then Done toks
            else
              match vp_tiers f tiers toks with
              | Done (t1 :: toks1) =>
                  if token_eqb t1 TComma then vp_commas_exprs f toks1 else Done (t1 :: toks1)
              | other => other
              end
        | [] => Done toks
        end
    end.

  Definition vp_expr (fuel : nat) (toks : list token) : vres := vp_tiers fuel tiers toks.

  (* ---- Repeat<sep, T>: ParseDiag.list_d ----------------------------------------------------- *)
  Fixpoint vp_list (starts : token -> bool) (sep : token) (item : nat -> list token -> vres)
           (fuel : nat) (toks : list token) : vres :=
    match fuel with
    | O => Stuck
    | S f =>
        match toks with
        | t1 :: _ =>
            if starts t1 then
              match item f toks with
              | Done (t :: rest) =>
                  if token_eqb t sep then vp_list starts sep item f rest else Done (t :: rest)
              | other => other
              end
            else Done toks
        | [] => Done toks
        end
    end.

  (* ":" was read: WidthConstant "=" Expr *)
  Definition vp_width_value (fuel : nat) (toks : list token) : vres :=
    match toks with
    | [] => More [c_lit; TAssign; c_id]
    | t3 :: rest3 =>
        if is_lit t3 then
          match rest3 with
          | [] => More [TAssign; c_id]
          | t4 :: rest4 => if token_eqb t4 TAssign then vp_expr fuel rest4 else Fail rest3
          end
        else Fail toks
    end.

  (* ---- WireDecl: ParseDiag.wire_decl_d ------------------------------------------------------- *)
  Definition vp_wire_decl (fuel : nat) (toks : list token) : vres :=
    match toks with
    | t1 :: rest1 =>
        if starts_name t1 then
          match rest1 with
          | t2 :: rest2 =>
              if token_eqb t2 TColon then
                match rest2 with
                | t3 :: rest3 =>
                    if is_lit t3 then
                      match rest3 with
                      | t4 :: rest4 => if token_eqb t4 TAssign then vp_expr fuel rest4 else Done rest3
                      | [] => Done rest3
                      end
                    else Fail rest2
                | [] => More [c_lit]
                end
              else if token_eqb t2 TAssign then vp_expr fuel rest2
              else Done rest1
          | [] => Done rest1
          end
        else Fail toks
    | [] => More [c_id]
    end.

  (* ---- ConstDecl: ParseDiag.const_decl_d ----------------------------------------------------- *)
  Definition vp_const_decl (fuel : nat) (toks : list token) : vres :=
    match toks with
    | t1 :: rest1 =>
        if starts_name t1 then
          match rest1 with
          | t2 :: rest2 =>
              if token_eqb t2 TAssign then vp_expr fuel rest2
              else if token_eqb t2 TColon then vp_width_value fuel rest2
              else Fail rest1
          | [] => More [TAssign; c_id]
          end
        else Fail toks
    | [] => More [c_id; TAssign; c_id]
    end.

  (* ---- Assignment: ParseDiag.assignment_d ---------------------------------------------------- *)
  (* (ID "=")* : what follows the targets (SpanParser.parse_targets_sp, which is given fuel enough
     to reach the end of the list) *)
  Fixpoint vp_targets (toks : list token) : list token :=
    match toks with
    | t1 :: rest1 =>
        match rest1 with
        | t2 :: toks1 => if starts_name t1 && token_eqb t2 TAssign then vp_targets toks1 else toks
        | [] => toks
        end
    | [] => toks
    end.

  Definition vp_assignment (fuel : nat) (toks : list token) : vres :=
    match toks with
    | t1 :: rest1 =>
        if starts_name t1 then
          match rest1 with
          | t2 :: rest2 =>
              if token_eqb t2 TOpenBracket then
                (* ID "[" Semicolons1<MuxOption> "]" *)
                match rest2 with
                | t3 :: _ =>
                    if token_eqb t3 TCloseBracket then Fail rest2
                    else expect TCloseBracket (vp_mux_options fuel rest2)
                | [] => More [c_id; TColon; c_id; TCloseBracket]
                end
              else if token_eqb t2 TAssign then vp_expr fuel (vp_targets toks)
              else Fail rest1
          | [] => More [TAssign; c_id]
          end
        else Fail toks
    | [] => More [c_id; TAssign; c_id]
    end.

  (* Commas1<Assignment>: ParseDiag.assignments_d *)
  Fixpoint vp_assignments (fuel : nat) (toks : list token) : vres :=
    match fuel with
    | O => Stuck
    | S f =>
        match vp_assignment f toks with
        | Done (t :: toks2) =>
            if token_eqb t TComma then
              match toks2 with
              | t2 :: _ => if starts_name t2 then vp_assignments f toks2 else Done toks2
              | [] => Done toks2
              end
            else Done (t :: toks2)
        | other => other
        end
    end.

  (* ---- RegisterDecl: ParseDiag.reg_decl_d ---------------------------------------------------- *)
  Definition vp_reg_decl (fuel : nat) (toks : list token) : vres :=
    match toks with
    | t1 :: rest1 =>
        if starts_name t1 then
          match rest1 with
          | t2 :: rest2 =>
              if token_eqb t2 TAssign then vp_expr fuel rest2
              else if token_eqb t2 TColon then vp_width_value fuel rest2
              else Fail rest1
          | [] => More [TAssign; c_id]
          end
        else if token_eqb t1 TWire then
          match rest1 with
          | t2 :: rest2 =>
              if starts_name t2 then
                match rest2 with
                | t3 :: rest3 =>
                    if token_eqb t3 TAssign then vp_expr fuel rest3
                    else if token_eqb t3 TColon then vp_width_value fuel rest3
                    else Fail rest2
                | [] => More [TAssign; c_id]
                end
              else Fail rest1
          | [] => More [c_id; TAssign; c_id]
          end
        else Fail toks
    | [] => More [c_id; TAssign; c_id]
    end.

  (* ---- statements: ParseDiag.statement_d, statements_d ---------------------------------------- *)
  Definition next_tok_is (k : token) (toks : list token) : bool :=
    match toks with t :: _ => token_eqb t k | [] => false end.

  Definition vp_statement (fuel : nat) (toks : list token) : vres * stmt_kind :=
    match toks with
    | t :: toks1 =>
        match t with
        | TWire => (vp_list starts_name TComma vp_wire_decl fuel toks1, NeedSemi)
        | TConst => (vp_list starts_name TComma vp_const_decl fuel toks1, NeedSemi)
        | TRegister =>
            (match toks1 with
             | t1 :: rest1 =>
                 if starts_name t1 then
                   match rest1 with
                   | t2 :: toks2 =>
                       if token_eqb t2 TOpenBrace
                       then expect TCloseBrace (vp_list starts_reg_decl TSemicolon vp_reg_decl fuel toks2)
                       else Fail rest1
                   | [] => More [TOpenBrace; TCloseBrace]
                   end
                 else Fail toks1
             | [] => More [c_id; TOpenBrace; TCloseBrace]
             end, NoSemi)
        | TIdentifier _ =>
            if next_tok_is TAssign toks1 || next_tok_is TOpenBracket toks1
            then (vp_assignments fuel toks, NeedSemi)
            else (vp_simple fuel toks, NeedSemi)
        | TLit _ | TOpenParen | TOpenBracket => (vp_simple fuel toks, NeedSemi)
        | _ => (Fail toks, NeedSemi)
        end
    | [] => (More [c_id], NeedSemi)
    end.

  Fixpoint vp_statements (fuel : nat) (toks : list token) (seen_one : bool) : vres :=
    match fuel with
    | O => Stuck
    | S f =>
        match toks with
        | [] => if seen_one then Done [] else More [c_id; TSemicolon]
        | t :: toks1 =>
            if token_eqb t TSemicolon then
              if seen_one then vp_statements f toks1 true else Fail toks
            else
              let (r, k) := vp_statement (20 * S (List.length toks)) toks in
              match r with
              | Done rest =>
                  match k with
                  | NoSemi => vp_statements f rest true
                  | NeedSemi =>
                      match rest with
                      | t2 :: rest2 =>
                          if token_eqb t2 TSemicolon then vp_statements f rest2 true else Fail rest
                      | [] => if seen_one then Done [] else More [TSemicolon]
                      end
                  end
              | More c => More (match k with NeedSemi => c ++ [TSemicolon] | NoSemi => c end)
              | other => other
              end
        end
    end.

  (* the whole text *)
  Definition vp_program (ks : list token) : vres := vp_statements (S (List.length ks)) ks false.

  (* None: a sentence.  Some i: the first i tokens are a viable prefix, i + 1 are not
     (i = length: the text is a proper prefix of a sentence: unexpected end of input) *)
  Definition first_error_index_kinds (ks : list token) : option nat :=
    match vp_program ks with
    | Done _ => None
    | Fail rest => Some (List.length ks - List.length rest)%nat
    | More _ => Some (List.length ks)
    | Stuck => Some (List.length ks)
    end.

  (* tokens that complete a viable, incomplete text to a sentence *)
  Definition completion_kinds (ks : list token) : option (list token) :=
    match vp_program ks with More c => Some c | _ => None end.

  (* the recogniser runs on the kinds of the tokens *)
  Definition first_error_index (toks : list tok) : option nat := first_error_index_kinds (kinds toks).
End ViablePrefix.

(* the location of the first `unexpected token`: the offending token, or - for the end of input -
   the one-byte range after the last token (lalrpop's last_location = the end of the last token read,
   0 if there is none; errors.rs: (location, location + 1)) *)
Definition eof_span (toks : list tok) : srcspan :=
  let e := match rev toks with t :: _ => tend t | [] => O end in (e, S e).

Definition first_error_span (tiers : list tier) (toks : list tok) : option srcspan :=
  match first_error_index tiers toks with
  | None => None
  | Some i => Some (match nth_error toks i with Some t => tspan t | None => eof_span toks end)
  end.

(* text level: None = lexical error or no syntax error *)
Definition first_error_span_text (uclass_of : N -> uclass) (tiers : list tier) (bytes : list N)
  : option srcspan :=
  match lex uclass_of bytes with
  | (toks, None) => first_error_span tiers toks
  | (_, Some _) => None
  end.

(* the completion as positioned tokens (all at the end of the text): what to append to make the
   token list a sentence *)
Definition completion (tiers : list tier) (toks : list tok) : option (list tok) :=
  match completion_kinds tiers (kinds toks) with
  | Some c => Some (map (fun k => (O, k, O)) c)
  | None => None
  end.
