(* C08 / C17: the documented width rules as a declarative typing judgement, one rule per
   sentence of the property, and the statement that the checker accepts exactly what the
   judgement derives. *)
From HclV Require Import Base Expr.
Open Scope N_scope.

Fixpoint at_flags (f : features) (C : string -> option wval) (a : arms) : list bool :=
  match a with
  | ANil => []
  | ACons c _ rest => always_true f C c :: at_flags f C rest
  end.

Definition count_true (l : list bool) : nat := List.length (filter (fun b => b) l).

(* the rules about the default arm of a case expression, each switched by its own option *)
Definition default_rules (f : features) (flags : list bool) : Prop :=
  (f_rmd f = true -> (1 <= count_true flags)%nat) /\          (* require-mux-default *)
  (f_dmd f = true -> (count_true flags <= 1)%nat) /\          (* disallow-multiple-mux-default *)
  (f_duo f = true ->                                           (* disallow-unreachable-options *)
     forall i, nth i flags false = true -> S i = List.length flags).

Section Rules.
  Variable f : features.
  Variable G : string -> option width.
  Variable C : string -> option wval.

  Inductive has_width : expr -> width -> Prop :=
  | HW_const v : has_width (EConst v) (wd v)
  | HW_wire n w : G n = Some w -> has_width (EWire n) w
    (* bitwise and shift operators: equal widths or unsized *)
  | HW_bitwise op l r wl wr w :
      kind op = EqualWidth -> has_width l wl -> has_width r wr ->
      wcombine wl wr = Some w -> has_width (EBin op l r) w
    (* comparisons: equal widths or unsized, one bit result *)
  | HW_compare op l r wl wr w :
      kind op = BooleanFromEqualWidth -> has_width l wl -> has_width r wr ->
      wcombine wl wr = Some w -> has_width (EBin op l r) (Bits 1)
    (* && and ||: one bit or unsized operands (strict-boolean-ops) *)
  | HW_logical op l r wl wr :
      kind op = BooleanCombine -> has_width l wl -> has_width r wr ->
      (f_sbo f = true -> possibly_boolean wl = true /\ possibly_boolean wr = true) ->
      has_width (EBin op l r) (Bits 1)
    (* + - * /: any widths, the wider one wins; equal widths under strict-wire-widths-binary *)
  | HW_arith op l r wl wr w :
      kind op = EqualWidthWeak -> has_width l wl -> has_width r wr ->
      (if f_swb f then wcombine wl wr = Some w else w = wmax wl wr) ->
      has_width (EBin op l r) w
  | HW_not e w : has_width e w -> has_width (EUn Not e) (Bits 1)
  | HW_unary op e w : op <> Not -> has_width e w -> has_width (EUn op e) w
    (* lo <= hi <= operand width *)
  | HW_slice e lo hi w :
      lo <= hi -> has_width e w ->
      match w with Bits iw => hi <= iw | Unl => True end ->
      has_width (ESlice e lo hi) (Bits (hi - lo))
    (* concatenation: sized operands, at most 128 bits in total *)
  | HW_cat l r lw rw :
      has_width l (Bits lw) -> has_width r (Bits rw) -> lw + rw <= 128 ->
      has_width (ECat l r) (Bits (lw + rw))
    (* set membership: every member has the width of the tested value, or is unsized *)
  | HW_in e items w : has_width e w -> items_width w items -> has_width (EIn e items) (Bits 1)
    (* case expression: all arms agree in width (or are unsized); default-arm rules *)
  | HW_mux a w :
      arms_width a Unl w -> default_rules f (at_flags f C a) -> has_width (EMux a) w
  with arms_width : arms -> width -> width -> Prop :=
  | AW_nil acc : arms_width ANil acc acc
  | AW_cons c v rest wc wv acc acc' w :
      has_width c wc -> has_width v wv -> wcombine acc wv = Some acc' ->
      arms_width rest acc' w -> arms_width (ACons c v rest) acc w
  with items_width : width -> exprs -> Prop :=
  | IW_nil w : items_width w XNil
  | IW_cons w e rest wi w' :
      has_width e wi -> wcombine w wi = Some w' -> items_width w rest ->
      items_width w (XCons e rest).
End Rules.

(* the checker accepts exactly the derivable expressions, with exactly the derived width *)
Definition stmt_check_iff : Prop :=
  forall f G C e w, check f G C e = Ok w <-> has_width f G C e w.

(* the judgement is functional: an expression has at most one width *)
Definition stmt_has_width_unique : Prop :=
  forall f G C e w w', has_width f G C e w -> has_width f G C e w' -> w = w'.

(* a rejection is never silent: it carries at least one diagnostic *)
Definition stmt_reject_has_diag : Prop :=
  forall f G C e es, check f G C e = Err es -> es <> [].

(* what the assignment target adds: expression width equals the declared width or is unsized *)
Definition assign_ok (f : features) (G : string -> option width) (C : string -> option wval)
           (dw : width) (e : expr) : Prop :=
  exists w, has_width f G C e w /\ wcombine dw w <> None.
