(* C15: proofs of the statements in YoSpec.v about the yas-listing loader model of Yo.v. *)
From HclV Require Import Base Expr Machine Yo YoSpec MemProofs.
From Coq Require Import ZifyN ZifyBool ZifyNat.
Open Scope N_scope.
Open Scope list_scope.

(* ---- small facts about bytes --------------------------------------------------------------- *)

Lemma is_hex_not_cont (b : N) : is_hex b = true -> is_cont b = false.
Proof. unfold is_hex, is_cont. lia. Qed.

Lemma is_hex_not_blank (b : N) : is_hex b = true -> (b =? 32) = false.
Proof. unfold is_hex. lia. Qed.

Lemma list_eqb_eq (a : list N) : forall b, list_eqb a b = true <-> a = b.
Proof.
  induction a as [| x r IH]; intros [| y t]; cbn [list_eqb]; split; intros H;
    try reflexivity; try discriminate.
  - apply andb_true_iff in H. destruct H as [Hxy Hrt].
    apply N.eqb_eq in Hxy. apply IH in Hrt. subst. reflexivity.
  - injection H as Hxy Hrt. subst. apply andb_true_iff. split.
    + apply N.eqb_refl.
    + apply IH. reflexivity.
Qed.

Lemma list_eqb_refl (a : list N) : list_eqb a a = true.
Proof. apply list_eqb_eq. reflexivity. Qed.

(* induction two elements at a time *)
Lemma list_ind2 (A : Type) (P : list A -> Prop) :
  P [] -> (forall a, P [a]) -> (forall a b l, P l -> P (a :: b :: l)) -> forall l, P l.
Proof.
  intros H0 H1 H2 l.
  assert (Hboth : P l /\ forall a, P (a :: l)).
  { induction l as [| x r IH].
    - split; [exact H0 | exact H1].
    - destruct IH as [IHr IHc]. split.
      + apply IHc.
      + intros a. apply H2. exact IHr. }
  exact (proj1 Hboth).
Qed.

(* ---- slicing ------------------------------------------------------------------------------- *)

(* the list is empty or starts with a byte that is not a UTF-8 continuation byte *)
Definition head_ok (q : list N) : Prop :=
  match q with [] => True | b :: _ => is_cont b = false end.

Lemma is_boundary_app (p q : list N) : head_ok q -> is_boundary (p ++ q) (List.length p) = true.
Proof.
  intros Hq. unfold is_boundary. destruct q as [| b t].
  - rewrite app_nil_r. rewrite Nat.eqb_refl. apply orb_true_iff. left. apply orb_true_r.
  - cbn [head_ok] in Hq. rewrite nth_middle. rewrite Hq. cbn [negb].
    rewrite app_length. cbn [List.length].
    assert (Hlt : (List.length p <? List.length p + S (List.length t))%nat = true)
      by (apply Nat.ltb_lt; lia).
    rewrite Hlt. cbn [andb]. apply orb_true_r.
Qed.

Lemma get_range_app (p x q : list N) (a b : nat) :
  a = List.length p -> b = (a + List.length x)%nat ->
  head_ok (x ++ q) -> head_ok q ->
  get_range (p ++ x ++ q) a b = Some x.
Proof.
  intros Ha Hb Hxq Hq. unfold get_range.
  assert (H1 : is_boundary (p ++ x ++ q) a = true).
  { rewrite Ha. apply is_boundary_app. exact Hxq. }
  assert (H2 : is_boundary (p ++ x ++ q) b = true).
  { rewrite app_assoc. replace b with (List.length (p ++ x)).
    - apply is_boundary_app. exact Hq.
    - rewrite app_length. lia. }
  assert (H3 : (a <=? b)%nat = true) by (apply Nat.leb_le; lia).
  assert (H4 : (b <=? List.length (p ++ x ++ q))%nat = true).
  { apply Nat.leb_le. rewrite !app_length. lia. }
  rewrite H1, H2, H3, H4. cbn [andb]. f_equal.
  rewrite Ha. rewrite skipn_app. rewrite skipn_all, Nat.sub_diag. cbn [skipn app].
  replace (b - List.length p)%nat with (List.length x) by lia.
  rewrite firstn_app. rewrite firstn_all, Nat.sub_diag. cbn [firstn]. apply app_nil_r.
Qed.

Lemma get_range_Some (l : list N) (a b : nat) (x : list N) :
  get_range l a b = Some x ->
  (a <= b)%nat /\ (b <= List.length l)%nat /\ x = firstn (b - a) (skipn a l).
Proof.
  unfold get_range. intros H.
  destruct ((a <=? b)%nat && (b <=? List.length l)%nat && is_boundary l a && is_boundary l b)
    eqn:Hc; [| discriminate].
  injection H as Hx.
  apply andb_true_iff in Hc. destruct Hc as [Hc _].
  apply andb_true_iff in Hc. destruct Hc as [Hc _].
  apply andb_true_iff in Hc. destruct Hc as [Hab Hbl].
  apply Nat.leb_le in Hab. apply Nat.leb_le in Hbl.
  split; [exact Hab |]. split; [exact Hbl |]. symmetry. exact Hx.
Qed.

Lemma skipn_split (l : list N) (a b : nat) :
  (a <= b)%nat -> skipn a l = firstn (b - a) (skipn a l) ++ skipn b l.
Proof.
  revert l b. induction a as [| a IH]; intros l b Hab.
  - rewrite Nat.sub_0_r. cbn [skipn]. symmetry. apply firstn_skipn.
  - destruct b as [| b]; [lia |]. destruct l as [| x l].
    + rewrite !skipn_nil, firstn_nil. reflexivity.
    + cbn [skipn Nat.sub]. apply IH. lia.
Qed.

Lemma slice_length (l : list N) (a b : nat) :
  (a <= b)%nat -> (b <= List.length l)%nat -> List.length (firstn (b - a) (skipn a l)) = (b - a)%nat.
Proof.
  intros Hab Hbl. rewrite firstn_length, skipn_length. lia.
Qed.

(* ---- the byte field ------------------------------------------------------------------------ *)

Lemma load_bytes_app (bd : list N) : forall m loc filler,
  forallb is_hex bd = true -> Nat.even (List.length bd) = true ->
  (filler = [] \/ exists t, filler = 32 :: t) ->
  load_bytes m loc (bd ++ filler) = Some (put_bytes m loc (pair_values bd)).
Proof.
  induction bd as [| a | a b r IH] using list_ind2; intros m loc filler Hhex Hev Hfill.
  - cbn [app pair_values put_bytes].
    destruct Hfill as [Hf | [t Hf]]; subst filler; cbn [load_bytes].
    + reflexivity.
    + rewrite N.eqb_refl. reflexivity.
  - cbn in Hev. discriminate.
  - cbn [forallb] in Hhex.
    apply andb_true_iff in Hhex. destruct Hhex as [Ha Hhex].
    apply andb_true_iff in Hhex. destruct Hhex as [Hb Hr].
    cbn [app load_bytes pair_values put_bytes].
    rewrite (is_hex_not_blank a Ha). rewrite Ha, Hb. cbn [andb].
    apply IH; [exact Hr | | exact Hfill].
    cbn [List.length] in Hev. cbn [Nat.even] in Hev. exact Hev.
Qed.

Lemma load_bytes_inv (field : list N) : forall m loc m',
  load_bytes m loc field = Some m' ->
  exists bd filler,
    field = bd ++ filler /\ forallb is_hex bd = true /\ Nat.even (List.length bd) = true /\
    (filler = [] \/ exists t, filler = 32 :: t) /\
    m' = put_bytes m loc (pair_values bd).
Proof.
  induction field as [| a | a b r IH] using list_ind2; intros m loc m' H.
  - cbn [load_bytes] in H. injection H as Hm. subst m'.
    exists [], []. repeat split. left. reflexivity.
  - cbn [load_bytes] in H. destruct (a =? 32) eqn:Ha; [| discriminate].
    injection H as Hm. subst m'. apply N.eqb_eq in Ha. subst a.
    exists [], [32]. repeat split. right. exists []. reflexivity.
  - cbn [load_bytes] in H. destruct (a =? 32) eqn:Ha.
    + injection H as Hm. subst m'. apply N.eqb_eq in Ha. subst a.
      exists [], (32 :: b :: r). repeat split. right. exists (b :: r). reflexivity.
    + destruct (is_hex a && is_hex b) eqn:Hab; [| discriminate].
      apply andb_true_iff in Hab. destruct Hab as [Hha Hhb].
      apply IH in H. destruct H as (bd & filler & Hr & Hhex & Hev & Hfill & Hm).
      exists (a :: b :: bd), filler. split; [| split; [| split; [| split]]].
      * rewrite Hr. reflexivity.
      * cbn [forallb]. rewrite Hha, Hhb, Hhex. reflexivity.
      * cbn [List.length Nat.even]. exact Hev.
      * exact Hfill.
      * cbn [pair_values put_bytes]. exact Hm.
Qed.

(* ---- load_line ----------------------------------------------------------------------------- *)

Theorem load_data_line_ok : stmt_load_data_line.
Proof.
  intros m ad bd filler rest Hok.
  destruct Hok as (Hlen & Hadhex & Hbdhex & Hev & Hfl & Hfill & _ & _ & Hrest).
  destruct ad as [| a0 [| a1 [| a2 [| a3 ad']]]]; try (cbn in Hlen; discriminate).
  clear Hlen.
  assert (Ha0 : is_hex a0 = true).
  { cbn [forallb] in Hadhex. apply andb_true_iff in Hadhex. exact (proj1 Hadhex). }
  assert (Hrest' : head_ok rest).
  { destruct Hrest as [Hr | (b & t & Hr & Hb)]; subst rest; cbn [head_ok]; [exact I | exact Hb]. }
  set (field := bd ++ filler).
  assert (Hflen : List.length field = 20%nat) by (unfold field; rewrite app_length; exact Hfl).
  assert (Hfield : head_ok (field ++ [32; 124] ++ rest)).
  { unfold field. destruct bd as [| b0 bd'].
    - destruct Hfill as [Hf | [t Hf]]; subst filler.
      + cbn in Hfl. discriminate.
      + cbn. reflexivity.
    - cbn [app head_ok]. cbn [forallb] in Hbdhex. apply andb_true_iff in Hbdhex.
      apply is_hex_not_cont. exact (proj1 Hbdhex). }
  assert (HL : data_line [a0; a1; a2] bd filler rest =
               [48; 120] ++ [a0; a1; a2] ++ [58; 32] ++ field ++ [32; 124] ++ rest).
  { unfold data_line, field. rewrite <- (app_assoc bd filler). reflexivity. }
  rewrite HL.
  set (tail := [32; 124] ++ rest).
  assert (R0 : get_range ([48; 120] ++ [a0; a1; a2] ++ [58; 32] ++ field ++ tail) 0 2
               = Some [48; 120]).
  { apply (get_range_app [] [48; 120] ([a0; a1; a2] ++ [58; 32] ++ field ++ tail));
      try reflexivity.
    cbn [app head_ok]. apply is_hex_not_cont. exact Ha0. }
  assert (R1 : get_range ([48; 120] ++ [a0; a1; a2] ++ [58; 32] ++ field ++ tail) 2 5
               = Some [a0; a1; a2]).
  { apply (get_range_app [48; 120] [a0; a1; a2] ([58; 32] ++ field ++ tail));
      try reflexivity.
    cbn [app head_ok]. apply is_hex_not_cont. exact Ha0. }
  assert (R2 : get_range ([48; 120] ++ [a0; a1; a2] ++ [58; 32] ++ field ++ tail) 5 7
               = Some [58; 32]).
  { apply (get_range_app [48; 120; a0; a1; a2] [58; 32] (field ++ tail));
      try reflexivity.
    exact Hfield. }
  assert (R3 : get_range ([48; 120] ++ [a0; a1; a2] ++ [58; 32] ++ field ++ tail) 7 27
               = Some field).
  { apply (get_range_app [48; 120; a0; a1; a2; 58; 32] field tail).
    - reflexivity.
    - rewrite Hflen. reflexivity.
    - exact Hfield.
    - reflexivity. }
  assert (R4 : get_range ([48; 120] ++ [a0; a1; a2] ++ [58; 32] ++ field ++ tail) 27 29
               = Some [32; 124]).
  { replace ([48; 120] ++ [a0; a1; a2] ++ [58; 32] ++ field ++ tail)
      with (([48; 120; a0; a1; a2; 58; 32] ++ field) ++ [32; 124] ++ rest)
      by (rewrite <- app_assoc; reflexivity).
    apply (get_range_app ([48; 120; a0; a1; a2; 58; 32] ++ field) [32; 124] rest).
    - rewrite app_length, Hflen. reflexivity.
    - reflexivity.
    - reflexivity.
    - exact Hrest'. }
  unfold load_line. rewrite R0, R1, R2, R3, R4.
  rewrite !list_eqb_refl. cbn [andb]. rewrite Hadhex.
  unfold field. apply load_bytes_app; assumption.
Qed.

(* the two ways load_line can go *)
Lemma load_line_cases (m : memory) (l : list N) :
  (exists addr field rest,
      l = [48; 120] ++ addr ++ [58; 32] ++ field ++ [32; 124] ++ rest /\
      List.length addr = 3%nat /\ List.length field = 20%nat /\
      load_line m l = if forallb is_hex addr then load_bytes m (hex_value addr 0) field else None) \/
  load_line m l = if has_pipe l && negb (starts_with comment_prefix l) then None else Some m.
Proof.
  unfold load_line, has_pipe.
  destruct (get_range l 0 2) as [p0 |] eqn:R0; [| right; reflexivity].
  destruct (get_range l 2 5) as [addr |] eqn:R1; [| right; reflexivity].
  destruct (get_range l 5 7) as [p1 |] eqn:R2; [| right; reflexivity].
  destruct (get_range l 7 27) as [field |] eqn:R3; [| right; reflexivity].
  destruct (get_range l 27 29) as [p2 |] eqn:R4; [| right; reflexivity].
  destruct (list_eqb p0 [48; 120] && list_eqb p1 [58; 32] && list_eqb p2 [32; 124]) eqn:Hpat;
    [| right; reflexivity].
  left.
  apply andb_true_iff in Hpat. destruct Hpat as [Hpat Hp2].
  apply andb_true_iff in Hpat. destruct Hpat as [Hp0 Hp1].
  apply list_eqb_eq in Hp0. apply list_eqb_eq in Hp1. apply list_eqb_eq in Hp2.
  apply get_range_Some in R0. destruct R0 as (_ & _ & E0).
  apply get_range_Some in R1. destruct R1 as (_ & _ & E1).
  apply get_range_Some in R2. destruct R2 as (_ & _ & E2).
  apply get_range_Some in R3. destruct R3 as (_ & _ & E3).
  apply get_range_Some in R4. destruct R4 as (_ & Hlen & E4).
  exists addr, field, (skipn 29 l).
  split; [| split; [| split]].
  - rewrite <- Hp0, <- Hp1, <- Hp2, E0, E1, E2, E3, E4.
    rewrite <- (skipn_split l 27 29) by lia.
    rewrite <- (skipn_split l 7 27) by lia.
    rewrite <- (skipn_split l 5 7) by lia.
    rewrite <- (skipn_split l 2 5) by lia.
    rewrite <- (skipn_split l 0 2) by lia.
    reflexivity.
  - rewrite E1. apply slice_length; lia.
  - rewrite E3. apply slice_length; lia.
  - reflexivity.
Qed.

Lemma comment_prefix_head (l : list N) :
  starts_with comment_prefix l = true -> exists t, l = 32 :: t.
Proof.
  change comment_prefix with (32 :: (repeat 32 27 ++ [124])).
  destruct l as [| x t]; cbn [starts_with]; intros H; [discriminate |].
  apply andb_true_iff in H. destruct H as [Hx _]. apply N.eqb_eq in Hx. subst x.
  exists t. reflexivity.
Qed.

Theorem ignored_lines_ok : stmt_ignored_lines.
Proof.
  intros m l Hl.
  destruct (load_line_cases m l) as [(addr & field & rest & El & Hal & Hfl & _) | Hfall].
  - exfalso. destruct Hl as [Hc | Hp].
    + apply comment_prefix_head in Hc. destruct Hc as [t Ht].
      rewrite Ht in El. cbn [app] in El. discriminate.
    + unfold has_pipe in Hp. rewrite El in Hp.
      rewrite !existsb_app in Hp. cbn [existsb] in Hp.
      rewrite N.eqb_refl in Hp. rewrite !orb_true_r in Hp. discriminate.
  - rewrite Hfall. destruct Hl as [Hc | Hp].
    + rewrite Hc. cbn [negb]. rewrite andb_false_r. reflexivity.
    + rewrite Hp. reflexivity.
Qed.

Theorem accepts_only_ok : stmt_accepts_only.
Proof.
  intros m l m' H.
  destruct (load_line_cases m l) as [(addr & field & rest & El & Hal & Hfl & Hdata) | Hfall].
  - left. rewrite Hdata in H.
    destruct (forallb is_hex addr) eqn:Hhex; [| discriminate].
    apply load_bytes_inv in H. destruct H as (bd & filler & Hf & Hbd & Hev & Hfill & Hm).
    exists addr, bd, filler, rest.
    split; [| split; [| split; [| split; [| split; [| split; [| split]]]]]].
    + unfold data_line. rewrite El, Hf. rewrite <- (app_assoc bd filler). reflexivity.
    + exact Hal.
    + exact Hhex.
    + exact Hbd.
    + exact Hev.
    + rewrite <- app_length, <- Hf. exact Hfl.
    + exact Hfill.
    + exact Hm.
  - right. rewrite Hfall in H.
    destruct (has_pipe l) eqn:Hp.
    + destruct (starts_with comment_prefix l) eqn:Hc.
      * cbn [negb andb] in H. injection H as Hm. split; [symmetry; exact Hm |]. left. reflexivity.
      * cbn [negb andb] in H. discriminate.
    + cbn [andb] in H. injection H as Hm. split; [symmetry; exact Hm |]. right. reflexivity.
Qed.

(* ---- whole files --------------------------------------------------------------------------- *)

Lemma load_lines_apply (lines : list (list N)) : forall m,
  load_lines m lines =
  match apply_lines m lines with Some m' => Ok m' | None => err1 UnparseableLine [] end.
Proof.
  induction lines as [| l r IH]; intros m; cbn [load_lines apply_lines].
  - reflexivity.
  - destruct (load_line m l) as [m1 |] eqn:Hl.
    + apply IH.
    + reflexivity.
Qed.

Theorem load_file_ok : stmt_load_file.
Proof.
  intros m data. unfold load_from_y86.
  destruct (split_lines data []) as [| l r] eqn:Hs.
  - reflexivity.
  - apply load_lines_apply.
Qed.

(* ---- put_bytes ----------------------------------------------------------------------------- *)

Theorem put_bytes_get_ok : stmt_put_bytes_get.
Proof.
  intros bs. induction bs as [| b r IH]; intros m a x.
  - cbn [put_bytes List.length].
    destruct ((a <=? x) && (x <? a + N.of_nat 0)) eqn:Hc; [lia | reflexivity].
  - cbn [put_bytes]. rewrite IH. rewrite mem_get_put.
    destruct ((a + 1 <=? x) && (x <? a + 1 + N.of_nat (List.length r))) eqn:Hin.
    + assert (Hc : (a <=? x) && (x <? a + N.of_nat (List.length (b :: r))) = true)
        by (cbn [List.length]; lia).
      rewrite Hc. f_equal.
      replace (N.to_nat (x - a)) with (S (N.to_nat (x - (a + 1)))) by lia.
      reflexivity.
    + destruct (x =? a) eqn:Hxa.
      * assert (Hc : (a <=? x) && (x <? a + N.of_nat (List.length (b :: r))) = true)
          by (cbn [List.length]; lia).
        rewrite Hc. f_equal.
        replace (N.to_nat (x - a)) with 0%nat by lia.
        reflexivity.
      * assert (Hc : (a <=? x) && (x <? a + N.of_nat (List.length (b :: r))) = false)
          by (cbn [List.length]; lia).
        rewrite Hc. reflexivity.
Qed.

Print Assumptions load_data_line_ok.
Print Assumptions ignored_lines_ok.
Print Assumptions accepts_only_ok.
Print Assumptions load_file_ok.
Print Assumptions put_bytes_get_ok.
