From Coq Require Import Permutation Sorted ZifyBool ZifyNat ZifyN.
From HclV Require Import Base Expr ExprProofs Machine Graph GraphSpec GraphProofs Build MachineSpec MachineProofs SchedSpec SchedProofs BuildSpec BuildProofs Generated TableSpec.
Open Scope string_scope.
Open Scope N_scope.

Lemma N_of_ascii_inj (a b : ascii) : N_of_ascii a = N_of_ascii b -> a = b.
Proof.
  intros H. rewrite <- (ascii_N_embedding a), <- (ascii_N_embedding b). now rewrite H.
Qed.

Lemma string_ltb_irrefl (a : string) : string_ltb a a = false.
Proof.
  induction a as [|x a IH]; cbn [string_ltb]; [reflexivity|].
  destruct (N_of_ascii x <? N_of_ascii x) eqn:E; [lia|exact IH].
Qed.

Lemma string_ltb_trans (a : string) : forall b c,
  string_ltb a b = true -> string_ltb b c = true -> string_ltb a c = true.
Proof.
  induction a as [|x a IH]; intros [|y b] [|z c] Hab Hbc; cbn [string_ltb] in *;
    try discriminate; try reflexivity.
  destruct (N_of_ascii x <? N_of_ascii y) eqn:E1.
  - destruct (N_of_ascii y <? N_of_ascii z) eqn:E2.
    + destruct (N_of_ascii x <? N_of_ascii z) eqn:E3; [reflexivity|lia].
    + destruct (N_of_ascii z <? N_of_ascii y) eqn:E4; [discriminate|].
      destruct (N_of_ascii x <? N_of_ascii z) eqn:E3; [reflexivity|lia].
  - destruct (N_of_ascii y <? N_of_ascii x) eqn:E1'; [discriminate|].
    destruct (N_of_ascii y <? N_of_ascii z) eqn:E2.
    + destruct (N_of_ascii x <? N_of_ascii z) eqn:E3; [reflexivity|lia].
    + destruct (N_of_ascii z <? N_of_ascii y) eqn:E4; [discriminate|].
      destruct (N_of_ascii x <? N_of_ascii z) eqn:E3; [reflexivity|].
      destruct (N_of_ascii z <? N_of_ascii x) eqn:E5; [lia|].
      exact (IH b c Hab Hbc).
Qed.

Lemma string_ltb_total (a : string) : forall b,
  string_ltb a b = false -> string_ltb b a = false -> a = b.
Proof.
  induction a as [|x a IH]; intros [|y b] Hab Hba; cbn [string_ltb] in *;
    try discriminate; try reflexivity.
  destruct (N_of_ascii x <? N_of_ascii y) eqn:E1; [discriminate|].
  destruct (N_of_ascii y <? N_of_ascii x) eqn:E2; [discriminate|].
  assert (Hxy : x = y) by (apply N_of_ascii_inj; lia).
  subst y. f_equal. exact (IH b Hab Hba).
Qed.

Lemma string_ltb_asym (a b : string) : string_ltb a b = true -> string_ltb b a = false.
Proof.
  intros H. destruct (string_ltb b a) eqn:E; [|reflexivity].
  pose proof (string_ltb_trans a b a H E) as C. rewrite string_ltb_irrefl in C. discriminate.
Qed.

(* ---- the table order ------------------------------------------------------------------------- *)
Theorem key_order_characterised_holds : stmt_key_order_characterised.
Proof.
  intros a b. unfold key_before, key_ltb, upper.
  set (ua := map_string to_upper_ascii a). set (ub := map_string to_upper_ascii b).
  destruct (string_ltb ua ub) eqn:E1.
  - split; [intros _; left; reflexivity | reflexivity].
  - destruct (string_ltb ub ua) eqn:E2.
    + split; [discriminate|]. intros [H|[Heq H]]; [discriminate|].
      rewrite Heq, string_ltb_irrefl in E2. discriminate.
    + split.
      * intros H. right. split; [exact (string_ltb_total ua ub E1 E2)|exact H].
      * intros [H|[_ H]]; [discriminate|exact H].
Qed.

Lemma key_ltb_irrefl (a : string) : key_ltb a a = false.
Proof. unfold key_ltb. now rewrite !string_ltb_irrefl. Qed.

Lemma key_ltb_trans (a b c : string) : key_ltb a b = true -> key_ltb b c = true -> key_ltb a c = true.
Proof.
  intros Hab Hbc.
  apply (proj1 (key_order_characterised_holds a b)) in Hab.
  apply (proj1 (key_order_characterised_holds b c)) in Hbc.
  apply (proj2 (key_order_characterised_holds a c)).
  destruct Hab as [Hab|[Eab Hab]]; destruct Hbc as [Hbc|[Ebc Hbc]].
  - left. exact (string_ltb_trans _ _ _ Hab Hbc).
  - left. rewrite <- Ebc. exact Hab.
  - left. rewrite Eab. exact Hbc.
  - right. split; [congruence|exact (string_ltb_trans _ _ _ Hab Hbc)].
Qed.

Lemma key_ltb_total (a b : string) : key_ltb a b = false -> key_ltb b a = false -> a = b.
Proof.
  unfold key_ltb. intros Hab Hba.
  destruct (string_ltb (map_string to_upper_ascii a) (map_string to_upper_ascii b)) eqn:E1; [discriminate|].
  destruct (string_ltb (map_string to_upper_ascii b) (map_string to_upper_ascii a)) eqn:E2; [discriminate|].
  exact (string_ltb_total a b Hab Hba).
Qed.

Theorem key_order_strict_total_holds : stmt_key_order_strict_total.
Proof.
  unfold stmt_key_order_strict_total, key_before. split; [|split].
  - intros a H. rewrite (key_ltb_irrefl a) in H. discriminate.
  - exact key_ltb_trans.
  - intros a b Hne. destruct (key_ltb a b) eqn:E1; [left; reflexivity|].
    destruct (key_ltb b a) eqn:E2; [right; reflexivity|].
    exfalso. exact (Hne (key_ltb_total a b E1 E2)).
Qed.

(* the worry: names differing only in case.  They do NOT compare equal. *)
Example key_order_case_pair :
  key_ltb "FOO" "foo" = true /\ key_ltb "foo" "FOO" = false /\
  sort_strings key_ltb ["foo"; "FOO"; "Foo"] = sort_strings key_ltb ["Foo"; "FOO"; "foo"].
Proof. vm_compute. repeat split. Qed.

(* ---- insertion sort under a strict total order ---------------------------------------------- *)
Section Sorting.
  Variable ltb : string -> string -> bool.
  Hypothesis ltb_irrefl : forall a, ltb a a = false.
  Hypothesis ltb_trans : forall a b c, ltb a b = true -> ltb b c = true -> ltb a c = true.
  Hypothesis ltb_total : forall a b, ltb a b = false -> ltb b a = false -> a = b.

  Definition leS (a b : string) : Prop := ltb b a = false.
  Definition ltS (a b : string) : Prop := ltb a b = true.

  Lemma ltb_asym a b : ltb a b = true -> ltb b a = false.
  Proof.
    intros H. destruct (ltb b a) eqn:E; [|reflexivity].
    pose proof (ltb_trans a b a H E) as C. rewrite ltb_irrefl in C. discriminate.
  Qed.

  Lemma leS_trans a b c : leS a b -> leS b c -> leS a c.
  Proof.
    unfold leS. intros Hab Hbc. destruct (ltb c a) eqn:Eca; [|reflexivity]. exfalso.
    destruct (ltb a b) eqn:Eab.
    - pose proof (ltb_trans c a b Eca Eab) as C. rewrite C in Hbc. discriminate.
    - pose proof (ltb_total a b Eab Hab) as ->. rewrite Eca in Hbc. discriminate.
  Qed.

  Lemma leS_antisym a b : leS a b -> leS b a -> a = b.
  Proof. unfold leS. intros H1 H2. exact (ltb_total a b H2 H1). Qed.

  Lemma insert_sorted_perm x l : Permutation (insert_sorted ltb x l) (x :: l).
  Proof.
    induction l as [|y r IH]; cbn [insert_sorted]; [apply Permutation_refl|].
    destruct (ltb y x); [|apply Permutation_refl].
    eapply perm_trans; [apply perm_skip; exact IH|apply perm_swap].
  Qed.

  Lemma sort_strings_perm l : Permutation (sort_strings ltb l) l.
  Proof.
    induction l as [|x r IH]; cbn [sort_strings fold_right]; [apply perm_nil|].
    eapply perm_trans; [apply insert_sorted_perm|]. apply perm_skip. exact IH.
  Qed.

  Lemma insert_sorted_sorted x l : StronglySorted leS l -> StronglySorted leS (insert_sorted ltb x l).
  Proof.
    induction l as [|y r IH]; intros Hs; cbn [insert_sorted].
    - constructor; constructor.
    - inversion Hs as [|y' r' Hr Hall]; subst y' r'.
      destruct (ltb y x) eqn:E.
      + constructor; [exact (IH Hr)|].
        apply Forall_forall. intros z Hz.
        apply (Permutation_in _ (insert_sorted_perm x r)) in Hz. destruct Hz as [<-|Hz].
        * exact (ltb_asym y x E).
        * exact (proj1 (Forall_forall _ _) Hall z Hz).
      + constructor; [exact Hs|].
        constructor; [exact E|].
        apply Forall_forall. intros z Hz.
        apply (leS_trans x y z E). exact (proj1 (Forall_forall _ _) Hall z Hz).
  Qed.

  Lemma sort_strings_sorted l : StronglySorted leS (sort_strings ltb l).
  Proof.
    induction l as [|x r IH]; cbn [sort_strings fold_right]; [constructor|].
    apply insert_sorted_sorted. exact IH.
  Qed.

  Lemma sorted_perm_eq l : forall l', StronglySorted leS l -> StronglySorted leS l' ->
    Permutation l l' -> l = l'.
  Proof.
    induction l as [|a r IH]; intros l' Hs Hs' Hp.
    - apply Permutation_nil in Hp. now subst l'.
    - destruct l' as [|a' r']; [apply Permutation_sym, Permutation_nil in Hp; discriminate|].
      inversion Hs as [|x1 x2 Hr Hall]; subst x1 x2.
      inversion Hs' as [|x1 x2 Hr' Hall']; subst x1 x2.
      assert (Haa : a = a').
      { assert (H1 : In a (a' :: r')) by (apply (Permutation_in _ Hp); left; reflexivity).
        assert (H2 : In a' (a :: r)) by (apply (Permutation_in _ (Permutation_sym Hp)); left; reflexivity).
        destruct H1 as [H1|H1]; [now symmetry|]. destruct H2 as [H2|H2]; [exact H2|].
        apply leS_antisym.
        - exact (proj1 (Forall_forall _ _) Hall a' H2).
        - exact (proj1 (Forall_forall _ _) Hall' a H1). }
      subst a'. f_equal. apply IH; [exact Hr|exact Hr'|].
      exact (Permutation_cons_inv Hp).
  Qed.

  Lemma sort_strings_order_free l l' : Permutation l l' -> sort_strings ltb l = sort_strings ltb l'.
  Proof.
    intros Hp. apply sorted_perm_eq; try apply sort_strings_sorted.
    eapply perm_trans; [apply sort_strings_perm|].
    eapply perm_trans; [exact Hp|]. apply Permutation_sym, sort_strings_perm.
  Qed.

  (* with distinct elements the sorted list is strictly ascending *)
  Lemma sorted_strict l : NoDup l -> StronglySorted leS l -> StronglySorted ltS l.
  Proof.
    induction l as [|a r IH]; intros Hnd Hs; [constructor|].
    inversion Hnd as [|x1 x2 Hnin Hnd']; subst x1 x2.
    inversion Hs as [|x1 x2 Hr Hall]; subst x1 x2.
    constructor; [exact (IH Hnd' Hr)|].
    apply Forall_forall. intros z Hz. unfold ltS.
    destruct (ltb a z) eqn:E; [reflexivity|]. exfalso.
    pose proof (proj1 (Forall_forall _ _) Hall z Hz) as Hle. unfold leS in Hle.
    apply Hnin. rewrite (ltb_total a z E Hle). exact Hz.
  Qed.

  Lemma strict_le l : StronglySorted ltS l -> StronglySorted leS l.
  Proof.
    induction 1 as [|a r Hr IH Hall]; [constructor|].
    constructor; [exact IH|]. apply Forall_forall. intros z Hz.
    exact (ltb_asym a z (proj1 (Forall_forall _ _) Hall z Hz)).
  Qed.

  Lemma sort_strings_NoDup l : NoDup l -> NoDup (sort_strings ltb l).
  Proof. intros H. exact (Permutation_NoDup (Permutation_sym (sort_strings_perm l)) H). Qed.

  Lemma sort_strings_nil_iff l : sort_strings ltb l = [] <-> l = [].
  Proof.
    split; intros H.
    - pose proof (sort_strings_perm l) as Hp. rewrite H in Hp. now apply Permutation_nil in Hp.
    - now subst l.
  Qed.
End Sorting.

Theorem sort_order_free_holds : stmt_sort_order_free.
Proof.
  intros l l' Hp.
  exact (sort_strings_order_free key_ltb key_ltb_irrefl key_ltb_trans key_ltb_total l l' Hp).
Qed.

Theorem rows_exactly_unique_holds : stmt_rows_exactly_unique.
Proof.
  intros P ks ks' (Hnd & Hin & Hs) (Hnd' & Hin' & Hs').
  apply (sorted_perm_eq key_ltb key_ltb_total).
  - exact (strict_le key_ltb key_ltb_irrefl key_ltb_trans ks Hs).
  - exact (strict_le key_ltb key_ltb_irrefl key_ltb_trans ks' Hs').
  - apply NoDup_Permutation; [exact Hnd|exact Hnd'|].
    intros k. rewrite Hin, Hin'. reflexivity.
Qed.

(* ---- reading the map by key ------------------------------------------------------------------- *)
Theorem lookup_perm_holds : stmt_lookup_perm.
Proof.
  intros vals vals' Hnd Hp k.
  assert (Hnd' : NoDup (map fst vals')).
  { exact (Permutation_NoDup (Permutation_map fst Hp) Hnd). }
  destruct (lookup vals k) as [v|] eqn:E.
  - symmetry. apply In_lookup; [exact Hnd'|].
    apply (Permutation_in _ Hp). apply lookup_In. exact E.
  - symmetry. apply lookup_None. intros Hin.
    apply (proj1 (lookup_None vals k) E).
    exact (Permutation_in _ (Permutation_sym (Permutation_map fst Hp)) Hin).
Qed.

Lemma val_of_ext vals vals' k : lookup vals k = lookup vals' k -> val_of vals k = val_of vals' k.
Proof. unfold val_of. now intros ->. Qed.

Lemma get_value_val_of vals k : lookup vals k <> None -> get_value vals k = Ok (val_of vals k).
Proof.
  unfold get_value, val_of. destruct (lookup vals k); [reflexivity|]. intros H. now contradiction H.
Qed.

(* ---- column widths are maxima ------------------------------------------------------------------ *)
Lemma fold_max_acc (l : list N) (a m : N) :
  fold_right N.max (N.max a m) l = N.max a (fold_right N.max m l).
Proof. induction l as [|x r IH]; cbn [fold_right]; [reflexivity|]. rewrite IH. lia. Qed.

Lemma fold_max_perm (l l' : list N) (m : N) :
  Permutation l l' -> fold_right N.max m l = fold_right N.max m l'.
Proof.
  induction 1 as [|x l l' _ IH|x y l|l l' l'' _ IH1 _ IH2]; cbn [fold_right].
  - reflexivity.
  - now rewrite IH.
  - lia.
  - now rewrite IH1.
Qed.

Definition present (vals : list (string * wval)) (k : string) : Prop := lookup vals k <> None.

Lemma find_table_widths_max vals : forall ks mn mv,
  Forall (present vals) ks ->
  find_table_widths vals ks mn mv =
  Ok (fold_right N.max mn (map slen ks),
      fold_right N.max mv (map (fun k => value_width_len (val_of vals k)) ks)).
Proof.
  induction ks as [|k r IH]; intros mn mv Hall; cbn [find_table_widths map fold_right].
  - reflexivity.
  - inversion Hall as [|x1 x2 Hk Hr]; subst x1 x2.
    rewrite (get_value_val_of vals k Hk). cbn [bind].
    rewrite (IH _ _ Hr). rewrite !fold_max_acc. reflexivity.
Qed.

Lemma table_rows_text vals mn mv : forall ks,
  Forall (present vals) ks -> table_rows vals ks mn mv = Ok (rows_text vals ks mn mv).
Proof.
  induction ks as [|k r IH]; intros Hall; cbn [table_rows].
  - reflexivity.
  - inversion Hall as [|x1 x2 Hk Hr]; subst x1 x2.
    rewrite (get_value_val_of vals k Hk). cbn [bind]. rewrite (IH Hr). cbn [bind].
    reflexivity.
Qed.

Lemma name_col_perm ks ks' : Permutation ks ks' -> name_col ks = name_col ks'.
Proof. intros H. unfold name_col. apply fold_max_perm. apply Permutation_map. exact H. Qed.

Lemma value_col_perm vals ks ks' : Permutation ks ks' -> value_col vals ks = value_col vals ks'.
Proof. intros H. unfold value_col. apply fold_max_perm. apply Permutation_map. exact H. Qed.

Notation ksort := (sort_strings key_ltb).

Lemma ksort_perm l : Permutation (ksort l) l.
Proof. apply sort_strings_perm. Qed.

(* a sub-table = the canonical text over the sorted keys *)
Lemma dump_wire_subtable_text vals keys label header :
  Forall (present vals) keys ->
  dump_wire_subtable vals keys label header = Ok (subtable_text vals (ksort keys) label header).
Proof.
  intros Hall. unfold dump_wire_subtable, subtable_text.
  destruct keys as [|k0 r0] eqn:Ek.
  - reflexivity.
  - rewrite <- Ek in *.
    destruct (ksort keys) as [|s0 sr] eqn:Es.
    { apply (proj1 (sort_strings_nil_iff key_ltb keys)) in Es. rewrite Es in Ek. discriminate. }
    rewrite <- Es.
    rewrite (find_table_widths_max vals keys 15 22 Hall). cbn [bind].
    assert (Hall' : Forall (present vals) (ksort keys)).
    { apply Forall_forall. intros k Hk.
      exact (proj1 (Forall_forall _ _) Hall k (Permutation_in _ (ksort_perm keys) Hk)). }
    rewrite (table_rows_text vals _ _ _ Hall'). cbn [bind].
    fold (name_col keys). fold (value_col vals keys).
    rewrite (name_col_perm _ _ (ksort_perm keys)), (value_col_perm vals _ _ (ksort_perm keys)).
    reflexivity.
Qed.

(* the canonical text reads the map by key only *)
Lemma subtable_text_ext vals vals' ks label header :
  (forall k, In k ks -> lookup vals k = lookup vals' k) ->
  subtable_text vals ks label header = subtable_text vals' ks label header.
Proof.
  intros H. unfold subtable_text. destruct ks as [|k0 r0] eqn:Ek; [reflexivity|]. rewrite <- Ek in *.
  assert (Hv : value_col vals ks = value_col vals' ks).
  { unfold value_col. f_equal. apply map_ext_in. intros k Hk. now rewrite (val_of_ext vals vals' k (H k Hk)). }
  rewrite Hv. unfold rows_text.
  assert (Hr : map (fun k => table_row k (val_of vals k) (name_col ks) (value_col vals' ks)) ks =
               map (fun k => table_row k (val_of vals' k) (name_col ks) (value_col vals' ks)) ks).
  { apply map_ext_in. intros k Hk. now rewrite (val_of_ext vals vals' k (H k Hk)). }
  rewrite Hr. reflexivity.
Qed.

Lemma keys_present vals (g : string -> bool) : Forall (present vals) (filter g (map fst vals)).
Proof.
  apply Forall_forall. intros k Hk. apply filter_In in Hk. destruct Hk as [Hk _].
  unfold present. intros Hn. exact (proj1 (lookup_None vals k) Hn Hk).
Qed.

Lemma filter_perm {A} (g : A -> bool) (l l' : list A) :
  Permutation l l' -> Permutation (filter g l) (filter g l').
Proof.
  induction 1 as [|x l l' _ IH|x y l|l l' l'' _ IH1 _ IH2]; cbn [filter].
  - apply perm_nil.
  - destruct (g x); [apply perm_skip|]; exact IH.
  - destruct (g x), (g y); try apply Permutation_refl. apply perm_swap.
  - exact (perm_trans IH1 IH2).
Qed.

(* one sub-table over the keys selected by g, for two enumerations of the same map *)
Lemma subtable_order_free vals vals' (g : string -> bool) label header :
  NoDup (map fst vals) -> Permutation vals vals' ->
  dump_wire_subtable vals (filter g (map fst vals)) label header =
  dump_wire_subtable vals' (filter g (map fst vals')) label header.
Proof.
  intros Hnd Hp.
  rewrite (dump_wire_subtable_text vals _ label header (keys_present vals g)).
  rewrite (dump_wire_subtable_text vals' _ label header (keys_present vals' g)).
  rewrite (sort_order_free_holds _ _ (filter_perm g _ _ (Permutation_map fst Hp))).
  f_equal. apply subtable_text_ext. intros k _. exact (lookup_perm_holds vals vals' Hnd Hp k).
Qed.

Lemma filter_filter {A} (g h : A -> bool) (l : list A) :
  filter g (filter h l) = filter (fun x => h x && g x) l.
Proof.
  induction l as [|x r IH]; cbn [filter]; [reflexivity|].
  destruct (h x); cbn [filter andb]; [destruct (g x)|]; now rewrite IH.
Qed.

Theorem table_order_free_holds : stmt_table_order_free.
Proof.
  intros o p vals vals' Hnd Hp. unfold dump_values.
  destruct (o_group_wire_values o).
  - unfold dump_values_grouped. rewrite !filter_filter.
    rewrite (subtable_order_free vals vals' _ "Values of inputs to built-in components:" false Hnd Hp).
    rewrite (subtable_order_free vals vals' _ "Values of outputs of built-in components:" false Hnd Hp).
    rewrite (subtable_order_free vals vals' _ "Values of register bank signals:" false Hnd Hp).
    rewrite (subtable_order_free vals vals' _ "Values of other wires:" false Hnd Hp).
    reflexivity.
  - unfold dump_values_ungrouped. apply subtable_order_free; assumption.
Qed.

(* ---- C18: which rows ---------------------------------------------------------------------------- *)
Lemma rows_exactly_ext (P Q : string -> Prop) ks :
  (forall k, P k <-> Q k) -> rows_exactly P ks -> rows_exactly Q ks.
Proof.
  intros H (Hnd & Hin & Hs). split; [exact Hnd|split; [|exact Hs]].
  intros k. rewrite Hin. apply H.
Qed.

Lemma rows_exactly_ksort l : NoDup l -> rows_exactly (fun k => In k l) (ksort l).
Proof.
  intros Hnd. split; [|split].
  - exact (sort_strings_NoDup key_ltb l Hnd).
  - intros k. split; intros H.
    + exact (Permutation_in _ (ksort_perm l) H).
    + exact (Permutation_in _ (Permutation_sym (ksort_perm l)) H).
  - apply (sorted_strict key_ltb key_ltb_total).
    + exact (sort_strings_NoDup key_ltb l Hnd).
    + exact (sort_strings_sorted key_ltb key_ltb_irrefl key_ltb_trans key_ltb_total l).
Qed.

Lemma NoDup_filter {A} (g : A -> bool) (l : list A) : NoDup l -> NoDup (filter g l).
Proof.
  induction 1 as [|x l Hx _ IH]; cbn [filter]; [constructor|].
  destruct (g x); [|exact IH]. constructor; [|exact IH].
  intros Hin. apply filter_In in Hin. exact (Hx (proj1 Hin)).
Qed.

Lemma rows_exactly_filter (vals : list (string * wval)) (g : string -> bool) (P : string -> Prop) :
  NoDup (map fst vals) ->
  (forall k, lookup vals k <> None /\ g k = true <-> P k) ->
  rows_exactly P (ksort (filter g (map fst vals))).
Proof.
  intros Hnd HP.
  apply (rows_exactly_ext (fun k => In k (filter g (map fst vals)))).
  - intros k. rewrite filter_In, <- HP.
    assert (Hl : In k (map fst vals) <-> lookup vals k <> None).
    { pose proof (lookup_None vals k) as Hn. split.
      - intros Hin Hnone. exact (proj1 Hn Hnone Hin).
      - intros Hne. destruct (in_dec string_dec k (map fst vals)) as [Hi|Hi]; [exact Hi|].
        exfalso. exact (Hne (proj2 Hn Hi)). }
    rewrite Hl. reflexivity.
  - apply rows_exactly_ksort. apply NoDup_filter. exact Hnd.
Qed.

Lemma not_defaulted_iff p k : negb (mem_str k (p_defaulted p)) = true <-> ~ In k (p_defaulted p).
Proof.
  destruct (mem_str k (p_defaulted p)) eqn:E; cbn [negb].
  - apply mem_str_In in E. split; [discriminate|]. intros H. now contradiction H.
  - apply mem_str_false in E. split; [intros _; exact E|reflexivity].
Qed.

Theorem table_lists_each_once_holds : stmt_table_lists_each_once.
Proof.
  intros o p vals text Hnd Hd. unfold dump_values in Hd.
  destruct (o_group_wire_values o).
  - unfold dump_values_grouped in Hd. rewrite !filter_filter in Hd.
    rewrite !(dump_wire_subtable_text vals _ _ _ (keys_present vals _)) in Hd. cbn [bind] in Hd.
    injection Hd as Hd. subst text.
    unfold grouped_table.
    do 4 eexists. split; [|split; [|split; [|split; [|reflexivity]]]].
    all: apply (rows_exactly_filter vals _ _ Hnd); intros k; unfold candidate, kind_of;
      rewrite andb_true_iff, not_defaulted_iff;
      destruct (type_of p k); split; intros H; try tauto; try (destruct H as (_ & _ & H); discriminate H);
      try (destruct H as ((_ & _) & H); discriminate H).
  - unfold dump_values_ungrouped in Hd.
    rewrite (dump_wire_subtable_text vals _ _ _ (keys_present vals _)) in Hd.
    injection Hd as Hd. subst text.
    unfold ungrouped_table. eexists. split; [|reflexivity].
    apply (rows_exactly_filter vals _ _ Hnd). intros k. unfold candidate.
    rewrite andb_true_iff, not_defaulted_iff, negb_true_iff. tauto.
Qed.

Theorem table_total_holds : stmt_table_total.
Proof.
  intros o p vals. unfold dump_values. destruct (o_group_wire_values o).
  - unfold dump_values_grouped. rewrite !filter_filter.
    rewrite !(dump_wire_subtable_text vals _ _ _ (keys_present vals _)). cbn [bind].
    eexists. reflexivity.
  - unfold dump_values_ungrouped.
    rewrite (dump_wire_subtable_text vals _ _ _ (keys_present vals _)). eexists. reflexivity.
Qed.

Theorem table_same_wires_both_forms_holds : stmt_table_same_wires_both_forms.
Proof.
  intros p vals ks k1 k2 k3 k4 Hm (Hnd & Hin & _) (Hnd1 & Hin1 & _) (Hnd2 & Hin2 & _)
         (Hnd3 & Hin3 & _) (Hnd4 & Hin4 & _).
  apply NoDup_Permutation.
  - exact Hnd.
  - apply NoDup_app_intro2; [exact Hnd1| |].
    + apply NoDup_app_intro2; [exact Hnd2| |].
      * apply NoDup_app_intro2; [exact Hnd3|exact Hnd4|].
        intros x H3 H4. apply Hin3 in H3. apply Hin4 in H4.
        destruct H3 as [_ H3]. destruct H4 as [_ H4]. rewrite H3 in H4. discriminate.
      * intros x H2 H34. apply Hin2 in H2. destruct H2 as [_ H2].
        apply in_app_iff in H34. destruct H34 as [H3|H4].
        -- apply Hin3 in H3. destruct H3 as [_ H3]. rewrite H2 in H3. discriminate.
        -- apply Hin4 in H4. destruct H4 as [_ H4]. rewrite H2 in H4. discriminate.
    + intros x H1 H234. apply Hin1 in H1. destruct H1 as [_ H1].
      apply in_app_iff in H234. destruct H234 as [H2|H34].
      * apply Hin2 in H2. destruct H2 as [_ H2]. rewrite H1 in H2. discriminate.
      * apply in_app_iff in H34. destruct H34 as [H3|H4].
        -- apply Hin3 in H3. destruct H3 as [_ H3]. rewrite H1 in H3. discriminate.
        -- apply Hin4 in H4. destruct H4 as [_ H4]. rewrite H1 in H4. discriminate.
  - intros k. rewrite !in_app_iff, Hin, Hin1, Hin2, Hin3, Hin4.
    assert (Hc : has (p_consts p) k = false <-> kind_of p k <> None).
    { pose proof (Hm k) as Hk. unfold kind_of.
      destruct (has (p_consts p) k) eqn:Eh.
      - rewrite (proj1 Hk eq_refl). split; [discriminate|]. intros H. now contradiction H.
      - split; [|reflexivity]. intros _.
        destruct (type_of p k) eqn:Et; try discriminate.
        pose proof (proj2 Hk eq_refl) as C. discriminate C. }
    rewrite Hc. unfold kind_of. destruct (type_of p k); split; intros H; try tauto.
    all: try (destruct H as [_ H]; exfalso; apply H; reflexivity).
    all: try (split; [tauto|discriminate]).
    all: repeat (destruct H as [H|H]); try (destruct H as [_ H]; discriminate H); tauto.
Qed.

(* ---- a concrete map: two names differing only in case, a constant, a defaulted signal -------- *)
Definition ex_p : program :=
  mkProgram [("K", mkV 1 (Bits 4))] [] [] ["stall_F"]
    [("K", TConstant); ("pc", TBuiltinInput); ("i10bytes", TBuiltinOutput);
     ("f_pc", TRegisterBankInput); ("F_pc", TRegisterBankOutput);
     ("stall_F", TRegisterBankSpecial); ("bubble_F", TRegisterBankSpecial);
     ("foo", TNormal); ("FOO", TNormal)].
Definition ex_vals : list (string * wval) :=
  [("foo", mkV 5 (Bits 3)); ("K", mkV 1 (Bits 4)); ("stall_F", mkV 0 (Bits 1));
   ("i10bytes", mkV 48 (Bits 80)); ("FOO", mkV 255 (Bits 8)); ("pc", mkV 16 (Bits 64));
   ("bubble_F", mkV 1 (Bits 1)); ("F_pc", mkV 16 (Bits 64)); ("f_pc", mkV 26 (Bits 64));
   ("undeclared", mkV 7 Unl)].

Lemma NoDup_by_nodupb (l : list string) : nodupb l = true -> NoDup l.
Proof. exact (nodupb_NoDup l). Qed.

Example ex_vals_keys_distinct : NoDup (map fst ex_vals).
Proof. apply NoDup_by_nodupb. vm_compute. reflexivity. Qed.

Example ex_types_mark_consts_instance :
  forallb (fun k => Bool.eqb (has (p_consts ex_p) k)
                             (match type_of ex_p k with TConstant => true | _ => false end))
          (map fst ex_vals) = true.
Proof. vm_compute. reflexivity. Qed.

(* the table in both forms: K (constant) and stall_F (defaulted) have no row; FOO before foo *)
Example ex_table_grouped :
  dump_values default_options ex_p ex_vals = Ok (
    nl ++
    "Values of inputs to built-in components:" ++ nl ++
    "pc                   0x0000000000000010" ++ nl ++ nl ++
    "Values of outputs of built-in components:" ++ nl ++
    "i10bytes         0x00000000000000000030" ++ nl ++ nl ++
    "Values of register bank signals:" ++ nl ++
    "bubble_F                            0x1" ++ nl ++
    "F_pc                 0x0000000000000010" ++ nl ++
    "f_pc                 0x000000000000001a" ++ nl ++ nl ++
    "Values of other wires:" ++ nl ++
    "FOO                                0xff" ++ nl ++
    "foo                                 0x5" ++ nl ++
    "undeclared           0x0000000000000007" ++ nl ++ nl).
Proof. vm_compute. reflexivity. Qed.

Example ex_table_ungrouped :
  dump_values (set_no_group default_options) ex_p ex_vals = Ok (
    "Values of wires:" ++ nl ++
    "Wire                              Value" ++ nl ++
    "bubble_F                            0x1" ++ nl ++
    "FOO                                0xff" ++ nl ++
    "foo                                 0x5" ++ nl ++
    "F_pc                 0x0000000000000010" ++ nl ++
    "f_pc                 0x000000000000001a" ++ nl ++
    "i10bytes         0x00000000000000000030" ++ nl ++
    "pc                   0x0000000000000010" ++ nl ++
    "undeclared           0x0000000000000007" ++ nl ++ nl).
Proof. vm_compute. reflexivity. Qed.

(* stmt_table_lists_each_once / stmt_table_order_free are not vacuous: the hypotheses hold of
   ex_vals and of its reversal, a different enumeration *)
Example ex_table_lists_instance :
  grouped_table ex_p ex_vals
    (match dump_values default_options ex_p ex_vals with Ok t => t | Err _ => "" end).
Proof.
  pose proof (table_lists_each_once_holds default_options ex_p ex_vals) as H.
  destruct (dump_values default_options ex_p ex_vals) as [t|e] eqn:E; [|vm_compute in E; discriminate E].
  exact (H t ex_vals_keys_distinct eq_refl).
Qed.

Example ex_table_order_free_instance :
  rev ex_vals <> ex_vals /\ Permutation ex_vals (rev ex_vals) /\
  dump_values default_options ex_p ex_vals = dump_values default_options ex_p (rev ex_vals) /\
  dump_values (set_no_group default_options) ex_p ex_vals =
  dump_values (set_no_group default_options) ex_p (rev ex_vals).
Proof.
  split; [vm_compute; discriminate|]. split; [apply Permutation_rev|].
  split; vm_compute; reflexivity.
Qed.

Example ex_rows_exactly_instance :
  rows_exactly (fun k => In k ["foo"; "FOO"; "Foo"]) ["FOO"; "Foo"; "foo"].
Proof.
  assert (E : ["FOO"; "Foo"; "foo"] = ksort ["foo"; "FOO"; "Foo"]) by (vm_compute; reflexivity).
  rewrite E. apply rows_exactly_ksort. apply NoDup_by_nodupb. vm_compute. reflexivity.
Qed.

(* ---- the register-bank section of the state dump ------------------------------------------------ *)
Section BankExt.
  Variables vals vals' : list (string * wval).
  Hypothesis Hext : forall k, lookup vals k = lookup vals' k.

  Lemma get_value_ext k : get_value vals k = get_value vals' k.
  Proof. unfold get_value. now rewrite Hext. Qed.

  Lemma dump_bank_signals_ext : forall sigs loc,
    dump_bank_signals vals sigs loc = dump_bank_signals vals' sigs loc.
  Proof.
    induction sigs as [|[[i o] w] r IH]; intros loc; cbn [dump_bank_signals]; [reflexivity|].
    rewrite (get_value_ext o). destruct (get_value vals' o) as [v|e]; cbn [bind]; [|reflexivity].
    rewrite IH. reflexivity.
  Qed.

  Lemma dump_bank_ext b : dump_bank vals b = dump_bank vals' b.
  Proof.
    unfold dump_bank. rewrite (get_value_ext (b_stall b)), (get_value_ext (b_bubble b)).
    destruct (get_value vals' (b_stall b)) as [st|e]; cbn [bind]; [|reflexivity].
    destruct (get_value vals' (b_bubble b)) as [bu|e]; cbn [bind]; [|reflexivity].
    rewrite dump_bank_signals_ext. reflexivity.
  Qed.

  Lemma dump_bank_list_ext : forall bs, dump_bank_list vals bs = dump_bank_list vals' bs.
  Proof.
    induction bs as [|b r IH]; cbn [dump_bank_list]; [reflexivity|].
    rewrite IH, dump_bank_ext. reflexivity.
  Qed.

  Lemma dump_banks_in_ext banks : forall ls, dump_banks_in vals banks ls = dump_banks_in vals' banks ls.
  Proof.
    induction ls as [|l r IH]; cbn [dump_banks_in]; [reflexivity|].
    rewrite IH, dump_bank_list_ext. reflexivity.
  Qed.

  Lemma dump_custom_registers_ext banks :
    dump_custom_registers vals banks = dump_custom_registers vals' banks.
  Proof. unfold dump_custom_registers. rewrite !dump_banks_in_ext. reflexivity. Qed.
End BankExt.

Theorem bank_dump_order_free_holds : stmt_bank_dump_order_free.
Proof. intros vals vals' banks H. exact (dump_custom_registers_ext vals vals' H banks). Qed.

(* the form the hash map question takes: another enumeration of the same map *)
Corollary bank_dump_perm vals vals' banks :
  NoDup (map fst vals) -> Permutation vals vals' ->
  dump_custom_registers vals banks = dump_custom_registers vals' banks.
Proof.
  intros Hnd Hp. apply bank_dump_order_free_holds. exact (lookup_perm_holds vals vals' Hnd Hp).
Qed.

(* ---- C16: every declared bank is dumped, in canonical order ------------------------------------- *)
Lemma NoDup_map_inj {A B} (h : A -> B) (l : list A) a b :
  NoDup (map h l) -> In a l -> In b l -> h a = h b -> a = b.
Proof.
  induction l as [|x r IH]; cbn [map In]; intros Hnd Ha Hb Hab; [destruct Ha|].
  inversion Hnd as [|x1 x2 Hnin Hnd']; subst x1 x2.
  destruct Ha as [->|Ha]; destruct Hb as [->|Hb].
  - reflexivity.
  - exfalso. apply Hnin. rewrite Hab. apply in_map. exact Hb.
  - exfalso. apply Hnin. rewrite <- Hab. apply in_map. exact Ha.
  - exact (IH Hnd' Ha Hb Hab).
Qed.

Lemma dedup_In x l : In x (dedup l) <-> In x l.
Proof.
  induction l as [|y r IH]; cbn [dedup In]; [reflexivity|].
  destruct (mem_str y r) eqn:E.
  - rewrite IH. apply mem_str_In in E. split; [intros H; right; exact H|].
    intros [<-|H]; [exact E|exact H].
  - cbn [In]. rewrite IH. reflexivity.
Qed.

Lemma dedup_NoDup l : NoDup (dedup l).
Proof.
  induction l as [|y r IH]; cbn [dedup]; [constructor|].
  destruct (mem_str y r) eqn:E; [exact IH|].
  constructor; [|exact IH]. rewrite dedup_In. apply mem_str_false. exact E.
Qed.

Lemma filter_id {A} (g : A -> bool) (l : list A) : (forall x, In x l -> g x = true) -> filter g l = l.
Proof.
  induction l as [|x r IH]; intros H; cbn [filter]; [reflexivity|].
  rewrite (H x (or_introl eq_refl)). f_equal. apply IH. intros y Hy. apply H. right. exact Hy.
Qed.

Lemma filter_none {A} (g : A -> bool) (l : list A) : (forall x, In x l -> g x = false) -> filter g l = [].
Proof.
  induction l as [|x r IH]; intros H; cbn [filter]; [reflexivity|].
  rewrite (H x (or_introl eq_refl)). apply IH. intros y Hy. apply H. right. exact Hy.
Qed.

Lemma concat_strings_app (a b : list string) :
  concat_strings (a ++ b) = concat_strings a ++ concat_strings b.
Proof.
  induction a as [|x r IH]; cbn [app concat_strings]; [reflexivity|].
  rewrite IH, sapp_assoc. reflexivity.
Qed.

Lemma banks_of_letter_with banks l : banks_of_letter banks l = banks_with banks l.
Proof. reflexivity. Qed.

Lemma dump_bank_list_app vals : forall a b,
  dump_bank_list vals (a ++ b) =
  (do t <- dump_bank_list vals a; do r <- dump_bank_list vals b; Ok (t ++ r)).
Proof.
  induction a as [|x a IH]; intros b; cbn [app dump_bank_list bind].
  - destruct (dump_bank_list vals b); reflexivity.
  - destruct (dump_bank vals x) as [t|e]; cbn [bind]; [|reflexivity].
    rewrite IH. destruct (dump_bank_list vals a) as [ta|e]; cbn [bind]; [|reflexivity].
    destruct (dump_bank_list vals b) as [tb|e]; cbn [bind]; [|reflexivity].
    rewrite sapp_assoc. reflexivity.
Qed.

Lemma dump_banks_in_flat vals banks : forall ls,
  dump_banks_in vals banks ls = dump_bank_list vals (flat_map (banks_with banks) ls).
Proof.
  induction ls as [|l r IH]; cbn [dump_banks_in flat_map]; [reflexivity|].
  rewrite dump_bank_list_app, IH. reflexivity.
Qed.

Definition model_others (banks : list bank) : list string :=
  sort_strings string_ltb
    (filter (fun l => negb (mem_str l fixed_letters)) (dedup (map bank_letter banks))).

Lemma dump_custom_registers_flat vals banks :
  dump_custom_registers vals banks =
  dump_bank_list vals (flat_map (banks_with banks) (fixed_letters ++ model_others banks)).
Proof.
  unfold dump_custom_registers. rewrite !dump_banks_in_flat, flat_map_app, dump_bank_list_app.
  reflexivity.
Qed.

Lemma model_others_ok banks : other_letters banks (model_others banks).
Proof.
  unfold model_others.
  set (others := filter (fun l => negb (mem_str l fixed_letters)) (dedup (map bank_letter banks))).
  assert (Hnd : NoDup others) by (apply NoDup_filter, dedup_NoDup).
  split; [exact (sort_strings_NoDup string_ltb others Hnd)|]. split.
  - apply (sorted_strict string_ltb string_ltb_total).
    + exact (sort_strings_NoDup string_ltb others Hnd).
    + exact (sort_strings_sorted string_ltb string_ltb_irrefl string_ltb_trans string_ltb_total others).
  - intros l. split.
    + intros Hl. apply (Permutation_in _ (sort_strings_perm string_ltb others)) in Hl.
      apply filter_In in Hl. destruct Hl as [Hd Hn]. apply (proj1 (dedup_In l _)) in Hd.
      split; [exact Hd|]. apply mem_str_false. now apply negb_true_iff in Hn.
    + intros [Hd Hn]. apply (Permutation_in _ (Permutation_sym (sort_strings_perm string_ltb others))).
      apply filter_In. split; [apply (proj2 (dedup_In l _)); exact Hd|].
      apply negb_true_iff. apply mem_str_false. exact Hn.
Qed.

Lemma other_letters_unique banks ls ls' : other_letters banks ls -> other_letters banks ls' -> ls = ls'.
Proof.
  intros (Hnd & Hs & Hin) (Hnd' & Hs' & Hin').
  apply (sorted_perm_eq string_ltb string_ltb_total).
  - exact (strict_le string_ltb string_ltb_irrefl string_ltb_trans ls Hs).
  - exact (strict_le string_ltb string_ltb_irrefl string_ltb_trans ls' Hs').
  - apply NoDup_Permutation; [exact Hnd|exact Hnd'|]. intros l. rewrite Hin, Hin'. reflexivity.
Qed.

Lemma canonical_is_model banks order :
  canonical_bank_order banks order ->
  order = flat_map (banks_with banks) (fixed_letters ++ model_others banks).
Proof.
  intros (others & Ho & ->). rewrite (other_letters_unique banks others _ Ho (model_others_ok banks)).
  reflexivity.
Qed.

Theorem canonical_bank_order_unique_holds : stmt_canonical_bank_order_unique.
Proof.
  intros banks. exists (flat_map (banks_with banks) (fixed_letters ++ model_others banks)). split.
  - exists (model_others banks). split; [apply model_others_ok|reflexivity].
  - intros order' H. exact (canonical_is_model banks order' H).
Qed.

Lemma filter_partition_perm {A} (g h : A -> bool) (l : list A) :
  (forall x, In x l -> g x = true -> h x = false) ->
  Permutation (filter g l ++ filter h l) (filter (fun x => g x || h x) l).
Proof.
  induction l as [|x r IH]; intros Hd; cbn [filter app]; [apply perm_nil|].
  assert (IH' := IH (fun y Hy => Hd y (or_intror Hy))).
  destruct (g x) eqn:Eg; cbn [orb app].
  - rewrite (Hd x (or_introl eq_refl) Eg). apply perm_skip. exact IH'.
  - destruct (h x); [|exact IH'].
    apply Permutation_sym. apply Permutation_cons_app. apply Permutation_sym. exact IH'.
Qed.

Lemma flat_map_letters_perm banks : forall ls, NoDup ls ->
  Permutation (flat_map (banks_with banks) ls)
              (filter (fun b => mem_str (bank_letter b) ls) banks).
Proof.
  induction ls as [|l r IH]; intros Hnd; cbn [flat_map].
  - rewrite filter_none; [apply perm_nil|]. intros x _. reflexivity.
  - inversion Hnd as [|x1 x2 Hnin Hnd']; subst x1 x2.
    eapply perm_trans; [apply Permutation_app_head; exact (IH Hnd')|].
    unfold banks_with.
    eapply perm_trans; [apply filter_partition_perm|].
    + intros b _ Hb. apply String.eqb_eq in Hb. apply mem_str_false. rewrite Hb. exact Hnin.
    + cbn [mem_str]. apply Permutation_refl.
Qed.

Lemma fixed_letters_NoDup : NoDup fixed_letters.
Proof. apply nodupb_NoDup. vm_compute. reflexivity. Qed.

Theorem canonical_bank_order_perm_holds : stmt_canonical_bank_order_perm.
Proof.
  intros banks order (others & (Hnd & _ & Hin) & ->).
  change (banks_of_letter banks) with (banks_with banks).
  eapply perm_trans; [apply flat_map_letters_perm|].
  - apply NoDup_app_intro2; [exact fixed_letters_NoDup|exact Hnd|].
    intros x Hx Ho. exact (proj2 (proj1 (Hin x) Ho) Hx).
  - rewrite filter_id; [apply Permutation_refl|].
    intros b Hb. apply mem_str_In. apply in_app_iff.
    destruct (in_dec string_dec (bank_letter b) fixed_letters) as [Hf|Hf]; [left; exact Hf|].
    right. apply Hin. split; [apply in_map; exact Hb|exact Hf].
Qed.

Theorem dump_bank_list_concat_holds : stmt_dump_bank_list_concat.
Proof.
  intros vals. induction bs as [|b r IH]; intros text; cbn [dump_bank_list].
  - split.
    + intros H. injection H as <-. exists []. split; [constructor|reflexivity].
    + intros (texts & HF & ->). inversion HF. reflexivity.
  - split.
    + intros H. destruct (dump_bank vals b) as [t|e] eqn:Eb; cbn [bind] in H; [|discriminate H].
      destruct (dump_bank_list vals r) as [tr|e] eqn:Er; cbn [bind] in H; [|discriminate H].
      injection H as <-. destruct (proj1 (IH tr) eq_refl) as (texts & HF & ->).
      exists (t :: texts). split; [constructor; assumption|reflexivity].
    + intros (texts & HF & ->). inversion HF as [|x1 t x3 tr Hb Hr]; subst.
      rewrite Hb. cbn [bind]. rewrite (proj2 (IH (concat_strings tr))); [reflexivity|].
      exists tr. split; [exact Hr|reflexivity].
Qed.

Theorem bank_dump_lists_every_bank_holds : stmt_bank_dump_lists_every_bank.
Proof.
  intros vals banks order H. rewrite (canonical_is_model banks order H).
  apply dump_custom_registers_flat.
Qed.

Theorem bank_dump_lists_every_bank_ok_holds : stmt_bank_dump_lists_every_bank_ok.
Proof.
  intros vals banks text H.
  destruct (canonical_bank_order_unique_holds banks) as (order & Hc & _).
  exists order. split; [exact Hc|]. split; [exact (canonical_bank_order_perm_holds banks order Hc)|].
  rewrite <- (bank_dump_lists_every_bank_holds vals banks order Hc). exact H.
Qed.

Lemma dump_bank_list_err vals : forall bs,
  (exists es, dump_bank_list vals bs = Err es) <->
  (exists b es, In b bs /\ dump_bank vals b = Err es).
Proof.
  induction bs as [|b r IH]; cbn [dump_bank_list].
  - split; [intros [es H]; discriminate H|intros (b & es & [] & _)].
  - split.
    + intros [es H]. destruct (dump_bank vals b) as [t|e] eqn:Eb; cbn [bind] in H.
      * destruct (dump_bank_list vals r) as [tr|e] eqn:Er; cbn [bind] in H; [discriminate H|].
        destruct (proj1 IH (ex_intro _ e eq_refl)) as (b' & es' & Hin & Hb').
        exists b', es'. split; [right; exact Hin|exact Hb'].
      * exists b, e. split; [left; reflexivity|exact Eb].
    + intros (b' & es' & [<-|Hin] & Hb').
      * rewrite Hb'. cbn [bind]. exists es'. reflexivity.
      * destruct (dump_bank vals b) as [t|e]; cbn [bind]; [|exists e; reflexivity].
        destruct (proj2 IH (ex_intro _ b' (ex_intro _ es' (conj Hin Hb')))) as [es Hes].
        rewrite Hes. cbn [bind]. exists es. reflexivity.
Qed.

Theorem bank_dump_fails_iff_holds : stmt_bank_dump_fails_iff.
Proof.
  intros vals banks.
  destruct (canonical_bank_order_unique_holds banks) as (order & Hc & _).
  rewrite (bank_dump_lists_every_bank_holds vals banks order Hc), dump_bank_list_err.
  pose proof (canonical_bank_order_perm_holds banks order Hc) as Hp.
  split; intros (b & es & Hin & Hb); exists b, es; (split; [|exact Hb]).
  - exact (Permutation_in _ Hp Hin).
  - exact (Permutation_in _ (Permutation_sym Hp) Hin).
Qed.

Lemma letter_in_iff banks l : In l (map bank_letter banks) <-> banks_with banks l <> [].
Proof.
  unfold banks_with. split.
  - intros H. apply in_map_iff in H. destruct H as (b & Hl & Hb). intros Hn.
    assert (Hin : In b (filter (fun b0 => String.eqb (bank_letter b0) l) banks)).
    { apply filter_In. split; [exact Hb|]. apply String.eqb_eq. exact Hl. }
    rewrite Hn in Hin. destruct Hin.
  - intros H. destruct (filter (fun b0 => String.eqb (bank_letter b0) l) banks) as [|b r] eqn:E;
      [contradiction H; reflexivity|].
    assert (Hin : In b (filter (fun b0 => String.eqb (bank_letter b0) l) banks)) by (rewrite E; left; reflexivity).
    apply filter_In in Hin. destruct Hin as [Hb Hl]. apply String.eqb_eq in Hl.
    apply in_map_iff. exists b. split; assumption.
Qed.

Theorem bank_dump_decl_order_free_holds : stmt_bank_dump_decl_order_free.
Proof.
  intros vals banks banks' H.
  destruct (canonical_bank_order_unique_holds banks) as (order & Hc & _).
  rewrite (bank_dump_lists_every_bank_holds vals banks order Hc).
  symmetry. apply bank_dump_lists_every_bank_holds.
  destruct Hc as (others & (Hnd & Hs & Hin) & ->). exists others. split.
  - split; [exact Hnd|]. split; [exact Hs|]. intros l. rewrite Hin.
    rewrite !letter_in_iff, <- !banks_of_letter_with, H. reflexivity.
  - apply flat_map_ext. intros l. now rewrite H.
Qed.

Lemma banks_with_short banks l : NoDup (map bank_letter banks) -> (List.length (banks_with banks l) <= 1)%nat.
Proof.
  induction banks as [|b r IH]; intros Hnd; cbn [banks_with filter List.length]; [lia|].
  cbn [map] in Hnd. inversion Hnd as [|x1 x2 Hnin Hnd']; subst x1 x2.
  fold (banks_with r l). destruct (String.eqb (bank_letter b) l) eqn:E; [|exact (IH Hnd')].
  apply String.eqb_eq in E. subst l.
  destruct (banks_with r (bank_letter b)) as [|x xs] eqn:Er; [cbn [List.length]; lia|].
  exfalso. apply Hnin. apply letter_in_iff. rewrite Er. discriminate.
Qed.

Lemma perm_short {A} (a b : list A) : Permutation a b -> (List.length a <= 1)%nat -> a = b.
Proof.
  intros Hp Hl. destruct a as [|x [|y r]].
  - apply Permutation_nil in Hp. now subst b.
  - apply Permutation_length_1_inv in Hp. now subst b.
  - cbn [List.length] in Hl. lia.
Qed.

Theorem bank_dump_distinct_letters_order_free_holds : stmt_bank_dump_distinct_letters_order_free.
Proof.
  intros vals banks banks' Hnd Hp. apply bank_dump_decl_order_free_holds. intros l.
  rewrite !banks_of_letter_with. apply perm_short.
  - unfold banks_with. apply filter_perm. exact Hp.
  - exact (banks_with_short banks l Hnd).
Qed.

(* two banks sharing the letter B, and a third one *)
Definition ex_bank_a : bank :=
  mkBank "aB" [("a_x", "B_x", Bits 8)] [("B_x", mkV 1 (Bits 8))] "stall_B" "bubble_B".
Definition ex_bank_c : bank :=
  mkBank "cB" [("c_y", "B_y", Bits 8)] [("B_y", mkV 2 (Bits 8))] "stall_B" "bubble_B".
Definition ex_bank_f : bank :=
  mkBank "fD" [("f_pc", "D_pc", Bits 64)] [("D_pc", mkV 0 (Bits 64))] "stall_D" "bubble_D".
Definition ex_bank_vals : list (string * wval) :=
  [("a_x", mkV 2 (Bits 8)); ("B_x", mkV 1 (Bits 8)); ("c_y", mkV 3 (Bits 8)); ("B_y", mkV 2 (Bits 8));
   ("stall_B", mkV 0 (Bits 1)); ("bubble_B", mkV 0 (Bits 1));
   ("f_pc", mkV 16 (Bits 64)); ("D_pc", mkV 0 (Bits 64));
   ("stall_D", mkV 1 (Bits 1)); ("bubble_D", mkV 0 (Bits 1))].

(* both banks of letter B are shown, in declaration order, after the bank of letter D *)
Example ex_bank_dump_shared_letter :
  dump_custom_registers ex_bank_vals [ex_bank_a; ex_bank_c; ex_bank_f] =
  Ok ("| register fD(S) { pc=0000000000000000 }                                |" ++ nl ++
      "| register aB(N) { x=01 }                                               |" ++ nl ++
      "| register cB(N) { y=02 }                                               |" ++ nl) /\
  canonical_bank_order [ex_bank_a; ex_bank_c; ex_bank_f] [ex_bank_f; ex_bank_a; ex_bank_c].
Proof.
  split; [vm_compute; reflexivity|].
  destruct (canonical_bank_order_unique_holds [ex_bank_a; ex_bank_c; ex_bank_f]) as (order & Hc & _).
  rewrite (canonical_is_model _ _ Hc) in Hc. vm_compute in Hc. exact Hc.
Qed.

(* the order within one letter is the declaration order, so it does matter there ... *)
Lemma bank_dump_order_within_letter_matters :
  Permutation [ex_bank_a; ex_bank_c] [ex_bank_c; ex_bank_a] /\
  dump_custom_registers ex_bank_vals [ex_bank_a; ex_bank_c] <>
  dump_custom_registers ex_bank_vals [ex_bank_c; ex_bank_a].
Proof. split; [apply perm_swap|]. vm_compute. discriminate. Qed.

(* ... and only there: moving fD across keeps the dump *)
Example ex_bank_dump_decl_order_free_instance :
  [ex_bank_a; ex_bank_c; ex_bank_f] <> [ex_bank_a; ex_bank_f; ex_bank_c] /\
  (forall l, banks_of_letter [ex_bank_a; ex_bank_c; ex_bank_f] l =
             banks_of_letter [ex_bank_a; ex_bank_f; ex_bank_c] l) /\
  dump_custom_registers ex_bank_vals [ex_bank_a; ex_bank_c; ex_bank_f] =
  dump_custom_registers ex_bank_vals [ex_bank_a; ex_bank_f; ex_bank_c].
Proof.
  split; [discriminate|]. split; [|vm_compute; reflexivity].
  intros l. unfold banks_of_letter. cbn [filter].
  change (bank_letter ex_bank_a) with "B". change (bank_letter ex_bank_c) with "B".
  change (bank_letter ex_bank_f) with "D".
  destruct (String.eqb "B" l) eqn:E1; destruct (String.eqb "D" l) eqn:E2; try reflexivity.
  apply String.eqb_eq in E1, E2. subst l. discriminate E2.
Qed.

Example ex_bank_dump_distinct_letters_instance :
  NoDup (map bank_letter [ex_bank_a; ex_bank_f]) /\
  dump_custom_registers ex_bank_vals [ex_bank_a; ex_bank_f] =
  dump_custom_registers ex_bank_vals [ex_bank_f; ex_bank_a] /\
  dump_custom_registers ex_bank_vals [ex_bank_a; ex_bank_f] =
  dump_custom_registers (rev ex_bank_vals) [ex_bank_a; ex_bank_f].
Proof.
  split; [apply NoDup_by_nodupb; vm_compute; reflexivity|].
  split; vm_compute; reflexivity.
Qed.

(* a bank whose stall wire has no value makes the whole section fail, and only such a bank *)
Example ex_bank_dump_fails_instance :
  (exists es, dump_custom_registers [("B_x", mkV 1 (Bits 8))] [ex_bank_a] = Err es) /\
  (exists es, dump_bank [("B_x", mkV 1 (Bits 8))] ex_bank_a = Err es).
Proof. split; eexists; vm_compute; reflexivity. Qed.

(* ---- C12: a whole cycle and a whole run --------------------------------------------------------- *)
Lemma perm_of_lookup (m m' : list (string * wval)) :
  NoDup (map fst m) -> NoDup (map fst m') -> (forall k, lookup m k = lookup m' k) -> Permutation m m'.
Proof.
  intros Hnd Hnd' Hl. apply NoDup_Permutation.
  - exact (NoDup_map_inv fst m Hnd).
  - exact (NoDup_map_inv fst m' Hnd').
  - intros [k v]. split; intros H.
    + apply lookup_In. rewrite <- Hl. apply In_lookup; assumption.
    + apply lookup_In. rewrite Hl. apply In_lookup; assumption.
Qed.

(* the same map in two enumerations *)
Definition valrel (v v' : list (string * wval)) : Prop := Permutation v v' /\ NoDup (map fst v).

Lemma valrel_lookup v v' : valrel v v' -> forall k, lookup v k = lookup v' k.
Proof. intros [Hp Hnd]. exact (lookup_perm_holds v v' Hnd Hp). Qed.

Lemma valrel_NoDup_r v v' : valrel v v' -> NoDup (map fst v').
Proof. intros [Hp Hnd]. exact (Permutation_NoDup (Permutation_map fst Hp) Hnd). Qed.

Lemma valrel_refl v : NoDup (map fst v) -> valrel v v.
Proof. intros H. split; [apply Permutation_refl|exact H]. Qed.

Lemma valrel_upd v v' k x : valrel v v' -> valrel (upd v k x) (upd v' k x).
Proof.
  intros H. split; [|apply upd_keys_NoDup; exact (proj2 H)].
  apply perm_of_lookup.
  - apply upd_keys_NoDup. exact (proj2 H).
  - apply upd_keys_NoDup. exact (valrel_NoDup_r v v' H).
  - intros k'. rewrite !lookup_upd, (valrel_lookup v v' H k'). reflexivity.
Qed.

Lemma valrel_has v v' k : valrel v v' -> has v k = has v' k.
Proof. intros H. unfold has. now rewrite (valrel_lookup v v' H k). Qed.

Lemma valrel_get v v' k : valrel v v' -> get_value v k = get_value v' k.
Proof. intros H. apply get_value_ext. exact (valrel_lookup v v' H). Qed.

Lemma valrel_enabled v v' en : valrel v v' -> enabled v en = enabled v' en.
Proof. intros H. apply enabled_ext. intros n _. exact (valrel_lookup v v' H n). Qed.

Lemma valrel_eval f v v' e : valrel v v' -> eval f (lookup v) e = eval f (lookup v') e.
Proof. intros H. apply eval_ext_ok. intros n _. exact (valrel_lookup v v' H n). Qed.

Definition staterel (s s' : mstate) : Prop := same_state s s' /\ NoDup (map fst (values s)).

Lemma staterel_mk v v' m r ls c : valrel v v' -> staterel (mkState v m r ls c) (mkState v' m r ls c).
Proof. intros [Hp Hnd]. split; [|exact Hnd]. repeat split. exact Hp. Qed.

Lemma staterel_inv s s' : staterel s s' ->
  exists v v' m r ls c, s = mkState v m r ls c /\ s' = mkState v' m r ls c /\ valrel v v'.
Proof.
  destruct s as [v m r ls c], s' as [v' m' r' ls' c'].
  intros [(Hp & Hm & Hr & Hls & Hc) Hnd]. cbn in *. subst m' r' ls' c'.
  exists v, v', m, r, ls, c. repeat split; assumption.
Qed.

Definition outrel (r r' : result (mstate * string)) : Prop :=
  match r, r' with
  | Ok (s1, t1), Ok (s2, t2) => staterel s1 s2 /\ t1 = t2
  | Err e1, Err e2 => e1 = e2
  | _, _ => False
  end.

Lemma outrel_ok s1 s2 t : staterel s1 s2 -> outrel (Ok (s1, t)) (Ok (s2, t)).
Proof. intros H. split; [exact H|reflexivity]. Qed.

Lemma exec_action_rel f o a s s' : staterel s s' -> outrel (exec_action f o a s) (exec_action f o a s').
Proof.
  intros H. destruct (staterel_inv s s' H) as (v & v' & m & r & ls & c & -> & -> & Hv).
  destruct a as [name e w0|num outp|en addr outp n isi|num inp|en addr inp n|sw];
    unfold exec_action; cbn [values mem regs last_status cycle set_values].
  - rewrite <- (valrel_eval f v v' e Hv).
    destruct (eval f (lookup v) e) as [r0|es]; cbn [bind outrel]; [|reflexivity].
    apply outrel_ok. apply staterel_mk. apply valrel_upd. exact Hv.
  - rewrite <- (valrel_get v v' num Hv).
    destruct (get_value v num) as [nv|es]; cbn [bind outrel]; [|reflexivity].
    destruct (bits nv mod two64 <? N.of_nat (List.length r)); apply outrel_ok, staterel_mk, valrel_upd, Hv.
  - rewrite <- (valrel_enabled v v' en Hv).
    destruct (enabled v en) as [[|]|es]; cbn [bind outrel]; [| |reflexivity].
    + rewrite <- (valrel_get v v' addr Hv).
      destruct (get_value v addr) as [av|es]; cbn [bind outrel]; [|reflexivity].
      destruct (16 <? n); [reflexivity|]. apply outrel_ok, staterel_mk, valrel_upd, Hv.
    + apply outrel_ok, staterel_mk, valrel_upd, Hv.
  - rewrite <- (valrel_get v v' num Hv).
    destruct (get_value v num) as [nv|es]; cbn [bind outrel]; [|reflexivity].
    destruct ((bits nv mod two64 <? N.of_nat (List.length r)) && negb (bits nv mod two64 =? zero_register)).
    + rewrite <- (valrel_get v v' inp Hv).
      destruct (get_value v inp) as [iv|es]; cbn [bind outrel]; [|reflexivity].
      apply outrel_ok, staterel_mk, Hv.
    + apply outrel_ok, staterel_mk, Hv.
  - rewrite <- (valrel_enabled v v' en Hv).
    destruct (enabled v en) as [[|]|es]; cbn [bind outrel]; [| |reflexivity].
    + rewrite <- (valrel_get v v' addr Hv).
      destruct (get_value v addr) as [av|es]; cbn [bind outrel]; [|reflexivity].
      rewrite <- (valrel_get v v' inp Hv).
      destruct (get_value v inp) as [iv|es]; cbn [bind outrel]; [|reflexivity].
      destruct (16 <? n); [reflexivity|]. apply outrel_ok, staterel_mk, Hv.
    + apply outrel_ok, staterel_mk, Hv.
  - rewrite <- (valrel_get v v' sw Hv).
    destruct (get_value v sw) as [sv|es]; cbn [bind outrel]; [|reflexivity].
    apply outrel_ok, staterel_mk, Hv.
Qed.

Lemma exec_actions_rel f o : forall acts s s',
  staterel s s' -> outrel (exec_actions f o acts s) (exec_actions f o acts s').
Proof.
  induction acts as [|a r IH]; intros s s' H; cbn [exec_actions].
  - apply outrel_ok. exact H.
  - pose proof (exec_action_rel f o a s s' H) as Ha.
    destruct (exec_action f o a s) as [[s1 t1]|e1]; destruct (exec_action f o a s') as [[s2 t2]|e2];
      cbn [outrel] in Ha; try contradiction; cbn [bind fst snd].
    + destruct Ha as [Hs ->]. pose proof (IH s1 s2 Hs) as Hr.
      destruct (exec_actions f o r s1) as [[s3 t3]|e3]; destruct (exec_actions f o r s2) as [[s4 t4]|e4];
        cbn [outrel] in Hr; try contradiction; cbn [bind fst snd outrel].
      * destruct Hr as [Hs' ->]. split; [exact Hs'|reflexivity].
      * exact Hr.
    + exact Ha.
Qed.

Definition valsrel (r r' : result (list (string * wval))) : Prop :=
  match r, r' with
  | Ok a, Ok b => valrel a b
  | Err e1, Err e2 => e1 = e2
  | _, _ => False
  end.

Lemma set_defaults_rel : forall defaults v v',
  valrel v v' -> valsrel (set_defaults v defaults) (set_defaults v' defaults).
Proof.
  induction defaults as [|[k x] r IH]; intros v v' Hv; cbn [set_defaults].
  - exact Hv.
  - rewrite <- (valrel_has v v' k Hv). destruct (has v k); [|reflexivity].
    apply IH. apply valrel_upd. exact Hv.
Qed.

Lemma copy_signals_rel : forall sigs v v',
  valrel v v' -> valsrel (copy_signals v sigs) (copy_signals v' sigs).
Proof.
  induction sigs as [|[[i o] w] r IH]; intros v v' Hv; cbn [copy_signals].
  - exact Hv.
  - rewrite <- (valrel_get v v' i Hv). destruct (get_value v i) as [nv|es]; cbn [bind valsrel]; [|reflexivity].
    rewrite <- (valrel_has v v' o Hv). destruct (has v o); [|reflexivity].
    apply IH. apply valrel_upd. exact Hv.
Qed.

Lemma process_banks_rel : forall banks v v',
  valrel v v' -> valsrel (process_banks v banks) (process_banks v' banks).
Proof.
  induction banks as [|b r IH]; intros v v' Hv; cbn [process_banks].
  - exact Hv.
  - rewrite <- (valrel_get v v' (b_stall b) Hv).
    destruct (get_value v (b_stall b)) as [st|es]; cbn [bind valsrel]; [|reflexivity].
    rewrite <- (valrel_get v v' (b_bubble b) Hv).
    destruct (get_value v (b_bubble b)) as [bu|es]; cbn [bind valsrel]; [|reflexivity].
    assert (H1 : valsrel (if is_true bu then set_defaults v (b_defaults b)
                          else if negb (is_true st) then copy_signals v (b_signals b) else Ok v)
                         (if is_true bu then set_defaults v' (b_defaults b)
                          else if negb (is_true st) then copy_signals v' (b_signals b) else Ok v')).
    { destruct (is_true bu); [apply set_defaults_rel; exact Hv|].
      destruct (negb (is_true st)); [apply copy_signals_rel; exact Hv|exact Hv]. }
    destruct (if is_true bu then set_defaults v (b_defaults b)
              else if negb (is_true st) then copy_signals v (b_signals b) else Ok v) as [a1|e1];
    destruct (if is_true bu then set_defaults v' (b_defaults b)
              else if negb (is_true st) then copy_signals v' (b_signals b) else Ok v') as [a2|e2];
      cbn [valsrel] in H1; try contradiction; cbn [bind].
    + apply IH. exact H1.
    + exact H1.
Qed.

Lemma step_rel f o p s s' : staterel s s' -> outrel (step f o p s) (step f o p s').
Proof.
  intros H. unfold step.
  pose proof (exec_actions_rel f o (p_actions p) s s' H) as Ha.
  destruct (exec_actions f o (p_actions p) s) as [[s1 t1]|e1];
  destruct (exec_actions f o (p_actions p) s') as [[s2 t2]|e2];
    cbn [outrel] in Ha; try contradiction; cbn [bind fst snd]; [|exact Ha].
  destruct Ha as [Hs ->].
  destruct (staterel_inv s1 s2 Hs) as (v & v' & m & r & ls & c & -> & -> & Hv).
  cbn [values mem regs last_status cycle].
  assert (Ht : (if o_show_wire_values o then dump_values o p v else Ok "") =
               (if o_show_wire_values o then dump_values o p v' else Ok "")).
  { destruct (o_show_wire_values o); [|reflexivity].
    exact (table_order_free_holds o p v v' (proj2 Hv) (proj1 Hv)). }
  rewrite <- Ht.
  destruct (if o_show_wire_values o then dump_values o p v else Ok "") as [tbl|e]; cbn [bind outrel];
    [|reflexivity].
  pose proof (process_banks_rel (p_banks p) v v' Hv) as Hb.
  destruct (process_banks v (p_banks p)) as [a1|e1]; destruct (process_banks v' (p_banks p)) as [a2|e2];
    cbn [valsrel] in Hb; try contradiction; cbn [bind outrel]; [|exact Hb].
  split; [|reflexivity]. apply staterel_mk. exact Hb.
Qed.

Lemma staterel_status s s' d : staterel s s' -> status_or_default s d = status_or_default s' d.
Proof.
  intros H. destruct (staterel_inv s s' H) as (v & v' & m & r & ls & c & -> & -> & Hv).
  unfold status_or_default. cbn [values]. now rewrite (valrel_lookup v v' Hv "Stat").
Qed.

Lemma staterel_done o s s' : staterel s s' ->
  done o s = done o s' /\ halted s = halted s' /\ timed_out o s = timed_out o s'.
Proof.
  intros H. unfold done, halted, timed_out. rewrite !(staterel_status s s' _ H).
  destruct H as [(_ & _ & _ & _ & Hc) _]. rewrite Hc. repeat split.
Qed.

Lemma dump_y86_rel o p s s' : staterel s s' -> dump_y86 o p s = dump_y86 o p s'.
Proof.
  intros H. destruct (staterel_done o s s' H) as (Hd & Hh & Ht).
  unfold dump_y86. rewrite Hd, Hh, Ht. unfold name_status. rewrite (staterel_status s s' 255 H).
  destruct (staterel_inv s s' H) as (v & v' & m & r & ls & c & -> & -> & Hv).
  cbn [values mem regs last_status cycle].
  rewrite (dump_custom_registers_ext v v' (valrel_lookup v v' Hv) (p_banks p)).
  reflexivity.
Qed.

Lemma run_rel f o p : forall fuel s s', staterel s s' -> outrel (run fuel f o p s) (run fuel f o p s').
Proof.
  induction fuel as [|fu IH]; intros s s' H; cbn [run];
    destruct (staterel_done o s s' H) as (Hd & _ & _); rewrite <- Hd.
  - destruct (done o s); [apply outrel_ok; exact H|reflexivity].
  - destruct (done o s); [apply outrel_ok; exact H|].
    assert (Hdump : (if o_show_regs_mem o then dump_y86 o p s else Ok "") =
                    (if o_show_regs_mem o then dump_y86 o p s' else Ok "")).
    { destruct (o_show_regs_mem o); [exact (dump_y86_rel o p s s' H)|reflexivity]. }
    rewrite <- Hdump.
    destruct (if o_show_regs_mem o then dump_y86 o p s else Ok "") as [d|e]; cbn [bind outrel]; [|reflexivity].
    pose proof (step_rel f o p s s' H) as Hs.
    destruct (step f o p s) as [[s1 t1]|e1]; destruct (step f o p s') as [[s2 t2]|e2];
      cbn [outrel] in Hs; try contradiction; cbn [bind fst snd]; [|exact Hs].
    destruct Hs as [Hs ->]. pose proof (IH s1 s2 Hs) as Hr.
    destruct (run fu f o p s1) as [[s3 t3]|e3]; destruct (run fu f o p s2) as [[s4 t4]|e4];
      cbn [outrel] in Hr; try contradiction; cbn [bind fst snd outrel]; [|exact Hr].
    destruct Hr as [Hr ->]. split; [exact Hr|reflexivity].
Qed.

Lemma outrel_same_outcome r r' : outrel r r' -> same_outcome r r'.
Proof.
  unfold outrel, same_outcome. destruct r as [[s1 t1]|e1]; destruct r' as [[s2 t2]|e2]; try tauto.
  intros [[Hs Hnd] Ht]. split; [exact Hs|split; assumption].
Qed.

Theorem step_order_free_holds : stmt_step_order_free.
Proof.
  intros f o p s s' Hnd Hs. apply outrel_same_outcome. apply step_rel. split; assumption.
Qed.

Theorem run_order_free_holds : stmt_run_order_free.
Proof.
  intros fuel f o p s s' Hnd Hs. apply outrel_same_outcome. apply run_rel. split; assumption.
Qed.

(* the initial map *)
Lemma init_signals_NoDup defaults : forall sigs v v1,
  NoDup (map fst v) -> init_signals v defaults sigs = Ok v1 -> NoDup (map fst v1).
Proof.
  induction sigs as [|[[i o] w] r IH]; intros v v1 Hnd H; cbn [init_signals] in H.
  - injection H as <-. exact Hnd.
  - destruct (lookup defaults o) as [d|]; [|discriminate].
    apply (IH _ _ (upd_keys_NoDup _ _ _ (upd_keys_NoDup _ _ _ Hnd)) H).
Qed.

Lemma init_banks_NoDup : forall banks v v1,
  NoDup (map fst v) -> init_banks v banks = Ok v1 -> NoDup (map fst v1).
Proof.
  induction banks as [|b r IH]; intros v v1 Hnd H; cbn [init_banks] in H.
  - injection H as <-. exact Hnd.
  - destruct (init_signals v (b_defaults b) (b_signals b)) as [v2|e] eqn:E; cbn [bind] in H; [|discriminate].
    apply (IH _ _ (upd_keys_NoDup _ _ _ (upd_keys_NoDup _ _ _ (init_signals_NoDup _ _ _ _ Hnd E))) H).
Qed.

Theorem initial_keys_distinct_holds : stmt_initial_keys_distinct.
Proof.
  intros p s Hnd H. unfold initial_state in H.
  destruct (init_banks (p_consts p) (p_banks p)) as [v|e] eqn:E; cbn [bind] in H; [|discriminate].
  injection H as <-. cbn [values]. exact (init_banks_NoDup _ _ _ Hnd E).
Qed.

(* ---- a concrete run: a counter in a register bank, debug output on ---------------------------- *)
Definition ex_run_bank : bank :=
  mkBank "xC" [("x_n", "C_n", Bits 8)] [("C_n", mkV 0 (Bits 8))] "stall_C" "bubble_C".
Definition ex_run_p : program :=
  mkProgram [("K", mkV 1 (Bits 8))]
    [AAssign "x_n" (EBin Add (EWire "C_n") (EWire "K")) (Bits 8);
     AAssign "foo" (EWire "C_n") (Bits 8);
     AAssign "FOO" (EWire "x_n") (Bits 8);
     AAssign "pc" (EConst (mkV 0 (Bits 64))) (Bits 64);
     AReadMemory None "pc" "i10bytes" 10 true;
     AAssign "Stat" (EBin Add (EWire "K") (EBin Equal (EWire "C_n") (EConst (mkV 2 (Bits 8))))) (Bits 8);
     ASetStatus "Stat"]
    [ex_run_bank] ["stall_C"; "bubble_C"]
    [("K", TConstant); ("pc", TBuiltinInput); ("Stat", TBuiltinInput); ("i10bytes", TBuiltinOutput);
     ("x_n", TRegisterBankInput); ("C_n", TRegisterBankOutput);
     ("stall_C", TRegisterBankSpecial); ("bubble_C", TRegisterBankSpecial);
     ("foo", TNormal); ("FOO", TNormal)].
Definition ex_run_s0 : mstate :=
  match initial_state ex_run_p with Ok s => s | Err _ => mkState [] [] [] None 0 end.
(* the same state, its map enumerated backwards *)
Definition ex_run_s0' : mstate := set_values ex_run_s0 (rev (values ex_run_s0)).

Example ex_run_order_free_instance :
  NoDup (map fst (values ex_run_s0)) /\ same_state ex_run_s0 ex_run_s0' /\
  values ex_run_s0 <> values ex_run_s0' /\
  match run 10 gen_features (set_debug default_options) ex_run_p ex_run_s0,
        run 10 gen_features (set_debug default_options) ex_run_p ex_run_s0' with
  | Ok (s1, t1), Ok (s2, t2) =>
      t1 = t2 /\ cycle s1 = 3 /\ values s1 <> values s2 /\ (3000 <? slen t1) = true
  | _, _ => False
  end.
Proof.
  split; [apply NoDup_by_nodupb; vm_compute; reflexivity|].
  split; [repeat split; apply Permutation_rev|].
  split; [vm_compute; discriminate|].
  vm_compute. repeat split; discriminate.
Qed.

Example ex_step_order_free_instance :
  match step gen_features (set_debug default_options) ex_run_p ex_run_s0,
        step gen_features (set_debug default_options) ex_run_p ex_run_s0' with
  | Ok (s1, t1), Ok (s2, t2) => t1 = t2 /\ values s1 <> values s2 /\ t1 <> ""
  | _, _ => False
  end.
Proof. vm_compute. repeat split; discriminate. Qed.

Example ex_initial_keys_distinct_instance :
  NoDup (map fst (p_consts ex_run_p)) /\ initial_state ex_run_p = Ok ex_run_s0.
Proof. split; [apply NoDup_by_nodupb|]; vm_compute; reflexivity. Qed.

(* ---- C18: which names are keys of the map when the table is printed ------------------------------ *)
Lemma keys_upd (m : list (string * wval)) k v k' :
  In k' (map fst (upd m k v)) <-> In k' (map fst m) \/ k' = k.
Proof. rewrite map_fst_upd. apply add_set_In. Qed.

Ltac crunch H :=
  repeat match type of H with
         | bind ?r _ = Ok _ => let E := fresh "E" in destruct r eqn:E; cbn [bind] in H; [|discriminate H]
         | (if ?c then _ else _) = Ok _ => destruct c
         | err1 _ _ = Ok _ => discriminate H
         end.

Lemma exec_action_shape f o a s s1 t :
  exec_action f o a s = Ok (s1, t) ->
  match written a with
  | Some w => exists x, values s1 = upd (values s) w x
  | None => values s1 = values s
  end.
Proof.
  intros H. destruct a as [name e w0|num outp|en addr outp n isi|num inp|en addr inp n|sw];
    unfold exec_action in H; cbv zeta in H; cbn [written]; crunch H;
    injection H as <- _; cbn [values set_values]; try reflexivity; eexists; reflexivity.
Qed.

Lemma exec_actions_keys f o : forall acts s s1 t,
  exec_actions f o acts s = Ok (s1, t) ->
  (forall k, In k (map fst (values s1)) <-> In k (map fst (values s)) \/ In k (written_names acts)) /\
  (NoDup (map fst (values s)) -> NoDup (map fst (values s1))).
Proof.
  induction acts as [|a r IH]; intros s s1 t H; cbn [exec_actions] in H.
  - injection H as <- _. split; [|tauto]. intros k. unfold written_names. cbn [flat_map In]. tauto.
  - destruct (exec_action f o a s) as [[s2 t2]|e] eqn:Ea; cbn [bind fst snd] in H; [|discriminate H].
    destruct (exec_actions f o r s2) as [[s3 t3]|e] eqn:Er; cbn [bind fst snd] in H; [|discriminate H].
    injection H as <- _. destruct (IH s2 s3 t3 Er) as [IHk IHn].
    pose proof (exec_action_shape f o a s s2 t2 Ea) as Hs.
    unfold written_names in *. cbn [flat_map].
    destruct (written a) as [w|].
    + destruct Hs as [x Hs]. split.
      * intros k. rewrite IHk, Hs, keys_upd, in_app_iff. cbn [In]. intuition congruence.
      * intros Hnd. apply IHn. rewrite Hs. apply upd_keys_NoDup. exact Hnd.
    + rewrite Hs in *. split; [|exact IHn]. intros k. rewrite IHk. cbn [app]. tauto.
Qed.

(* the clock edge keeps the set of keys *)
Lemma set_defaults_keys : forall defaults v v1, set_defaults v defaults = Ok v1 ->
  (forall k, In k (map fst v1) <-> In k (map fst v)) /\ (NoDup (map fst v) -> NoDup (map fst v1)).
Proof.
  induction defaults as [|[k0 x] r IH]; intros v v1 H; cbn [set_defaults] in H.
  - injection H as <-. tauto.
  - destruct (has v k0) eqn:Eh; [|discriminate H].
    destruct (IH _ _ H) as [IHk IHn]. split.
    + intros k. rewrite IHk, keys_upd. apply has_In in Eh. split; [|tauto].
      intros [Hk| ->]; assumption.
    + intros Hnd. apply IHn. apply upd_keys_NoDup. exact Hnd.
Qed.

Lemma copy_signals_keys : forall sigs v v1, copy_signals v sigs = Ok v1 ->
  (forall k, In k (map fst v1) <-> In k (map fst v)) /\ (NoDup (map fst v) -> NoDup (map fst v1)).
Proof.
  induction sigs as [|[[i o0] w] r IH]; intros v v1 H; cbn [copy_signals] in H.
  - injection H as <-. tauto.
  - destruct (get_value v i) as [nv|e]; cbn [bind] in H; [|discriminate H].
    destruct (has v o0) eqn:Eh; [|discriminate H].
    destruct (IH _ _ H) as [IHk IHn]. split.
    + intros k. rewrite IHk, keys_upd. apply has_In in Eh. split; [|tauto].
      intros [Hk| ->]; assumption.
    + intros Hnd. apply IHn. apply upd_keys_NoDup. exact Hnd.
Qed.

Lemma process_banks_keys : forall banks v v1, process_banks v banks = Ok v1 ->
  (forall k, In k (map fst v1) <-> In k (map fst v)) /\ (NoDup (map fst v) -> NoDup (map fst v1)).
Proof.
  induction banks as [|b r IH]; intros v v1 H; cbn [process_banks] in H.
  - injection H as <-. tauto.
  - destruct (get_value v (b_stall b)) as [st|e]; cbn [bind] in H; [|discriminate H].
    destruct (get_value v (b_bubble b)) as [bu|e]; cbn [bind] in H; [|discriminate H].
    destruct (if is_true bu then set_defaults v (b_defaults b)
              else if negb (is_true st) then copy_signals v (b_signals b) else Ok v) as [v2|e] eqn:E;
      cbn [bind] in H; [|discriminate H].
    destruct (IH _ _ H) as [IHk IHn].
    assert (H2 : (forall k, In k (map fst v2) <-> In k (map fst v)) /\
                 (NoDup (map fst v) -> NoDup (map fst v2))).
    { destruct (is_true bu); [exact (set_defaults_keys _ _ _ E)|].
      destruct (negb (is_true st)); [exact (copy_signals_keys _ _ _ E)|].
      injection E as <-. tauto. }
    destruct H2 as [H2k H2n]. split.
    + intros k. rewrite IHk. apply H2k.
    + intros Hnd. exact (IHn (H2n Hnd)).
Qed.

Theorem step_prints_table_holds : stmt_step_prints_table.
Proof.
  intros f o p s s' text H. unfold step in H.
  destruct (exec_actions f o (p_actions p) s) as [[s1 t]|e] eqn:Ea; cbn [bind fst snd] in H; [|discriminate H].
  exists s1, t.
  destruct (o_show_wire_values o).
  - destruct (dump_values o p (values s1)) as [tbl|e] eqn:Ed; cbn [bind] in H; [|discriminate H].
    destruct (process_banks (values s1) (p_banks p)) as [v2|e]; cbn [bind] in H; [|discriminate H].
    injection H as _ <-. exists tbl. repeat split.
  - cbn [bind] in H.
    destruct (process_banks (values s1) (p_banks p)) as [v2|e]; cbn [bind] in H; [|discriminate H].
    injection H as _ <-. exists "". repeat split.
Qed.

Lemma step_keys f o p s s' t : step f o p s = Ok (s', t) ->
  (forall k, In k (map fst (values s')) <->
             In k (map fst (values s)) \/ In k (written_names (p_actions p))) /\
  (NoDup (map fst (values s)) -> NoDup (map fst (values s'))).
Proof.
  intros H. unfold step in H.
  destruct (exec_actions f o (p_actions p) s) as [[s1 t1]|e] eqn:Ea; cbn [bind fst snd] in H; [|discriminate H].
  destruct (if o_show_wire_values o then dump_values o p (values s1) else Ok "") as [tbl|e];
    cbn [bind] in H; [|discriminate H].
  destruct (process_banks (values s1) (p_banks p)) as [v2|e] eqn:Eb; cbn [bind] in H; [|discriminate H].
  injection H as <- _. cbn [values].
  destruct (exec_actions_keys f o _ _ _ _ Ea) as [Hk Hn].
  destruct (process_banks_keys _ _ _ Eb) as [Hk2 Hn2]. split.
  - intros k. rewrite Hk2. apply Hk.
  - intros Hnd. exact (Hn2 (Hn Hnd)).
Qed.

Theorem step_keys_distinct_holds : stmt_step_keys_distinct.
Proof. intros f o p s s' t Hnd H. exact (proj2 (step_keys f o p s s' t H) Hnd). Qed.

Theorem keys_inv_step_holds : stmt_keys_inv_step.
Proof.
  intros f o p s s' t [H1 H2] H. destruct (step_keys f o p s s' t H) as [Hk _]. split.
  - intros k Hin. apply Hk. left. exact (H1 k Hin).
  - intros k Hin. apply Hk in Hin. destruct Hin as [Hin|Hin]; [exact (H2 k Hin)|]. right. right. exact Hin.
Qed.

Lemma init_signals_keys defaults : forall sigs v v1, init_signals v defaults sigs = Ok v1 ->
  forall k, In k (map fst v1) <->
            In k (map fst v) \/ In k (flat_map (fun sg : string * string * width => [fst (fst sg); snd (fst sg)]) sigs).
Proof.
  induction sigs as [|[[i o0] w] r IH]; intros v v1 H k; cbn [init_signals] in H.
  - injection H as <-. cbn [flat_map In]. tauto.
  - destruct (lookup defaults o0) as [d|]; [|discriminate H].
    rewrite (IH _ _ H k), !keys_upd. cbn [flat_map fst snd app In]. intuition congruence.
Qed.

Lemma init_banks_keys : forall banks v v1, init_banks v banks = Ok v1 ->
  forall k, In k (map fst v1) <-> In k (map fst v) \/ In k (bank_signal_names banks).
Proof.
  induction banks as [|b r IH]; intros v v1 H k; cbn [init_banks] in H.
  - injection H as <-. unfold bank_signal_names. cbn [flat_map In]. tauto.
  - destruct (init_signals v (b_defaults b) (b_signals b)) as [v2|e] eqn:E; cbn [bind] in H; [|discriminate H].
    rewrite (IH _ _ H k), !keys_upd, (init_signals_keys _ _ _ _ E k).
    unfold bank_signal_names. cbn [flat_map]. rewrite !in_app_iff. cbn [In]. intuition congruence.
Qed.

Theorem keys_inv_initial_holds : stmt_keys_inv_initial.
Proof.
  intros p s H. unfold initial_state in H.
  destruct (init_banks (p_consts p) (p_banks p)) as [v|e] eqn:E; cbn [bind] in H; [|discriminate H].
  injection H as <-. unfold keys_inv. cbn [values]. split.
  - intros k Hk. apply (init_banks_keys _ _ _ E k). exact Hk.
  - intros k Hk. apply (init_banks_keys _ _ _ E k) in Hk. tauto.
Qed.

Theorem cycle_candidates_holds : stmt_cycle_candidates.
Proof.
  intros f o p s s1 t [H1 H2] H k. unfold candidate.
  destruct (exec_actions_keys f o _ _ _ _ H) as [Hk _].
  assert (Hl : lookup (values s1) k <> None <-> In k (map fst (values s1))).
  { pose proof (lookup_None (values s1) k) as Hn. split.
    - intros Hne. destruct (in_dec string_dec k (map fst (values s1))) as [Hi|Hi]; [exact Hi|].
      exfalso. exact (Hne (proj2 Hn Hi)).
    - intros Hin Hnone. exact (proj1 Hn Hnone Hin). }
  rewrite Hl, Hk. split.
  - intros [[Hin|Hin] Hd]; (split; [|exact Hd]); [|left; exact Hin].
    destruct (H2 k Hin) as [Hc|[Hb|Hw]]; tauto.
  - intros [[Hw|[Hb|Hc]] Hd]; (split; [|exact Hd]); [right; exact Hw|left|left]; apply H1; tauto.
Qed.

(* instance: the counter program, first cycle *)
Example ex_cycle_candidates_instance :
  keys_inv ex_run_p ex_run_s0 /\
  match exec_actions gen_features (set_debug default_options) (p_actions ex_run_p) ex_run_s0 with
  | Ok (s1, _) =>
      map fst (values s1) = ["K"; "x_n"; "C_n"; "bubble_C"; "stall_C"; "foo"; "FOO"; "pc"; "i10bytes"; "Stat"]
  | Err _ => False
  end /\
  written_names (p_actions ex_run_p) = ["x_n"; "foo"; "FOO"; "pc"; "i10bytes"; "Stat"] /\
  bank_signal_names (p_banks ex_run_p) = ["x_n"; "C_n"; "bubble_C"; "stall_C"].
Proof.
  split; [apply keys_inv_initial_holds; vm_compute; reflexivity|].
  vm_compute. repeat split.
Qed.

(* ---- every declared constant gets a value (resolve_constants is complete) ------------------------- *)
Lemma err1_ne {A} k names es : @err1 A k names = Err es -> es <> [].
Proof. unfold err1. intros H. injection H as <-. discriminate. Qed.

Lemma apply_err f op l r es : apply f op l r = Err es -> es <> [].
Proof.
  unfold apply. intros H.
  destruct (kind op).
  - cbn [bind] in H. destruct (is_div op && (bits r =? 0)); [exact (err1_ne _ _ _ H)|discriminate H].
  - cbn [bind] in H. destruct (is_div op && (bits r =? 0)); [exact (err1_ne _ _ _ H)|discriminate H].
  - destruct (wcombine (wd l) (wd r)); cbn [bind] in H; [|exact (err1_ne _ _ _ H)].
    destruct (is_div op && (bits r =? 0)); [exact (err1_ne _ _ _ H)|discriminate H].
  - destruct (f_swb f).
    + destruct (wcombine (wd l) (wd r)); cbn [bind] in H; [|exact (err1_ne _ _ _ H)].
      destruct (is_div op && (bits r =? 0)); [exact (err1_ne _ _ _ H)|discriminate H].
    + cbn [bind] in H. destruct (is_div op && (bits r =? 0)); [exact (err1_ne _ _ _ H)|discriminate H].
Qed.

Lemma eval_err_all f rho :
  (forall e es, eval f rho e = Err es -> es <> []) /\
  (forall a es, eval_arms f rho a = Err es -> es <> []) /\
  (forall x n es, eval_items f rho n x = Err es -> es <> []).
Proof.
  apply expr_arms_exprs_ind.
  - intros v es H. discriminate H.
  - intros op l IHl r IHr es H. cbn [eval] in H.
    destruct (eval f rho l) as [lv|e1] eqn:El; cbn [bind] in H; [|injection H as <-; exact (IHl _ eq_refl)].
    destruct (eval f rho r) as [rv|e2] eqn:Er; cbn [bind] in H; [|injection H as <-; exact (IHr _ eq_refl)].
    exact (apply_err _ _ _ _ _ H).
  - intros op e IHe es H. cbn [eval] in H.
    destruct (eval f rho e) as [v|e1] eqn:Ee; cbn [bind] in H; [discriminate H|].
    injection H as <-. exact (IHe _ eq_refl).
  - intros a IHa es H. rewrite eval_mux in H.
    destruct (eval_arms f rho a) as [v|e1] eqn:Ea; cbn [bind] in H; [discriminate H|].
    injection H as <-. exact (IHa _ eq_refl).
  - intros n es H. cbn [eval] in H. destruct (rho n); [discriminate H|exact (err1_ne _ _ _ H)].
  - intros e IHe lo hi es H. cbn [eval] in H.
    destruct (eval f rho e) as [v|e1] eqn:Ee; cbn [bind] in H; [discriminate H|].
    injection H as <-. exact (IHe _ eq_refl).
  - intros l IHl r IHr es H. cbn [eval] in H.
    destruct (eval f rho l) as [lv|e1] eqn:El; cbn [bind] in H; [|injection H as <-; exact (IHl _ eq_refl)].
    destruct (eval f rho r) as [rv|e2] eqn:Er; cbn [bind] in H; [|injection H as <-; exact (IHr _ eq_refl)].
    destruct (wd rv); [|exact (err1_ne _ _ _ H)].
    destruct (wd lv); [discriminate H|exact (err1_ne _ _ _ H)].
  - intros e IHe items IHi es H. rewrite eval_in in H.
    destruct (eval f rho e) as [v|e1] eqn:Ee; cbn [bind] in H; [|injection H as <-; exact (IHe _ eq_refl)].
    exact (IHi _ _ H).
  - intros es H. discriminate H.
  - intros c IHc v IHv rest IHr es H. rewrite eval_arms_cons in H.
    destruct (eval f rho c) as [cv|e1] eqn:Ec; cbn [bind] in H; [|injection H as <-; exact (IHc _ eq_refl)].
    destruct (is_true cv); [exact (IHv _ H)|exact (IHr _ H)].
  - intros n es H. discriminate H.
  - intros e IHe rest IHr n es H. rewrite eval_items_cons in H.
    destruct (eval f rho e) as [r|e1] eqn:Ee; cbn [bind] in H; [|injection H as <-; exact (IHe _ eq_refl)].
    destruct (n =? bits r); [discriminate H|exact (IHr _ _ H)].
Qed.

Lemma eval_consts_complete f cs : forall order vals errs vals',
  eval_consts f cs order vals errs = (vals', []) ->
  errs = [] /\ forall n, In n order \/ In n (map fst vals) -> In n (map fst vals').
Proof.
  induction order as [|n r IH]; intros vals errs vals' H; cbn [eval_consts] in H.
  - injection H as <- ->. split; [reflexivity|]. intros n [[]|Hn]. exact Hn.
  - destruct (lookup cs n) as [e|] eqn:El.
    + destruct (check f _ _ e) as [w|es] eqn:Ec.
      * destruct (eval f (lookup vals) e) as [v|es] eqn:Ee.
        -- destruct (IH _ _ _ H) as [He Hk]. split; [exact He|].
           intros m [[<-|Hm]|Hm]; apply Hk.
           ++ right. apply keys_upd. right. reflexivity.
           ++ left. exact Hm.
           ++ right. apply keys_upd. left. exact Hm.
        -- destruct (IH _ _ _ H) as [He _]. apply app_eq_nil in He. destruct He as [_ He].
           exfalso. exact (proj1 (eval_err_all f (lookup vals)) e es Ee He).
      * destruct (IH _ _ _ H) as [He _]. apply app_eq_nil in He. destruct He as [_ He].
        exfalso. exact (check_err _ _ _ _ _ Ec He).
    + injection H as _ H. apply app_eq_nil in H. destruct H as [_ H]. discriminate H.
Qed.

Lemma const_graph_fold_wf : forall cs g,
  gwf g -> NoDup (map fst cs) ->
  (forall n, In n (map fst cs) -> forall x, ~ gedge g x n) ->
  let g' := fold_left (fun g ne =>
                         graph_add_node (fold_left (fun g1 r => graph_insert g1 r (fst ne))
                                                   (nodup_str (refs (snd ne))) g) (fst ne)) cs g in
  gwf g' /\ (forall x, In x (g_nodes g) -> In x (g_nodes g')) /\
  (forall n, In n (map fst cs) -> In n (g_nodes g')).
Proof.
  induction cs as [|[n e] cs IH]; intros g Hwf Hnd Hne; cbn [fold_left].
  - split; [exact Hwf|]. split; [intros x Hx; exact Hx|intros n []].
  - cbn [map fst] in Hnd, Hne. apply NoDup_cons_iff in Hnd. destruct Hnd as [Hn Hnd]. cbn [fst snd].
    destruct (insert_sources_wf (fun _ => false) n (nodup_str (refs e)) g Hwf (nodup_str_NoDup (refs e)))
      as [J1 [J2 J3]].
    { intros r _ He. exact (Hne n (or_introl eq_refl) r He). }
    cbv zeta beta in J1, J2, J3.
    set (g2 := fold_left (fun g1 r => graph_insert g1 r n) (nodup_str (refs e)) g) in *.
    assert (Hwf3 : gwf (graph_add_node g2 n)) by (apply graph_add_node_wf; exact J1).
    assert (Hne3 : forall n0, In n0 (map fst cs) -> forall x, ~ gedge (graph_add_node g2 n) x n0).
    { intros n0 H0 x He. apply graph_add_node_edge in He. apply J2 in He. destruct He as [He|[He _]].
      - exact (Hne n0 (or_intror H0) x He).
      - subst n0. exact (Hn H0). }
    destruct (IH (graph_add_node g2 n) Hwf3 Hnd Hne3) as [I1 [I2 I3]]. cbv zeta in I1, I2, I3.
    split; [exact I1|]. split.
    + intros x Hx. apply I2. apply graph_add_node_nodes. left. apply J3. exact Hx.
    + intros n0 [H0|H0].
      * subst n0. apply I2. apply graph_add_node_nodes. right. reflexivity.
      * apply I3. exact H0.
Qed.

Lemma resolve_constants_complete f cs consts :
  NoDup (map fst cs) -> resolve_constants f cs = Ok consts ->
  forall k, In k (map fst cs) -> In k (map fst consts).
Proof.
  intros Hnd H k Hk. unfold resolve_constants in H.
  destruct (toposort string String.eqb (const_graph cs)) as [[order|cyc]|es1] eqn:Et; cbn [bind] in H;
    [|unfold err1 in H; discriminate H | discriminate H].
  destruct (eval_consts f cs order [] []) as [vals errs] eqn:Ee.
  destruct errs as [|e0 errs]; [|discriminate H]. injection H as <-.
  destruct (const_graph_fold_wf cs empty_graph empty_graph_wf Hnd) as [Hwf [_ Hnodes]].
  { intros n _ x He. exact (empty_graph_edge x n He). }
  cbv zeta in Hwf, Hnodes. fold (const_graph cs) in Hwf, Hnodes.
  destruct (order_valid string String.eqb String.eqb_eq (const_graph cs) order Hwf Et) as [_ [Hin _]].
  apply (proj2 (eval_consts_complete f cs order [] [] vals Ee)). left.
  apply Hin. apply Hnodes. exact Hk.
Qed.

(* ---- the recorded wire types of an accepted program mark exactly its constants ------------------- *)
Section BuiltTypes.
  Variable f : features.
  Variable fixed : list fixed_fn.
  Variable is_lower : string -> bool.
  Variable is_upper : string -> bool.

  Notation build := (build_program f fixed is_lower is_upper).
  Notation S1 stmts := (fold_left (step1 fixed) stmts (init1 fixed)).
  Notation T3 s consts := (fold_left (step3_bank f is_lower is_upper s consts) (s_banks s)
                                     (mkSt3 [] [] (s_types s) [] [] [])).

  Definition tconst (k : string) (m : list (string * wtype)) : Prop := lookup m k = Some TConstant.

  Lemma types_fold_const d : forall s k,
    lookup (s_types (fold_left (step1_const fixed) d s)) k =
    if mem_str k (map fst d) then Some TConstant else lookup (s_types s) k.
  Proof.
    induction d as [|[n e] r IH]; intros s k; cbn [fold_left map fst mem_str]; [reflexivity|].
    rewrite IH. destruct (mem_str k (map fst r)); [now rewrite orb_true_r|].
    rewrite orb_false_r. cbn [step1_const s_types]. rewrite lookup_upd. reflexivity.
  Qed.

  Lemma types_fold_wire d : forall s k,
    lookup (s_types (fold_left (step1_wire fixed) d s)) k =
    if mem_str k (map fst d) then Some TNormal else lookup (s_types s) k.
  Proof.
    induction d as [|[n e] r IH]; intros s k; cbn [fold_left map fst mem_str]; [reflexivity|].
    rewrite IH. destruct (mem_str k (map fst r)); [now rewrite orb_true_r|].
    rewrite orb_false_r. cbn [step1_wire s_types]. rewrite lookup_upd. reflexivity.
  Qed.

  Lemma types_step1_other s x :
    match x with SAssign _ | SBank _ _ => s_types (step1 fixed s x) = s_types s | _ => True end.
  Proof.
    destruct x as [d|d|a|bn regs]; cbn [step1]; try exact I; [|reflexivity].
    apply (fold_same s_types). intros s0 a0. apply (fold_same s_types). intros s1 n. reflexivity.
  Qed.

  Lemma S1_types_const_iff k : forall stmts s,
    ~ In k (wire_names stmts) ->
    (tconst k (s_types (fold_left (step1 fixed) stmts s)) <->
     In k (const_names stmts) \/ tconst k (s_types s)).
  Proof.
    induction stmts as [|x r IH]; intros s Hw; cbn [fold_left].
    - cbn [const_names flat_map In]. tauto.
    - unfold wire_names in Hw. cbn [flat_map] in Hw. rewrite in_app_iff in Hw.
      rewrite (IH (step1 fixed s x)) by (intros H; apply Hw; right; exact H).
      unfold const_names at 2. cbn [flat_map]. rewrite in_app_iff. fold (const_names r).
      pose proof (types_step1_other s x) as Ho.
      destruct x as [d|d|a|bn regs]; unfold tconst; cbn [step1].
      + rewrite types_fold_const. destruct (mem_str k (map fst d)) eqn:E.
        * apply mem_str_In in E. tauto.
        * apply mem_str_false in E. tauto.
      + rewrite types_fold_wire. destruct (mem_str k (map fst d)) eqn:E.
        * apply mem_str_In in E. exfalso. apply Hw. left. exact E.
        * cbn [In]. tauto.
      + cbn [step1] in Ho. rewrite Ho. cbn [In]. tauto.
      + cbn [step1] in Ho. rewrite Ho. cbn [In]. tauto.
  Qed.

  Lemma S1_types_const_only k : forall stmts s,
    ~ In k (const_names stmts) ->
    tconst k (s_types (fold_left (step1 fixed) stmts s)) -> tconst k (s_types s).
  Proof.
    induction stmts as [|x r IH]; intros s Hc H; cbn [fold_left] in H; [exact H|].
    unfold const_names in Hc. cbn [flat_map] in Hc. rewrite in_app_iff in Hc.
    apply IH in H; [|intros H0; apply Hc; right; exact H0].
    pose proof (types_step1_other s x) as Ho.
    destruct x as [d|d|a|bn regs]; unfold tconst in *; cbn [step1] in H.
    - rewrite types_fold_const in H. destruct (mem_str k (map fst d)) eqn:E; [|exact H].
      apply mem_str_In in E. exfalso. apply Hc. left. exact E.
    - rewrite types_fold_wire in H. destruct (mem_str k (map fst d)); [discriminate H|exact H].
    - cbn [step1] in Ho. rewrite Ho in H. exact H.
    - cbn [step1] in Ho. rewrite Ho in H. exact H.
  Qed.

  Lemma init_types_not_const k : ~ tconst k (s_types (init1 fixed)).
  Proof.
    unfold tconst, init1. cbn [s_types]. intros H.
    change (fun (m : list (string * wtype)) (nt : string * wtype) => upd m (fst nt) (snd nt))
      with (@updp wtype) in H.
    apply fold_upd_lookup_some in H. destruct H as [H|H]; [discriminate H|].
    unfold fixed_types in H. apply in_flat_map in H. destruct H as (ff & _ & H).
    apply in_app_iff in H. destruct H as [H|H].
    - apply in_map_iff in H. destruct H as (nw & Heq & _). discriminate Heq.
    - destruct (ff_out ff) as [[n w]|]; [|destruct H]. destruct H as [H|[]]. discriminate H.
  Qed.

  Lemma S1_types_const stmts k :
    NoDup (const_names stmts ++ wire_names stmts) ->
    (tconst k (s_types (S1 stmts)) <-> In k (const_names stmts)).
  Proof.
    intros Hnd. split.
    - intros H. destruct (in_dec string_dec k (const_names stmts)) as [Hi|Hi]; [exact Hi|].
      exfalso. exact (init_types_not_const k (S1_types_const_only k stmts _ Hi H)).
    - intros Hi. apply S1_types_const_iff; [|left; exact Hi].
      intros Hw.
      revert Hnd Hi Hw. generalize (const_names stmts) (wire_names stmts).
      induction l as [|a l IHl]; intros l2 Hnd Hi Hw; [destruct Hi|].
      cbn [app] in Hnd. inversion Hnd as [|x1 x2 Hnin Hnd']; subst x1 x2.
      destruct Hi as [->|Hi].
      + apply Hnin. apply in_app_iff. right. exact Hw.
      + exact (IHl l2 Hnd' Hi Hw).
  Qed.

  (* step 3 only overwrites types of names that are not declared, and never with TConstant *)
  Lemma step3_register_types s consts bn inp outp a r k :
    let a' := step3_register f s consts bn inp outp a r in
    (tconst k (t_types (r_t a')) -> tconst k (t_types (r_t a))) /\
    (t_errs (r_t a') = [] -> In k (s_decls s) ->
     lookup (t_types (r_t a')) k = lookup (t_types (r_t a)) k).
  Proof.
    destruct a as [[t sigs] defaults]. destruct r as [[rname w] dflt]. cbv zeta.
    unfold step3_register. cbv beta iota zeta.
    set (in_name := (inp ++ "_" ++ rname)%string). set (out_name := (outp ++ "_" ++ rname)%string).
    match goal with
    | |- context [match ?pre with [] => _ | _ :: _ => _ end] => destruct pre as [|e0 pre0] eqn:Epre
    end.
    - apply app_eq_nil in Epre. destruct Epre as [E1 _].
      cbn [flat_map] in E1. apply app_eq_nil in E1. destruct E1 as [E1a E1b].
      apply app_eq_nil in E1b. destruct E1b as [E1b _].
      destruct (mem_str in_name (s_decls s)) eqn:D1; [discriminate E1a|].
      destruct (mem_str out_name (s_decls s)) eqn:D2; [discriminate E1b|].
      apply mem_str_false in D1, D2.
      assert (Hl : lookup (upd (upd (t_types t) in_name TRegisterBankInput) out_name TRegisterBankOutput) k =
                   if String.eqb k out_name then Some TRegisterBankOutput
                   else if String.eqb k in_name then Some TRegisterBankInput else lookup (t_types t) k).
      { rewrite !lookup_upd. reflexivity. }
      destruct (check f _ (lookup consts) dflt) as [wc|esc];
        [destruct (eval f (lookup consts) dflt) as [v|es]|];
        cbn [r_t fst snd t_types t_errs]; unfold tconst;
        rewrite Hl; (split; [intros H|intros _ Hk]);
        destruct (String.eqb k out_name) eqn:Eo; try discriminate H;
        destruct (String.eqb k in_name) eqn:Ei; try discriminate H; try exact H; try reflexivity;
        try (apply String.eqb_eq in Eo; subst k; contradiction);
        try (apply String.eqb_eq in Ei; subst k; contradiction).
    - cbn [r_t fst snd t_types t_errs]. unfold tconst. rewrite !lookup_upd. split.
      + intros H. destruct (String.eqb k out_name); [discriminate H|].
        destruct (String.eqb k in_name); [discriminate H|exact H].
      + intros He. apply app_eq_nil in He. destruct He as [_ He]. discriminate He.
  Qed.

  Lemma fold_left_pres {A B} (I : A -> Prop) (step : A -> B -> A) :
    (forall a x, I (step a x) -> I a) -> forall l a, I (fold_left step l a) -> I a.
  Proof.
    intros H. induction l as [|x l IH]; intros a Hi; cbn [fold_left] in Hi; [exact Hi|].
    apply (H a x). apply IH. exact Hi.
  Qed.

  Lemma step3_bank_types s consts t b k :
    (tconst k (t_types (step3_bank f is_lower is_upper s consts t b)) -> tconst k (t_types t)) /\
    (t_errs (step3_bank f is_lower is_upper s consts t b) = [] -> In k (s_decls s) ->
     lookup (t_types (step3_bank f is_lower is_upper s consts t b)) k = lookup (t_types t) k).
  Proof.
    destruct b as [name regs]. unfold step3_bank. cbv beta iota.
    destruct (utf8_chars name "") as [|inp [|outp [|x l]]] eqn:Eu;
      try (cbn [t_types]; split; [tauto|reflexivity]).
    destruct (negb (is_lower inp) || negb (is_upper outp)) eqn:Ecase;
      [cbn [t_types]; split; [tauto|reflexivity]|].
    match goal with
    | |- context [fold_left ?F regs ?A] =>
        set (a0 := A); set (F0 := F); destruct (fold_left F0 regs a0) as [[t2 sigs] defaults] eqn:Ef
    end.
    cbn [t_types t_errs].
    assert (Et2 : t2 = r_t (fold_left F0 regs a0)) by (rewrite Ef; reflexivity).
    split.
    - intros H. rewrite Et2 in H.
      apply (fold_left_pres (fun a => tconst k (t_types (r_t a))) F0) in H.
      + subst a0. cbn [r_t fst t_types] in H. unfold tconst in *. rewrite !lookup_upd in H.
        destruct (String.eqb k ("bubble_" ++ outp)); [discriminate H|].
        destruct (String.eqb k ("stall_" ++ outp)); [discriminate H|exact H].
      + intros a r. exact (proj1 (step3_register_types s consts name inp outp a r k)).
    - intros He Hk. rewrite Et2 in He |- *.
      assert (Hgrow : forall a r, t_errs (r_t (F0 a r)) = [] -> t_errs (r_t a) = []).
      { intros a r. apply step3_register_errs. }
      destruct (fold_inv_noerr (fun a => t_errs (r_t a))
                  (fun a => lookup (t_types (r_t a)) k = lookup (t_types (r_t a0)) k)
                  F0 regs Hgrow) with (s := a0) as [Hfin He0].
      + intros a r _ Ha Hea. rewrite <- Ha.
        exact (proj2 (step3_register_types s consts name inp outp a r k) Hea Hk).
      + reflexivity.
      + exact He.
      + rewrite Hfin. subst a0. cbn [r_t fst t_types t_errs] in *.
        apply app_eq_nil in He0. destruct He0 as [_ Hsp].
        cbn [flat_map] in Hsp. apply app_eq_nil in Hsp. destruct Hsp as [Hsp1 Hsp2].
        apply app_eq_nil in Hsp2. destruct Hsp2 as [Hsp2 _].
        destruct (mem_str ("stall_" ++ outp)%string (s_decls s)) eqn:Dst; [discriminate Hsp1|].
        destruct (mem_str ("bubble_" ++ outp)%string (s_decls s)) eqn:Dbu; [discriminate Hsp2|].
        apply mem_str_false in Dst, Dbu. rewrite !lookup_upd.
        destruct (String.eqb k ("bubble_" ++ outp)) eqn:E1;
          [apply String.eqb_eq in E1; subst k; contradiction|].
        destruct (String.eqb k ("stall_" ++ outp)) eqn:E2;
          [apply String.eqb_eq in E2; subst k; contradiction|reflexivity].
  Qed.

  Lemma T3_types s consts k :
    (tconst k (t_types (T3 s consts)) -> tconst k (s_types s)) /\
    (t_errs (T3 s consts) = [] -> In k (s_decls s) ->
     lookup (t_types (T3 s consts)) k = lookup (s_types s) k).
  Proof.
    split.
    - intros H.
      apply (fold_left_pres (fun t => tconst k (t_types t)) (step3_bank f is_lower is_upper s consts)) in H.
      + exact H.
      + intros t b. exact (proj1 (step3_bank_types s consts t b k)).
    - intros He Hk.
      destruct (fold_inv_noerr t_errs (fun t => lookup (t_types t) k = lookup (s_types s) k)
                  (step3_bank f is_lower is_upper s consts) (s_banks s)) with
          (s := mkSt3 [] [] (s_types s) [] [] []) as [Hfin _].
      + intros t [name regs] H. exact (proj1 (step3_bank_inv f is_lower is_upper s consts t name regs H)).
      + intros t b _ Ht Hb. rewrite <- Ht. exact (proj2 (step3_bank_types s consts t b k) Hb Hk).
      + reflexivity.
      + exact He.
      + exact Hfin.
  Qed.

  (* what is proved: a constant of the program is recorded as constant; a name recorded as
     constant is a declared constant *)
  Theorem built_consts_typed stmts p :
    build stmts = Ok p ->
    (forall k, has (p_consts p) k = true -> type_of p k = TConstant) /\
    (forall k, type_of p k = TConstant -> In k (const_names stmts)).
  Proof.
    intros Hb.
    destruct (accept_declared_once_ok f fixed is_lower is_upper stmts p Hb) as [Hnd _].
    destruct (build_ok_inv f fixed is_lower is_upper stmts p Hb)
      as (_ & _ & _ & consts & Hrc & Het & _ & acts & _ & ->).
    unfold type_of. cbn [p_consts p_types]. split.
    - intros k Hk. apply has_In in Hk.
      apply (proj2 (resolve_constants_keys f _ _ Hrc)) in Hk.
      apply (proj1 (S1_consts_has fixed is_lower is_upper stmts k)) in Hk.
      assert (Hd : In k (s_decls (S1 stmts))) by (apply (proj2 (S1_decls_In fixed is_lower is_upper stmts k)); left; exact Hk).
      rewrite (proj2 (T3_types (S1 stmts) consts k) Het Hd).
      pose proof (proj2 (S1_types_const stmts k Hnd) Hk) as Hc. unfold tconst in Hc.
      rewrite Hc. reflexivity.
    - intros k Hk.
      destruct (lookup (t_types (T3 (S1 stmts) consts)) k) as [ty|] eqn:E; [|discriminate Hk]. subst ty.
      apply (proj1 (T3_types (S1 stmts) consts k)) in E.
      exact (proj1 (S1_types_const stmts k Hnd) E).
  Qed.

  Theorem built_types_mark_consts stmts p : build stmts = Ok p -> types_mark_consts p.
  Proof.
    intros Hb k. destruct (built_consts_typed stmts p Hb) as [H1 H2]. split; [apply H1|].
    intros Ht. apply H2 in Ht.
    destruct (build_ok_inv f fixed is_lower is_upper stmts p Hb)
      as (_ & _ & _ & consts & Hrc & _ & _ & acts & _ & ->).
    cbn [p_consts]. apply has_In.
    apply (resolve_constants_complete f _ _ (S1_consts_NoDup fixed stmts) Hrc).
    apply has_In. apply (proj2 (S1_consts_has fixed is_lower is_upper stmts k)). exact Ht.
  Qed.
End BuiltTypes.

Theorem built_types_mark_consts_holds : stmt_built_types_mark_consts.
Proof. intros f fixed is_lower is_upper stmts p. apply built_types_mark_consts. Qed.

(* an accepted program (the counter again, through the model of Program::new) *)
Definition ex_stmts : list stmt :=
  [SConst [("K", EConst (mkV 1 (Bits 8)))];
   SWire [("foo", Bits 8); ("FOO", Bits 8)];
   SBank "xC" [("n", Bits 8, EConst (mkV 0 (Bits 8)))];
   SAssign [(["x_n"], EBin Add (EWire "C_n") (EWire "K"))];
   SAssign [(["foo"], EWire "C_n")];
   SAssign [(["FOO"], EWire "x_n")];
   SAssign [(["pc"], EConst (mkV 0 (Bits 64)))];
   SAssign [(["Stat"], EConst (mkV 2 (Bits 3)))]].

Example ex_built_types_mark_consts_instance :
  match build_program gen_features gen_fixed ascii_lower ascii_upper ex_stmts with
  | Ok p => types_mark_consts p /\ has (p_consts p) "K" = true /\ type_of p "K" = TConstant /\
            type_of p "foo" = TNormal /\ p_defaulted p = ["stall_C"; "bubble_C"]
  | Err _ => False
  end.
Proof.
  pose proof (built_types_mark_consts_holds gen_features gen_fixed ascii_lower ascii_upper ex_stmts) as H.
  destruct (build_program gen_features gen_fixed ascii_lower ascii_upper ex_stmts) as [p|e] eqn:E;
    [|vm_compute in E; discriminate E].
  split; [exact (H p eq_refl)|]. vm_compute in E. injection E as <-. vm_compute. repeat split.
Qed.

Example ex_lookup_perm_instance :
  lookup ex_vals "FOO" = Some (mkV 255 (Bits 8)) /\ lookup (rev ex_vals) "FOO" = lookup ex_vals "FOO".
Proof. vm_compute. split; reflexivity. Qed.

Example ex_keys_inv_step_instance :
  match step gen_features (set_debug default_options) ex_run_p ex_run_s0 with
  | Ok (s1, _) => keys_inv ex_run_p s1 /\ NoDup (map fst (values s1))
  | Err _ => False
  end.
Proof.
  destruct (step gen_features (set_debug default_options) ex_run_p ex_run_s0) as [[s1 t]|e] eqn:E;
    [|vm_compute in E; discriminate E].
  split.
  - eapply keys_inv_step_holds; [|exact E]. apply keys_inv_initial_holds. vm_compute. reflexivity.
  - eapply step_keys_distinct_holds; [|exact E]. apply NoDup_by_nodupb. vm_compute. reflexivity.
Qed.

Print Assumptions key_order_characterised_holds.
Print Assumptions key_order_strict_total_holds.
Print Assumptions sort_order_free_holds.
Print Assumptions rows_exactly_unique_holds.
Print Assumptions lookup_perm_holds.
Print Assumptions table_order_free_holds.
Print Assumptions table_lists_each_once_holds.
Print Assumptions table_total_holds.
Print Assumptions table_same_wires_both_forms_holds.
Print Assumptions bank_dump_order_free_holds.
Print Assumptions bank_dump_decl_order_free_holds.
Print Assumptions bank_dump_distinct_letters_order_free_holds.
Print Assumptions canonical_bank_order_unique_holds.
Print Assumptions canonical_bank_order_perm_holds.
Print Assumptions dump_bank_list_concat_holds.
Print Assumptions bank_dump_lists_every_bank_holds.
Print Assumptions bank_dump_lists_every_bank_ok_holds.
Print Assumptions bank_dump_fails_iff_holds.
Print Assumptions bank_dump_order_within_letter_matters.
Print Assumptions step_order_free_holds.
Print Assumptions run_order_free_holds.
Print Assumptions initial_keys_distinct_holds.
Print Assumptions step_prints_table_holds.
Print Assumptions step_keys_distinct_holds.
Print Assumptions keys_inv_step_holds.
Print Assumptions keys_inv_initial_holds.
Print Assumptions cycle_candidates_holds.
Print Assumptions built_consts_typed.
Print Assumptions built_types_mark_consts_holds.
