(* Proofs of the BuildSpec statements about Build.build_program (the model of Program::new).
   No axioms.  Statements that are false as written are proved in a corrected form under a
   `_partial` name; the counterexamples are recorded (and checked by computation) at the end. *)
From Coq Require Import Permutation.
From HclV Require Import Base Expr ExprSpec ExprLemmas ExprProofs Machine Graph GraphSpec GraphProofs
     Build MachineSpec MachineProofs SchedSpec BuildSpec Generated.
Open Scope string_scope.
Open Scope list_scope.
Open Scope N_scope.

(* ================================================================================== *)
(* Part A: lists of strings used as sets, association lists                            *)
(* ================================================================================== *)

Lemma mem_str_In (x : string) (l : list string) : mem_str x l = true <-> In x l.
Proof.
  induction l as [|y r IH]; cbn [mem_str In].
  - split; [discriminate | intros []].
  - rewrite orb_true_iff, IH, String.eqb_eq. split; intros [H|H]; auto.
Qed.

Lemma mem_str_false (x : string) (l : list string) : mem_str x l = false <-> ~ In x l.
Proof.
  rewrite <- mem_str_In. destruct (mem_str x l); intuition congruence.
Qed.

Lemma add_set_In (x y : string) (l : list string) : In y (add_set x l) <-> In y l \/ y = x.
Proof.
  unfold add_set. destruct (mem_str x l) eqn:E.
  - apply mem_str_In in E. split; [intros H; left; exact H|].
    intros [H|H]; [exact H | subst y; exact E].
  - rewrite in_app_iff. cbn [In]. intuition congruence.
Qed.

Lemma NoDup_snoc_str (l : list string) (x : string) : NoDup l -> ~ In x l -> NoDup (l ++ [x]).
Proof.
  induction l as [|a l IH]; cbn [app]; intros Hn Hx.
  - constructor; [intros [] | constructor].
  - apply NoDup_cons_iff in Hn. destruct Hn as [Ha Hl]. apply NoDup_cons_iff. split.
    + rewrite in_app_iff. cbn [In]. intros [H|[H|[]]]; [apply Ha; exact H|].
      apply Hx. left. symmetry. exact H.
    + apply IH; [exact Hl|]. intros H. apply Hx. right. exact H.
Qed.

Lemma add_set_NoDup (x : string) (l : list string) : NoDup l -> NoDup (add_set x l).
Proof.
  intros Hn. unfold add_set. destruct (mem_str x l) eqn:E; [exact Hn|].
  apply mem_str_false in E. apply NoDup_snoc_str; assumption.
Qed.

Lemma add_set_fresh (x : string) (l : list string) : ~ In x l -> add_set x l = l ++ [x].
Proof. intros H. apply mem_str_false in H. unfold add_set. rewrite H. reflexivity. Qed.

Lemma fold_add_set_In (xs : list string) : forall (l : list string) (y : string),
  In y (fold_left (fun l x => add_set x l) xs l) <-> In y l \/ In y xs.
Proof.
  induction xs as [|x xs IH]; intros l y; cbn [fold_left In].
  - split; [intros H; left; exact H | intros [H|[]]; exact H].
  - rewrite IH, add_set_In. split.
    + intros [[H|H]|H]; auto.
    + intros [H|[H|H]]; auto.
Qed.

Lemma fold_add_set_NoDup (xs : list string) : forall (l : list string),
  NoDup l -> NoDup (fold_left (fun l x => add_set x l) xs l).
Proof.
  induction xs as [|x xs IH]; intros l Hn; cbn [fold_left]; [exact Hn|].
  apply IH. apply add_set_NoDup. exact Hn.
Qed.

Lemma nodup_str_In (x : string) (l : list string) : In x (nodup_str l) <-> In x l.
Proof.
  induction l as [|y r IH]; cbn [nodup_str In]; [reflexivity|].
  destruct (mem_str y r) eqn:E.
  - rewrite IH. split; [intros H; right; exact H|].
    intros [H|H]; [subst y; apply mem_str_In; exact E | exact H].
  - cbn [In]. rewrite IH. reflexivity.
Qed.

Lemma nodup_str_NoDup (l : list string) : NoDup (nodup_str l).
Proof.
  induction l as [|y r IH]; cbn [nodup_str]; [constructor|].
  destruct (mem_str y r) eqn:E; [exact IH|].
  constructor; [|exact IH]. rewrite nodup_str_In. apply mem_str_false. exact E.
Qed.

Lemma count_str_pos (x : string) (l : list string) : In x l -> count_str x l <> O.
Proof.
  induction l as [|y r IH]; cbn [In count_str]; [intros []|].
  intros [H|H].
  - subst y. rewrite String.eqb_refl. discriminate.
  - specialize (IH H). destruct (String.eqb x y); cbn [Nat.add]; [discriminate | exact IH].
Qed.

Lemma errs_for_nonempty (k : ekind) (n : string) (c : nat) : c <> O -> errs_for k n c <> [].
Proof. destruct c as [|c]; [intros H; contradiction H; reflexivity|]. intros _. unfold errs_for. cbn [repeat]. discriminate. Qed.

Lemma flat_map_nil_inv {A B} (g : A -> list B) (l : list A) :
  flat_map g l = [] -> forall x, In x l -> g x = [].
Proof.
  induction l as [|a l IH]; cbn [flat_map In]; intros H x Hx; [contradiction|].
  apply app_eq_nil in H. destruct H as [H1 H2].
  destruct Hx as [Hx|Hx]; [subst a; exact H1 | apply IH; assumption].
Qed.

Lemma flat_map_single {A B} (g : A -> B) (l : list A) : flat_map (fun x => [g x]) l = map g l.
Proof. induction l as [|a l IH]; cbn [flat_map map app]; [reflexivity | rewrite IH; reflexivity]. Qed.

Section Alist2.
  Context {V : Type}.

  Lemma lookup_In (m : list (string * V)) k v : lookup m k = Some v -> In (k, v) m.
  Proof.
    induction m as [|[k0 v0] r IH]; cbn [lookup In]; [discriminate|].
    destruct (String.eqb k k0) eqn:E.
    - apply String.eqb_eq in E. subst k0. intros H. injection H as ->. left. reflexivity.
    - intros H. right. apply IH. exact H.
  Qed.

  Lemma lookup_None (m : list (string * V)) k : lookup m k = None <-> ~ In k (map fst m).
  Proof.
    induction m as [|[k0 v0] r IH]; cbn [lookup map In fst].
    - split; [intros _ [] | reflexivity].
    - destruct (String.eqb k k0) eqn:E.
      + apply String.eqb_eq in E. subst k0. split; [discriminate|]. intros H. exfalso. apply H. left. reflexivity.
      + apply String.eqb_neq in E. rewrite IH. split.
        * intros H [H1|H1]; [apply E; symmetry; exact H1 | apply H; exact H1].
        * intros H H1. apply H. right. exact H1.
  Qed.

  Lemma has_In (m : list (string * V)) k : has m k = true <-> In k (map fst m).
  Proof.
    unfold has. destruct (lookup m k) as [v|] eqn:E.
    - split; [intros _|reflexivity]. apply lookup_In in E. apply (in_map fst) in E. exact E.
    - apply lookup_None in E. split; [discriminate | intros H; contradiction].
  Qed.

  Lemma has_false (m : list (string * V)) k : has m k = false <-> ~ In k (map fst m).
  Proof.
    rewrite <- has_In. destruct (has m k); intuition congruence.
  Qed.

  Lemma has_lookup (m : list (string * V)) k : has m k = true <-> exists v, lookup m k = Some v.
  Proof.
    unfold has. destruct (lookup m k) as [v|].
    - split; [intros _; exists v; reflexivity | reflexivity].
    - split; [discriminate | intros [v H]; discriminate H].
  Qed.

  Lemma In_lookup (m : list (string * V)) k v : NoDup (map fst m) -> In (k, v) m -> lookup m k = Some v.
  Proof.
    induction m as [|[k0 v0] r IH]; cbn [lookup map In fst]; intros Hn Hin; [contradiction|].
    apply NoDup_cons_iff in Hn. destruct Hn as [Hk Hr]. destruct Hin as [Hin|Hin].
    - injection Hin as -> ->. rewrite String.eqb_refl. reflexivity.
    - destruct (String.eqb k k0) eqn:E.
      + apply String.eqb_eq in E. subst k0. exfalso. apply Hk. apply (in_map fst) in Hin. exact Hin.
      + apply IH; assumption.
  Qed.

  Lemma map_fst_upd (m : list (string * V)) k v : map fst (upd m k v) = add_set k (map fst m).
  Proof.
    induction m as [|[k0 v0] r IH]; cbn [upd map fst]; [reflexivity|].
    unfold add_set. cbn [mem_str]. destruct (String.eqb k k0) eqn:E; cbn [orb map fst].
    - reflexivity.
    - rewrite IH. unfold add_set. destruct (mem_str k (map fst r)); reflexivity.
  Qed.

  Lemma upd_keys_NoDup (m : list (string * V)) k v : NoDup (map fst m) -> NoDup (map fst (upd m k v)).
  Proof. intros H. rewrite map_fst_upd. apply add_set_NoDup. exact H. Qed.

  Lemma upd_fresh (m : list (string * V)) k v : lookup m k = None -> upd m k v = m ++ [(k, v)].
  Proof.
    induction m as [|[k0 v0] r IH]; cbn [upd lookup app]; [reflexivity|].
    destruct (String.eqb k k0); [discriminate|]. intros H. rewrite IH by exact H. reflexivity.
  Qed.

  Lemma lookup_app (m m' : list (string * V)) k :
    lookup (m ++ m') k = match lookup m k with Some v => Some v | None => lookup m' k end.
  Proof.
    induction m as [|[k0 v0] r IH]; cbn [app lookup]; [reflexivity|].
    destruct (String.eqb k k0); [reflexivity | exact IH].
  Qed.

  (* a fold of upd over a list of bindings *)
  Definition updp (m : list (string * V)) (kv : string * V) := upd m (fst kv) (snd kv).

  Lemma fold_upd_keys_NoDup (l : list (string * V)) : forall m,
    NoDup (map fst m) -> NoDup (map fst (fold_left updp l m)).
  Proof.
    induction l as [|[k v] l IH]; intros m Hn; cbn [fold_left]; [exact Hn|].
    apply IH. unfold updp. cbn [fst snd]. apply upd_keys_NoDup. exact Hn.
  Qed.

  Lemma fold_upd_keys_In (l : list (string * V)) : forall m k,
    In k (map fst (fold_left updp l m)) <-> In k (map fst m) \/ In k (map fst l).
  Proof.
    induction l as [|[k0 v0] l IH]; intros m k; cbn [fold_left map In fst].
    - split; [intros H; left; exact H | intros [H|[]]; exact H].
    - rewrite IH. unfold updp. cbn [fst snd]. rewrite map_fst_upd, add_set_In. split.
      + intros [[H|H]|H]; auto.
      + intros [H|[H|H]]; auto.
  Qed.

  Lemma fold_upd_lookup_notin (l : list (string * V)) : forall m k,
    ~ In k (map fst l) -> lookup (fold_left updp l m) k = lookup m k.
  Proof.
    induction l as [|[k0 v0] l IH]; intros m k Hk; cbn [fold_left]; [reflexivity|].
    cbn [map In fst] in Hk. rewrite IH by (intros H; apply Hk; right; exact H).
    unfold updp. cbn [fst snd]. apply lookup_upd_ne. intros H. apply Hk. left. symmetry. exact H.
  Qed.

  (* all bindings of k in l agree on v *)
  Lemma fold_upd_lookup_agree (l : list (string * V)) : forall m k v,
    (forall v', In (k, v') l -> v' = v) ->
    lookup m k = Some v \/ In (k, v) l ->
    lookup (fold_left updp l m) k = Some v.
  Proof.
    induction l as [|[k0 v0] l IH]; intros m k v Hag H; cbn [fold_left].
    - destruct H as [H|[]]. exact H.
    - apply IH.
      + intros v' Hv'. apply Hag. right. exact Hv'.
      + unfold updp. cbn [fst snd]. rewrite lookup_upd.
        destruct (String.eqb k k0) eqn:E.
        * apply String.eqb_eq in E. subst k0. left. f_equal. apply Hag. left. reflexivity.
        * destruct H as [H|[H|H]]; [left; exact H | | right; exact H].
          injection H as -> ->. rewrite String.eqb_refl in E. discriminate E.
  Qed.

  Lemma fold_upd_lookup_some (l : list (string * V)) : forall m k v,
    lookup (fold_left updp l m) k = Some v -> lookup m k = Some v \/ In (k, v) l.
  Proof.
    induction l as [|[k0 v0] l IH]; intros m k v H; cbn [fold_left] in H; [left; exact H|].
    apply IH in H. destruct H as [H|H]; [|right; right; exact H].
    unfold updp in H. cbn [fst snd] in H. rewrite lookup_upd in H.
    destruct (String.eqb k k0) eqn:E; [|left; exact H].
    apply String.eqb_eq in E. subst k0. injection H as ->. right. left. reflexivity.
  Qed.
End Alist2.

(* ================================================================================== *)
(* Part B: every failure of the sorter carries a diagnostic                             *)
(* ================================================================================== *)
Section SorterErrs.
  Variable node : Type.
  Variable eqb : node -> node -> bool.

  Lemma visit_outs_err cur : forall outs counts visited queue es,
    visit_outs node eqb cur outs counts visited queue = Err es -> es <> [].
  Proof.
    induction outs as [|out r IH]; intros counts visited queue es H; cbn [visit_outs] in H; [discriminate H|].
    destruct (existsb (pair_eqb node eqb (cur, out)) visited) eqn:E1; [apply IH in H; exact H|].
    destruct ((match assoc node eqb counts out with Some c => c | None => 0 end) =? 0) eqn:E2.
    - unfold err1 in H. injection H as <-. discriminate.
    - apply IH in H. exact H.
  Qed.

  Lemma kahn_loop_err g : forall fuel queue counts visited acc es,
    kahn_loop node eqb fuel g queue counts visited acc = Err es -> es <> [].
  Proof.
    induction fuel as [|fu IH]; intros queue counts visited acc es H.
    - destruct queue as [|cur rest]; cbn [kahn_loop] in H; [discriminate H|].
      unfold err1 in H. injection H as <-. discriminate.
    - destruct queue as [|cur rest]; cbn [kahn_loop] in H; [discriminate H|].
      destruct (visit_outs node eqb cur (succs node eqb g cur) counts visited rest) as [[[c1 v1] q1]|es1] eqn:E;
        cbn [bind] in H.
      + apply IH in H. exact H.
      + injection H as <-. apply visit_outs_err in E. exact E.
  Qed.

  Lemma find_cycle_loop_err g : forall fuel stack ps es,
    find_cycle_loop node eqb fuel g stack ps = Err es -> es <> [].
  Proof.
    induction fuel as [|fu IH]; intros stack ps es H; cbn [find_cycle_loop] in H.
    - unfold err1 in H. injection H as <-. discriminate.
    - destruct stack as [|[mp cur] rest].
      + unfold err1 in H. injection H as <-. discriminate.
      + destruct mp as [parent|].
        * destruct (match assoc node eqb ps cur with Some _ => true | None => false end) eqn:E1.
          -- destruct (back_path node eqb (S (List.length (g_nodes g))) ps cur [parent] parent) eqn:E2;
               [discriminate H | apply IH in H; exact H].
          -- apply IH in H. exact H.
        * apply IH in H. exact H.
  Qed.

  Lemma toposort_err g es : toposort node eqb g = Err es -> es <> [].
  Proof.
    unfold toposort. intros H.
    destruct (kahn_loop node eqb (S (List.length (g_nodes g))) g (init_queue node eqb g)
                        (init_counts node eqb g) [] []) as [[order visited]|es1] eqn:E; cbn [bind] in H.
    - destruct (N.of_nat (List.length visited) =? g_num_edges g) eqn:E1; [discriminate H|].
      unfold find_cycle in H.
      destruct (find_cycle_loop node eqb (S (List.length (g_nodes g) + edge_total node g)) g
                                (map (fun n => (None, n)) (g_nodes g)) []) as [c|es2] eqn:E2; cbn [bind] in H.
      + discriminate H.
      + injection H as <-. apply find_cycle_loop_err in E2. exact E2.
    - injection H as <-. apply kahn_loop_err in E. exact E.
  Qed.
End SorterErrs.

Lemma nonempty_cons {A} (x : A) (l : list A) : x :: l <> [].
Proof. discriminate. Qed.

(* ================================================================================== *)
(* Part B2: generic facts about bookkeeping folds                                      *)
(* ================================================================================== *)
Lemma NoDup_app_intro2 {A} (l1 l2 : list A) :
  NoDup l1 -> NoDup l2 -> (forall x, In x l1 -> ~ In x l2) -> NoDup (l1 ++ l2).
Proof.
  induction l1 as [|a l1 IH]; cbn [app]; intros H1 H2 Hd; [exact H2|].
  apply NoDup_cons_iff in H1. destruct H1 as [Ha H1]. apply NoDup_cons_iff. split.
  - rewrite in_app_iff. intros [H|H]; [apply Ha; exact H|]. apply (Hd a); [left; reflexivity | exact H].
  - apply IH; [exact H1 | exact H2|]. intros x Hx. apply Hd. right. exact Hx.
Qed.

Lemma map_flat_map {A B C} (h : B -> C) (g : A -> list B) (l : list A) :
  map h (flat_map g l) = flat_map (fun x => map h (g x)) l.
Proof. induction l as [|a l IH]; cbn [flat_map map]; [reflexivity|]. rewrite map_app, IH. reflexivity. Qed.

Lemma flat_map_ext2 {A B} (g g' : A -> list B) (l : list A) :
  (forall x, g x = g' x) -> flat_map g l = flat_map g' l.
Proof. intros H. induction l as [|a l IH]; cbn [flat_map]; [reflexivity|]. rewrite H, IH. reflexivity. Qed.

Lemma flat_map_nil_fun {A B} (l : list A) : flat_map (fun _ : A => @nil B) l = [].
Proof. induction l as [|a l IH]; cbn [flat_map app]; [reflexivity | exact IH]. Qed.

Section FoldGeneric.
  Context {S : Type}.

  Lemma fold_proj {X F Y} (fld : S -> F) (g : F -> Y -> F) (step : S -> X -> S) (proj : X -> list Y) :
    (forall s x, fld (step s x) = fold_left g (proj x) (fld s)) ->
    forall l s, fld (fold_left step l s) = fold_left g (flat_map proj l) (fld s).
  Proof.
    intros H. induction l as [|x l IH]; intros s; cbn [fold_left flat_map]; [reflexivity|].
    rewrite IH, H, fold_left_app. reflexivity.
  Qed.

  Lemma fold_same {X F} (fld : S -> F) (step : S -> X -> S) :
    (forall s x, fld (step s x) = fld s) -> forall l s, fld (fold_left step l s) = fld s.
  Proof.
    intros H. induction l as [|x l IH]; intros s; cbn [fold_left]; [reflexivity|].
    rewrite IH, H. reflexivity.
  Qed.

  Lemma fold_errs_grow {X} (errs : S -> list err) (step : S -> X -> S) :
    (forall s x, errs (step s x) = [] -> errs s = []) ->
    forall l s, errs (fold_left step l s) = [] -> errs s = [].
  Proof.
    intros Hgrow. induction l as [|x l IH]; intros s He; cbn [fold_left] in He; [exact He|].
    apply IH in He. apply Hgrow in He. exact He.
  Qed.

  (* an invariant that is preserved by every step that leaves the error list empty *)
  Lemma fold_inv_noerr {X} (errs : S -> list err) (I : S -> Prop) (step : S -> X -> S) (l : list X) :
    (forall s x, errs (step s x) = [] -> errs s = []) ->
    (forall s x, In x l -> I s -> errs (step s x) = [] -> I (step s x)) ->
    forall s, I s -> errs (fold_left step l s) = [] -> I (fold_left step l s) /\ errs s = [].
  Proof.
    intros Hgrow. induction l as [|x l IH]; intros Hstep s HI He; cbn [fold_left] in *.
    - split; assumption.
    - assert (Hl : forall s x, In x l -> I s -> errs (step s x) = [] -> I (step s x)).
      { intros s0 x0 Hx0. apply Hstep. right. exact Hx0. }
      assert (He1 : errs (step s x) = []).
      { clear IH Hstep Hl HI. revert He. generalize (step s x). induction l as [|y l IHl]; intros s1 He; cbn [fold_left] in He.
        - exact He.
        - apply IHl in He. apply Hgrow in He. exact He. }
      destruct (IH Hl (step s x)) as [H1 H2]; [apply Hstep; [left; reflexivity | exact HI | exact He1] | exact He |].
      split; [exact H1 | apply Hgrow in He1; exact He1].
  Qed.

  Variable set : S -> list string.

  Definition grow_spec {X} (step : S -> X -> S) (key : X -> list string) : Prop :=
    forall s x n, In n (set (step s x)) <-> In n (set s) \/ In n (key x).

  Lemma fold_grow {X} (step : S -> X -> S) (key : X -> list string) :
    grow_spec step key -> grow_spec (fun s l => fold_left step l s) (flat_map key).
  Proof.
    intros H s l. revert s. induction l as [|x l IH]; intros s n; cbn [fold_left flat_map].
    - cbn [In]. tauto.
    - rewrite IH, (H s x n), in_app_iff. tauto.
  Qed.

  Variable errs : S -> list err.
  Variable P : string -> Prop.

  Definition fresh_spec {X} (step : S -> X -> S) (key : X -> list string) : Prop :=
    forall s x, errs (step s x) = [] ->
      errs s = [] /\ NoDup (key x) /\ forall n, In n (key x) -> ~ In n (set s) /\ P n.

  Lemma fold_fresh {X} (step : S -> X -> S) (key : X -> list string) :
    grow_spec step key -> fresh_spec step key -> fresh_spec (fun s l => fold_left step l s) (flat_map key).
  Proof.
    intros Hg Hf s l. revert s. induction l as [|x l IH]; intros s He; cbn [fold_left flat_map] in *.
    - split; [exact He|]. split; [constructor|]. intros n [].
    - destruct (IH _ He) as [He1 [Hn1 Hd1]]. destruct (Hf _ _ He1) as [He0 [Hn0 Hd0]].
      split; [exact He0|]. split.
      + apply NoDup_app_intro2; [exact Hn0 | exact Hn1|].
        intros n Hn Hn'. apply Hd1 in Hn'. destruct Hn' as [Hn' _]. apply Hn'.
        apply (Hg s x n). right. exact Hn.
      + intros n Hn. apply in_app_iff in Hn. destruct Hn as [Hn|Hn]; [apply Hd0; exact Hn|].
        apply Hd1 in Hn. destruct Hn as [Hn HP]. split; [|exact HP].
        intros Hs. apply Hn. apply (Hg s x n). left. exact Hs.
  Qed.

  Lemma grow_ext {X} (step : S -> X -> S) (key key' : X -> list string) :
    (forall x, key x = key' x) -> grow_spec step key -> grow_spec step key'.
  Proof. intros He H s x n. rewrite <- He. apply H. Qed.

  Lemma fresh_ext {X} (step : S -> X -> S) (key key' : X -> list string) :
    (forall x, key x = key' x) -> fresh_spec step key -> fresh_spec step key'.
  Proof. intros He H s x Hx. rewrite <- He. apply H. exact Hx. Qed.
End FoldGeneric.

(* ================================================================================== *)
(* Part B3: the shape of register-bank signal names                                    *)
(* ================================================================================== *)
Definition is_cont (c : ascii) : bool := (128 <=? N_of_ascii c) && (N_of_ascii c <? 192).

Fixpoint skip_cont (s : string) : string :=
  match s with
  | EmptyString => EmptyString
  | String c r => if is_cont c then skip_cont r else s
  end.

(* one character (a byte followed by continuation bytes), then an underscore *)
Definition bank_like (o : string) : bool :=
  match o with
  | EmptyString => false
  | String _ r => match skip_cont r with String c _ => Ascii.eqb c "_" | EmptyString => false end
  end.

Fixpoint all_cont (s : string) : bool :=
  match s with EmptyString => true | String c r => is_cont c && all_cont r end.

Definition charform (c : string) : Prop := exists a r, c = String a r /\ all_cont r = true.

Lemma utf8_chars_cons c r cur :
  utf8_chars (String c r) cur =
  if is_cont c then utf8_chars r (cur ++ String c EmptyString)%string
  else match cur with
       | EmptyString => utf8_chars r (String c EmptyString)
       | _ => cur :: utf8_chars r (String c EmptyString)
       end.
Proof. reflexivity. Qed.

Lemma all_cont_app a b : all_cont (a ++ b)%string = all_cont a && all_cont b.
Proof.
  induction a as [|c a IH]; cbn [append all_cont]; [reflexivity|].
  rewrite IH, andb_assoc. reflexivity.
Qed.

Lemma utf8_chars_charform : forall s cur,
  cur = EmptyString \/ charform cur -> Forall charform (utf8_chars s cur).
Proof.
  induction s as [|c r IH]; intros cur Hcur.
  - cbn [utf8_chars]. destruct cur as [|a cur']; [constructor|].
    constructor; [|constructor]. destruct Hcur as [Hcur|Hcur]; [discriminate Hcur | exact Hcur].
  - rewrite utf8_chars_cons. destruct (is_cont c) eqn:Ec.
    + apply IH. right. destruct Hcur as [->|[a [r0 [-> Hr0]]]].
      * exists c, EmptyString. split; reflexivity.
      * exists a, (r0 ++ String c EmptyString)%string. split; [reflexivity|].
        rewrite all_cont_app, Hr0. cbn [all_cont]. rewrite Ec. reflexivity.
    + assert (Hc : charform (String c EmptyString)) by (exists c, EmptyString; split; reflexivity).
      destruct cur as [|a cur'].
      * apply IH. right. exact Hc.
      * constructor; [|apply IH; right; exact Hc].
        destruct Hcur as [Hcur|Hcur]; [discriminate Hcur | exact Hcur].
Qed.

Lemma skip_cont_app r0 c r : all_cont r0 = true -> is_cont c = false ->
  skip_cont (r0 ++ String c r)%string = String c r.
Proof.
  induction r0 as [|a r0 IH]; cbn [append all_cont skip_cont]; intros H Hc.
  - rewrite Hc. reflexivity.
  - apply andb_true_iff in H. destruct H as [Ha H]. rewrite Ha. apply IH; assumption.
Qed.

Lemma bank_like_sig c r : charform c -> bank_like (c ++ "_" ++ r)%string = true.
Proof.
  intros [a [r0 [-> Hr0]]]. cbn [append bank_like].
  rewrite (skip_cont_app r0 "_"%char r Hr0); reflexivity.
Qed.

Lemma bank_like_stall x : bank_like ("stall_" ++ x)%string = false.
Proof. reflexivity. Qed.

Lemma bank_like_bubble x : bank_like ("bubble_" ++ x)%string = false.
Proof. reflexivity. Qed.


(* ================================================================================== *)
(* Part B4: the checker never fails silently                                           *)
(* ================================================================================== *)
Section CheckErr.
  Variables (f : features) (G : string -> option width) (C : string -> option wval).

  Ltac err_solve :=
    repeat match goal with
    | H : Err _ = Err _ |- _ => injection H as <-
    | H : Ok _ = Err _ |- _ => discriminate H
    | H : err1 _ _ = Err _ |- _ => unfold err1 in H
    | H : combine_exprs _ _ = Err _ |- _ => unfold combine_exprs in H
    | H : bind ?r _ = Err _ |- _ => let E := fresh "E" in destruct r eqn:E; cbn [bind] in H
    | H : (if ?b then _ else _) = Err _ |- _ => destruct b
    | H : match ?x with _ => _ end = Err _ |- _ => destruct x
    end; try discriminate; eauto.

  Lemma check_err_all :
    (forall e es, check f G C e = Err es -> es <> []) /\
    (forall a st es, check_arms f G C a st = Err es -> es <> []) /\
    (forall items wl es, check_items f G C wl items = Err es -> es <> []).
  Proof.
    apply expr_arms_exprs_ind.
    - intros v es H. cbn [check] in H. discriminate H.
    - intros op l IHl r IHr es H. cbn [check] in H. err_solve.
    - intros op e IHe es H. cbn [check] in H. err_solve.
    - intros a IHa es H. rewrite check_mux_eq in H. err_solve.
    - intros n es H. cbn [check] in H. err_solve.
    - intros e IHe lo hi es H. cbn [check] in H. err_solve.
    - intros l IHl r IHr es H. cbn [check] in H. err_solve.
    - intros e IHe items IHi es H. rewrite check_in_eq in H. err_solve.
    - intros st es H. cbn [check_arms] in H. discriminate H.
    - intros c IHc v IHv rest IHr st es H. rewrite check_arms_cons_eq in H. err_solve.
    - intros wl es H. cbn [check_items] in H. discriminate H.
    - intros e IHe rest IHr wl es H. rewrite check_items_cons_eq in H. err_solve.
  Qed.

  Lemma check_err e es : check f G C e = Err es -> es <> [].
  Proof. apply (proj1 check_err_all). Qed.
End CheckErr.


(* ================================================================================== *)
(* Part B5: graphs built by graph_insert / graph_add_node                              *)
(* ================================================================================== *)
Notation gedge := (edge string String.eqb).
Notation gwf := (wf_graph string).

Definition et (l : list (string * list string)) : nat :=
  fold_right (fun kv acc => (List.length (snd kv) + acc)%nat) O l.

Lemma assoc_lookup {V} (l : list (string * V)) n : assoc string String.eqb l n = lookup l n.
Proof.
  induction l as [|[k v] l IH]; cbn [assoc lookup]; [reflexivity|].
  destruct (String.eqb n k); [reflexivity | exact IH].
Qed.

Lemma gedge_iff g a b : gedge g a b <-> exists l, lookup (g_succ g) a = Some l /\ In b l.
Proof.
  unfold edge, succs. rewrite assoc_lookup. destruct (lookup (g_succ g) a) as [l|].
  - split; [intros H; exists l; split; [reflexivity | exact H]|].
    intros [l' [E H]]. injection E as <-. exact H.
  - split; [intros [] | intros [l' [E _]]; discriminate E].
Qed.

Lemma In_upd {V} (m : list (string * V)) k v k' v' :
  In (k', v') (upd m k v) -> (k' = k /\ v' = v) \/ In (k', v') m.
Proof.
  induction m as [|[k0 v0] m IH]; cbn [upd In].
  - intros [H|[]]. injection H as <- <-. left. split; reflexivity.
  - destruct (String.eqb k k0) eqn:E.
    + apply String.eqb_eq in E. subst k0. cbn [In]. intros [H|H].
      * injection H as <- <-. left. split; reflexivity.
      * right. right. exact H.
    + cbn [In]. intros [H|H]; [right; left; exact H|].
      apply IH in H. destruct H as [H|H]; [left; exact H | right; right; exact H].
Qed.

Lemma et_upd m a l l' : lookup m a = Some l ->
  (et (upd m a l') + List.length l = et m + List.length l')%nat.
Proof.
  induction m as [|[k0 v0] m IH]; cbn [lookup upd]; [discriminate|].
  destruct (String.eqb a k0) eqn:E.
  - intros H. injection H as ->. cbn [et fold_right snd]. fold (et m). lia.
  - intros H. apply IH in H. cbn [et fold_right snd]. fold (et m). fold (et (upd m a l')). lia.
Qed.

Lemma et_app m m' : et (m ++ m') = (et m + et m')%nat.
Proof.
  induction m as [|[k0 v0] m IH]; cbn [app et fold_right snd]; [reflexivity|].
  fold (et (m ++ m')). fold (et m). rewrite IH. lia.
Qed.

Lemma edge_total_et (g : graph string) : edge_total string g = et (g_succ g).
Proof. reflexivity. Qed.

Lemma empty_graph_wf : gwf empty_graph.
Proof.
  unfold wf_graph, empty_graph. cbn [g_nodes g_succ g_num_edges map].
  split; [constructor|]. split; [constructor|]. split; [intros a l []|]. reflexivity.
Qed.

Lemma empty_graph_edge x y : ~ gedge empty_graph x y.
Proof. rewrite gedge_iff. intros [l [E _]]. discriminate E. Qed.

Lemma graph_add_node_edge g a x y : gedge (graph_add_node g a) x y <-> gedge g x y.
Proof. rewrite !gedge_iff. reflexivity. Qed.

Lemma graph_add_node_nodes g a x : In x (g_nodes (graph_add_node g a)) <-> In x (g_nodes g) \/ x = a.
Proof. unfold graph_add_node. cbn [g_nodes]. apply add_set_In. Qed.

Lemma graph_add_node_wf g a : gwf g -> gwf (graph_add_node g a).
Proof.
  intros [W1 [W2 [W3 W4]]]. unfold wf_graph, graph_add_node. cbn [g_nodes g_succ g_num_edges].
  split; [apply add_set_NoDup; exact W1|]. split; [exact W2|]. split; [|exact W4].
  intros a0 l Hin. destruct (W3 a0 l Hin) as [H1 [H2 H3]].
  split; [apply add_set_In; left; exact H1|]. split; [exact H2|].
  intros b Hb. apply add_set_In. left. apply H3. exact Hb.
Qed.

Lemma graph_insert_nodes g a b x :
  In x (g_nodes (graph_insert g a b)) <-> In x (g_nodes g) \/ x = a \/ x = b.
Proof. unfold graph_insert. cbn [g_nodes]. rewrite !add_set_In. tauto. Qed.

Lemma graph_insert_edge g a b x y :
  gedge (graph_insert g a b) x y <-> gedge g x y \/ (x = a /\ y = b).
Proof.
  rewrite !gedge_iff. unfold graph_insert. cbn [g_succ].
  destruct (lookup (g_succ g) a) as [l|] eqn:El.
  - split.
    + intros [l' [E Hin]]. rewrite lookup_upd in E. destruct (String.eqb x a) eqn:Exa.
      * apply String.eqb_eq in Exa. subst x. injection E as <-. apply add_set_In in Hin.
        destruct Hin as [Hin|Hin]; [left; exists l; split; assumption | right; split; [reflexivity | exact Hin]].
      * left. exists l'. split; assumption.
    + intros [[l' [E Hin]]|[Hx Hy]].
      * destruct (String.eqb x a) eqn:Exa.
        -- apply String.eqb_eq in Exa. subst x. rewrite El in E. injection E as <-.
           exists (add_set b l). split; [rewrite lookup_upd, String.eqb_refl; reflexivity|].
           apply add_set_In. left. exact Hin.
        -- exists l'. split; [rewrite lookup_upd, Exa; exact E | exact Hin].
      * subst x y. exists (add_set b l). split; [rewrite lookup_upd, String.eqb_refl; reflexivity|].
        apply add_set_In. right. reflexivity.
  - split.
    + intros [l' [E Hin]]. rewrite lookup_app in E. destruct (lookup (g_succ g) x) as [l0|] eqn:Ex.
      * injection E as <-. left. exists l0. split; [reflexivity | exact Hin].
      * cbn [lookup] in E. destruct (String.eqb x a) eqn:Exa; [|discriminate E].
        apply String.eqb_eq in Exa. injection E as <-. destruct Hin as [Hin|[]].
        right. split; [exact Exa | symmetry; exact Hin].
    + intros [[l' [E Hin]]|[Hx Hy]].
      * exists l'. split; [|exact Hin]. rewrite lookup_app, E. reflexivity.
      * subst x y. exists [b]. split; [|left; reflexivity].
        rewrite lookup_app, El. cbn [lookup]. rewrite String.eqb_refl. reflexivity.
Qed.

Lemma graph_insert_wf g a b : gwf g -> ~ gedge g a b -> gwf (graph_insert g a b).
Proof.
  intros [W1 [W2 [W3 W4]]] Hne. rewrite gedge_iff in Hne.
  unfold wf_graph. rewrite edge_total_et in *.
  assert (Hnodes : forall x, In x (g_nodes g) \/ x = a \/ x = b -> In x (g_nodes (graph_insert g a b))).
  { intros x Hx. apply graph_insert_nodes. exact Hx. }
  split; [unfold graph_insert; cbn [g_nodes]; apply add_set_NoDup, add_set_NoDup; exact W1|].
  unfold graph_insert in *. cbn [g_nodes g_succ g_num_edges] in *.
  destruct (lookup (g_succ g) a) as [l|] eqn:El.
  - assert (Hal : In (a, l) (g_succ g)) by (apply lookup_In; exact El).
    destruct (W3 a l Hal) as [Ha [Hl Hsub]].
    assert (Hb : ~ In b l) by (intros Hb; apply Hne; exists l; split; [reflexivity | exact Hb]).
    split; [apply upd_keys_NoDup; exact W2|]. split.
    + intros a0 l0 Hin. apply In_upd in Hin. destruct Hin as [[-> ->]|Hin].
      * split; [apply Hnodes; left; exact Ha|]. split; [apply add_set_NoDup; exact Hl|].
        intros c Hc. apply add_set_In in Hc. apply Hnodes.
        destruct Hc as [Hc|Hc]; [left; apply Hsub; exact Hc | right; right; exact Hc].
      * destruct (W3 a0 l0 Hin) as [H1 [H2 H3]].
        split; [apply Hnodes; left; exact H1|]. split; [exact H2|].
        intros c Hc. apply Hnodes. left. apply H3. exact Hc.
    + rewrite (add_set_fresh b l Hb). pose proof (et_upd (g_succ g) a l (l ++ [b]) El) as Het.
      rewrite app_length in Het. cbn [List.length] in Het. lia.
  - split.
    + rewrite map_app. cbn [map fst]. apply NoDup_snoc_str; [exact W2|]. apply lookup_None. exact El.
    + split.
      * intros a0 l0 Hin. apply in_app_iff in Hin. destruct Hin as [Hin|[Hin|[]]].
        -- destruct (W3 a0 l0 Hin) as [H1 [H2 H3]].
           split; [apply Hnodes; left; exact H1|]. split; [exact H2|].
           intros c Hc. apply Hnodes. left. apply H3. exact Hc.
        -- injection Hin as <- <-. split; [apply Hnodes; right; left; reflexivity|].
           split; [constructor; [intros [] | constructor]|].
           intros c [<-|[]]. apply Hnodes. right. right. reflexivity.
      * rewrite et_app. cbn [et fold_right snd List.length]. lia.
Qed.

(* inserting edges r -> n for the sources r of a list, skipping some of them *)
Lemma insert_sources_wf (skip : string -> bool) (n : string) : forall rs g,
  gwf g -> NoDup rs -> (forall r, In r rs -> ~ gedge g r n) ->
  let g' := fold_left (fun g1 r => if skip r then g1 else graph_insert g1 r n) rs g in
  gwf g' /\
  (forall x y, gedge g' x y <-> gedge g x y \/ (y = n /\ In x rs /\ skip x = false)) /\
  (forall x, In x (g_nodes g) -> In x (g_nodes g')).
Proof.
  induction rs as [|r rs IH]; intros g Hwf Hnd Hne; cbn [fold_left].
  - split; [exact Hwf|]. split; [|intros x Hx; exact Hx].
    intros x y. cbn [In]. tauto.
  - apply NoDup_cons_iff in Hnd. destruct Hnd as [Hr Hnd].
    destruct (skip r) eqn:Esk.
    + destruct (IH g Hwf Hnd (fun r0 H0 => Hne r0 (or_intror H0))) as [I1 [I2 I3]].
      split; [exact I1|]. split; [|exact I3].
      intros x y. rewrite I2. cbn [In]. split.
      * intros [H|[H1 [H2 H3]]]; [left; exact H | right; auto].
      * intros [H|[H1 [[H2|H2] H3]]]; [left; exact H | | right; auto].
        subst x. rewrite Esk in H3. discriminate H3.
    + assert (Hwf1 : gwf (graph_insert g r n)).
      { apply graph_insert_wf; [exact Hwf|]. apply Hne. left. reflexivity. }
      assert (Hne1 : forall r0, In r0 rs -> ~ gedge (graph_insert g r n) r0 n).
      { intros r0 H0 He. apply graph_insert_edge in He. destruct He as [He|[He _]].
        - apply (Hne r0 (or_intror H0)). exact He.
        - subst r0. apply Hr. exact H0. }
      destruct (IH _ Hwf1 Hnd Hne1) as [I1 [I2 I3]].
      split; [exact I1|]. split.
      * intros x y. rewrite I2, graph_insert_edge. cbn [In]. split.
        -- intros [[H|[H1 H2]]|[H1 [H2 H3]]]; [left; exact H | subst; right; auto | right; auto].
        -- intros [H|[H1 [[H2|H2] H3]]]; [left; left; exact H | subst; left; right; auto | right; auto].
      * intros x Hx. apply I3. apply graph_insert_nodes. left. exact Hx.
Qed.

Lemma fold_left_ext2 {A B} (g1 g2 : A -> B -> A) (l : list B) : (forall a x, g1 a x = g2 a x) ->
  forall a, fold_left g1 l a = fold_left g2 l a.
Proof.
  intros H. induction l as [|x l IH]; intros a; cbn [fold_left]; [reflexivity|].
  rewrite H. apply IH.
Qed.

Lemma insert_ins_wf (o : string) (ins : list string) (g : graph string) :
  gwf g -> NoDup ins -> (forall i, In i ins -> ~ gedge g i o) ->
  let g' := fold_left (fun g1 i => graph_insert g1 i o) ins g in
  gwf g' /\
  (forall x y, gedge g' x y <-> gedge g x y \/ (y = o /\ In x ins)) /\
  (forall x, In x (g_nodes g) -> In x (g_nodes g')).
Proof.
  intros Hwf Hnd Hne.
  destruct (insert_sources_wf (fun _ => false) o ins g Hwf Hnd Hne) as [I1 [I2 I3]].
  cbv zeta in *.
  split; [exact I1|]. split; [|exact I3].
  intros x y. rewrite I2. tauto.
Qed.

Lemma assign_graph_fold_wf (known : list string) : forall assigns g,
  gwf g -> NoDup (map fst assigns) ->
  (forall n, In n (map fst assigns) -> forall x, ~ gedge g x n) ->
  let g' := fold_left (fun g ne =>
                         fold_left (fun g1 r => if mem_str r known then g1 else graph_insert g1 r (fst ne))
                                   (nodup_str (refs (snd ne))) (graph_add_node g (fst ne)))
                      assigns g in
  gwf g' /\
  (forall x y, gedge g' x y <->
               gedge g x y \/ exists e, In (y, e) assigns /\ In x (refs e) /\ mem_str x known = false) /\
  (forall x, In x (g_nodes g) -> In x (g_nodes g')) /\
  (forall n, In n (map fst assigns) -> In n (g_nodes g')).
Proof.
  induction assigns as [|[n e] assigns IH]; intros g Hwf Hnd Hne; cbn [fold_left].
  - split; [exact Hwf|]. split; [|split; [intros x Hx; exact Hx | intros n []]].
    intros x y. split; [intros H; left; exact H | intros [H|[e [[] _]]]; exact H].
  - cbn [map fst] in Hnd, Hne. apply NoDup_cons_iff in Hnd. destruct Hnd as [Hn Hnd]. cbn [fst snd].
    assert (Hwf1 : gwf (graph_add_node g n)) by (apply graph_add_node_wf; exact Hwf).
    destruct (insert_sources_wf (fun r => mem_str r known) n (nodup_str (refs e)) (graph_add_node g n) Hwf1
                                (nodup_str_NoDup (refs e))) as [J1 [J2 J3]].
    { intros r _ He. apply graph_add_node_edge in He. apply (Hne n (or_introl eq_refl) r). exact He. }
    cbv zeta in J1, J2, J3.
    set (g2 := fold_left (fun g1 r => if mem_str r known then g1 else graph_insert g1 r n)
                         (nodup_str (refs e)) (graph_add_node g n)) in *.
    assert (Hne2 : forall n0, In n0 (map fst assigns) -> forall x, ~ gedge g2 x n0).
    { intros n0 H0 x He. apply J2 in He. destruct He as [He|[He _]].
      - apply graph_add_node_edge in He. apply (Hne n0 (or_intror H0) x). exact He.
      - subst n0. apply Hn. exact H0. }
    destruct (IH g2 J1 Hnd Hne2) as [I1 [I2 [I3 I4]]]. cbv zeta in I1, I2, I3, I4.
    split; [exact I1|]. split; [|split].
    + intros x y. rewrite I2, J2, graph_add_node_edge. cbn [In]. split.
      * intros [[H|[H1 [H2 H3]]]|[e0 [H1 H2]]].
        -- left. exact H.
        -- right. exists e. subst y. split; [left; reflexivity|]. split; [apply nodup_str_In; exact H2 | exact H3].
        -- right. exists e0. split; [right; exact H1 | exact H2].
      * intros [H|[e0 [[H1|H1] [H2 H3]]]].
        -- left. left. exact H.
        -- injection H1 as <- <-. left. right. split; [reflexivity|]. split; [apply nodup_str_In; exact H2 | exact H3].
        -- right. exists e0. split; [exact H1|]. split; assumption.
    + intros x Hx. apply I3. apply J3. apply graph_add_node_nodes. left. exact Hx.
    + intros n0 [H0|H0].
      * subst n0. apply I3. apply J3. apply graph_add_node_nodes. right. reflexivity.
      * apply I4. exact H0.
Qed.

Lemma assign_graph_facts assigns known :
  NoDup (map fst assigns) ->
  gwf (assign_graph assigns known) /\
  (forall x y, gedge (assign_graph assigns known) x y <->
               exists e, In (y, e) assigns /\ In x (refs e) /\ mem_str x known = false) /\
  (forall n, In n (map fst assigns) -> In n (g_nodes (assign_graph assigns known))).
Proof.
  intros Hnd.
  destruct (assign_graph_fold_wf known assigns empty_graph empty_graph_wf Hnd) as [I1 [I2 [_ I4]]].
  { intros n _ x. apply empty_graph_edge. }
  cbv zeta in *. fold (assign_graph assigns known) in I1, I2, I4.
  split; [exact I1|]. split; [|exact I4].
  intros x y. rewrite I2. split; [|intros H; right; exact H].
  intros [H|H]; [exfalso; exact (empty_graph_edge x y H) | exact H].
Qed.


(* ================================================================================== *)
(* Part B6: the additional (decidable) conditions on the component table               *)
(* ================================================================================== *)
Fixpoint nodupb (l : list string) : bool :=
  match l with [] => true | x :: r => negb (mem_str x r) && nodupb r end.

Lemma nodupb_NoDup l : nodupb l = true -> NoDup l.
Proof.
  induction l as [|x r IH]; cbn [nodupb]; intros H; [constructor|].
  apply andb_true_iff in H. destruct H as [H1 H2]. apply negb_true_iff in H1. apply mem_str_false in H1.
  constructor; [exact H1 | apply IH; exact H2].
Qed.

Fixpoint sprefix (p s : string) : bool :=
  match p with
  | EmptyString => true
  | String a p' => match s with
                   | EmptyString => false
                   | String b s' => Ascii.eqb a b && sprefix p' s'
                   end
  end.

Lemma sprefix_stall X : sprefix "stall_" ("stall_" ++ X) = true.
Proof. reflexivity. Qed.

Lemma sprefix_bubble X : sprefix "bubble_" ("bubble_" ++ X) = true.
Proof. reflexivity. Qed.

(* a table name must not look like a register-bank signal: not <char>_..., stall_..., bubble_... *)
Definition name_plain (n : string) : bool :=
  negb (bank_like n) && negb (sprefix "stall_" n) && negb (sprefix "bubble_" n).

Definition weqb (o : option width) (w : width) : bool :=
  match o with Some w' => width_eqb w' w | None => false end.

Lemma width_eqb_eq a b : width_eqb a b = true -> a = b.
Proof.
  destruct a as [x|], b as [y|]; cbn [width_eqb]; intros H; try discriminate H; [|reflexivity].
  apply N.eqb_eq in H. subst y. reflexivity.
Qed.

Lemma weqb_eq o w : weqb o w = true -> o = Some w.
Proof. destruct o as [w'|]; cbn [weqb]; intros H; [|discriminate H]. apply width_eqb_eq in H. subst w'. reflexivity. Qed.

(* the widths action_typed demands of a component action, read off the table itself *)
Definition fixed_action_typed (fixed : list fixed_fn) (a : action) : bool :=
  let G := lookup (fixed_wires fixed) in
  match a with
  | AAssign _ _ _ => false
  | AReadReg num outp => weqb (G num) (Bits 4) && weqb (G outp) (Bits 64)
  | AReadMemory en addr outp n _ =>
      weqb (G addr) (Bits 64) && weqb (G outp) (Bits (n * 8)) && (n <=? 16) &&
      match en with Some w => weqb (G w) (Bits 1) | None => true end
  | AWriteReg num inp => weqb (G num) (Bits 4) && weqb (G inp) (Bits 64)
  | AWriteMemory en addr inp n =>
      weqb (G addr) (Bits 64) && weqb (G inp) (Bits 64) && (n <=? 16) &&
      match en with Some w => weqb (G w) (Bits 1) | None => true end
  | ASetStatus w => weqb (G w) (Bits 3)
  end.

(* what the scheduler needs: inputs of a component pairwise distinct, outputs pairwise distinct
   across the table, no table name shaped like a register-bank signal name *)
Definition fixed_sched_ok (fixed : list fixed_fn) : bool :=
  forallb (fun ff => nodupb (map fst (ff_ins ff))) fixed &&
  nodupb (fixed_out_names fixed) &&
  forallb name_plain (fixed_names fixed).

(* what typing needs: a name has one width throughout the table, and the wires a component
   action mentions have the widths action_typed demands *)
Definition fixed_typed_ok (fixed : list fixed_fn) : bool :=
  forallb (fun nw => weqb (lookup (fixed_wires fixed) (fst nw)) (snd nw)) (fixed_wires fixed) &&
  forallb (fun ff => fixed_action_typed fixed (ff_action ff)) fixed.

Definition fixed_table_ok2 (fixed : list fixed_fn) : bool := fixed_sched_ok fixed && fixed_typed_ok fixed.

Example gen_fixed_ok2 : fixed_table_ok2 Generated.gen_fixed = true.
Proof. vm_compute; reflexivity. Qed.

Example gen_fixed_ok : fixed_table_ok Generated.gen_fixed = true.
Proof. vm_compute; reflexivity. Qed.

Lemma fixed_out_names_cons ff l :
  fixed_out_names (ff :: l) = match ff_out ff with Some (n, _) => [n] | None => [] end ++ fixed_out_names l.
Proof. reflexivity. Qed.

Lemma In_fixed_out_names l ff n w : In ff l -> ff_out ff = Some (n, w) -> In n (fixed_out_names l).
Proof.
  intros Hin Ho. unfold fixed_out_names. apply in_flat_map. exists ff. split; [exact Hin|].
  rewrite Ho. left. reflexivity.
Qed.

Lemma fixed_out_in_names l o : In o (fixed_out_names l) -> In o (fixed_names l).
Proof.
  unfold fixed_out_names, fixed_names, fixed_wires. intros H. apply in_flat_map in H.
  destruct H as [ff [Hff Ho]]. apply in_map_iff.
  destruct (ff_out ff) as [[n w]|] eqn:E; [|contradiction]. destruct Ho as [<-|[]].
  exists (n, Bits w). split; [reflexivity|]. apply in_flat_map. exists ff. split; [exact Hff|].
  apply in_or_app. right. rewrite E. left. reflexivity.
Qed.

Lemma fixed_in_in_names l ff i : In ff l -> In i (fixed_in_names ff) -> In i (fixed_names l).
Proof.
  unfold fixed_in_names, fixed_names, fixed_wires. intros Hff Hi. apply in_map_iff in Hi.
  destruct Hi as [[n w] [<- Hnw]]. apply in_map_iff.
  exists (n, Bits w). split; [reflexivity|]. apply in_flat_map. exists ff. split; [exact Hff|].
  apply in_or_app. left. apply in_map_iff. exists (n, w). split; [reflexivity | exact Hnw].
Qed.

Lemma fixed_sched_ok_inv fixed : fixed_sched_ok fixed = true ->
  Forall (fun ff => NoDup (fixed_in_names ff)) fixed /\ NoDup (fixed_out_names fixed) /\
  forall n, In n (fixed_names fixed) ->
    bank_like n = false /\ sprefix "stall_" n = false /\ sprefix "bubble_" n = false.
Proof.
  unfold fixed_sched_ok. intros H.
  apply andb_true_iff in H. destruct H as [H H3]. apply andb_true_iff in H. destruct H as [H1 H2].
  split; [|split].
  - apply Forall_forall. intros ff Hff. rewrite forallb_forall in H1. apply nodupb_NoDup. apply H1. exact Hff.
  - apply nodupb_NoDup. exact H2.
  - intros n Hn. rewrite forallb_forall in H3. apply H3 in Hn. unfold name_plain in Hn.
    apply andb_true_iff in Hn. destruct Hn as [Hn Hc]. apply andb_true_iff in Hn. destruct Hn as [Ha Hb].
    apply negb_true_iff in Ha, Hb, Hc. split; [exact Ha|]. split; assumption.
Qed.


(* ================================================================================== *)
(* Part B7: every value the evaluator produces is masked to its width                   *)
(* ================================================================================== *)
Definition masked (v : wval) : Prop := wf_width (wd v) -> bits v < 2 ^ bits_or_128 (wd v).

Lemma masked_land x w : masked (mkV (N.land x (mask w)) w).
Proof. intros Hw. cbn [bits wd] in *. apply (land_mask_lt x w Hw). Qed.

Section Masked.
  Variables (f : features) (rho : string -> option wval).
  Hypothesis Hrho : forall n v, rho n = Some v -> masked v.

  Lemma eval_items_bool x items : forall v,
    eval_items f rho x items = Ok v -> v = true_value \/ v = false_value.
  Proof.
    induction items as [|e rest IH]; intros v H.
    - rewrite eval_items_nil in H. injection H as <-. right. reflexivity.
    - rewrite eval_items_cons in H. destruct (eval f rho e) as [r|es]; cbn [bind] in H; [|discriminate H].
      destruct (x =? bits r); [injection H as <-; left; reflexivity | apply IH; exact H].
  Qed.

  Lemma eval_masked e v : wf_expr e -> eval f rho e = Ok v -> masked v.
  Proof.
    destruct e as [v0|op l r|op e1|a|n|e1 lo hi|l r|e1 items]; intros Hwf H.
    - cbn [eval] in H. injection H as <-. cbn [wf_expr] in Hwf. destruct Hwf as [H1 _]. intros _. exact H1.
    - cbn [eval] in H.
      destruct (eval f rho l) as [lv|]; cbn [bind] in H; [|discriminate H].
      destruct (eval f rho r) as [rv|]; cbn [bind] in H; [|discriminate H].
      unfold apply in H. apply bind_ok in H. destruct H as [fw [_ H]].
      destruct (is_div op && (bits rv =? 0)); [unfold err1 in H; discriminate H|].
      injection H as <-. apply masked_land.
    - cbn [eval] in H. destruct (eval f rho e1) as [v1|]; cbn [bind] in H; [|discriminate H].
      injection H as <-. unfold unop_apply. apply masked_land.
    - rewrite eval_mux in H. destruct (eval_arms f rho a) as [v1|]; cbn [bind] in H; [|discriminate H].
      injection H as <-. unfold as_width. apply masked_land.
    - cbn [eval] in H. destruct (rho n) as [v1|] eqn:E; [|unfold err1 in H; discriminate H].
      injection H as <-. apply (Hrho n v1 E).
    - cbn [eval] in H. destruct (eval f rho e1) as [v1|]; cbn [bind] in H; [|discriminate H].
      injection H as <-. unfold as_width. apply masked_land.
    - cbn [eval] in H.
      destruct (eval f rho l) as [lv|]; cbn [bind] in H; [|discriminate H].
      destruct (eval f rho r) as [rv|]; cbn [bind] in H; [|discriminate H].
      destruct (wd rv) as [rb|]; [|unfold err1 in H; discriminate H].
      destruct (wd lv) as [lb|]; [|unfold err1 in H; discriminate H].
      injection H as <-. unfold as_width. apply masked_land.
    - rewrite eval_in in H. destruct (eval f rho e1) as [v1|]; cbn [bind] in H; [|discriminate H].
      apply eval_items_bool in H. destruct H as [->| ->]; intros _; vm_compute; reflexivity.
  Qed.
End Masked.

Lemma eval_consts_masked f cs : (forall n e, lookup cs n = Some e -> wf_expr e) ->
  forall order vals errs vals' errs',
    eval_consts f cs order vals errs = (vals', errs') ->
    (forall k v, lookup vals k = Some v -> masked v) ->
    forall k v, lookup vals' k = Some v -> masked v.
Proof.
  intros Hcs. induction order as [|n r IH]; intros vals errs vals' errs' H Hv; cbn [eval_consts] in H.
  - injection H as <- <-. exact Hv.
  - destruct (lookup cs n) as [e|] eqn:El.
    + match type of H with
      | context [check ?a ?b ?c ?d] => destruct (check a b c d) as [wc|esc] eqn:Ec
      end.
      * destruct (eval f (lookup vals) e) as [v|es] eqn:Ee.
        -- apply (IH _ _ _ _ H). intros k v0 Hk. rewrite lookup_upd in Hk.
           destruct (String.eqb k n); [|apply (Hv k v0 Hk)].
           injection Hk as <-. apply (eval_masked f (lookup vals) Hv e v (Hcs n e El) Ee).
        -- apply (IH _ _ _ _ H). exact Hv.
      * apply (IH _ _ _ _ H). exact Hv.
    + injection H as <- <-. exact Hv.
Qed.

(* the declared-width view of the constants resolved so far (the G eval_consts checks against) *)
Definition cenv (vals : list (string * wval)) : string -> option width :=
  fun k => match lookup vals k with Some v => Some (wd v) | None => None end.

Lemma cenv_env_ok vals : (forall k v, lookup vals k = Some v -> fits v) -> env_ok (cenv vals) (lookup vals).
Proof.
  intros Hv n w Hn. unfold cenv in Hn. destruct (lookup vals n) as [v|] eqn:E; [|discriminate Hn].
  injection Hn as <-. exists v. split; [reflexivity|]. split; [reflexivity | apply (Hv n v E)].
Qed.

(* constants are width-checked before they are evaluated: every resolved constant fits *)
Lemma eval_consts_fits f cs : (forall n e, lookup cs n = Some e -> wf_expr e) ->
  forall order vals errs vals' errs',
    eval_consts f cs order vals errs = (vals', errs') ->
    (forall k v, lookup vals k = Some v -> fits v) ->
    forall k v, lookup vals' k = Some v -> fits v.
Proof.
  intros Hcs. induction order as [|n r IH]; intros vals errs vals' errs' H Hv; cbn [eval_consts] in H.
  - injection H as <- <-. exact Hv.
  - destruct (lookup cs n) as [e|] eqn:El.
    + fold (cenv vals) in H.
      destruct (check f (cenv vals) (lookup vals) e) as [wc|esc] eqn:Ec.
      * pose proof (cenv_env_ok vals Hv) as Henv.
        pose proof (eval_sound f (cenv vals) (lookup vals) (lookup vals) e wc (Hcs n e El) Henv Ec) as Hs.
        destruct (check_width f (cenv vals) (lookup vals) (lookup vals) e wc (Hcs n e El) Henv Ec)
          as [_ [_ Hwc]].
        destruct (eval f (lookup vals) e) as [v|es] eqn:Ee.
        -- apply (IH _ _ _ _ H). intros k v0 Hk. rewrite lookup_upd in Hk.
           destruct (String.eqb k n); [|apply (Hv k v0 Hk)].
           injection Hk as <-. destruct Hs as [Hw Hb]. unfold fits. rewrite Hw.
           split; [exact Hb | exact Hwc].
        -- apply (IH _ _ _ _ H). exact Hv.
      * apply (IH _ _ _ _ H). exact Hv.
    + injection H as <- <-. exact Hv.
Qed.


(* ================================================================================== *)
(* Part C: the cascade of build_program                                                 *)
(* ================================================================================== *)
Definition widths_of (s : st1) (t : st3) (consts : list (string * wval)) : list (string * width) :=
  fold_left (fun m nv => upd m (fst nv) (wd (snd nv))) consts
            (fold_left (fun m nw => upd m (fst nw) (snd nw)) (bank_wires (t_banks t)) (s_wires s)).

Section BuildProofs.
  Variable f : features.
  Variable fixed : list fixed_fn.
  Variable is_lower : string -> bool.
  Variable is_upper : string -> bool.

  Notation build := (build_program f fixed is_lower is_upper).
  Notation S1 stmts := (fold_left (step1 fixed) stmts (init1 fixed)).
  Notation T3 s consts := (fold_left (step3_bank f is_lower is_upper s consts) (s_banks s)
                                     (mkSt3 [] [] (s_types s) [] [] [])).

  Lemma build_ok_inv stmts p :
    build stmts = Ok p ->
    s_errs (S1 stmts) = [] /\ const_assigned_errors (S1 stmts) = [] /\ const_ref_errors (S1 stmts) = [] /\
    exists consts, resolve_constants f (s_consts (S1 stmts)) = Ok consts /\
    t_errs (T3 (S1 stmts) consts) = [] /\
    unset_errors (S1 stmts) (T3 (S1 stmts) consts)
       (fold_left (fun l x => add_set x l) (all_in_names (t_banks (T3 (S1 stmts) consts)))
                  (s_needed (S1 stmts))) = [] /\
    exists acts,
      assignments_to_actions f fixed (widths_of (S1 stmts) (T3 (S1 stmts) consts) consts) consts
                             (s_assigns (S1 stmts))
                             (all_out_names (t_banks (T3 (S1 stmts) consts)) ++
                              t_defaulted (T3 (S1 stmts) consts) ++ map fst consts)
                             (s_decls (S1 stmts)) = Ok acts /\
      p = mkProgram consts acts (t_banks (T3 (S1 stmts) consts)) (t_defaulted (T3 (S1 stmts) consts))
                    (t_types (T3 (S1 stmts) consts)).
  Proof.
    unfold build_program. intros H.
    set (s := S1 stmts) in *.
    destruct (s_errs s ++ const_assigned_errors s ++ const_ref_errors s) as [|e0 es0] eqn:E1; [|discriminate H].
    apply app_eq_nil in E1. destruct E1 as [E1a E1]. apply app_eq_nil in E1. destruct E1 as [E1b E1c].
    split; [exact E1a|]. split; [exact E1b|]. split; [exact E1c|].
    destruct (resolve_constants f (s_consts s)) as [consts|es] eqn:E2; cbn [bind] in H; [|discriminate H].
    exists consts. split; [reflexivity|].
    set (t := T3 s consts) in *.
    destruct (t_errs t ++ unset_errors s t
                (fold_left (fun l x => add_set x l) (all_in_names (t_banks t)) (s_needed s))) as [|e1 es1] eqn:E3;
      [|discriminate H].
    apply app_eq_nil in E3. destruct E3 as [E3a E3b].
    split; [exact E3a|]. split; [exact E3b|].
    fold (widths_of s t consts) in H.
    destruct (assignments_to_actions f fixed (widths_of s t consts) consts (s_assigns s)
                (all_out_names (t_banks t) ++ t_defaulted t ++ map fst consts) (s_decls s)) as [acts|es] eqn:E4;
      cbn [bind] in H; [|discriminate H].
    exists acts. split; [reflexivity|]. injection H as <-. reflexivity.
  Qed.

  (* ---- 1: a rejection is never silent ---------------------------------------------------- *)
  Lemma resolve_constants_err cs es : resolve_constants f cs = Err es -> es <> [].
  Proof.
    unfold resolve_constants. intros H.
    destruct (toposort string String.eqb (const_graph cs)) as [[order|cyc]|es1] eqn:E; cbn [bind] in H.
    - destruct (eval_consts f cs order [] []) as [vals errs]. destruct errs as [|e0 errs]; [discriminate H|].
      injection H as <-. discriminate.
    - unfold err1 in H. injection H as <-. discriminate.
    - injection H as <-. apply toposort_err in E. exact E.
  Qed.

  Lemma assignments_to_actions_err widths consts assigns known decls es :
    assignments_to_actions f fixed widths consts assigns known decls = Err es -> es <> [].
  Proof.
    unfold assignments_to_actions. intros H.
    destruct (fold_left (preprocess_one f consts assigns) fixed (assign_graph assigns known, [], [], []))
      as [[[g by_out] no_out] errs0].
    destruct errs0 as [|e0 errs0]; [|injection H as <-; discriminate].
    destruct (toposort string String.eqb g) as [[order|cyc]|es1] eqn:E; cbn [bind] in H.
    - destruct (schedule f widths consts assigns by_out decls order [] [] []) as [[acts errs] und].
      destruct (errs ++ map (fun n => mkErr UnsetUndeclaredWire [n]) und) as [|e1 errs1]; [discriminate H|].
      injection H as <-. discriminate.
    - unfold err1 in H. injection H as <-. discriminate.
    - injection H as <-. apply toposort_err in E. exact E.
  Qed.

  Theorem reject_has_diag_ok : stmt_reject_has_diag f fixed is_lower is_upper.
  Proof.
    unfold stmt_reject_has_diag, build_program. intros stmts es H.
    set (s := S1 stmts) in H.
    destruct (s_errs s ++ const_assigned_errors s ++ const_ref_errors s) as [|e0 es0] eqn:E1;
      [|injection H as <-; discriminate].
    destruct (resolve_constants f (s_consts s)) as [consts|es2] eqn:E2; cbn [bind] in H;
      [|injection H as <-; apply resolve_constants_err in E2; exact E2].
    set (t := T3 s consts) in H.
    destruct (t_errs t ++ unset_errors s t
                (fold_left (fun l x => add_set x l) (all_in_names (t_banks t)) (s_needed s))) as [|e1 es1] eqn:E3;
      [|injection H as <-; discriminate].
    match type of H with
    | bind ?r _ = _ => destruct r as [acts|es4] eqn:E4; cbn [bind] in H
    end.
    - discriminate H.
    - injection H as <-. apply assignments_to_actions_err in E4. exact E4.
  Qed.
  (* ================================================================================ *)
  (* Part D: step 1 (declaration bookkeeping)                                          *)
  (* ================================================================================ *)
  Definition dkey (x : stmt) : list string :=
    match x with SConst d => map fst d | SWire d => map fst d | _ => [] end.
  Definition akey (x : stmt) : list string :=
    match x with SAssign a => flat_map fst a | _ => [] end.
  Definition ckey (x : stmt) : list string := match x with SConst d => map fst d | _ => [] end.
  Definition wkey (x : stmt) : list string := match x with SWire d => map fst d | _ => [] end.
  Definition cpairs (x : stmt) : list (string * expr) := match x with SConst d => d | _ => [] end.
  Definition wpairs (x : stmt) : list (string * width) := match x with SWire d => d | _ => [] end.
  Definition apairs_of (a : list (list string * expr)) : list (string * expr) :=
    flat_map (fun ae => map (fun n => (n, snd ae)) (fst ae)) a.
  Definition apairs (x : stmt) : list (string * expr) :=
    match x with SAssign a => apairs_of a | _ => [] end.
  Definition bpairs (x : stmt) : list (string * list (string * width * expr)) :=
    match x with SBank n r => [(n, r)] | _ => [] end.
  Definition decl_names (stmts : list stmt) : list string := flat_map dkey stmts.

  Notation addf := (fun (l : list string) (x : string) => add_set x l).
  Notation snoc := (fun (l : list (string * list (string * width * expr))) b => l ++ [b]).

  Lemma flat_map_id_single {A} (l : list A) : flat_map (fun n => [n]) l = l.
  Proof. induction l as [|a l IH]; cbn [flat_map app]; [reflexivity | rewrite IH; reflexivity]. Qed.

  (* -- field projections of one step -- *)
  Lemma s_decls_step1 s x : s_decls (step1 fixed s x) = fold_left addf (dkey x) (s_decls s).
  Proof.
    destruct x as [d|d|a|bn regs]; cbn [step1 dkey fold_left].
    - rewrite <- (flat_map_single fst d).
      apply (fold_proj s_decls addf (step1_const fixed) (fun d0 => [fst d0])).
      intros s0 [n e]. reflexivity.
    - rewrite <- (flat_map_single fst d).
      apply (fold_proj s_decls addf (step1_wire fixed) (fun d0 => [fst d0])).
      intros s0 [n e]. reflexivity.
    - apply (fold_same s_decls). intros s0 a0. apply (fold_same s_decls). intros s1 n. reflexivity.
    - reflexivity.
  Qed.

  Lemma s_assigned_step1 s x : s_assigned (step1 fixed s x) = fold_left addf (akey x) (s_assigned s).
  Proof.
    destruct x as [d|d|a|bn regs]; cbn [step1 akey fold_left].
    - apply (fold_same s_assigned). intros s0 [n e]. reflexivity.
    - apply (fold_same s_assigned). intros s0 [n e]. reflexivity.
    - apply (fold_proj s_assigned addf (fun s1 a0 => fold_left (step1_assign_name fixed (snd a0)) (fst a0) s1) fst).
      intros s0 a0. rewrite <- (flat_map_id_single (fst a0)) at 2.
      apply (fold_proj s_assigned addf (step1_assign_name fixed (snd a0)) (fun n => [n])).
      intros s1 n. reflexivity.
    - reflexivity.
  Qed.

  Lemma s_needed_step1 s x : s_needed (step1 fixed s x) = fold_left addf (wkey x) (s_needed s).
  Proof.
    destruct x as [d|d|a|bn regs]; cbn [step1 wkey fold_left].
    - apply (fold_same s_needed). intros s0 [n e]. reflexivity.
    - rewrite <- (flat_map_single fst d).
      apply (fold_proj s_needed addf (step1_wire fixed) (fun d0 => [fst d0])).
      intros s0 [n e]. reflexivity.
    - apply (fold_same s_needed). intros s0 a0. apply (fold_same s_needed). intros s1 n. reflexivity.
    - reflexivity.
  Qed.

  Lemma s_consts_step1 s x : s_consts (step1 fixed s x) = fold_left updp (cpairs x) (s_consts s).
  Proof.
    destruct x as [d|d|a|bn regs]; cbn [step1 cpairs fold_left].
    - rewrite <- (flat_map_id_single d) at 2.
      apply (fold_proj s_consts updp (step1_const fixed) (fun d0 => [d0])).
      intros s0 [n e]. reflexivity.
    - apply (fold_same s_consts). intros s0 [n e]. reflexivity.
    - apply (fold_same s_consts). intros s0 a0. apply (fold_same s_consts). intros s1 n. reflexivity.
    - reflexivity.
  Qed.

  Lemma s_wires_step1 s x : s_wires (step1 fixed s x) = fold_left updp (wpairs x) (s_wires s).
  Proof.
    destruct x as [d|d|a|bn regs]; cbn [step1 wpairs fold_left].
    - apply (fold_same s_wires). intros s0 [n e]. reflexivity.
    - rewrite <- (flat_map_id_single d) at 2.
      apply (fold_proj s_wires updp (step1_wire fixed) (fun d0 => [d0])).
      intros s0 [n e]. reflexivity.
    - apply (fold_same s_wires). intros s0 a0. apply (fold_same s_wires). intros s1 n. reflexivity.
    - reflexivity.
  Qed.

  Lemma s_assigns_step1 s x : s_assigns (step1 fixed s x) = fold_left updp (apairs x) (s_assigns s).
  Proof.
    destruct x as [d|d|a|bn regs]; cbn [step1 apairs fold_left].
    - apply (fold_same s_assigns). intros s0 [n e]. reflexivity.
    - apply (fold_same s_assigns). intros s0 [n e]. reflexivity.
    - unfold apairs_of.
      apply (fold_proj s_assigns updp (fun s1 a0 => fold_left (step1_assign_name fixed (snd a0)) (fst a0) s1)
                       (fun ae => map (fun n => (n, snd ae)) (fst ae))).
      intros s0 a0. rewrite <- (flat_map_single (fun n => (n, snd a0)) (fst a0)).
      apply (fold_proj s_assigns updp (step1_assign_name fixed (snd a0)) (fun n => [(n, snd a0)])).
      intros s1 n. reflexivity.
    - reflexivity.
  Qed.

  Lemma s_banks_step1 s x : s_banks (step1 fixed s x) = fold_left snoc (bpairs x) (s_banks s).
  Proof.
    destruct x as [d|d|a|bn regs]; cbn [step1 bpairs fold_left].
    - apply (fold_same s_banks). intros s0 [n e]. reflexivity.
    - apply (fold_same s_banks). intros s0 [n e]. reflexivity.
    - apply (fold_same s_banks). intros s0 a0. apply (fold_same s_banks). intros s1 n. reflexivity.
    - reflexivity.
  Qed.

  (* -- the fields after all statements -- *)
  Lemma S1_decls stmts : s_decls (S1 stmts) = fold_left addf (decl_names stmts) [].
  Proof. apply (fold_proj s_decls addf (step1 fixed) dkey s_decls_step1 stmts (init1 fixed)). Qed.

  Lemma S1_assigned stmts : s_assigned (S1 stmts) = fold_left addf (assigned_names stmts) [].
  Proof. apply (fold_proj s_assigned addf (step1 fixed) akey s_assigned_step1 stmts (init1 fixed)). Qed.

  Lemma S1_needed stmts : s_needed (S1 stmts) = fold_left addf (wire_names stmts) [].
  Proof. apply (fold_proj s_needed addf (step1 fixed) wkey s_needed_step1 stmts (init1 fixed)). Qed.

  Lemma S1_consts stmts : s_consts (S1 stmts) = fold_left updp (const_exprs stmts) [].
  Proof. apply (fold_proj s_consts updp (step1 fixed) cpairs s_consts_step1 stmts (init1 fixed)). Qed.

  Lemma S1_wires stmts :
    s_wires (S1 stmts) = fold_left updp (flat_map wpairs stmts) (s_wires (init1 fixed)).
  Proof. apply (fold_proj s_wires updp (step1 fixed) wpairs s_wires_step1 stmts (init1 fixed)). Qed.

  Lemma S1_assigns stmts : s_assigns (S1 stmts) = fold_left updp (flat_map apairs stmts) [].
  Proof. apply (fold_proj s_assigns updp (step1 fixed) apairs s_assigns_step1 stmts (init1 fixed)). Qed.

  Lemma S1_banks stmts : s_banks (S1 stmts) = fold_left snoc (flat_map bpairs stmts) [].
  Proof. apply (fold_proj s_banks snoc (step1 fixed) bpairs s_banks_step1 stmts (init1 fixed)). Qed.

  (* -- relation of the flattened lists to the name lists of the specification -- *)
  Lemma const_exprs_names stmts : map fst (const_exprs stmts) = const_names stmts.
  Proof.
    unfold const_exprs, const_names. rewrite map_flat_map. apply flat_map_ext2.
    intros [d|d|a|bn regs]; reflexivity.
  Qed.

  Lemma wpairs_names stmts : map fst (flat_map wpairs stmts) = wire_names stmts.
  Proof.
    unfold wire_names. rewrite map_flat_map. apply flat_map_ext2.
    intros [d|d|a|bn regs]; reflexivity.
  Qed.

  Lemma apairs_names stmts : map fst (flat_map apairs stmts) = assigned_names stmts.
  Proof.
    unfold assigned_names. rewrite map_flat_map. apply flat_map_ext2.
    intros [d|d|a|bn regs]; try reflexivity.
    cbn [apairs]. unfold apairs_of. rewrite map_flat_map. apply flat_map_ext2.
    intros [names e]. cbn [fst snd]. rewrite map_map. cbn [fst]. apply map_id.
  Qed.

  Lemma decl_names_perm stmts : Permutation (decl_names stmts) (const_names stmts ++ wire_names stmts).
  Proof.
    unfold decl_names, const_names, wire_names.
    induction stmts as [|x r IH]; cbn [flat_map]; [constructor|].
    destruct x as [d|d|a|bn regs]; cbn [dkey app].
    - rewrite <- app_assoc. apply Permutation_app_head. exact IH.
    - rewrite IH. apply Permutation_app_swap_app.
    - exact IH.
    - exact IH.
  Qed.

  Lemma In_decl_names stmts n : In n (decl_names stmts) <-> In n (const_names stmts) \/ In n (wire_names stmts).
  Proof.
    rewrite <- in_app_iff. split; intros H.
    - apply (Permutation_in n (decl_names_perm stmts)). exact H.
    - apply (Permutation_in n (Permutation_sym (decl_names_perm stmts))). exact H.
  Qed.

  Lemma S1_decls_In stmts n : In n (s_decls (S1 stmts)) <-> In n (const_names stmts) \/ In n (wire_names stmts).
  Proof. rewrite S1_decls, fold_add_set_In, In_decl_names. cbn [In]. tauto. Qed.

  Lemma S1_assigned_In stmts n : In n (s_assigned (S1 stmts)) <-> In n (assigned_names stmts).
  Proof. rewrite S1_assigned, fold_add_set_In. cbn [In]. tauto. Qed.

  Lemma S1_needed_In stmts n : In n (s_needed (S1 stmts)) <-> In n (wire_names stmts).
  Proof. rewrite S1_needed, fold_add_set_In. cbn [In]. tauto. Qed.

  Lemma S1_consts_has stmts n : has (s_consts (S1 stmts)) n = true <-> In n (const_names stmts).
  Proof.
    rewrite has_In, S1_consts, fold_upd_keys_In, const_exprs_names. cbn [map In]. tauto.
  Qed.

  Lemma S1_assigns_has stmts n : has (s_assigns (S1 stmts)) n = true <-> In n (assigned_names stmts).
  Proof.
    rewrite has_In, S1_assigns, fold_upd_keys_In, apairs_names. cbn [map In]. tauto.
  Qed.

  Lemma S1_assigns_NoDup stmts : NoDup (map fst (s_assigns (S1 stmts))).
  Proof. rewrite S1_assigns. apply fold_upd_keys_NoDup. constructor. Qed.

  Lemma S1_consts_NoDup stmts : NoDup (map fst (s_consts (S1 stmts))).
  Proof. rewrite S1_consts. apply fold_upd_keys_NoDup. constructor. Qed.

  (* -- errors of step 1 -- *)
  Definition Pd (n : string) : Prop := ~ In n (fixed_names fixed).
  Definition Pa (n : string) : Prop := ~ In n (fixed_out_names fixed).

  Lemma grow_decls_step1 : grow_spec s_decls (step1 fixed) dkey.
  Proof. intros s x n. rewrite s_decls_step1. apply fold_add_set_In. Qed.

  Lemma grow_assigned_step1 : grow_spec s_assigned (step1 fixed) akey.
  Proof. intros s x n. rewrite s_assigned_step1. apply fold_add_set_In. Qed.

  Lemma cdd_nil s n : check_double_declare fixed s n = [] -> ~ In n (s_decls s) /\ ~ In n (fixed_names fixed).
  Proof.
    unfold check_double_declare. intros H.
    destruct (mem_str n (s_decls s)) eqn:E1; [discriminate H|].
    destruct (mem_str n (fixed_names fixed)) eqn:E2; [discriminate H|].
    split; apply mem_str_false; assumption.
  Qed.

  Lemma fresh_decls_const : fresh_spec s_decls s_errs Pd (step1_const fixed) (fun d => [fst d]).
  Proof.
    intros s [n e] He. cbn [step1_const s_errs fst] in *.
    apply app_eq_nil in He. destruct He as [He1 He2]. apply cdd_nil in He2.
    split; [exact He1|]. split; [constructor; [intros [] | constructor]|].
    intros n0 [<-|[]]. exact He2.
  Qed.

  Lemma fresh_decls_wire : fresh_spec s_decls s_errs Pd (step1_wire fixed) (fun d => [fst d]).
  Proof.
    intros s [n e] He. cbn [step1_wire s_errs fst] in *.
    apply app_eq_nil in He. destruct He as [He1 He2]. apply cdd_nil in He2.
    split; [exact He1|]. split; [constructor; [intros [] | constructor]|].
    intros n0 [<-|[]]. exact He2.
  Qed.

  Lemma grow_decls_const : grow_spec s_decls (step1_const fixed) (fun d => [fst d]).
  Proof. intros s [n e] m. cbn [step1_const s_decls fst]. rewrite add_set_In. cbn [In]. intuition congruence. Qed.

  Lemma grow_decls_wire : grow_spec s_decls (step1_wire fixed) (fun d => [fst d]).
  Proof. intros s [n e] m. cbn [step1_wire s_decls fst]. rewrite add_set_In. cbn [In]. intuition congruence. Qed.

  Lemma errs_assign_name e s n : s_errs (step1_assign_name fixed e s n) = [] ->
    s_errs s = [] /\ ~ In n (s_assigned s) /\ ~ In n (fixed_out_names fixed).
  Proof.
    cbn [step1_assign_name s_errs]. intros He. apply app_eq_nil in He. destruct He as [He1 He2].
    destruct (mem_str n (s_assigned s)) eqn:E1; [discriminate He2|].
    destruct (mem_str n (fixed_out_names fixed)) eqn:E2; [discriminate He2|].
    split; [exact He1|]. split; apply mem_str_false; assumption.
  Qed.

  Lemma errs_assign_fold s a :
    s_errs (fold_left (fun s1 a0 => fold_left (step1_assign_name fixed (snd a0)) (fst a0) s1) a s) = [] ->
    s_errs s = [].
  Proof.
    revert s. induction a as [|a0 a IH]; intros s He; cbn [fold_left] in He; [exact He|].
    apply IH in He. revert s He. induction (fst a0) as [|n names IHn]; intros s He; cbn [fold_left] in He; [exact He|].
    apply IHn in He. apply errs_assign_name in He. destruct He as [He _]. exact He.
  Qed.

  Lemma fresh_decls_step1 : fresh_spec s_decls s_errs Pd (step1 fixed) dkey.
  Proof.
    intros s x. destruct x as [d|d|a|bn regs]; cbn [step1 dkey]; intros He.
    - rewrite <- (flat_map_single fst d).
      apply (fold_fresh s_decls s_errs Pd (step1_const fixed) (fun d0 => [fst d0]) grow_decls_const fresh_decls_const).
      exact He.
    - rewrite <- (flat_map_single fst d).
      apply (fold_fresh s_decls s_errs Pd (step1_wire fixed) (fun d0 => [fst d0]) grow_decls_wire fresh_decls_wire).
      exact He.
    - apply errs_assign_fold in He. split; [exact He|]. split; [constructor | intros n []].
    - cbn [s_errs] in He. split; [exact He|]. split; [constructor | intros n []].
  Qed.

  Lemma errs_const_fold d : forall s, s_errs (fold_left (step1_const fixed) d s) = [] -> s_errs s = [].
  Proof.
    induction d as [|[n e] d IH]; intros s He; cbn [fold_left] in He; [exact He|].
    apply IH in He. cbn [step1_const s_errs] in He. apply app_eq_nil in He. destruct He as [He _]. exact He.
  Qed.

  Lemma errs_wire_fold d : forall s, s_errs (fold_left (step1_wire fixed) d s) = [] -> s_errs s = [].
  Proof.
    induction d as [|[n e] d IH]; intros s He; cbn [fold_left] in He; [exact He|].
    apply IH in He. cbn [step1_wire s_errs] in He. apply app_eq_nil in He. destruct He as [He _]. exact He.
  Qed.

  Lemma grow_assigned_name e : grow_spec s_assigned (step1_assign_name fixed e) (fun n => [n]).
  Proof. intros s n m. cbn [step1_assign_name s_assigned]. rewrite add_set_In. cbn [In]. intuition congruence. Qed.

  Lemma fresh_assigned_name e : fresh_spec s_assigned s_errs Pa (step1_assign_name fixed e) (fun n => [n]).
  Proof.
    intros s n He. apply errs_assign_name in He. destruct He as [He1 He2].
    split; [exact He1|]. split; [constructor; [intros [] | constructor]|].
    intros n0 [<-|[]]. exact He2.
  Qed.

  Lemma fresh_assigned_step1 : fresh_spec s_assigned s_errs Pa (step1 fixed) akey.
  Proof.
    intros s x. destruct x as [d|d|a|bn regs]; cbn [step1 akey]; intros He.
    - apply errs_const_fold in He. split; [exact He|]. split; [constructor | intros n []].
    - apply errs_wire_fold in He. split; [exact He|]. split; [constructor | intros n []].
    - rewrite (flat_map_ext2 fst (fun a0 => flat_map (fun n => [n]) (fst a0)))
        by (intros a0; symmetry; apply flat_map_id_single).
      apply (fold_fresh s_assigned s_errs Pa
               (fun s1 a0 => fold_left (step1_assign_name fixed (snd a0)) (fst a0) s1)
               (fun a0 => flat_map (fun n => [n]) (fst a0))).
      + intros s0 a0 m. apply (fold_grow s_assigned (step1_assign_name fixed (snd a0)) (fun n => [n])
                                         (grow_assigned_name (snd a0)) s0 (fst a0) m).
      + intros s0 a0 He0.
        apply (fold_fresh s_assigned s_errs Pa (step1_assign_name fixed (snd a0)) (fun n => [n])
                          (grow_assigned_name (snd a0)) (fresh_assigned_name (snd a0)) s0 (fst a0) He0).
      + exact He.
    - cbn [s_errs] in He. split; [exact He|]. split; [constructor | intros n []].
  Qed.

  Lemma S1_decls_fresh stmts : s_errs (S1 stmts) = [] ->
    NoDup (decl_names stmts) /\ forall n, In n (decl_names stmts) -> ~ In n (fixed_names fixed).
  Proof.
    intros He.
    destruct (fold_fresh s_decls s_errs Pd (step1 fixed) dkey grow_decls_step1 fresh_decls_step1
                         (init1 fixed) stmts He) as [_ [H1 H2]].
    split; [exact H1|]. intros n Hn. apply H2 in Hn. destruct Hn as [_ Hn]. exact Hn.
  Qed.

  Lemma S1_assigned_fresh stmts : s_errs (S1 stmts) = [] ->
    NoDup (assigned_names stmts) /\ forall n, In n (assigned_names stmts) -> ~ In n (fixed_out_names fixed).
  Proof.
    intros He.
    destruct (fold_fresh s_assigned s_errs Pa (step1 fixed) akey grow_assigned_step1 fresh_assigned_step1
                         (init1 fixed) stmts He) as [_ [H1 H2]].
    split; [exact H1|]. intros n Hn. apply H2 in Hn. destruct Hn as [_ Hn]. exact Hn.
  Qed.

  Lemma fixed_names_all : fixed_names fixed = fixed_all_names fixed.
  Proof.
    unfold fixed_names, fixed_wires, fixed_all_names. rewrite map_flat_map. apply flat_map_ext2.
    intros ff. rewrite map_app, map_map. cbn [fst]. f_equal.
    destruct (ff_out ff) as [[n w]|]; reflexivity.
  Qed.

  Lemma fixed_out_names_eq : fixed_out_names fixed = fixed_output_names fixed.
  Proof. reflexivity. Qed.

  (* ---- 2 ---------------------------------------------------------------------------------- *)
  Theorem accept_declared_once_ok : stmt_accept_declared_once f fixed is_lower is_upper.
  Proof.
    intros stmts p Hb. destruct (build_ok_inv stmts p Hb) as [He _].
    destruct (S1_decls_fresh stmts He) as [Hn Hf]. split.
    - apply (Permutation_NoDup (decl_names_perm stmts)). exact Hn.
    - intros n Hn'. rewrite <- fixed_names_all. apply Hf. apply In_decl_names. apply in_app_iff in Hn'. exact Hn'.
  Qed.

  (* ---- 4 ---------------------------------------------------------------------------------- *)
  Lemma unset_errors_nil s t needed :
    unset_errors s t needed = [] -> forall n, In n needed -> has (s_assigns s) n = true.
  Proof.
    unfold unset_errors. intros H n Hn. apply (flat_map_nil_inv _ _ H) in Hn. cbv beta in Hn.
    destruct (has (s_assigns s) n); [reflexivity|].
    destruct (mem_str n (s_decls s)); [discriminate Hn|].
    destruct (mem_str n (t_in_spans t)); discriminate Hn.
  Qed.

  Theorem accept_wires_driven_ok : stmt_accept_wires_driven f fixed is_lower is_upper.
  Proof.
    intros stmts p Hb.
    destruct (build_ok_inv stmts p Hb) as [He [Hca [Hcr [consts [Hrc [Hte [Hun [acts [Hacts ->]]]]]]]]].
    cbn [p_banks]. pose proof (unset_errors_nil _ _ _ Hun) as Hall. split.
    - intros n Hn. apply S1_assigns_has. apply Hall. apply fold_add_set_In. left.
      apply S1_needed_In. exact Hn.
    - intros n Hn. apply S1_assigns_has. apply Hall. apply fold_add_set_In. right. exact Hn.
  Qed.

  (* ---- 5 ---------------------------------------------------------------------------------- *)
  Lemma const_ref_errors_nil s : const_ref_errors s = [] ->
    forall n e r, In (n, e) (s_consts s) -> In r (refs e) -> has (s_consts s) r = true.
  Proof.
    unfold const_ref_errors. intros H n e r Hne Hr.
    apply (flat_map_nil_inv _ _ H) in Hne. cbn [snd] in Hne.
    assert (Hr' : In r (nodup_str (refs e))) by (apply nodup_str_In; exact Hr).
    apply (flat_map_nil_inv _ _ Hne) in Hr'. cbv beta in Hr'.
    destruct (has (s_consts s) r) eqn:E; [reflexivity|]. exfalso.
    assert (Hc : count_str r (refs e) <> O) by (apply count_str_pos; exact Hr).
    destruct (has (s_wires s) r); cbn [andb negb] in Hr'; revert Hr'; apply errs_for_nonempty; exact Hc.
  Qed.

  Lemma NoDup_fst_fun {V} (l : list (string * V)) k v v' :
    NoDup (map fst l) -> In (k, v) l -> In (k, v') l -> v' = v.
  Proof.
    intros Hn H1 H2. apply (In_lookup l k v Hn) in H1. apply (In_lookup l k v' Hn) in H2.
    rewrite H1 in H2. injection H2 as ->. reflexivity.
  Qed.

  Lemma NoDup_app_l {A} (l1 l2 : list A) : NoDup (l1 ++ l2) -> NoDup l1.
  Proof.
    induction l1 as [|a l1 IH]; cbn [app]; intros H; [constructor|].
    apply NoDup_cons_iff in H. destruct H as [Ha H]. constructor; [|apply IH; exact H].
    intros Hin. apply Ha. apply in_or_app. left. exact Hin.
  Qed.

  Lemma S1_consts_exact stmts n e :
    s_errs (S1 stmts) = [] -> In (n, e) (const_exprs stmts) -> In (n, e) (s_consts (S1 stmts)).
  Proof.
    intros He Hin. apply lookup_In. rewrite S1_consts.
    destruct (S1_decls_fresh stmts He) as [Hnd _].
    apply (Permutation_NoDup (decl_names_perm stmts)) in Hnd. apply NoDup_app_l in Hnd.
    rewrite <- const_exprs_names in Hnd.
    apply fold_upd_lookup_agree; [|right; exact Hin].
    intros e' He'. apply (NoDup_fst_fun (const_exprs stmts) n e e' Hnd Hin He').
  Qed.

  Theorem accept_consts_closed_ok : stmt_accept_consts_closed f fixed is_lower is_upper.
  Proof.
    intros stmts p Hb n e r Hne Hr.
    destruct (build_ok_inv stmts p Hb) as [He [Hca [Hcr _]]].
    apply S1_consts_has. apply (const_ref_errors_nil _ Hcr n e r); [|exact Hr].
    apply S1_consts_exact; assumption.
  Qed.

  (* ================================================================================ *)
  (* Part E: step 3 (register banks)                                                   *)
  (* ================================================================================ *)
  Definition sg_in (sg : string * string * width) : string := fst (fst sg).
  Definition sg_out (sg : string * string * width) : string := snd (fst sg).
  Definition sig_names (sg : string * string * width) : list string := [sg_out sg; sg_in sg].
  Definition sigs_of (banks : list bank) : list (string * string * width) := flat_map b_signals banks.

  Definition sig_good (s : st1) (sg : string * string * width) : Prop :=
    has (s_assigns s) (sg_out sg) = false /\
    ~ In (sg_in sg) (s_decls s) /\ ~ In (sg_out sg) (s_decls s) /\
    bank_like (sg_in sg) = true /\ bank_like (sg_out sg) = true /\
    exists bn regs rn d, In (bn, regs) (s_banks s) /\ In (rn, snd sg, d) regs.

  Definition defaults_good (sigs : list (string * string * width)) (defaults : list (string * wval)) : Prop :=
    NoDup (map fst defaults) /\
    (forall x, In x (map sg_out sigs) <-> In x (map fst defaults)) /\
    (forall sg, In sg sigs -> exists v, lookup defaults (sg_out sg) = Some (as_width (snd sg) v)).

  Definition bank_good (s : st1) (b : bank) : Prop :=
    defaults_good (b_signals b) (b_defaults b) /\
    (exists X, b_stall b = "stall_" ++ X /\ b_bubble b = "bubble_" ++ X)%string /\
    ~ In (b_stall b) (s_decls s) /\ ~ In (b_bubble b) (s_decls s).

  Notation racc := (st3 * list (string * string * width) * list (string * wval))%type.
  Definition r_t (a : racc) : st3 := fst (fst a).
  Definition r_sigs (a : racc) : list (string * string * width) := snd (fst a).
  Definition r_dfl (a : racc) : list (string * wval) := snd a.

  Definition reg_inv (s : st1) (a : racc) : Prop :=
    NoDup (flat_map sig_names (sigs_of (t_banks (r_t a)) ++ r_sigs a)) /\
    (forall x, In x (flat_map sig_names (sigs_of (t_banks (r_t a)) ++ r_sigs a)) -> In x (t_seen (r_t a))) /\
    Forall (sig_good s) (sigs_of (t_banks (r_t a)) ++ r_sigs a) /\
    Forall (bank_good s) (t_banks (r_t a)) /\
    defaults_good (r_sigs a) (r_dfl a).

  Definition bank_inv (s : st1) (t : st3) : Prop := reg_inv s (t, [], []).

  Lemma step3_register_cases s consts bn inp outp t sigs defaults rname w dflt :
    let a' := step3_register f s consts bn inp outp (t, sigs, defaults) (rname, w, dflt) in
    let in_name := (inp ++ "_" ++ rname)%string in
    let out_name := (outp ++ "_" ++ rname)%string in
    t_errs (r_t a') = [] ->
    t_errs t = [] /\ t_banks (r_t a') = t_banks t /\
    t_seen (r_t a') = add_set in_name (add_set out_name (t_seen t)) /\
    ((r_sigs a' = sigs /\ r_dfl a' = defaults) \/
     (mem_str in_name (s_decls s) = false /\ mem_str out_name (s_decls s) = false /\
      has defaults out_name = false /\ has (s_assigns s) out_name = false /\
      mem_str out_name (t_seen t) = false /\ mem_str in_name (add_set out_name (t_seen t)) = false /\
      exists v, r_sigs a' = sigs ++ [(in_name, out_name, w)] /\
                r_dfl a' = upd defaults out_name (as_width w v))).
  Proof.
    intros a' in_name out_name. subst a'. unfold step3_register. cbv beta iota zeta.
    fold in_name. fold out_name.
    match goal with
    | |- context [match ?pre with [] => _ | _ :: _ => _ end] => destruct pre as [|e0 pre0] eqn:Epre
    end.
    - apply app_eq_nil in Epre. destruct Epre as [E1 Epre].
      apply app_eq_nil in Epre. destruct Epre as [E2 Epre].
      apply app_eq_nil in Epre. destruct Epre as [E3 Epre].
      apply app_eq_nil in Epre. destruct Epre as [E4 Epre].
      apply app_eq_nil in Epre. destruct Epre as [E5 E6].
      cbn [flat_map] in E1. apply app_eq_nil in E1. destruct E1 as [E1a E1b].
      apply app_eq_nil in E1b. destruct E1b as [E1b _].
      destruct (mem_str in_name (s_decls s)) eqn:D1; [discriminate E1a|].
      destruct (mem_str out_name (s_decls s)) eqn:D2; [discriminate E1b|].
      destruct (has defaults out_name) eqn:D3; [discriminate E3|].
      destruct (has (s_assigns s) out_name) eqn:D4; [discriminate E4|].
      destruct (mem_str out_name (t_seen t)) eqn:D5; [discriminate E5|].
      destruct (mem_str in_name (add_set out_name (t_seen t))) eqn:D6; [discriminate E6|].
      match goal with
      | |- context [check ?a ?b ?c ?d] => destruct (check a b c d) as [wc|esc] eqn:Eck
      end.
      2:{ cbn [r_t r_sigs r_dfl fst snd t_errs t_banks t_seen]; intros He;
          apply app_eq_nil in He; destruct He as [He _].
          split; [exact He|]. split; [reflexivity|]. split; [reflexivity|]. left. split; reflexivity. }
      destruct (eval f (lookup consts) dflt) as [v|es] eqn:Eev;
        cbn [r_t r_sigs r_dfl fst snd t_errs t_banks t_seen]; intros He;
        apply app_eq_nil in He; destruct He as [He _].
      + split; [exact He|]. split; [reflexivity|]. split; [reflexivity|]. right.
        repeat (split; [reflexivity|]). exists v. split; reflexivity.
      + split; [exact He|]. split; [reflexivity|]. split; [reflexivity|]. left. split; reflexivity.
    - cbn [r_t r_sigs r_dfl fst snd t_errs t_banks t_seen]. intros He.
      apply app_eq_nil in He. destruct He as [_ He]. discriminate He.
  Qed.

  Lemma NoDup_snoc2 (l : list string) (a b : string) :
    NoDup l -> ~ In a l -> ~ In b l -> a <> b -> NoDup (l ++ [a; b]).
  Proof.
    intros Hn Ha Hb Hab. change [a; b] with ([a] ++ [b]). rewrite app_assoc.
    apply NoDup_snoc_str; [apply NoDup_snoc_str; assumption|].
    rewrite in_app_iff. cbn [In]. intros [H|[H|[]]]; [apply Hb; exact H | apply Hab; exact H].
  Qed.

  Lemma step3_register_inv s consts bn regs inp outp :
    charform inp -> charform outp -> In (bn, regs) (s_banks s) ->
    forall a r, In r regs -> reg_inv s a ->
      t_errs (r_t (step3_register f s consts bn inp outp a r)) = [] ->
      reg_inv s (step3_register f s consts bn inp outp a r).
  Proof.
    intros Hci Hco Hbn [[t sigs] defaults] [[rname w] dflt] Hr Hinv He.
    destruct (step3_register_cases s consts bn inp outp t sigs defaults rname w dflt He)
      as [Het [Hb [Hseen Hcase]]].
    destruct Hinv as [I1 [I2 [I3 [I4 I5]]]]. cbn [r_t r_sigs r_dfl fst snd] in I1, I2, I3, I4, I5.
    unfold reg_inv. rewrite Hb, Hseen.
    destruct Hcase as [[Hs Hd]|[D1 [D2 [D3 [D4 [D5 [D6 [v [Hs Hd]]]]]]]]]; rewrite Hs, Hd.
    - split; [exact I1|]. split.
      + intros x Hx. apply add_set_In. left. apply add_set_In. left. apply I2. exact Hx.
      + split; [exact I3|]. split; [exact I4 | exact I5].
    - set (in_name := (inp ++ "_" ++ rname)%string) in *.
      set (out_name := (outp ++ "_" ++ rname)%string) in *.
      apply mem_str_false in D1, D2, D5, D6. rewrite add_set_In in D6.
      rewrite app_assoc, flat_map_app. cbn [flat_map sig_names sg_out sg_in fst snd app].
      split; [|split; [|split; [|split]]].
      + apply NoDup_snoc2; [exact I1 | | |].
        * intros H. apply D5. apply I2. exact H.
        * intros H. apply D6. left. apply I2. exact H.
        * intros H. apply D6. right. symmetry. exact H.
      + intros x Hx. rewrite !add_set_In. apply in_app_iff in Hx. destruct Hx as [Hx|Hx].
        * left. left. apply I2. exact Hx.
        * cbn [In] in Hx. destruct Hx as [Hx|[Hx|[]]]; [left; right | right]; symmetry; exact Hx.
      + apply Forall_app. split; [exact I3|]. constructor; [|constructor].
        unfold sig_good. cbn [sg_in sg_out fst snd].
        split; [exact D4|]. split; [exact D1|]. split; [exact D2|].
        split; [apply bank_like_sig; exact Hci|]. split; [apply bank_like_sig; exact Hco|].
        exists bn, regs, rname, dflt. split; assumption.
      + exact I4.
      + destruct I5 as [K1 [K2 K3]]. split; [apply upd_keys_NoDup; exact K1|]. split.
        * intros x. rewrite map_app, in_app_iff, map_fst_upd, add_set_In, K2.
          cbn [map In sg_out fst snd]. intuition congruence.
        * intros sg Hsg. apply in_app_iff in Hsg. destruct Hsg as [Hsg|[<-|[]]].
          -- rewrite lookup_upd_ne; [apply K3; exact Hsg|].
             intros Heq. apply has_false in D3. apply D3. rewrite <- Heq. apply K2.
             apply (in_map sg_out) in Hsg. exact Hsg.
          -- cbn [sg_out fst snd]. exists v. apply lookup_upd_same.
  Qed.

  Lemma step3_register_errs s consts bn inp outp a r :
    t_errs (r_t (step3_register f s consts bn inp outp a r)) = [] -> t_errs (r_t a) = [].
  Proof.
    destruct a as [[t sigs] defaults]. destruct r as [[rname w] dflt]. intros He.
    apply step3_register_cases in He. destruct He as [He _]. exact He.
  Qed.

  Lemma step3_bank_inv s consts t name regs :
    t_errs (step3_bank f is_lower is_upper s consts t (name, regs)) = [] ->
    t_errs t = [] /\
    (In (name, regs) (s_banks s) -> bank_inv s t ->
     bank_inv s (step3_bank f is_lower is_upper s consts t (name, regs))).
  Proof.
    unfold step3_bank. cbv beta iota.
    pose proof (utf8_chars_charform name EmptyString (or_introl eq_refl)) as Hcf.
    destruct (utf8_chars name "") as [|inp [|outp [|x l]]] eqn:Eu;
      try (cbn [t_errs]; intros He; apply app_eq_nil in He; destruct He as [_ He]; discriminate He).
    destruct (negb (is_lower inp) || negb (is_upper outp)) eqn:Ecase;
      [cbn [t_errs]; intros He; apply app_eq_nil in He; destruct He as [_ He]; discriminate He|].
    match goal with
    | |- context [fold_left ?F regs ?A] =>
        set (a0 := A); destruct (fold_left F regs a0) as [[t2 sigs] defaults] eqn:Ef
    end.
    cbn [t_errs]. intros He.
    assert (Hgrow : forall a r, t_errs (r_t (step3_register f s consts name inp outp a r)) = [] ->
                                t_errs (r_t a) = []).
    { intros a r. apply step3_register_errs. }
    assert (He2 : t_errs (r_t (fold_left (step3_register f s consts name inp outp) regs a0)) = []).
    { rewrite Ef. exact He. }
    pose proof (fold_errs_grow (fun a => t_errs (r_t a)) _ Hgrow regs a0 He2) as He0.
    subst a0. cbn [r_t fst t_errs] in He0.
    apply app_eq_nil in He0. destruct He0 as [He0 Hsp].
    split; [exact He0|]. intros Hin Hinv.
    cbn [flat_map] in Hsp. apply app_eq_nil in Hsp. destruct Hsp as [Hsp1 Hsp2].
    apply app_eq_nil in Hsp2. destruct Hsp2 as [Hsp2 _].
    destruct (mem_str ("stall_" ++ outp)%string (s_decls s)) eqn:Dst; [discriminate Hsp1|].
    destruct (mem_str ("bubble_" ++ outp)%string (s_decls s)) eqn:Dbu; [discriminate Hsp2|].
    apply mem_str_false in Dst, Dbu.
    inversion Hcf as [|? ? Hci Hcf1]; subst. inversion Hcf1 as [|? ? Hco _]; subst.
    match type of Ef with
    | fold_left _ _ ?A = _ => set (a0 := A) in *
    end.
    assert (H0 : reg_inv s a0).
    { unfold bank_inv, reg_inv in Hinv. unfold reg_inv. subst a0.
      cbn [r_t r_sigs r_dfl fst snd t_banks t_seen] in *. exact Hinv. }
    destruct (fold_inv_noerr (fun a => t_errs (r_t a)) (reg_inv s)
                (step3_register f s consts name inp outp) regs Hgrow
                (step3_register_inv s consts name regs inp outp Hci Hco Hin) a0 H0 He2) as [Hfin _].
    rewrite Ef in Hfin. destruct Hfin as [J1 [J2 [J3 [J4 J5]]]].
    cbn [r_t r_sigs r_dfl fst snd] in J1, J2, J3, J4, J5.
    unfold bank_inv, reg_inv. cbn [r_t r_sigs r_dfl fst snd t_banks t_seen].
    unfold sigs_of in *. rewrite app_nil_r, flat_map_app. cbn [flat_map b_signals]. rewrite app_nil_r.
    split; [exact J1|]. split; [exact J2|]. split; [exact J3|]. split.
    - apply Forall_app. split; [exact J4|]. constructor; [|constructor].
      unfold bank_good. cbn [b_signals b_defaults b_stall b_bubble].
      split; [exact J5|]. split; [exists outp; split; reflexivity|]. split; assumption.
    - split; [constructor|]. split; [intros x; cbn [map In]; tauto | intros sg []].
  Qed.

  Lemma T3_inv s consts : t_errs (T3 s consts) = [] -> bank_inv s (T3 s consts).
  Proof.
    intros He.
    refine (proj1 (fold_inv_noerr t_errs (bank_inv s) (step3_bank f is_lower is_upper s consts) (s_banks s)
                                  _ _ _ _ He)).
    - intros t [name regs] H. apply step3_bank_inv in H. destruct H as [H _]. exact H.
    - intros t [name regs] Hin Hinv H. apply step3_bank_inv in H. destruct H as [_ H]. apply H; assumption.
    - unfold bank_inv, reg_inv. cbn [r_t r_sigs r_dfl fst snd t_banks t_seen sigs_of flat_map app].
      split; [constructor|]. split; [intros x []|]. split; [constructor|]. split; [constructor|].
      split; [constructor|]. split; [intros x; cbn [map In]; tauto | intros sg []].
  Qed.

  Lemma T3_facts s consts : t_errs (T3 s consts) = [] ->
    NoDup (flat_map sig_names (sigs_of (t_banks (T3 s consts)))) /\
    Forall (sig_good s) (sigs_of (t_banks (T3 s consts))) /\
    Forall (bank_good s) (t_banks (T3 s consts)).
  Proof.
    intros He. destruct (T3_inv s consts He) as [J1 [_ [J3 [J4 _]]]].
    cbn [r_t r_sigs fst snd] in J1, J3, J4. rewrite app_nil_r in J1, J3.
    split; [exact J1|]. split; [exact J3 | exact J4].
  Qed.

  Lemma all_outs_sigs banks : all_outs banks = map sg_out (sigs_of banks).
  Proof. unfold all_outs, sigs_of, bank_outs. rewrite map_flat_map. reflexivity. Qed.

  Lemma all_ins_sigs banks : all_ins banks = map sg_in (sigs_of banks).
  Proof. unfold all_ins, sigs_of, bank_ins. rewrite map_flat_map. reflexivity. Qed.

  Lemma In_sig_names_out l x : In x (map sg_out l) -> In x (flat_map sig_names l).
  Proof.
    intros H. apply in_map_iff in H. destruct H as [sg [<- Hsg]]. apply in_flat_map.
    exists sg. split; [exact Hsg | left; reflexivity].
  Qed.

  Lemma In_sig_names_in l x : In x (map sg_in l) -> In x (flat_map sig_names l).
  Proof.
    intros H. apply in_map_iff in H. destruct H as [sg [<- Hsg]]. apply in_flat_map.
    exists sg. split; [exact Hsg | right; left; reflexivity].
  Qed.

  Lemma sig_names_NoDup l : NoDup (flat_map sig_names l) ->
    NoDup (map sg_out l) /\ NoDup (map sg_in l) /\ forall x, In x (map sg_out l) -> ~ In x (map sg_in l).
  Proof.
    induction l as [|sg l IH]; cbn [flat_map map sig_names app]; intros H.
    - split; [constructor|]. split; [constructor | intros x []].
    - apply NoDup_cons_iff in H. destruct H as [Ho H]. apply NoDup_cons_iff in H. destruct H as [Hi H].
      destruct (IH H) as [N1 [N2 N3]]. cbn [In] in Ho.
      split; [|split].
      + constructor; [|exact N1]. intros Hx. apply Ho. right. apply In_sig_names_out. exact Hx.
      + constructor; [|exact N2]. intros Hx. apply Hi. apply In_sig_names_in. exact Hx.
      + intros x [Hx|Hx] [Hy|Hy].
        * apply Ho. left. congruence.
        * subst x. apply Ho. right. apply In_sig_names_in. exact Hy.
        * subst x. apply Hi. apply In_sig_names_out. exact Hx.
        * apply (N3 x); assumption.
  Qed.

  Lemma sig_of_out banks x : In x (all_outs banks) -> exists sg, In sg (sigs_of banks) /\ sg_out sg = x.
  Proof.
    rewrite all_outs_sigs. intros H. apply in_map_iff in H. destruct H as [sg [H1 H2]].
    exists sg. split; assumption.
  Qed.

  Lemma sig_of_in banks x : In x (all_ins banks) -> exists sg, In sg (sigs_of banks) /\ sg_in sg = x.
  Proof.
    rewrite all_ins_sigs. intros H. apply in_map_iff in H. destruct H as [sg [H1 H2]].
    exists sg. split; assumption.
  Qed.

  (* the control signals left to their default: unassigned stall_X / bubble_X of a produced bank *)
  Definition dfl_inv (s : st1) (t : st3) : Prop :=
    forall n, In n (t_defaulted t) ->
      has (s_assigns s) n = false /\ exists b, In b (t_banks t) /\ (n = b_stall b \/ n = b_bubble b).

  Lemma step3_register_keeps s consts bn inp outp a r :
    t_banks (r_t (step3_register f s consts bn inp outp a r)) = t_banks (r_t a) /\
    t_defaulted (r_t (step3_register f s consts bn inp outp a r)) = t_defaulted (r_t a).
  Proof.
    destruct a as [[t sigs] defaults]. destruct r as [[rname w] dflt].
    unfold step3_register. cbv beta iota zeta.
    match goal with
    | |- context [match ?pre with [] => _ | _ :: _ => _ end] => destruct pre as [|e0 pre0]
    end; [|split; reflexivity].
    match goal with
    | |- context [check ?a ?b ?c ?d] => destruct (check a b c d) as [wc|esc]
    end; [|split; reflexivity].
    destruct (eval f (lookup consts) dflt) as [v|es]; split; reflexivity.
  Qed.

  Lemma step3_regs_keep s consts bn inp outp regs : forall a,
    t_banks (r_t (fold_left (step3_register f s consts bn inp outp) regs a)) = t_banks (r_t a) /\
    t_defaulted (r_t (fold_left (step3_register f s consts bn inp outp) regs a)) = t_defaulted (r_t a).
  Proof.
    induction regs as [|r regs IH]; intros a; cbn [fold_left]; [split; reflexivity|].
    destruct (IH (step3_register f s consts bn inp outp a r)) as [I1 I2].
    destruct (step3_register_keeps s consts bn inp outp a r) as [K1 K2].
    rewrite I1, I2, K1, K2. split; reflexivity.
  Qed.

  Lemma step3_bank_dfl s consts t b :
    dfl_inv s t -> dfl_inv s (step3_bank f is_lower is_upper s consts t b).
  Proof.
    destruct b as [name regs]. intros Hinv. unfold step3_bank. cbv beta iota.
    destruct (utf8_chars name "") as [|inp [|outp [|x l]]]; try exact Hinv.
    destruct (negb (is_lower inp) || negb (is_upper outp)); [exact Hinv|].
    match goal with
    | |- context [fold_left ?F regs ?A] =>
        set (a0 := A); pose proof (step3_regs_keep s consts name inp outp regs a0) as Hk;
        destruct (fold_left F regs a0) as [[t2 sigs] defaults]
    end.
    destruct Hk as [K1 K2]. subst a0. cbn [r_t fst t_banks t_defaulted] in K1, K2.
    intros n Hn. cbn [t_defaulted t_banks] in *. rewrite K2 in Hn. rewrite K1.
    apply fold_add_set_In in Hn. destruct Hn as [Hn|Hn].
    - destruct (Hinv n Hn) as [H1 [b [Hb H2]]]. split; [exact H1|]. exists b. split; [|exact H2].
      apply in_or_app. left. exact Hb.
    - assert (Hcase : has (s_assigns s) n = false /\ (n = ("stall_" ++ outp)%string \/ n = ("bubble_" ++ outp)%string)).
      { apply in_app_iff in Hn. destruct Hn as [Hn|Hn].
        - destruct (has (s_assigns s) ("stall_" ++ outp)) eqn:E; [contradiction|].
          destruct Hn as [<-|[]]. split; [exact E | left; reflexivity].
        - destruct (has (s_assigns s) ("bubble_" ++ outp)) eqn:E; [contradiction|].
          destruct Hn as [<-|[]]. split; [exact E | right; reflexivity]. }
      destruct Hcase as [H1 H2]. split; [exact H1|].
      exists (mkBank name sigs defaults ("stall_" ++ outp) ("bubble_" ++ outp)).
      split; [apply in_or_app; right; left; reflexivity | exact H2].
  Qed.

  Lemma T3_defaulted s consts : dfl_inv s (T3 s consts).
  Proof.
    assert (H : forall banks t, dfl_inv s t ->
              dfl_inv s (fold_left (step3_bank f is_lower is_upper s consts) banks t)).
    { induction banks as [|b banks IH]; intros t Ht; cbn [fold_left]; [exact Ht|].
      apply IH. apply step3_bank_dfl. exact Ht. }
    apply H. intros n [].
  Qed.

  (* ---- 8 ---------------------------------------------------------------------------------- *)
  Lemma T3_banks_wf s consts : t_errs (T3 s consts) = [] -> banks_wf (t_banks (T3 s consts)).
  Proof.
    intros He. destruct (T3_facts s consts He) as [F1 [F2 F3]].
    set (banks := t_banks (T3 s consts)) in *.
    destruct (sig_names_NoDup _ F1) as [N1 [N2 N3]].
    rewrite Forall_forall in F2, F3.
    assert (Hlike_out : forall x, In x (all_outs banks) -> bank_like x = true).
    { intros x Hx. apply sig_of_out in Hx. destruct Hx as [sg [Hsg <-]]. apply F2 in Hsg. apply Hsg. }
    assert (Hlike_in : forall x, In x (all_ins banks) -> bank_like x = true).
    { intros x Hx. apply sig_of_in in Hx. destruct Hx as [sg [Hsg <-]]. apply F2 in Hsg. apply Hsg. }
    unfold banks_wf. rewrite all_outs_sigs, all_ins_sigs.
    split; [exact N1|]. split; [exact N3|].
    intros b Hb. apply F3 in Hb. destruct Hb as [[K1 [K2 K3]] [[X [Hst Hbu]] _]].
    rewrite <- all_outs_sigs, <- all_ins_sigs.
    split; [|split; [|split; [|split; [|split]]]].
    - intros H. apply Hlike_out in H. rewrite Hst, bank_like_stall in H. discriminate H.
    - intros H. apply Hlike_out in H. rewrite Hbu, bank_like_bubble in H. discriminate H.
    - intros H. apply Hlike_in in H. rewrite Hst, bank_like_stall in H. discriminate H.
    - intros H. apply Hlike_in in H. rewrite Hbu, bank_like_bubble in H. discriminate H.
    - exact K1.
    - exact K2.
  Qed.

  Theorem accept_banks_wf_ok : stmt_accept_banks_wf f fixed is_lower is_upper.
  Proof.
    intros stmts p Hb.
    destruct (build_ok_inv stmts p Hb) as [He [Hca [Hcr [consts [Hrc [Hte [Hun [acts [Hacts ->]]]]]]]]].
    cbn [p_banks]. apply T3_banks_wf. exact Hte.
  Qed.

  (* ---- 3 ---------------------------------------------------------------------------------- *)
  Lemma const_assigned_errors_nil s : const_assigned_errors s = [] ->
    forall n, In n (s_assigned s) -> has (s_consts s) n = false.
  Proof.
    unfold const_assigned_errors. intros H n Hn. apply (flat_map_nil_inv _ _ H) in Hn. cbv beta in Hn.
    destruct (has (s_consts s) n); [discriminate Hn | reflexivity].
  Qed.

  Theorem accept_assigned_once_ok : stmt_accept_assigned_once f fixed is_lower is_upper.
  Proof.
    intros stmts p Hb.
    destruct (build_ok_inv stmts p Hb) as [He [Hca [Hcr [consts [Hrc [Hte [Hun [acts [Hacts ->]]]]]]]]].
    cbn [p_banks]. destruct (S1_assigned_fresh stmts He) as [Hn Hf].
    split; [exact Hn|]. intros n Hin. split; [|split].
    - apply Hf. exact Hin.
    - intros Hc. apply S1_consts_has in Hc.
      rewrite (const_assigned_errors_nil _ Hca n) in Hc; [discriminate Hc|].
      apply S1_assigned_In. exact Hin.
    - intros Ho. apply sig_of_out in Ho. destruct Ho as [sg [Hsg <-]].
      destruct (T3_facts _ consts Hte) as [_ [F2 _]]. rewrite Forall_forall in F2.
      apply F2 in Hsg. destruct Hsg as [Hsg _].
      apply S1_assigns_has in Hin. rewrite Hin in Hsg. discriminate Hsg.
  Qed.

  (* ================================================================================ *)
  (* Part F: assignments_to_actions                                                    *)
  (* ================================================================================ *)
  Lemma a2a_inv widths consts assigns known decls acts :
    assignments_to_actions f fixed widths consts assigns known decls = Ok acts ->
    exists g by_out no_out order sacts,
      fold_left (preprocess_one f consts assigns) fixed (assign_graph assigns known, [], [], [])
        = (g, by_out, no_out, []) /\
      toposort string String.eqb g = Ok (inl order) /\
      schedule f widths consts assigns by_out decls order [] [] [] = (sacts, [], []) /\
      acts = sacts ++ map ff_action no_out.
  Proof.
    unfold assignments_to_actions. intros H.
    destruct (fold_left (preprocess_one f consts assigns) fixed (assign_graph assigns known, [], [], []))
      as [[[g by_out] no_out] errs0] eqn:Ef.
    destruct errs0 as [|e0 errs0]; [|discriminate H].
    destruct (toposort string String.eqb g) as [[order|cyc]|es1] eqn:Et; cbn [bind] in H;
      [|unfold err1 in H; discriminate H | discriminate H].
    destruct (schedule f widths consts assigns by_out decls order [] [] []) as [[sacts errs] und] eqn:Es.
    destruct (errs ++ map (fun n => mkErr UnsetUndeclaredWire [n]) und) as [|e1 errs1] eqn:Ee; [|discriminate H].
    apply app_eq_nil in Ee. destruct Ee as [-> Eu]. apply map_eq_nil in Eu. subst und. injection H as <-.
    exists g, by_out, no_out, order, sacts.
    split; [reflexivity|]. split; [exact Et|]. split; [exact Es | reflexivity].
  Qed.

  Definition emitted (widths : list (string * width)) (consts : list (string * wval))
             (assigns : list (string * expr)) (by_out : list (string * fixed_fn))
             (n : string) (a : action) : Prop :=
    (exists e w we, lookup assigns n = Some e /\ lookup widths n = Some w /\
        check f (lookup widths) (lookup consts) e = Ok we /\ wcombine w we <> None /\ a = AAssign n e w) \/
    (lookup assigns n = None /\ exists ff, lookup by_out n = Some ff /\ a = ff_action ff).

  Lemma schedule_ok widths consts assigns by_out decls : forall order acts errs und acts',
    schedule f widths consts assigns by_out decls order acts errs und = (acts', [], []) ->
    errs = [] /\ und = [] /\
    exists new, acts' = acts ++ new /\ Forall2 (emitted widths consts assigns by_out) order new.
  Proof.
    induction order as [|n r IH]; intros acts errs und acts' H; cbn [schedule] in H.
    - injection H as <- -> ->. split; [reflexivity|]. split; [reflexivity|].
      exists []. split; [rewrite app_nil_r; reflexivity | constructor].
    - destruct (lookup assigns n) as [e|] eqn:Ea.
      + destruct (lookup widths n) as [w|] eqn:Ew.
        * destruct (check f (lookup widths) (lookup consts) e) as [we|es] eqn:Ec.
          -- apply IH in H. destruct H as [He [Hu [new [Hacts HF]]]].
             apply app_eq_nil in He. destruct He as [He He1].
             split; [exact He|]. split; [exact Hu|]. exists (AAssign n e w :: new).
             split; [rewrite Hacts, <- app_assoc; reflexivity|]. constructor; [|exact HF].
             left. exists e, w, we. split; [exact Ea|]. split; [exact Ew|]. split; [exact Ec|].
             split; [|reflexivity]. destruct (wcombine w we); [discriminate | discriminate He1].
          -- apply IH in H. destruct H as [He _]. apply app_eq_nil in He. destruct He as [_ He].
             apply check_err in Ec. contradiction.
        * apply IH in H. destruct H as [He _]. apply app_eq_nil in He. destruct He as [_ He]. discriminate He.
      + destruct (lookup by_out n) as [ff|] eqn:Eb.
        * apply IH in H. destruct H as [He [Hu [new [Hacts HF]]]].
          split; [exact He|]. split; [exact Hu|]. exists (ff_action ff :: new).
          split; [rewrite Hacts, <- app_assoc; reflexivity|]. constructor; [|exact HF].
          right. split; [exact Ea|]. exists ff. split; [exact Eb | reflexivity].
        * destruct (mem_str n decls) eqn:Ed.
          -- apply IH in H. destruct H as [He _]. apply app_eq_nil in He. destruct He as [_ He]. discriminate He.
          -- apply IH in H. destruct H as [_ [Hu _]]. exfalso.
             assert (Hin : In n (add_set n und)) by (apply add_set_In; right; reflexivity).
             rewrite Hu in Hin. exact Hin.
  Qed.

  Lemma Forall2_In_l {A B} (R : A -> B -> Prop) l l' x :
    Forall2 R l l' -> In x l -> exists y, In y l' /\ R x y.
  Proof.
    intros HF. induction HF as [|a b l l' Hab HF IH]; intros Hin; [contradiction|].
    destruct Hin as [<-|Hin]; [exists b; split; [left; reflexivity | exact Hab]|].
    destruct (IH Hin) as [y [Hy HR]]. exists y. split; [right; exact Hy | exact HR].
  Qed.

  Lemma Forall2_In_r {A B} (R : A -> B -> Prop) l l' y :
    Forall2 R l l' -> In y l' -> exists x, In x l /\ R x y.
  Proof.
    intros HF. induction HF as [|a b l l' Hab HF IH]; intros Hin; [contradiction|].
    destruct Hin as [<-|Hin]; [exists a; split; [left; reflexivity | exact Hab]|].
    destruct (IH Hin) as [x [Hx HR]]. exists x. split; [right; exact Hx | exact HR].
  Qed.

  (* ---- a generic criterion for valid_schedule ------------------------------------------------ *)
  Definition before (ord : list string) (n r : string) : Prop :=
    exists l1 l2 l3, ord = l1 ++ r :: l2 ++ n :: l3.

  Lemma effect_written a : is_effect a = true -> written a = None.
  Proof. destruct a; cbn [is_effect written]; intros H; try reflexivity; discriminate H. Qed.

  Lemma vs_effects K effs :
    (forall b, In b effs -> is_effect b = true /\ forall r, In r (reads b) -> In r K) ->
    valid_schedule K effs = true.
  Proof.
    destruct effs as [|b effs]; intros H; cbn [valid_schedule]; [reflexivity|].
    destruct (H b (or_introl eq_refl)) as [Hb Hr]. rewrite (effect_written b Hb).
    apply andb_true_iff. split.
    - apply forallb_forall. intros r Hin. apply mem_str_In. apply Hr. exact Hin.
    - apply forallb_forall. intros b' Hb'. destruct (H b' (or_intror Hb')) as [Hb1 Hr1].
      rewrite Hb1. cbn [andb]. apply forallb_forall. intros r Hin. apply mem_str_In. apply Hr1. exact Hin.
  Qed.

  Lemma vs_pure (P : string -> action -> Prop) :
    (forall n a, P n a -> written a = Some n) ->
    forall ord acts, Forall2 P ord acts -> forall K effs,
    NoDup ord -> (forall n, In n ord -> ~ In n K) ->
    (forall n a r, In n ord -> P n a -> In r (reads a) -> In r K \/ before ord n r) ->
    (forall b, In b effs -> is_effect b = true /\ forall r, In r (reads b) -> In r K \/ In r ord) ->
    valid_schedule K (acts ++ effs) = true.
  Proof.
    intros HW ord acts HF. induction HF as [|n a ord acts Hna HF IH]; intros K effs Hnd Hdis Hreads Heffs.
    - cbn [app]. apply vs_effects. intros b Hb. destruct (Heffs b Hb) as [H1 H2]. split; [exact H1|].
      intros r Hr. destruct (H2 r Hr) as [H|[]]. exact H.
    - cbn [app valid_schedule]. rewrite (HW n a Hna).
      apply NoDup_cons_iff in Hnd. destruct Hnd as [Hn Hnd].
      apply andb_true_iff. split; [|apply andb_true_iff; split].
      + apply forallb_forall. intros r Hr. apply mem_str_In.
        destruct (Hreads n a r (or_introl eq_refl) Hna Hr) as [H|[l1 [l2 [l3 H]]]]; [exact H|].
        exfalso. destruct l1 as [|x l1]; cbn [app] in H; injection H as Hx H.
        * apply Hn. rewrite H. apply in_or_app. right. left. reflexivity.
        * apply Hn. rewrite H. apply in_or_app. right. right. apply in_or_app. right. left. reflexivity.
      + apply negb_true_iff. apply mem_str_false. apply Hdis. left. reflexivity.
      + apply IH; [exact Hnd| | |].
        * intros n' Hn' [H|H]; [subst n'; apply Hn; exact Hn' | apply (Hdis n' (or_intror Hn')); exact H].
        * intros n' a' r Hn' Hp Hr.
          destruct (Hreads n' a' r (or_intror Hn') Hp Hr) as [H|[l1 [l2 [l3 H]]]]; [left; right; exact H|].
          destruct l1 as [|x l1]; cbn [app] in H; injection H as Hx H.
          -- left. left. exact Hx.
          -- right. exists l1, l2, l3. exact H.
        * intros b Hb. destruct (Heffs b Hb) as [H1 H2]. split; [exact H1|].
          intros r Hr. destruct (H2 r Hr) as [H|[H|H]];
            [left; right; exact H | left; left; exact H | right; exact H].
  Qed.

  (* ---- preprocess_fixed ------------------------------------------------------------------ *)
  Definition noout (ff : fixed_fn) : bool := match ff_out ff with None => true | Some _ => false end.

  Lemma filter_nil_inv {A} (p : A -> bool) (l : list A) : filter p l = [] -> forall x, In x l -> p x = false.
  Proof.
    induction l as [|a l IH]; cbn [filter In]; intros H x Hx; [contradiction|].
    destruct (p a) eqn:E; [discriminate H|]. destruct Hx as [<-|Hx]; [exact E | apply IH; assumption].
  Qed.

  Lemma preprocess_one_cases consts assigns g by_out no_out errs ff :
    snd (preprocess_one f consts assigns (g, by_out, no_out, errs) ff) = [] ->
    errs = [] /\
    (preprocess_one f consts assigns (g, by_out, no_out, errs) ff = (g, by_out, no_out, []) \/
     ((forall i, In i (fixed_in_names ff) -> has assigns i = true) /\
      ((ff_out ff = None /\
        preprocess_one f consts assigns (g, by_out, no_out, errs) ff = (g, by_out, no_out ++ [ff], [])) \/
       (exists o w, ff_out ff = Some (o, w) /\
          preprocess_one f consts assigns (g, by_out, no_out, errs) ff =
          (fold_left (fun g1 n => graph_insert g1 n o) (fixed_in_names ff) g, upd by_out o ff, no_out, []))))).
  Proof.
    unfold preprocess_one. cbv beta iota zeta.
    destruct (filter (fun n => negb (has assigns n)) (fixed_in_names ff)) as [|m ms] eqn:Em.
    - assert (Hall : forall i, In i (fixed_in_names ff) -> has assigns i = true).
      { intros i Hi. apply (filter_nil_inv _ _ Em) in Hi. apply negb_false_iff in Hi. exact Hi. }
      destruct (ff_out ff) as [[o w]|] eqn:Eo; cbn [snd]; intros ->; (split; [reflexivity|]); right;
        (split; [exact Hall|]).
      + right. exists o, w. split; reflexivity.
      + left. split; reflexivity.
    - destruct (ff_mandatory ff).
      + destruct (ff_out ff) as [[o w]|]; cbn [snd map]; intros He; apply app_eq_nil in He;
          destruct He as [_ He]; discriminate He.
      + cbn [snd]. intros He. apply app_eq_nil in He. destruct He as [He1 He2]. subst errs.
        split; [reflexivity|]. left. rewrite He2. reflexivity.
  Qed.

  Lemma preprocess_one_errs consts assigns acc ff :
    snd (preprocess_one f consts assigns acc ff) = [] -> snd acc = [].
  Proof.
    destruct acc as [[[g b] n] e]. intros H. apply preprocess_one_cases in H. destruct H as [H _]. exact H.
  Qed.

  Lemma preprocess_shape consts assigns : forall l g by_out no_out g' by_out' no_out',
    fold_left (preprocess_one f consts assigns) l (g, by_out, no_out, []) = (g', by_out', no_out', []) ->
    (forall n ff, lookup by_out' n = Some ff ->
       lookup by_out n = Some ff \/
       (In ff l /\ (exists w, ff_out ff = Some (n, w)) /\
        forall i, In i (fixed_in_names ff) -> has assigns i = true)) /\
    exists extra, no_out' = no_out ++ extra /\ subseq extra (filter noout l) /\
       forall ff, In ff extra ->
         In ff l /\ ff_out ff = None /\ forall i, In i (fixed_in_names ff) -> has assigns i = true.
  Proof.
    induction l as [|ff l IH]; intros g by_out no_out g' by_out' no_out' H; cbn [fold_left] in H.
    - injection H as <- <- <-. split; [intros n ff Hl; left; exact Hl|].
      exists []. rewrite app_nil_r. split; [reflexivity|]. split; [constructor | intros ff []].
    - assert (He1 : snd (preprocess_one f consts assigns (g, by_out, no_out, []) ff) = []).
      { apply (fold_errs_grow snd (preprocess_one f consts assigns) (preprocess_one_errs consts assigns) l).
        rewrite H. reflexivity. }
      destruct (preprocess_one_cases _ _ _ _ _ _ _ He1) as [_ [Hc|[Hall [[Ho Hc]|[o [w [Ho Hc]]]]]]];
        rewrite Hc in H; apply IH in H; destruct H as [H1 [extra [H2 [H3 H4]]]].
      + split.
        * intros n ff0 Hl. destruct (H1 n ff0 Hl) as [Hx|[Hx Hy]];
            [left; exact Hx | right; split; [right; exact Hx | exact Hy]].
        * exists extra. split; [exact H2|]. split.
          -- cbn [filter]. destruct (noout ff); [apply sub_skip|]; exact H3.
          -- intros ff0 Hin. destruct (H4 ff0 Hin) as [Hx Hy]. split; [right; exact Hx | exact Hy].
      + split.
        * intros n ff0 Hl. destruct (H1 n ff0 Hl) as [Hx|[Hx Hy]];
            [left; exact Hx | right; split; [right; exact Hx | exact Hy]].
        * exists (ff :: extra). split; [rewrite H2, <- app_assoc; reflexivity|]. split.
          -- cbn [filter]. unfold noout at 1. rewrite Ho. apply sub_take. exact H3.
          -- intros ff0 [<-|Hin].
             ++ split; [left; reflexivity|]. split; assumption.
             ++ destruct (H4 ff0 Hin) as [Hx Hy]. split; [right; exact Hx | exact Hy].
      + split.
        * intros n ff0 Hl. destruct (H1 n ff0 Hl) as [Hx|[Hx Hy]].
          -- rewrite lookup_upd in Hx. destruct (String.eqb n o) eqn:En; [|left; exact Hx].
             apply String.eqb_eq in En. subst n. injection Hx as <-. right.
             split; [left; reflexivity|]. split; [exists w; exact Ho | exact Hall].
          -- right. split; [right; exact Hx | exact Hy].
        * exists extra. split; [exact H2|]. split.
          -- cbn [filter]. unfold noout at 1. rewrite Ho. exact H3.
          -- intros ff0 Hin. destruct (H4 ff0 Hin) as [Hx Hy]. split; [right; exact Hx | exact Hy].
  Qed.

  (* ---- the table ------------------------------------------------------------------------ *)
  Lemma fixed_ok_In ff : fixed_table_ok fixed = true -> In ff fixed -> fixed_fn_ok ff = true.
  Proof. unfold fixed_table_ok. intros H Hin. rewrite forallb_forall in H. apply H. exact Hin. Qed.

  Lemma fixed_fn_ok_out ff o w : fixed_fn_ok ff = true -> ff_out ff = Some (o, w) ->
    is_effect (ff_action ff) = false /\ written (ff_action ff) = Some o /\
    forall r, In r (reads (ff_action ff)) -> In r (fixed_in_names ff).
  Proof.
    unfold fixed_fn_ok. intros H Ho. rewrite Ho in H.
    apply andb_true_iff in H. destruct H as [H H3]. apply andb_true_iff in H. destruct H as [H1 H2].
    split; [apply negb_true_iff; exact H1|]. split.
    - destruct (written (ff_action ff)) as [w0|]; [|discriminate H2].
      apply String.eqb_eq in H2. subst w0. reflexivity.
    - intros r Hr. rewrite forallb_forall in H3. apply mem_str_In. apply H3. exact Hr.
  Qed.

  Lemma fixed_fn_ok_noout ff : fixed_fn_ok ff = true -> ff_out ff = None ->
    is_effect (ff_action ff) = true /\ forall r, In r (reads (ff_action ff)) -> In r (fixed_in_names ff).
  Proof.
    unfold fixed_fn_ok. intros H Ho. rewrite Ho in H.
    apply andb_true_iff in H. destruct H as [H1 H3]. split; [exact H1|].
    intros r Hr. rewrite forallb_forall in H3. apply mem_str_In. apply H3. exact Hr.
  Qed.

  Lemma filter_all_true {A} (p : A -> bool) (l : list A) : (forall x, In x l -> p x = true) -> filter p l = l.
  Proof.
    induction l as [|a l IH]; intros H; cbn [filter]; [reflexivity|].
    rewrite (H a (or_introl eq_refl)). f_equal. apply IH. intros x Hx. apply H. right. exact Hx.
  Qed.

  Lemma filter_all_false {A} (p : A -> bool) (l : list A) : (forall x, In x l -> p x = false) -> filter p l = [].
  Proof.
    induction l as [|a l IH]; intros H; cbn [filter]; [reflexivity|].
    rewrite (H a (or_introl eq_refl)). apply IH. intros x Hx. apply H. right. exact Hx.
  Qed.

  Lemma subseq_map {A B} (h : A -> B) (a b : list A) : subseq a b -> subseq (map h a) (map h b).
  Proof. intros H. induction H; cbn [map]; constructor; assumption. Qed.

  (* every action emitted by the scheduler proper is pure *)
  Lemma emitted_pure widths consts assigns by_out n a :
    fixed_table_ok fixed = true ->
    (forall n ff, lookup by_out n = Some ff -> In ff fixed /\ exists w, ff_out ff = Some (n, w)) ->
    emitted widths consts assigns by_out n a -> is_effect a = false /\ written a = Some n.
  Proof.
    intros Hok Hby [[e [w [we [_ [_ [_ [_ ->]]]]]]]|[_ [ff [Hl ->]]]].
    - split; reflexivity.
    - destruct (Hby n ff Hl) as [Hin [w Ho]].
      destruct (fixed_fn_ok_out ff n w (fixed_ok_In ff Hok Hin) Ho) as [H1 [H2 _]]. split; assumption.
  Qed.

  (* ---- 7 ---------------------------------------------------------------------------------- *)
  Theorem build_effects_in_table_order_ok : stmt_build_effects_in_table_order f fixed is_lower is_upper.
  Proof.
    intros Hok stmts p Hb.
    destruct (build_ok_inv stmts p Hb) as [He [Hca [Hcr [consts [Hrc [Hte [Hun [acts [Hacts ->]]]]]]]]].
    cbn [p_actions].
    destruct (a2a_inv _ _ _ _ _ _ Hacts) as [g [by_out [no_out [order [sacts [Hf [Ht [Hs ->]]]]]]]].
    destruct (preprocess_shape _ _ _ _ _ _ _ _ _ Hf) as [Hby [extra [Hno [Hsub Hex]]]].
    cbn [app] in Hno. subst no_out.
    destruct (schedule_ok _ _ _ _ _ _ _ _ _ _ Hs) as [_ [_ [new [Hn HF]]]]. cbn [app] in Hn. subst sacts.
    assert (Hby' : forall n ff, lookup by_out n = Some ff -> In ff fixed /\ exists w, ff_out ff = Some (n, w)).
    { intros n ff Hl. destruct (Hby n ff Hl) as [Hx|[Hx [Hy _]]]; [discriminate Hx | split; assumption]. }
    unfold effect_part. rewrite filter_app.
    rewrite (filter_all_false is_effect new).
    2:{ intros a Ha. destruct (Forall2_In_r _ _ _ _ HF Ha) as [n [_ Hem]].
        apply (emitted_pure _ _ _ _ _ _ Hok Hby') in Hem. apply Hem. }
    rewrite (filter_all_true is_effect (map ff_action extra)).
    2:{ intros a Ha. apply in_map_iff in Ha. destruct Ha as [ff [<- Hff]].
        destruct (Hex ff Hff) as [Hin [Ho _]].
        apply (fixed_fn_ok_noout ff (fixed_ok_In ff Hok Hin) Ho). }
    cbn [app]. apply subseq_map. exact Hsub.
  Qed.

  (* ---- the dependency graph after preprocess_fixed ------------------------------------------ *)
  Lemma preprocess_graph consts assigns : forall l g by_out no_out g' by_out' no_out',
    gwf g -> NoDup (fixed_out_names l) -> Forall (fun ff => NoDup (fixed_in_names ff)) l ->
    (forall o, In o (fixed_out_names l) -> forall x, ~ gedge g x o) ->
    fold_left (preprocess_one f consts assigns) l (g, by_out, no_out, []) = (g', by_out', no_out', []) ->
    gwf g' /\ (forall x y, gedge g x y -> gedge g' x y) /\
    (forall x, In x (g_nodes g) -> In x (g_nodes g')) /\
    (forall n ff, lookup by_out' n = Some ff ->
       lookup by_out n = Some ff \/ forall i, In i (fixed_in_names ff) -> gedge g' i n).
  Proof.
    induction l as [|ff l IH]; intros g by_out no_out g' by_out' no_out' Hwf Hnd Hins Hne H; cbn [fold_left] in H.
    - injection H as <- <- <-. split; [exact Hwf|]. split; [intros x y Hxy; exact Hxy|].
      split; [intros x Hx; exact Hx | intros n ff Hl; left; exact Hl].
    - assert (He1 : snd (preprocess_one f consts assigns (g, by_out, no_out, []) ff) = []).
      { apply (fold_errs_grow snd (preprocess_one f consts assigns) (preprocess_one_errs consts assigns) l).
        rewrite H. reflexivity. }
      inversion Hins as [|? ? Hi Hins']; subst.
      rewrite fixed_out_names_cons in Hnd, Hne.
      assert (Hnd' : NoDup (fixed_out_names l)).
      { apply NoDup_app_inv in Hnd. destruct Hnd as [_ [Hnd _]]. exact Hnd. }
      assert (Hne' : forall o, In o (fixed_out_names l) -> forall x, ~ gedge g x o).
      { intros o Ho. apply Hne. apply in_or_app. right. exact Ho. }
      destruct (preprocess_one_cases _ _ _ _ _ _ _ He1) as [_ [Hc|[Hall [[Ho Hc]|[o [w [Ho Hc]]]]]]];
        rewrite Hc in H.
      + apply (IH _ _ _ _ _ _ Hwf Hnd' Hins' Hne') in H. exact H.
      + apply (IH _ _ _ _ _ _ Hwf Hnd' Hins' Hne') in H. exact H.
      + rewrite Ho in Hnd, Hne. cbn [app] in Hnd, Hne.
        apply NoDup_cons_iff in Hnd. destruct Hnd as [Hon _].
        destruct (insert_ins_wf o (fixed_in_names ff) g Hwf Hi) as [W1 [W2 W3]].
        { intros i _. apply Hne. left. reflexivity. }
        cbv zeta in W1, W2, W3.
        set (g1 := fold_left (fun g1 n => graph_insert g1 n o) (fixed_in_names ff) g) in *.
        assert (Hne1 : forall o', In o' (fixed_out_names l) -> forall x, ~ gedge g1 x o').
        { intros o' Ho' x He. apply W2 in He. destruct He as [He|[He _]].
          - apply (Hne' o' Ho' x). exact He.
          - subst o'. apply Hon. exact Ho'. }
        destruct (IH _ _ _ _ _ _ W1 Hnd' Hins' Hne1 H) as [I1 [I2 [I3 I4]]].
        split; [exact I1|]. split; [|split].
        * intros x y Hxy. apply I2. apply W2. left. exact Hxy.
        * intros x Hx. apply I3. apply W3. exact Hx.
        * intros n ff0 Hl. destruct (I4 n ff0 Hl) as [Hx|Hx]; [|right; exact Hx].
          rewrite lookup_upd in Hx. destruct (String.eqb n o) eqn:En; [|left; exact Hx].
          apply String.eqb_eq in En. subst n. injection Hx as <-. right.
          intros i Hin. apply I2. apply W2. right. split; [reflexivity | exact Hin].
  Qed.

  (* ---- constants --------------------------------------------------------------------------- *)
  Lemma eval_consts_keys cs : forall order vals errs vals' errs',
    eval_consts f cs order vals errs = (vals', errs') ->
    (NoDup (map fst vals) -> NoDup (map fst vals')) /\
    forall k, In k (map fst vals') -> In k (map fst vals) \/ has cs k = true.
  Proof.
    induction order as [|n r IH]; intros vals errs vals' errs' H; cbn [eval_consts] in H.
    - injection H as <- <-. split; [intros Hn; exact Hn | intros k Hk; left; exact Hk].
    - destruct (lookup cs n) as [e|] eqn:El.
      + match type of H with
        | context [check ?a ?b ?c ?d] => destruct (check a b c d) as [wc|esc]
        end; [|apply IH in H; exact H].
        destruct (eval f (lookup vals) e) as [v|es].
        * apply IH in H. destruct H as [H1 H2]. split.
          -- intros Hn. apply H1. apply upd_keys_NoDup. exact Hn.
          -- intros k Hk. destruct (H2 k Hk) as [Hx|Hx]; [|right; exact Hx].
             rewrite map_fst_upd in Hx. apply add_set_In in Hx. destruct Hx as [Hx|Hx]; [left; exact Hx|].
             subst k. right. unfold has. rewrite El. reflexivity.
        * apply IH in H. exact H.
      + injection H as <- <-. split; [intros Hn; exact Hn | intros k Hk; left; exact Hk].
  Qed.

  Lemma resolve_constants_keys cs consts : resolve_constants f cs = Ok consts ->
    NoDup (map fst consts) /\ forall k, In k (map fst consts) -> has cs k = true.
  Proof.
    unfold resolve_constants. intros H.
    destruct (toposort string String.eqb (const_graph cs)) as [[order|cyc]|es1]; cbn [bind] in H;
      [|unfold err1 in H; discriminate H | discriminate H].
    destruct (eval_consts f cs order [] []) as [vals errs] eqn:Ee.
    destruct errs as [|e0 errs]; [|discriminate H]. injection H as <-.
    apply eval_consts_keys in Ee. destruct Ee as [H1 H2]. split; [apply H1; constructor|].
    intros k Hk. destruct (H2 k Hk) as [[]|Hx]. exact Hx.
  Qed.

  Lemma resolve_constants_masked cs consts :
    (forall n e, lookup cs n = Some e -> wf_expr e) ->
    resolve_constants f cs = Ok consts -> forall n v, In (n, v) consts -> masked v.
  Proof.
    intros Hcs H n v Hin. destruct (resolve_constants_keys _ _ H) as [Hnd _].
    apply (In_lookup consts n v Hnd) in Hin.
    unfold resolve_constants in H.
    destruct (toposort string String.eqb (const_graph cs)) as [[order|cyc]|es1]; cbn [bind] in H;
      [|unfold err1 in H; discriminate H | discriminate H].
    destruct (eval_consts f cs order [] []) as [vals errs] eqn:Ee.
    destruct errs as [|e0 errs]; [|discriminate H]. injection H as <-.
    apply (eval_consts_masked f cs Hcs _ _ _ _ _ Ee) with (k := n); [|exact Hin].
    intros k v0 Hk. discriminate Hk.
  Qed.

  Lemma resolve_constants_fits cs consts :
    (forall n e, lookup cs n = Some e -> wf_expr e) ->
    resolve_constants f cs = Ok consts -> forall n v, In (n, v) consts -> fits v.
  Proof.
    intros Hcs H n v Hin. destruct (resolve_constants_keys _ _ H) as [Hnd _].
    apply (In_lookup consts n v Hnd) in Hin.
    unfold resolve_constants in H.
    destruct (toposort string String.eqb (const_graph cs)) as [[order|cyc]|es1]; cbn [bind] in H;
      [|unfold err1 in H; discriminate H | discriminate H].
    destruct (eval_consts f cs order [] []) as [vals errs] eqn:Ee.
    destruct errs as [|e0 errs]; [|discriminate H]. injection H as <-.
    apply (eval_consts_fits f cs Hcs _ _ _ _ _ Ee) with (k := n); [|exact Hin].
    intros k v0 Hk. discriminate Hk.
  Qed.

  (* the wires known before the cycle starts are written by nothing *)
  Lemma known_not_written stmts consts :
    s_errs (S1 stmts) = [] -> const_assigned_errors (S1 stmts) = [] ->
    resolve_constants f (s_consts (S1 stmts)) = Ok consts ->
    t_errs (T3 (S1 stmts) consts) = [] ->
    (forall o, In o (fixed_out_names fixed) ->
       bank_like o = false /\ sprefix "stall_" o = false /\ sprefix "bubble_" o = false) ->
    forall n, In n (all_out_names (t_banks (T3 (S1 stmts) consts)) ++
                    t_defaulted (T3 (S1 stmts) consts) ++ map fst consts) ->
      has (s_assigns (S1 stmts)) n = false /\ ~ In n (fixed_out_names fixed).
  Proof.
    intros He Hca Hrc Hte Hplain n Hn. apply in_app_iff in Hn. destruct Hn as [Hn|Hn].
    - change (In n (all_outs (t_banks (T3 (S1 stmts) consts)))) in Hn.
      apply sig_of_out in Hn. destruct Hn as [sg [Hsg <-]].
      destruct (T3_facts _ consts Hte) as [_ [F2 _]]. rewrite Forall_forall in F2.
      apply F2 in Hsg. destruct Hsg as [S1' [_ [_ [_ [S5 _]]]]]. split; [exact S1'|].
      intros Hin. apply Hplain in Hin. destruct Hin as [Hin _]. rewrite Hin in S5. discriminate S5.
    - apply in_app_iff in Hn. destruct Hn as [Hn|Hn].
      + destruct (T3_defaulted (S1 stmts) consts n Hn) as [H1 [b [Hb H2]]]. split; [exact H1|].
        destruct (T3_facts _ consts Hte) as [_ [_ F3]]. rewrite Forall_forall in F3.
        destruct (F3 b Hb) as [_ [[X [Hst Hbu]] _]].
        intros Hin. apply Hplain in Hin. destruct Hin as [_ [P2 P3]].
        destruct H2 as [->| ->].
        * rewrite Hst, sprefix_stall in P2. discriminate P2.
        * rewrite Hbu, sprefix_bubble in P3. discriminate P3.
      + destruct (resolve_constants_keys _ _ Hrc) as [_ Hk]. apply Hk in Hn.
        assert (Hc : In n (const_names stmts)) by (apply S1_consts_has; exact Hn).
        split.
        * destruct (has (s_assigns (S1 stmts)) n) eqn:Ea; [|reflexivity]. exfalso.
          apply S1_assigns_has in Ea. apply S1_assigned_In in Ea.
          rewrite (const_assigned_errors_nil _ Hca n Ea) in Hn. discriminate Hn.
        * intros Hin. apply fixed_out_in_names in Hin.
          destruct (S1_decls_fresh stmts He) as [_ Hf]. apply (Hf n); [|exact Hin].
          apply In_decl_names. left. exact Hc.
  Qed.

  Lemma known0_In p k :
    In k (known0 p) <-> In k (start_wires p) /\ forall a, In a (p_actions p) -> written a <> Some k.
  Proof.
    unfold known0. rewrite filter_In. split; intros [H1 H2]; (split; [exact H1|]).
    - intros a Ha Hw. apply negb_true_iff in H2.
      assert (Hex : existsb (fun a0 => match written a0 with Some w => String.eqb w k | None => false end)
                            (p_actions p) = true).
      { apply existsb_exists. exists a. split; [exact Ha|]. rewrite Hw. apply String.eqb_refl. }
      rewrite Hex in H2. discriminate H2.
    - apply negb_true_iff.
      destruct (existsb (fun a0 => match written a0 with Some w => String.eqb w k | None => false end)
                        (p_actions p)) eqn:Hex; [|reflexivity]. exfalso.
      apply existsb_exists in Hex. destruct Hex as [a [Ha Hw]].
      destruct (written a) as [w|] eqn:Ew; [|discriminate Hw].
      apply String.eqb_eq in Hw. subst w. apply (H2 a Ha). exact Ew.
  Qed.

  (* ---- 6 ---------------------------------------------------------------------------------- *)
  Lemma build_valid_schedule_sched :
    fixed_table_ok fixed = true -> fixed_sched_ok fixed = true ->
    forall stmts p, build stmts = Ok p -> valid_schedule (known0 p) (p_actions p) = true.
  Proof.
    intros Hok Hok2 stmts p Hb.
    destruct (fixed_sched_ok_inv fixed Hok2) as [Tins [Touts Tplain]].
    destruct (build_ok_inv stmts p Hb) as [He [Hca [Hcr [consts [Hrc [Hte [Hun [acts [Hacts Hp]]]]]]]]].
    set (s := S1 stmts) in *. set (t := T3 s consts) in *.
    set (A := s_assigns s) in *.
    set (known := all_out_names (t_banks t) ++ t_defaulted t ++ map fst consts) in *.
    destruct (a2a_inv _ _ _ _ _ _ Hacts) as [g [by_out [no_out [order [sacts [Hf [Ht [Hs Hacts']]]]]]]].
    assert (HA1 : NoDup (map fst A)) by apply S1_assigns_NoDup.
    assert (HA2 : forall n, has A n = true -> ~ In n (fixed_out_names fixed)).
    { intros n Hn. apply S1_assigns_has in Hn. destruct (S1_assigned_fresh stmts He) as [_ Hfr].
      apply Hfr. exact Hn. }
    assert (HK : forall n, In n known -> has A n = false /\ ~ In n (fixed_out_names fixed)).
    { apply (known_not_written stmts consts He Hca Hrc Hte).
      intros o Ho. apply fixed_out_in_names in Ho. apply Tplain in Ho. exact Ho. }
    destruct (assign_graph_facts A known HA1) as [G1 [G2 G3]].
    destruct (preprocess_shape _ _ _ _ _ _ _ _ _ Hf) as [Hby [extra [Hno [Hsub Hex]]]].
    cbn [app] in Hno. subst no_out.
    assert (Hby' : forall n ff, lookup by_out n = Some ff ->
                     In ff fixed /\ (exists w, ff_out ff = Some (n, w)) /\
                     forall i, In i (fixed_in_names ff) -> has A i = true).
    { intros n ff Hl. destruct (Hby n ff Hl) as [Hx|Hx]; [discriminate Hx | exact Hx]. }
    assert (Hnoe : forall o, In o (fixed_out_names fixed) -> forall x, ~ gedge (assign_graph A known) x o).
    { intros o Ho x Hxo. apply G2 in Hxo. destruct Hxo as [e [Hoe _]].
      apply (HA2 o); [|exact Ho]. apply has_In. apply (in_map fst) in Hoe. exact Hoe. }
    destruct (preprocess_graph _ _ _ _ _ _ _ _ _ G1 Touts Tins Hnoe Hf) as [P1 [P2 [P3 P4]]].
    assert (Hbyedge : forall n ff, lookup by_out n = Some ff ->
                        forall i, In i (fixed_in_names ff) -> gedge g i n).
    { intros n ff Hl. destruct (P4 n ff Hl) as [Hx|Hx]; [discriminate Hx | exact Hx]. }
    destruct (order_valid string String.eqb String.eqb_eq g order P1 Ht) as [L1 [L2 L3]].
    destruct (schedule_ok _ _ _ _ _ _ _ _ _ _ Hs) as [_ [_ [new [Hn HF]]]]. cbn [app] in Hn. subst sacts.
    assert (Hpa : p_actions p = new ++ map ff_action extra) by (rewrite Hp; cbn [p_actions]; exact Hacts').
    assert (Hby2 : forall n ff, lookup by_out n = Some ff -> In ff fixed /\ exists w, ff_out ff = Some (n, w)).
    { intros n ff Hl. destruct (Hby' n ff Hl) as [Hx [Hy _]]. split; assumption. }
    (* who writes what *)
    assert (Hwr : forall a m, In a (p_actions p) -> written a = Some m ->
                    has A m = true \/ In m (fixed_out_names fixed)).
    { intros a m Ha Hw. rewrite Hpa in Ha. apply in_app_iff in Ha. destruct Ha as [Ha|Ha].
      - destruct (Forall2_In_r _ _ _ _ HF Ha) as [n [_ Hem]].
        destruct (emitted_pure _ _ _ _ _ _ Hok Hby2 Hem) as [_ Hwn]. rewrite Hwn in Hw. injection Hw as <-.
        destruct Hem as [[e [w [we [Hl _]]]]|[_ [ff [Hl _]]]].
        + left. apply has_lookup. exists e. exact Hl.
        + right. destruct (Hby2 n ff Hl) as [Hin [w Ho]]. apply (In_fixed_out_names fixed ff n w Hin Ho).
      - apply in_map_iff in Ha. destruct Ha as [ff [<- Hff]].
        destruct (Hex ff Hff) as [Hin [Ho _]].
        destruct (fixed_fn_ok_noout ff (fixed_ok_In ff Hok Hin) Ho) as [Heff _].
        rewrite (effect_written _ Heff) in Hw. discriminate Hw. }
    assert (HK0 : forall n, In n known -> In n (known0 p)).
    { intros n Hn. apply known0_In. split.
      - unfold start_wires. rewrite Hp. cbn [p_consts p_banks]. unfold known in Hn.
        apply in_app_iff in Hn. destruct Hn as [Hn|Hn].
        + apply in_or_app. right. apply in_or_app. left. exact Hn.
        + apply in_app_iff in Hn. destruct Hn as [Hn|Hn].
          * destruct (T3_defaulted s consts n Hn) as [_ [b0 [Hb0 H2]]].
            apply in_or_app. right. apply in_or_app. right. apply in_or_app. right.
            apply in_flat_map. exists b0. split; [exact Hb0|]. cbn [In]. destruct H2 as [->| ->]; auto.
          * apply in_or_app. left. exact Hn.
      - intros a Ha Hw. destruct (HK n Hn) as [Hk1 Hk2].
        destruct (Hwr a n Ha Hw) as [Hx|Hx]; [rewrite Hx in Hk1; discriminate Hk1 | exact (Hk2 Hx)]. }
    rewrite Hpa.
    assert (HW : forall n a, emitted (widths_of s t consts) consts A by_out n a -> written a = Some n).
    { intros n a Hem. apply (emitted_pure _ _ _ _ _ _ Hok Hby2 Hem). }
    apply (vs_pure _ HW order new HF).
    - exact L1.
    - intros n Hn Hk. apply known0_In in Hk. destruct Hk as [_ Hk].
      destruct (Forall2_In_l _ _ _ _ HF Hn) as [a [Ha Hem]].
      apply (Hk a); [rewrite Hpa; apply in_or_app; left; exact Ha|].
      apply (emitted_pure _ _ _ _ _ _ Hok Hby2 Hem).
    - intros n a r Hn Hem Hr.
      destruct Hem as [[e [w [we [Hl [_ [_ [_ ->]]]]]]]|[_ [ff [Hl ->]]]].
      + cbn [reads] in Hr. destruct (mem_str r known) eqn:Ek.
        * left. apply HK0. apply mem_str_In. exact Ek.
        * right. apply L3. apply P2. apply G2. exists e. split; [apply lookup_In; exact Hl|].
          split; [exact Hr | exact Ek].
      + right. apply L3. apply (Hbyedge n ff Hl).
        destruct (Hby2 n ff Hl) as [Hin [w Ho]].
        destruct (fixed_fn_ok_out ff n w (fixed_ok_In ff Hok Hin) Ho) as [_ [_ Hrd]]. apply Hrd. exact Hr.
    - intros b Hb'. apply in_map_iff in Hb'. destruct Hb' as [ff [<- Hff]].
      destruct (Hex ff Hff) as [Hin [Ho Hall]].
      destruct (fixed_fn_ok_noout ff (fixed_ok_In ff Hok Hin) Ho) as [Heff Hrd].
      split; [exact Heff|]. intros r Hr. right. apply L2. apply P3. apply G3.
      apply has_In. apply Hall. apply Hrd. exact Hr.
  Qed.

  (* ================================================================================ *)
  (* Part G: typing of the accepted program                                            *)
  (* ================================================================================ *)
  Definition cwidths (consts : list (string * wval)) : list (string * width) :=
    map (fun nv => (fst nv, wd (snd nv))) consts.

  Definition all_widths (stmts : list stmt) (banks : list bank) (consts : list (string * wval))
    : list (string * width) :=
    fixed_wires fixed ++ flat_map wpairs stmts ++ bank_wires banks ++ cwidths consts.

  Lemma fold_left_map2 {A B C} (g : A -> B -> A) (h : C -> B) (l : list C) : forall a,
    fold_left g (map h l) a = fold_left (fun a x => g a (h x)) l a.
  Proof. induction l as [|x l IH]; intros a; cbn [map fold_left]; [reflexivity | apply IH]. Qed.

  Lemma widths_of_eq stmts t consts :
    widths_of (S1 stmts) t consts = fold_left updp (all_widths stmts (t_banks t) consts) [].
  Proof.
    unfold widths_of, all_widths, cwidths. rewrite S1_wires, !fold_left_app, fold_left_map2. reflexivity.
  Qed.

  Lemma In_cwidths consts x w : In (x, w) (cwidths consts) <-> exists v, In (x, v) consts /\ w = wd v.
  Proof.
    unfold cwidths. rewrite in_map_iff. split.
    - intros [[n v] [H1 H2]]. cbn [fst snd] in H1. injection H1 as <- <-.
      exists v. split; [exact H2 | reflexivity].
    - intros [v [H1 ->]]. exists (x, v). split; [reflexivity | exact H1].
  Qed.

  Lemma In_bank_wires banks x w :
    In (x, w) (bank_wires banks) <->
    (exists sg, In sg (sigs_of banks) /\ In x (sig_names sg) /\ w = snd sg) \/
    (exists b, In b banks /\ (x = b_stall b \/ x = b_bubble b) /\ w = Bits 1).
  Proof.
    unfold bank_wires, sigs_of. rewrite in_flat_map. split.
    - intros [b [Hb Hin]]. apply in_app_iff in Hin. destruct Hin as [Hin|Hin].
      + left. apply in_flat_map in Hin. destruct Hin as [[[i o] w0] [Hsg Hin]].
        exists (i, o, w0). split; [apply in_flat_map; exists b; split; assumption|].
        cbn [In] in Hin. unfold sig_names, sg_out, sg_in. cbn [fst snd In].
        destruct Hin as [Hin|[Hin|[]]]; injection Hin as <- <-; split; auto.
      + right. exists b. split; [exact Hb|]. cbn [In] in Hin.
        destruct Hin as [Hin|[Hin|[]]]; injection Hin as <- <-; split; auto.
    - intros [[sg [Hsg [Hx ->]]]|[b [Hb [Hx ->]]]].
      + apply in_flat_map in Hsg. destruct Hsg as [b [Hb Hsg]]. exists b. split; [exact Hb|].
        apply in_or_app. left. apply in_flat_map. exists sg. split; [exact Hsg|].
        destruct sg as [[i o] w0]. unfold sig_names, sg_out, sg_in in Hx. cbn [fst snd In] in Hx |- *.
        destruct Hx as [<-|[<-|[]]]; auto.
      + exists b. split; [exact Hb|]. apply in_or_app. right. cbn [In].
        destruct Hx as [->| ->]; auto.
  Qed.

  Lemma flat_map_NoDup_unique {A} (h : A -> list string) (l : list A) a b x :
    NoDup (flat_map h l) -> In a l -> In b l -> In x (h a) -> In x (h b) -> a = b.
  Proof.
    induction l as [|c l IH]; cbn [flat_map]; intros Hn Ha Hb Hxa Hxb; [contradiction|].
    apply NoDup_app_inv in Hn. destruct Hn as [N1 [N2 N3]].
    destruct Ha as [<-|Ha], Hb as [<-|Hb].
    - reflexivity.
    - exfalso. apply (N3 x Hxa). apply in_flat_map. exists b. split; assumption.
    - exfalso. apply (N3 x Hxb). apply in_flat_map. exists a. split; assumption.
    - apply IH; assumption.
  Qed.

  Lemma fold_snoc {A} (l : list A) : forall m, fold_left (fun (m : list A) b => m ++ [b]) l m = m ++ l.
  Proof.
    induction l as [|b l IH]; intros m; cbn [fold_left]; [rewrite app_nil_r; reflexivity|].
    rewrite IH, <- app_assoc. reflexivity.
  Qed.

  (* -- what the grammar guarantees, found again in the bookkeeping -- *)
  Lemma wf_assign stmts n e : Forall wf_stmt stmts -> lookup (s_assigns (S1 stmts)) n = Some e -> wf_expr e.
  Proof.
    intros Hwf Hl. rewrite S1_assigns in Hl. apply fold_upd_lookup_some in Hl.
    destruct Hl as [Hl|Hl]; [discriminate Hl|].
    apply in_flat_map in Hl. destruct Hl as [x [Hx Hl]]. rewrite Forall_forall in Hwf. apply Hwf in Hx.
    destruct x as [d|d|a|bn regs]; cbn [apairs] in Hl; try contradiction.
    unfold apairs_of in Hl. apply in_flat_map in Hl. destruct Hl as [[names e0] [Ha Hl]].
    cbn [fst snd] in Hl. apply in_map_iff in Hl. destruct Hl as [n0 [Hn0 _]]. injection Hn0 as _ <-.
    cbn [wf_stmt] in Hx. rewrite Forall_forall in Hx. apply (Hx (names, e0) Ha).
  Qed.

  Lemma wf_wire stmts n w : Forall wf_stmt stmts -> In (n, w) (flat_map wpairs stmts) -> wf_width w.
  Proof.
    intros Hwf Hl. apply in_flat_map in Hl. destruct Hl as [x [Hx Hl]].
    rewrite Forall_forall in Hwf. apply Hwf in Hx.
    destruct x as [d|d|a|bn regs]; cbn [wpairs] in Hl; try contradiction.
    cbn [wf_stmt] in Hx. rewrite Forall_forall in Hx. apply (Hx (n, w) Hl).
  Qed.

  Lemma wf_bank stmts bn regs rn w d : Forall wf_stmt stmts ->
    In (bn, regs) (s_banks (S1 stmts)) -> In (rn, w, d) regs -> wf_width w /\ wf_expr d.
  Proof.
    intros Hwf Hb Hr. rewrite S1_banks, fold_snoc in Hb. cbn [app] in Hb.
    apply in_flat_map in Hb. destruct Hb as [x [Hx Hb]]. rewrite Forall_forall in Hwf. apply Hwf in Hx.
    destruct x as [d0|d0|a|bn0 regs0]; cbn [bpairs In] in Hb; try contradiction.
    destruct Hb as [Hb|[]]. injection Hb as -> ->.
    cbn [wf_stmt] in Hx. rewrite Forall_forall in Hx. apply (Hx (rn, w, d) Hr).
  Qed.

  Lemma wf_const stmts n e : Forall wf_stmt stmts -> In (n, e) (const_exprs stmts) -> wf_expr e.
  Proof.
    intros Hwf Hl. unfold const_exprs in Hl. apply in_flat_map in Hl. destruct Hl as [x [Hx Hl]].
    rewrite Forall_forall in Hwf. apply Hwf in Hx.
    destruct x as [d|d|a|bn regs]; try contradiction.
    cbn [wf_stmt] in Hx. rewrite Forall_forall in Hx. apply (Hx (n, e) Hl).
  Qed.

  Lemma In_fixed_wires n w : In (n, w) (fixed_wires fixed) ->
    exists ff w0, In ff fixed /\ w = Bits w0 /\ (In (n, w0) (ff_ins ff) \/ ff_out ff = Some (n, w0)).
  Proof.
    unfold fixed_wires. intros H. apply in_flat_map in H. destruct H as [ff [Hff H]].
    apply in_app_iff in H. destruct H as [H|H].
    - apply in_map_iff in H. destruct H as [[n0 w0] [H1 H2]]. cbn [fst snd] in H1. injection H1 as <- <-.
      exists ff, w0. split; [exact Hff|]. split; [reflexivity | left; exact H2].
    - destruct (ff_out ff) as [[n0 w0]|] eqn:Eo; [|contradiction]. destruct H as [H|[]].
      injection H as <- <-. exists ff, w0. split; [exact Hff|]. split; [reflexivity | right; exact Eo].
  Qed.

  Section Typing.
    Variable stmts : list stmt.
    Variable consts : list (string * wval).
    Hypothesis Hsok : fixed_sched_ok fixed = true.
    Hypothesis Htok : fixed_typed_ok fixed = true.
    Hypothesis Hwok : fixed_widths_ok fixed.
    Hypothesis Hwf : Forall wf_stmt stmts.
    Hypothesis He : s_errs (S1 stmts) = [].
    Hypothesis Hca : const_assigned_errors (S1 stmts) = [].
    Hypothesis Hrc : resolve_constants f (s_consts (S1 stmts)) = Ok consts.
    Hypothesis Hte : t_errs (T3 (S1 stmts) consts) = [].
    Hypothesis Hcw : forall n v, In (n, v) consts -> wf_width (wd v).

    Notation sS := (S1 stmts).
    Notation bB := (t_banks (T3 (S1 stmts) consts)).
    Notation WW := (widths_of (S1 stmts) (T3 (S1 stmts) consts) consts).

    Lemma cls_const x : In x (map fst consts) -> In x (const_names stmts).
    Proof.
      intros Hx. destruct (resolve_constants_keys _ _ Hrc) as [_ Hk]. apply Hk in Hx.
      apply S1_consts_has. exact Hx.
    Qed.

    Lemma cls_bank_notdecl x w : In (x, w) (bank_wires bB) -> ~ In x (s_decls sS).
    Proof.
      intros Hx. destruct (T3_facts _ consts Hte) as [_ [F2 F3]]. rewrite Forall_forall in F2, F3.
      apply In_bank_wires in Hx. destruct Hx as [[sg [Hsg [Hx _]]]|[b [Hb [Hx _]]]].
      - apply F2 in Hsg. destruct Hsg as [_ [S2 [S3 _]]].
        unfold sig_names in Hx. cbn [In] in Hx. destruct Hx as [<-|[<-|[]]]; assumption.
      - apply F3 in Hb. destruct Hb as [_ [_ [B1 B2]]]. destruct Hx as [->| ->]; assumption.
    Qed.

    Lemma cls_bank_notfixed x w : In (x, w) (bank_wires bB) -> ~ In x (fixed_names fixed).
    Proof.
      intros Hx Hfx. destruct (fixed_sched_ok_inv fixed Hsok) as [_ [_ Tplain]].
      destruct (Tplain x Hfx) as [P1 [P2 P3]].
      destruct (T3_facts _ consts Hte) as [_ [F2 F3]]. rewrite Forall_forall in F2, F3.
      apply In_bank_wires in Hx. destruct Hx as [[sg [Hsg [Hx _]]]|[b [Hb [Hx _]]]].
      - apply F2 in Hsg. destruct Hsg as [_ [_ [_ [S4 [S5 _]]]]].
        unfold sig_names in Hx. cbn [In] in Hx.
        destruct Hx as [<-|[<-|[]]]; [rewrite P1 in S5; discriminate S5 | rewrite P1 in S4; discriminate S4].
      - apply F3 in Hb. destruct Hb as [_ [[X [Hst Hbu]] _]]. destruct Hx as [->| ->].
        + rewrite Hst, sprefix_stall in P2. discriminate P2.
        + rewrite Hbu, sprefix_bubble in P3. discriminate P3.
    Qed.

    Lemma cls_decl_notfixed x : In x (s_decls sS) -> ~ In x (fixed_names fixed).
    Proof.
      intros Hx. destruct (S1_decls_fresh stmts He) as [_ Hf]. apply Hf.
      apply In_decl_names. apply S1_decls_In. exact Hx.
    Qed.

    Lemma cls_const_decl x : In x (map fst consts) -> In x (s_decls sS).
    Proof. intros Hx. apply S1_decls_In. left. apply cls_const. exact Hx. Qed.

    Lemma cls_wire_decl x w : In (x, w) (flat_map wpairs stmts) -> In x (s_decls sS).
    Proof.
      intros Hx. apply S1_decls_In. right. rewrite <- wpairs_names. apply (in_map fst) in Hx. exact Hx.
    Qed.

    Lemma cls_wire_notconst x w : In (x, w) (flat_map wpairs stmts) -> ~ In x (map fst consts).
    Proof.
      intros Hx Hc. apply cls_const in Hc.
      destruct (S1_decls_fresh stmts He) as [Hnd _].
      apply (Permutation_NoDup (decl_names_perm stmts)) in Hnd.
      apply NoDup_app_inv in Hnd. destruct Hnd as [_ [_ Hd]]. apply (Hd x Hc).
      rewrite <- wpairs_names. apply (in_map fst) in Hx. exact Hx.
    Qed.

    (* agreement inside a class *)
    Lemma agree_fixed x w w' : In (x, w) (fixed_wires fixed) -> In (x, w') (fixed_wires fixed) -> w' = w.
    Proof.
      intros H1 H2. unfold fixed_typed_ok in Htok. apply andb_true_iff in Htok. destruct Htok as [Hc _].
      rewrite forallb_forall in Hc. apply Hc in H1. apply Hc in H2. cbn [fst snd] in H1, H2.
      apply weqb_eq in H1. apply weqb_eq in H2. rewrite H1 in H2. injection H2 as ->. reflexivity.
    Qed.

    Lemma agree_bank x w w' : In (x, w) (bank_wires bB) -> In (x, w') (bank_wires bB) -> w' = w.
    Proof.
      intros H1 H2. destruct (T3_facts _ consts Hte) as [F1 [F2 F3]]. rewrite Forall_forall in F2, F3.
      assert (Hlike : forall sg, In sg (sigs_of bB) -> In x (sig_names sg) -> bank_like x = true).
      { intros sg Hsg Hx. apply F2 in Hsg. destruct Hsg as [_ [_ [_ [S4 [S5 _]]]]].
        unfold sig_names in Hx. cbn [In] in Hx. destruct Hx as [<-|[<-|[]]]; assumption. }
      assert (Hunlike : forall b, In b bB -> x = b_stall b \/ x = b_bubble b -> bank_like x = false).
      { intros b Hb Hx. apply F3 in Hb. destruct Hb as [_ [[X [Hst Hbu]] _]].
        destruct Hx as [->| ->]; [rewrite Hst; apply bank_like_stall | rewrite Hbu; apply bank_like_bubble]. }
      apply In_bank_wires in H1. apply In_bank_wires in H2.
      destruct H1 as [[sg [Hsg [Hx ->]]]|[b [Hb [Hx ->]]]], H2 as [[sg' [Hsg' [Hx' ->]]]|[b' [Hb' [Hx' ->]]]].
      - rewrite (flat_map_NoDup_unique sig_names (sigs_of bB) sg sg' x F1 Hsg Hsg' Hx Hx'). reflexivity.
      - pose proof (Hlike sg Hsg Hx) as E1. pose proof (Hunlike b' Hb' Hx') as E2.
        rewrite E1 in E2. discriminate E2.
      - pose proof (Hlike sg' Hsg' Hx') as E1. pose proof (Hunlike b Hb Hx) as E2.
        rewrite E1 in E2. discriminate E2.
      - reflexivity.
    Qed.

    Lemma agree_const x v w' : In (x, v) consts -> In (x, w') (cwidths consts) -> w' = wd v.
    Proof.
      intros H1 H2. apply In_cwidths in H2. destruct H2 as [v' [H2 ->]].
      destruct (resolve_constants_keys _ _ Hrc) as [Hnd _].
      rewrite (NoDup_fst_fun consts x v v' Hnd H1 H2). reflexivity.
    Qed.

    Lemma W_lookup x w : In (x, w) (all_widths stmts bB consts) ->
      (forall w', In (x, w') (all_widths stmts bB consts) -> w' = w) -> lookup WW x = Some w.
    Proof.
      intros Hin Hag. rewrite widths_of_eq. apply fold_upd_lookup_agree; [exact Hag | right; exact Hin].
    Qed.

    Lemma G_fixed x w : In (x, w) (fixed_wires fixed) -> lookup WW x = Some w.
    Proof.
      intros Hin. assert (Hx : In x (fixed_names fixed)) by (apply (in_map fst) in Hin; exact Hin).
      apply W_lookup; [unfold all_widths; apply in_or_app; left; exact Hin|].
      intros w' Hw'. unfold all_widths in Hw'. rewrite !in_app_iff in Hw'.
      destruct Hw' as [Hw'|[Hw'|[Hw'|Hw']]].
      - apply (agree_fixed x w w' Hin Hw').
      - exfalso. apply (cls_decl_notfixed x); [apply (cls_wire_decl x w' Hw') | exact Hx].
      - exfalso. apply (cls_bank_notfixed x w' Hw' Hx).
      - exfalso. apply (cls_decl_notfixed x); [|exact Hx].
        apply cls_const_decl. apply (in_map fst) in Hw'. unfold cwidths in Hw'. rewrite map_map in Hw'.
        cbn [fst] in Hw'. exact Hw'.
    Qed.

    Lemma G_bank x w : In (x, w) (bank_wires bB) -> lookup WW x = Some w.
    Proof.
      intros Hin.
      apply W_lookup; [unfold all_widths; apply in_or_app; right; apply in_or_app; right;
                       apply in_or_app; left; exact Hin|].
      intros w' Hw'. unfold all_widths in Hw'. rewrite !in_app_iff in Hw'.
      destruct Hw' as [Hw'|[Hw'|[Hw'|Hw']]].
      - exfalso. apply (cls_bank_notfixed x w Hin). apply (in_map fst) in Hw'. exact Hw'.
      - exfalso. apply (cls_bank_notdecl x w Hin). apply (cls_wire_decl x w' Hw').
      - apply (agree_bank x w w' Hin Hw').
      - exfalso. apply (cls_bank_notdecl x w Hin). apply cls_const_decl.
        apply (in_map fst) in Hw'. unfold cwidths in Hw'. rewrite map_map in Hw'. cbn [fst] in Hw'. exact Hw'.
    Qed.

    Lemma G_const x v : In (x, v) consts -> lookup WW x = Some (wd v).
    Proof.
      intros Hin. assert (Hx : In x (map fst consts)) by (apply (in_map fst) in Hin; exact Hin).
      apply W_lookup.
      { unfold all_widths. apply in_or_app; right. apply in_or_app; right. apply in_or_app; right.
        apply In_cwidths. exists v. split; [exact Hin | reflexivity]. }
      intros w' Hw'. unfold all_widths in Hw'. rewrite !in_app_iff in Hw'.
      destruct Hw' as [Hw'|[Hw'|[Hw'|Hw']]].
      - exfalso. apply (cls_decl_notfixed x (cls_const_decl x Hx)). apply (in_map fst) in Hw'. exact Hw'.
      - exfalso. apply (cls_wire_notconst x w' Hw' Hx).
      - exfalso. apply (cls_bank_notdecl x w' Hw'). apply cls_const_decl. exact Hx.
      - apply (agree_const x v w' Hin Hw').
    Qed.

    Lemma W_wf x w : lookup WW x = Some w -> wf_width w.
    Proof.
      intros Hl. rewrite widths_of_eq in Hl. apply fold_upd_lookup_some in Hl.
      destruct Hl as [Hl|Hl]; [discriminate Hl|].
      unfold all_widths in Hl. rewrite !in_app_iff in Hl. destruct Hl as [Hl|[Hl|[Hl|Hl]]].
      - apply In_fixed_wires in Hl. destruct Hl as [ff [w0 [Hff [-> Hw0]]]]. cbn [wf_width].
        apply (Hwok ff x w0 Hff Hw0).
      - apply (wf_wire stmts x w Hwf Hl).
      - apply In_bank_wires in Hl. destruct Hl as [[sg [Hsg [_ ->]]]|[b [_ [_ ->]]]].
        + destruct (T3_facts _ consts Hte) as [_ [F2 _]]. rewrite Forall_forall in F2.
          apply F2 in Hsg. destruct Hsg as [_ [_ [_ [_ [_ [bn [regs [rn [d [Hb Hr]]]]]]]]]].
          apply (wf_bank stmts bn regs rn (snd sg) d Hwf Hb Hr).
        + cbn [wf_width]. lia.
      - apply In_cwidths in Hl. destruct Hl as [v [Hv ->]]. apply (Hcw x v Hv).
    Qed.
    (* ---- assembling program_ok ---------------------------------------------------------------- *)
    Lemma actions_shape widths consts0 assigns known decls acts0 :
      assignments_to_actions f fixed widths consts0 assigns known decls = Ok acts0 ->
      forall a, In a acts0 ->
        (exists n e w we, lookup assigns n = Some e /\ lookup widths n = Some w /\
           check f (lookup widths) (lookup consts0) e = Ok we /\ wcombine w we <> None /\
           a = AAssign n e w) \/
        (exists ff, In ff fixed /\ a = ff_action ff).
    Proof.
      intros Ha a Hin.
      destruct (a2a_inv _ _ _ _ _ _ Ha) as [g [by_out [no_out [order [sacts [Hf [Ht [Hs ->]]]]]]]].
      destruct (preprocess_shape _ _ _ _ _ _ _ _ _ Hf) as [Hby [extra [Hno [_ Hex]]]].
      cbn [app] in Hno. subst no_out.
      destruct (schedule_ok _ _ _ _ _ _ _ _ _ _ Hs) as [_ [_ [new [Hn HF]]]]. cbn [app] in Hn. subst sacts.
      apply in_app_iff in Hin. destruct Hin as [Hin|Hin].
      - destruct (Forall2_In_r _ _ _ _ HF Hin) as [n [_ [[e [w [we Hem]]]|[_ [ff [Hl ->]]]]]].
        + left. exists n, e, w, we. exact Hem.
        + right. exists ff. split; [|reflexivity].
          destruct (Hby n ff Hl) as [Hx|[Hx _]]; [discriminate Hx | exact Hx].
      - right. apply in_map_iff in Hin. destruct Hin as [ff [<- Hff]].
        exists ff. split; [apply (Hex ff Hff) | reflexivity].
    Qed.

    Lemma fixed_action_typed_ok (G : string -> option width) p a :
      fixed_action_typed fixed a = true ->
      (forall x w, lookup (fixed_wires fixed) x = Some w -> G x = Some w) ->
      action_typed f G p a.
    Proof.
      intros H HG.
      assert (HW : forall x w, weqb (lookup (fixed_wires fixed) x) w = true -> G x = Some w).
      { intros x w Hx. apply weqb_eq in Hx. apply HG. exact Hx. }
      destruct a as [n e w|num outp|en addr outp nb ins|num inp|en addr inp nb|w];
        cbn [fixed_action_typed action_typed] in *.
      - discriminate H.
      - apply andb_true_iff in H. destruct H as [H1 H2]. split; apply HW; assumption.
      - apply andb_true_iff in H. destruct H as [H H4]. apply andb_true_iff in H. destruct H as [H H3].
        apply andb_true_iff in H. destruct H as [H1 H2].
        split; [apply HW; exact H1|]. split; [apply HW; exact H2|]. split; [apply N.leb_le; exact H3|].
        intros w0 ->. apply HW. exact H4.
      - apply andb_true_iff in H. destruct H as [H1 H2]. split; apply HW; assumption.
      - apply andb_true_iff in H. destruct H as [H H4]. apply andb_true_iff in H. destruct H as [H H3].
        apply andb_true_iff in H. destruct H as [H1 H2].
        split; [apply HW; exact H1|]. split; [apply HW; exact H2|]. split; [apply N.leb_le; exact H3|].
        intros w0 ->. apply HW. exact H4.
      - apply HW. exact H.
    Qed.

    Lemma consts_fit n v : In (n, v) consts -> fits v.
    Proof.
      intros Hin. split; [|apply (Hcw n v Hin)].
      apply (resolve_constants_masked (s_consts sS) consts) with (n := n); [|exact Hrc | exact Hin | apply (Hcw n v Hin)].
      intros n0 e Hl. rewrite S1_consts in Hl. apply fold_upd_lookup_some in Hl.
      destruct Hl as [Hl|Hl]; [discriminate Hl|]. apply (wf_const stmts n0 e Hwf Hl).
    Qed.

    Hypothesis Hok : fixed_table_ok fixed = true.
    Variable acts : list action.
    Hypothesis Hacts : assignments_to_actions f fixed WW consts (s_assigns sS)
                         (all_out_names bB ++ t_defaulted (T3 (S1 stmts) consts) ++ map fst consts)
                         (s_decls sS) = Ok acts.
    Notation tT := (T3 (S1 stmts) consts).
    Notation pP := (mkProgram consts acts bB (t_defaulted tT) (t_types tT)).

    Lemma typing_core : valid_schedule (known0 pP) (p_actions pP) = true -> program_ok f (lookup WW) pP.
    Proof.
      intros Hvs. unfold program_ok. cbn [p_actions p_banks p_consts].
      destruct (T3_facts _ consts Hte) as [F1 [F2 F3]]. rewrite Forall_forall in F2, F3.
      split; [|split; [exact Hvs|split; [apply T3_banks_wf; exact Hte|split; [|split; [|split; [|split]]]]]].
      - intros a Ha.
        destruct (actions_shape _ _ _ _ _ _ Hacts a Ha)
          as [[n [e [w [we [H1 [H2 [H3 [H4 ->]]]]]]]]|[ff [Hff ->]]].
        + cbn [action_typed]. split; [exact H2|]. split; [apply (W_wf n w H2)|].
          split; [apply (wf_assign stmts n e Hwf H1)|]. exists we. split; [exact H3 | exact H4].
        + apply fixed_action_typed_ok.
          * pose proof Htok as Ht1. unfold fixed_typed_ok in Ht1. apply andb_true_iff in Ht1.
            destruct Ht1 as [_ Ht2]. rewrite forallb_forall in Ht2. apply Ht2. exact Hff.
          * intros x w Hx. apply G_fixed. apply lookup_In. exact Hx.
      - intros n v Hin. split; [apply G_const; exact Hin | apply (consts_fit n v Hin)].
      - apply (resolve_constants_keys _ _ Hrc).
      - intros b i o w Hb Hsg.
        assert (Hsgs : In (i, o, w) (sigs_of bB)) by (apply in_flat_map; exists b; split; assumption).
        assert (Hw : wf_width w).
        { destruct (F2 _ Hsgs) as [_ [_ [_ [_ [_ [bn [regs [rn [d [Hbn Hr]]]]]]]]]]. cbn [snd] in Hr.
          apply (wf_bank stmts bn regs rn w d Hwf Hbn Hr). }
        split.
        { apply G_bank. apply In_bank_wires. left. exists (i, o, w). split; [exact Hsgs|].
          split; [right; left; reflexivity | reflexivity]. }
        split.
        { apply G_bank. apply In_bank_wires. left. exists (i, o, w). split; [exact Hsgs|].
          split; [left; reflexivity | reflexivity]. }
        split; [exact Hw|].
        destruct (F3 b Hb) as [[_ [_ D3]] _]. destruct (D3 _ Hsg) as [v Hv]. cbn [sg_out fst snd] in Hv.
        exists (as_width w v). split; [exact Hv|]. split; [reflexivity|].
        split; [cbn [as_width bits wd]; apply (land_mask_lt _ w Hw) | exact Hw].
      - intros b Hb. split; apply G_bank; apply In_bank_wires; right; exists b; (split; [exact Hb|]);
          split; auto.
      - intros n Hn. apply cls_const_decl in Hn. split; [|split].
        + intros Ho. apply sig_of_out in Ho. destruct Ho as [sg [Hsg <-]].
          destruct (F2 _ Hsg) as [_ [_ [S3 _]]]. exact (S3 Hn).
        + intros Hi. apply sig_of_in in Hi. destruct Hi as [sg [Hsg <-]].
          destruct (F2 _ Hsg) as [_ [S2 _]]. exact (S2 Hn).
        + intros b Hb. destruct (F3 b Hb) as [_ [_ [B1 B2]]].
          split; intros ->; [exact (B1 Hn) | exact (B2 Hn)].
    Qed.
  End Typing.

  (* ---- 6 and 9 under the extra table conditions --------------------------------------------- *)
  Theorem build_valid_schedule_partial :
    fixed_table_ok fixed = true -> fixed_table_ok2 fixed = true ->
    forall stmts p, build stmts = Ok p -> valid_schedule (known0 p) (p_actions p) = true.
  Proof.
    intros Hok Hok2. unfold fixed_table_ok2 in Hok2. apply andb_true_iff in Hok2. destruct Hok2 as [Hsok _].
    apply build_valid_schedule_sched; assumption.
  Qed.

  Theorem accept_program_ok_partial :
    fixed_table_ok fixed = true -> fixed_table_ok2 fixed = true -> fixed_widths_ok fixed ->
    forall stmts p, Forall wf_stmt stmts -> build stmts = Ok p ->
      (forall n v, In (n, v) (p_consts p) -> wf_width (wd v)) ->
      exists G, program_ok f G p.
  Proof.
    intros Hok Hok2 Hwok stmts p Hwf Hb Hcw.
    pose proof Hok2 as Hok2'. unfold fixed_table_ok2 in Hok2'. apply andb_true_iff in Hok2'.
    destruct Hok2' as [Hsok Htok].
    pose proof (build_valid_schedule_sched Hok Hsok stmts p Hb) as Hvs.
    destruct (build_ok_inv stmts p Hb) as [He [Hca [Hcr [consts [Hrc [Hte [Hun [acts [Hacts Hp]]]]]]]]].
    subst p. cbn [p_consts] in Hcw.
    exists (lookup (widths_of (S1 stmts) (T3 (S1 stmts) consts) consts)).
    apply typing_core; assumption.
  Qed.

  (* ---- 9 without any premise about constants: they are width-checked by eval_consts ------- *)
  Lemma built_consts_fit stmts p :
    Forall wf_stmt stmts -> build stmts = Ok p -> forall n v, In (n, v) (p_consts p) -> fits v.
  Proof.
    intros Hwf Hb n v Hin.
    destruct (build_ok_inv stmts p Hb) as [He [Hca [Hcr [consts [Hrc [Hte [Hun [acts [Hacts Hp]]]]]]]]].
    subst p. cbn [p_consts] in Hin.
    apply (resolve_constants_fits (s_consts (S1 stmts)) consts) with (n := n); [|exact Hrc | exact Hin].
    intros n0 e Hl. rewrite S1_consts in Hl. apply fold_upd_lookup_some in Hl.
    destruct Hl as [Hl|Hl]; [discriminate Hl|]. apply (wf_const stmts n0 e Hwf Hl).
  Qed.

  Theorem accept_program_ok_strong :
    fixed_table_ok fixed = true -> fixed_table_ok2 fixed = true -> fixed_widths_ok fixed ->
    forall stmts p, Forall wf_stmt stmts -> build stmts = Ok p -> exists G, program_ok f G p.
  Proof.
    intros Hok Hok2 Hwok stmts p Hwf Hb.
    apply (accept_program_ok_partial Hok Hok2 Hwok stmts p Hwf Hb).
    intros n v Hin. apply (built_consts_fit stmts p Hwf Hb n v Hin).
  Qed.
End BuildProofs.

(* ================================================================================== *)
(* Part H: the real table, and the statements that are false as written                *)
(* ================================================================================== *)
Definition fixed_widths_okb (fixed : list fixed_fn) : bool :=
  forallb (fun ff => forallb (fun nw => snd nw <=? 128) (ff_ins ff) &&
                     match ff_out ff with Some (_, w) => w <=? 128 | None => true end) fixed.

Lemma fixed_widths_okb_ok fixed : fixed_widths_okb fixed = true -> fixed_widths_ok fixed.
Proof.
  unfold fixed_widths_okb, fixed_widths_ok. intros H ff n w Hff Hnw.
  rewrite forallb_forall in H. apply H in Hff. apply andb_true_iff in Hff. destruct Hff as [H1 H2].
  destruct Hnw as [Hnw|Hnw].
  - rewrite forallb_forall in H1. apply H1 in Hnw. cbn [snd] in Hnw. apply N.leb_le. exact Hnw.
  - rewrite Hnw in H2. apply N.leb_le. exact H2.
Qed.

Lemma gen_fixed_widths_ok : fixed_widths_ok Generated.gen_fixed.
Proof. apply fixed_widths_okb_ok. vm_compute. reflexivity. Qed.

(* C01 exactly as stated, for the table the implementation really contains *)
Corollary build_valid_schedule_gen f is_lower is_upper :
  stmt_build_valid_schedule f Generated.gen_fixed is_lower is_upper.
Proof.
  intros Hok stmts p Hb.
  apply (build_valid_schedule_partial f Generated.gen_fixed is_lower is_upper Hok gen_fixed_ok2 stmts p Hb).
Qed.

Corollary accept_program_ok_gen_partial f is_lower is_upper :
  forall stmts p, Forall wf_stmt stmts ->
    build_program f Generated.gen_fixed is_lower is_upper stmts = Ok p ->
    (forall n v, In (n, v) (p_consts p) -> wf_width (wd v)) ->
    exists G, program_ok f G p.
Proof.
  apply (accept_program_ok_partial f Generated.gen_fixed is_lower is_upper
                                   gen_fixed_ok gen_fixed_ok2 gen_fixed_widths_ok).
Qed.

(* -- counterexample to stmt_build_valid_schedule for an arbitrary table: a component output
      named like a register-bank output ("R_x" is the output of register x of bank rR) -- *)
Definition cex6_fixed : list fixed_fn :=
  [mkFixed "x" [("a", 1)] (Some ("R_x", 1)) None false (AReadReg "a" "R_x")].
Definition cex6_stmts : list stmt :=
  [SBank "rR" [("x", Bits 1, EConst (mkV 0 (Bits 1)))];
   SAssign [(["a"], EWire "R_x"); (["r_x"], EConst (mkV 0 (Bits 1)))]].
Definition cex6_prog : program :=
  Eval vm_compute in
    match build_program gen_features cex6_fixed ascii_lower ascii_upper cex6_stmts with
    | Ok p => p
    | Err _ => mkProgram [] [] [] [] []
    end.

Lemma cex6_facts :
  fixed_table_ok cex6_fixed = true /\
  build_program gen_features cex6_fixed ascii_lower ascii_upper cex6_stmts = Ok cex6_prog /\
  p_actions cex6_prog = [AAssign "a" (EWire "R_x") (Bits 1);
                         AAssign "r_x" (EConst (mkV 0 (Bits 1))) (Bits 1);
                         AReadReg "a" "R_x"] /\
  known0 cex6_prog = ["stall_R"; "bubble_R"] /\
  valid_schedule (known0 cex6_prog) (p_actions cex6_prog) = false.
Proof. vm_compute. repeat split; reflexivity. Qed.

Theorem build_valid_schedule_as_stated_false :
  ~ (forall fixed, stmt_build_valid_schedule gen_features fixed ascii_lower ascii_upper).
Proof.
  intros H. destruct cex6_facts as [H1 [H2 [_ [_ H3]]]].
  rewrite (H cex6_fixed H1 cex6_stmts cex6_prog H2) in H3. discriminate H3.
Qed.

(* -- the former counterexample to stmt_accept_program_ok (a 200-bit constant made by a
      concatenation): constants are now width-checked, so it is rejected -- *)
Definition old_cex9_stmts : list stmt :=
  [SConst [("c", ECat (EConst (mkV 0 (Bits 100))) (EConst (mkV 0 (Bits 100))))];
   SAssign [(["Stat"], EConst (mkV 1 (Bits 3))); (["pc"], EConst (mkV 0 (Bits 64)))]].

Example old_cex9_now_rejected :
  build_program gen_features Generated.gen_fixed ascii_lower ascii_upper old_cex9_stmts
  = Err [mkErr WireTooWide []].
Proof. vm_compute. reflexivity. Qed.

(* C07's hypothesis discharged, exactly as stated in BuildSpec.v, for the real table *)
Corollary accept_program_ok_gen f is_lower is_upper :
  stmt_accept_program_ok f Generated.gen_fixed is_lower is_upper.
Proof.
  intros Hok Hwok stmts p Hwf Hb.
  apply (accept_program_ok_strong f Generated.gen_fixed is_lower is_upper Hok gen_fixed_ok2 Hwok stmts p Hwf Hb).
Qed.

Print Assumptions reject_has_diag_ok.
Print Assumptions accept_declared_once_ok.
Print Assumptions accept_assigned_once_ok.
Print Assumptions accept_wires_driven_ok.
Print Assumptions accept_consts_closed_ok.
Print Assumptions build_valid_schedule_partial.
Print Assumptions build_effects_in_table_order_ok.
Print Assumptions accept_banks_wf_ok.
Print Assumptions accept_program_ok_partial.
Print Assumptions gen_fixed_ok2.
Print Assumptions build_valid_schedule_gen.
Print Assumptions accept_program_ok_gen_partial.
Print Assumptions build_valid_schedule_as_stated_false.
Print Assumptions accept_program_ok_strong.
Print Assumptions accept_program_ok_gen.
Print Assumptions old_cex9_now_rejected.
