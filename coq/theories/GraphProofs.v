(* Proofs of the GraphSpec statements about Graph.toposort / Graph.find_cycle.
   Uses no axioms; everything is decided through eqb. *)
From HclV Require Import Base Graph GraphSpec.
From Coq Require Import List Arith Lia Bool NArith Permutation.
Import ListNotations.
Local Open Scope nat_scope.

Section GraphProofs.
  Variable node : Type.
  Variable eqb : node -> node -> bool.
  Hypothesis eqb_spec : forall a b, eqb a b = true <-> a = b.

  Notation graph := (graph node).
  Notation succs := (succs node eqb).
  Notation preds := (preds node eqb).
  Notation assoc := (assoc node eqb).
  Notation memb := (memb node eqb).
  Notation toposort := (toposort node eqb).
  Notation find_cycle := (find_cycle node eqb).
  Notation find_cycle_loop := (find_cycle_loop node eqb).
  Notation back_path := (back_path node eqb).
  Notation set_parent := (set_parent node eqb).
  Notation set_count := (set_count node eqb).
  Notation is_cycle := (is_cycle node eqb).
  Notation is_path := (is_path node eqb).
  Notation is_edge := (is_edge node eqb).
  Notation kahn_loop := (kahn_loop node eqb).
  Notation visit_outs := (visit_outs node eqb).
  Notation pair_eqb := (pair_eqb node eqb).
  Notation has_pred := (has_pred node eqb).
  Notation init_queue := (init_queue node eqb).
  Notation init_counts := (init_counts node eqb).
  Notation edge := (edge node eqb).
  Notation wf_graph := (wf_graph node).
  Notation has_cycle := (has_cycle node eqb).
  Notation linear_extension := (linear_extension node eqb).
  Notation edge_total := (edge_total node).
  Notation parents_t := (parents_t node).

  (* ================================================================================ *)
  (* Part 0: basic facts about eqb, memb, assoc                                        *)
  (* ================================================================================ *)

  Lemma eqb_refl (a : node) : eqb a a = true.
  Proof. apply eqb_spec. reflexivity. Qed.

  Lemma eqb_false_iff (a b : node) : eqb a b = false <-> a <> b.
  Proof.
    split.
    - intros Hf Heq. apply eqb_spec in Heq. rewrite Heq in Hf. discriminate.
    - intros Hne. destruct (eqb a b) eqn:E; [|reflexivity].
      apply eqb_spec in E. contradiction.
  Qed.

  Lemma eqb_sym (a b : node) : eqb a b = eqb b a.
  Proof.
    destruct (eqb a b) eqn:E1, (eqb b a) eqn:E2; try reflexivity.
    - apply eqb_spec in E1. subst. rewrite eqb_refl in E2. discriminate.
    - apply eqb_spec in E2. subst. rewrite eqb_refl in E1. discriminate.
  Qed.

  Lemma node_eq_dec (a b : node) : {a = b} + {a <> b}.
  Proof.
    destruct (eqb a b) eqn:E.
    - left. apply eqb_spec. exact E.
    - right. apply eqb_false_iff. exact E.
  Qed.

  Lemma pair_eq_dec (a b : node * node) : {a = b} + {a <> b}.
  Proof.
    destruct a as [a1 a2], b as [b1 b2].
    destruct (node_eq_dec a1 b1) as [H1|H1]; [|right; intros H; inversion H; contradiction].
    destruct (node_eq_dec a2 b2) as [H2|H2]; [|right; intros H; inversion H; contradiction].
    left. subst. reflexivity.
  Qed.

  Lemma memb_In (n : node) (l : list node) : memb n l = true <-> In n l.
  Proof.
    unfold Graph.memb. rewrite existsb_exists. split.
    - intros [x [Hin Heq]]. apply eqb_spec in Heq. subst. exact Hin.
    - intros Hin. exists n. split; [exact Hin | apply eqb_refl].
  Qed.

  Lemma memb_false (n : node) (l : list node) : memb n l = false <-> ~ In n l.
  Proof.
    split.
    - intros Hf Hin. apply memb_In in Hin. rewrite Hin in Hf. discriminate.
    - intros Hn. destruct (memb n l) eqn:E; [|reflexivity].
      apply memb_In in E. contradiction.
  Qed.

  Lemma assoc_In {V} (l : list (node * V)) (n : node) (v : V) :
    assoc l n = Some v -> In (n, v) l.
  Proof.
    induction l as [|[k w] r IH]; simpl; [discriminate|].
    destruct (eqb n k) eqn:E.
    - intros H. inversion H. subst. apply eqb_spec in E. subst. left. reflexivity.
    - intros H. right. apply IH. exact H.
  Qed.

  Lemma assoc_None {V} (l : list (node * V)) (n : node) :
    assoc l n = None <-> ~ In n (map fst l).
  Proof.
    induction l as [|[k w] r IH]; simpl.
    - split; [intros _ H; exact H | reflexivity].
    - destruct (eqb n k) eqn:E.
      + apply eqb_spec in E. subst. split; [discriminate|].
        intros H. exfalso. apply H. left. reflexivity.
      + apply eqb_false_iff in E. rewrite IH. split.
        * intros H [H1|H1]; [apply E; symmetry; exact H1 | apply H; exact H1].
        * intros H H1. apply H. right. exact H1.
  Qed.

  Lemma In_assoc {V} (l : list (node * V)) (n : node) (v : V) :
    NoDup (map fst l) -> In (n, v) l -> assoc l n = Some v.
  Proof.
    induction l as [|[k w] r IH]; simpl; [intros _ []|].
    intros Hnd Hin. inversion Hnd as [|x xs Hnotin Hnd']. subst.
    destruct Hin as [Heq|Hin].
    - inversion Heq. subst. rewrite eqb_refl. reflexivity.
    - destruct (eqb n k) eqn:E.
      + apply eqb_spec in E. subst. exfalso. apply Hnotin.
        apply in_map_iff. exists (k, v). split; [reflexivity | exact Hin].
      + apply IH; assumption.
  Qed.

  Lemma is_edge_iff (g : graph) (a b : node) : is_edge g a b = true <-> edge g a b.
  Proof. unfold Graph.is_edge, GraphSpec.edge. apply memb_In. Qed.

  (* edges are exactly the pairs listed in g_succ *)
  Lemma edge_listed (g : graph) (a b : node) :
    edge g a b -> exists l, In (a, l) (g_succ g) /\ In b l.
  Proof.
    unfold GraphSpec.edge, Graph.succs. destruct (assoc (g_succ g) a) as [l|] eqn:E.
    - intros Hin. exists l. split; [apply assoc_In; exact E | exact Hin].
    - intros [].
  Qed.

  Lemma listed_edge (g : graph) (a b : node) (l : list node) :
    wf_graph g -> In (a, l) (g_succ g) -> In b l -> edge g a b.
  Proof.
    intros [_ [Hk _]] Hin Hb. unfold GraphSpec.edge, Graph.succs.
    rewrite (In_assoc _ _ _ Hk Hin). exact Hb.
  Qed.

  Lemma listed_succs (g : graph) (a : node) (l : list node) :
    wf_graph g -> In (a, l) (g_succ g) -> succs g a = l.
  Proof.
    intros [_ [Hk _]] Hin. unfold Graph.succs. rewrite (In_assoc _ _ _ Hk Hin). reflexivity.
  Qed.

  Lemma edge_nodes (g : graph) (a b : node) :
    wf_graph g -> edge g a b -> In a (g_nodes g) /\ In b (g_nodes g).
  Proof.
    intros Hwf He. destruct (edge_listed _ _ _ He) as [l [Hin Hb]].
    destruct Hwf as [_ [_ [Hs _]]]. destruct (Hs _ _ Hin) as [Ha [_ Hl]].
    split; [exact Ha | apply Hl; exact Hb].
  Qed.

  Lemma succs_nodup (g : graph) (a : node) : wf_graph g -> NoDup (succs g a).
  Proof.
    intros Hwf. unfold Graph.succs. destruct (assoc (g_succ g) a) as [l|] eqn:E; [|constructor].
    apply assoc_In in E. destruct Hwf as [_ [_ [Hs _]]]. destruct (Hs _ _ E) as [_ [Hnd _]]. exact Hnd.
  Qed.

  (* ---- is_path / is_cycle helpers ------------------------------------------------------ *)

  Lemma is_path_cons2 (g : graph) (a b : node) (r : list node) :
    is_path g (a :: b :: r) = is_edge g a b && is_path g (b :: r).
  Proof. reflexivity. Qed.

  Lemma is_path_app_r (g : graph) (l1 l2 : list node) :
    is_path g (l1 ++ l2) = true -> is_path g l2 = true.
  Proof.
    induction l1 as [|a l1 IH]; simpl app; [intros H; exact H|].
    intros H. apply IH. destruct (l1 ++ l2) as [|b m] eqn:E; [reflexivity|].
    rewrite is_path_cons2 in H. apply andb_true_iff in H. apply H.
  Qed.

  Lemma is_path_app_l (g : graph) (l1 l2 : list node) :
    is_path g (l1 ++ l2) = true -> is_path g l1 = true.
  Proof.
    induction l1 as [|a l1 IH]; [reflexivity|].
    destruct l1 as [|b l1]; [reflexivity|].
    intros H. change ((a :: b :: l1) ++ l2) with (a :: b :: (l1 ++ l2)) in H.
    rewrite is_path_cons2 in H. apply andb_true_iff in H. destruct H as [H1 H2].
    rewrite is_path_cons2. rewrite H1. simpl. apply IH. exact H2.
  Qed.

  Lemma path_close (g : graph) (d x' : node) : forall (l2 : list node) (x : node),
    is_path g (x :: l2 ++ [x']) = true ->
    is_path g (x :: l2) = true /\ is_edge g (last (x :: l2) d) x' = true.
  Proof.
    induction l2 as [|y l2 IH]; intros x H.
    - simpl app in H. rewrite is_path_cons2 in H. apply andb_true_iff in H.
      split; [reflexivity | apply H].
    - change (x :: (y :: l2) ++ [x']) with (x :: y :: (l2 ++ [x'])) in H.
      rewrite is_path_cons2 in H. apply andb_true_iff in H. destruct H as [H1 H2].
      destruct (IH y H2) as [H3 H4]. split.
      + rewrite is_path_cons2. rewrite H1, H3. reflexivity.
      + exact H4.
  Qed.

  (* every element of a cycle has a successor inside the cycle *)
  Lemma path_succ_or_last (g : graph) (d : node) : forall (l : list node),
    is_path g l = true -> forall x, In x l ->
    (exists y, In y l /\ edge g x y) \/ x = last l d.
  Proof.
    induction l as [|a r IH]; intros Hp x Hin; [destruct Hin|].
    destruct r as [|b r].
    - destruct Hin as [Hx|[]]. right. simpl. symmetry. exact Hx.
    - rewrite is_path_cons2 in Hp. apply andb_true_iff in Hp. destruct Hp as [He Hp].
      destruct Hin as [Hx|Hin].
      + subst x. left. exists b. split; [right; left; reflexivity | apply is_edge_iff; exact He].
      + destruct (IH Hp x Hin) as [[y [Hy Hxy]]|Hl].
        * left. exists y. split; [right; exact Hy | exact Hxy].
        * right. exact Hl.
  Qed.

  Lemma last_In (d : node) : forall (l : list node), l <> [] -> In (last l d) l.
  Proof.
    induction l as [|a r IH]; intros Hne; [contradiction|].
    destruct r as [|b r]; [left; reflexivity|].
    right. apply IH. discriminate.
  Qed.

  Lemma cycle_succ_closed (g : graph) (c : list node) :
    is_cycle g c = true ->
    c <> [] /\ forall x, In x c -> exists y, In y c /\ edge g x y.
  Proof.
    destruct c as [|first t]; [discriminate|].
    unfold Graph.is_cycle. intros H. apply andb_true_iff in H. destruct H as [Hp He].
    split; [discriminate|].
    intros x Hin. destruct (path_succ_or_last g first _ Hp x Hin) as [Hy|Hl]; [exact Hy|].
    exists first. split; [left; reflexivity|]. subst x. apply is_edge_iff. exact He.
  Qed.

  (* a list in which every edge leaving an element points into the tail behind it *)
  Fixpoint topo_closed (g : graph) (l : list node) : Prop :=
    match l with
    | [] => True
    | b :: r => (forall s, edge g b s -> In s r) /\ topo_closed g r
    end.

  Lemma topo_closed_succ (g : graph) : forall l, topo_closed g l ->
    forall x s, In x l -> edge g x s -> In s l.
  Proof.
    induction l as [|b r IH]; intros Ht x s Hin He; [destruct Hin|].
    destruct Ht as [Hb Hr]. destruct Hin as [Hx|Hin].
    - subst x. right. apply Hb. exact He.
    - right. apply (IH Hr x s Hin He).
  Qed.

  Lemma topo_no_cycle (g : graph) : forall l, topo_closed g l ->
    forall c, c <> [] -> (forall x, In x c -> In x l) ->
    (forall x, In x c -> exists y, In y c /\ edge g x y) -> False.
  Proof.
    induction l as [|b r IH]; intros Ht c Hne Hsub Hsucc.
    - destruct c as [|x c]; [contradiction|]. apply (Hsub x). left. reflexivity.
    - destruct Ht as [Hb Hr].
      apply (IH Hr (filter (fun x => memb x r) c)).
      + (* nonempty *)
        destruct c as [|x c]; [contradiction|].
        assert (Hx : In x (x :: c)) by (left; reflexivity).
        destruct (Hsub x Hx) as [Hxb|Hxr].
        * subst x. destruct (Hsucc b Hx) as [y [Hy Hby]].
          intros Hnil. assert (Hin : In y (filter (fun x => memb x r) (b :: c))).
          { apply filter_In. split; [exact Hy|]. apply memb_In. apply Hb. exact Hby. }
          rewrite Hnil in Hin. destruct Hin.
        * intros Hnil. assert (Hin : In x (filter (fun x => memb x r) (x :: c))).
          { apply filter_In. split; [exact Hx|]. apply memb_In. exact Hxr. }
          rewrite Hnil in Hin. destruct Hin.
      + intros x Hx. apply filter_In in Hx. apply memb_In. apply Hx.
      + intros x Hx. apply filter_In in Hx. destruct Hx as [Hxc Hxr]. apply memb_In in Hxr.
        destruct (Hsucc x Hxc) as [y [Hy Hxy]]. exists y. split; [|exact Hxy].
        apply filter_In. split; [exact Hy|]. apply memb_In.
        apply (topo_closed_succ g r Hr x y Hxr Hxy).
  Qed.

  Lemma topo_acyclic (g : graph) (l : list node) :
    wf_graph g -> topo_closed g l -> (forall x, In x (g_nodes g) -> In x l) -> ~ has_cycle g.
  Proof.
    intros Hwf Ht Hall [c Hc]. destruct (cycle_succ_closed g c Hc) as [Hne Hsucc].
    apply (topo_no_cycle g l Ht c Hne); [|exact Hsucc].
    intros x Hx. apply Hall. destruct (Hsucc x Hx) as [y [_ Hxy]].
    apply (edge_nodes g x y Hwf Hxy).
  Qed.

  (* ================================================================================ *)
  (* Part 1: find_cycle answers are cycles                                             *)
  (* ================================================================================ *)

  Definition push_outs (cur : node) (outs : list node) (rest : list (option node * node)) :=
    fold_left (fun st out => (Some cur, out) :: st) outs rest.

  Lemma fcl_step (fu : nat) (g : graph) (mp : option node) (cur : node)
        (rest : list (option node * node)) (ps : parents_t) :
    find_cycle_loop (S fu) g ((mp, cur) :: rest) ps =
    match assoc ps cur with
    | Some _ =>
        match mp with
        | Some parent =>
            match back_path (S (length (g_nodes g))) ps cur [parent] parent with
            | Some path => Ok path
            | None => find_cycle_loop fu g rest ps
            end
        | None => find_cycle_loop fu g rest (set_parent ps cur None)
        end
    | None => find_cycle_loop fu g (push_outs cur (succs g cur) rest) (set_parent ps cur mp)
    end.
  Proof.
    cbn [Graph.find_cycle_loop]. destruct (assoc ps cur), mp; reflexivity.
  Qed.

  Lemma push_outs_eq (cur : node) : forall outs rest,
    push_outs cur outs rest = map (fun o => (Some cur, o)) (rev outs) ++ rest.
  Proof.
    unfold push_outs. induction outs as [|o outs IH]; intros rest; simpl; [reflexivity|].
    rewrite IH. rewrite map_app. simpl. rewrite <- app_assoc. reflexivity.
  Qed.

  Lemma assoc_set_parent (ps : parents_t) (n : node) (p : option node) (x : node) :
    assoc (set_parent ps n p) x = if eqb x n then Some p else assoc ps x.
  Proof.
    induction ps as [|[k v] r IH]; simpl; [reflexivity|].
    destruct (eqb n k) eqn:E; simpl.
    - apply eqb_spec in E. subst. destruct (eqb x k); reflexivity.
    - destruct (eqb x k) eqn:E2.
      + apply eqb_spec in E2. subst. rewrite eqb_sym. rewrite E. reflexivity.
      + exact IH.
  Qed.

  Definition ps_ok (g : graph) (ps : parents_t) : Prop :=
    forall x p, assoc ps x = Some (Some p) -> edge g p x.

  Definition stack_ok (g : graph) (st : list (option node * node)) : Prop :=
    forall p x, In (Some p, x) st -> edge g p x.

  Lemma back_path_sound (g : graph) (ps : parents_t) (cur d : node) :
    ps_ok g ps -> forall fuel path lst tl res,
    path = lst :: tl -> is_path g path = true ->
    back_path fuel ps cur path lst = Some res ->
    exists tl', res = cur :: tl' /\ is_path g res = true /\ last res d = last path d.
  Proof.
    intros Hps. induction fuel as [|fu IH]; intros path lst tl res Hpath Hp Hbp.
    - simpl in Hbp. destruct (eqb lst cur) eqn:E; [|discriminate].
      apply eqb_spec in E. inversion Hbp. subst. exists tl. auto.
    - simpl in Hbp. destruct (eqb lst cur) eqn:E.
      + apply eqb_spec in E. inversion Hbp. subst. exists tl. auto.
      + destruct (assoc ps lst) as [[gp|]|] eqn:Ea; try discriminate.
        destruct (IH (gp :: path) gp path res eq_refl) as [tl' [H1 [H2 H3]]].
        * subst path. rewrite is_path_cons2. rewrite Hp.
          assert (He : is_edge g gp lst = true) by (apply is_edge_iff; apply Hps; exact Ea).
          rewrite He. reflexivity.
        * exact Hbp.
        * exists tl'. split; [exact H1|]. split; [exact H2|].
          rewrite H3. subst path. reflexivity.
  Qed.

  Lemma fcl_sound (g : graph) : forall fuel st ps c,
    stack_ok g st -> ps_ok g ps ->
    find_cycle_loop fuel g st ps = Ok c -> is_cycle g c = true.
  Proof.
    induction fuel as [|fu IH]; intros st ps c Hst Hps Hr; [discriminate|].
    destruct st as [|[mp cur] rest]; [discriminate|].
    rewrite fcl_step in Hr.
    assert (Hrest : stack_ok g rest).
    { intros p x Hin. apply Hst. right. exact Hin. }
    destruct (assoc ps cur) as [v|] eqn:Ek.
    - destruct mp as [parent|].
      + destruct (back_path (S (length (g_nodes g))) ps cur [parent] parent) as [path|] eqn:Ebp.
        * inversion Hr. subst c.
          destruct (back_path_sound g ps cur cur Hps _ [parent] parent [] path eq_refl eq_refl Ebp)
            as [tl' [H1 [H2 H3]]].
          subst path. unfold Graph.is_cycle. rewrite H2. rewrite H3. simpl.
          apply is_edge_iff. apply Hst. left. reflexivity.
        * apply (IH rest ps c Hrest Hps Hr).
      + apply (IH rest _ c Hrest) in Hr; [exact Hr|].
        intros x p. rewrite assoc_set_parent. destruct (eqb x cur); [discriminate|]. apply Hps.
    - apply (IH _ _ c) in Hr; [exact Hr| |].
      + rewrite push_outs_eq. intros p x Hin. apply in_app_or in Hin. destruct Hin as [Hin|Hin].
        * apply in_map_iff in Hin. destruct Hin as [o [Ho Hin]]. inversion Ho. subst.
          apply in_rev in Hin. exact Hin.
        * apply Hrest. exact Hin.
      + intros x p. rewrite assoc_set_parent. destruct (eqb x cur) eqn:E.
        * intros H. inversion H. subst mp. apply eqb_spec in E. subst x.
          apply Hst. left. reflexivity.
        * apply Hps.
  Qed.

  Theorem cycle_sound : stmt_cycle_sound node eqb.
  Proof.
    intros g c Hwf Hr. unfold Graph.find_cycle in Hr.
    apply (fcl_sound g _ _ _ c) in Hr; [exact Hr| |].
    - intros p x Hin. apply in_map_iff in Hin. destruct Hin as [n [Hn _]]. discriminate.
    - intros x p H. discriminate.
  Qed.

  Theorem cycle_answer_sound : stmt_cycle_answer_sound node eqb.
  Proof.
    intros g c Hwf Hr. unfold Graph.toposort in Hr.
    destruct (kahn_loop _ g _ _ _ _) as [[order visited]|e]; [|discriminate].
    simpl in Hr. destruct (N.eqb _ _); [discriminate|].
    destruct (find_cycle g) as [c'|e] eqn:Efc; [|discriminate].
    simpl in Hr. inversion Hr. subst c'. apply (cycle_sound g c Hwf Efc).
  Qed.

  (* ================================================================================ *)
  (* Part 2: Kahn's loop: invariant, no underflow, fuel                                *)
  (* ================================================================================ *)

  Definition cntN (counts : list (node * N)) (x : node) : N :=
    match assoc counts x with Some c => c | None => 0%N end.

  Definition cnt (counts : list (node * N)) (x : node) : nat := N.to_nat (cntN counts x).

  (* the visited edges that enter x *)
  Definition into (x : node) (vis : list (node * node)) : list (node * node) :=
    filter (fun e => eqb (snd e) x) vis.

  Lemma assoc_set_count (counts : list (node * N)) (n : node) (c : N) (x : node) :
    assoc (set_count counts n c) x = if eqb x n then Some c else assoc counts x.
  Proof.
    induction counts as [|[k v] r IH]; simpl; [reflexivity|].
    destruct (eqb n k) eqn:E; simpl.
    - apply eqb_spec in E. subst. destruct (eqb x k); reflexivity.
    - destruct (eqb x k) eqn:E2.
      + apply eqb_spec in E2. subst. rewrite eqb_sym. rewrite E. reflexivity.
      + exact IH.
  Qed.

  Lemma cnt_set_count (counts : list (node * N)) (n : node) (c : N) (x : node) :
    cnt (set_count counts n c) x = if eqb x n then N.to_nat c else cnt counts x.
  Proof.
    unfold cnt, cntN. rewrite assoc_set_count. destruct (eqb x n); reflexivity.
  Qed.

  Lemma pair_eqb_iff (a b : node * node) : pair_eqb a b = true <-> a = b.
  Proof.
    destruct a as [a1 a2], b as [b1 b2]. unfold Graph.pair_eqb. simpl.
    rewrite andb_true_iff. rewrite !eqb_spec. split.
    - intros [H1 H2]. subst. reflexivity.
    - intros H. inversion H. auto.
  Qed.

  Lemma existsb_pair (e : node * node) (vis : list (node * node)) :
    existsb (pair_eqb e) vis = true <-> In e vis.
  Proof.
    rewrite existsb_exists. split.
    - intros [x [Hin Heq]]. apply pair_eqb_iff in Heq. subst. exact Hin.
    - intros Hin. exists e. split; [exact Hin | apply pair_eqb_iff; reflexivity].
  Qed.

  Lemma existsb_pair_false (e : node * node) (vis : list (node * node)) :
    existsb (pair_eqb e) vis = false <-> ~ In e vis.
  Proof.
    split.
    - intros Hf Hin. apply existsb_pair in Hin. rewrite Hin in Hf. discriminate.
    - intros Hn. destruct (existsb (pair_eqb e) vis) eqn:E; [|reflexivity].
      apply existsb_pair in E. contradiction.
  Qed.

  Lemma In_preds (g : graph) (a x : node) : wf_graph g -> (In a (preds g x) <-> edge g a x).
  Proof.
    intros Hwf. unfold Graph.preds. split.
    - intros H. apply in_map_iff in H. destruct H as [[k l] [Hk Hin]]. simpl in Hk. subst k.
      apply filter_In in Hin. destruct Hin as [Hin Hm]. simpl in Hm. apply memb_In in Hm.
      apply (listed_edge g a x l Hwf Hin Hm).
    - intros He. destruct (edge_listed _ _ _ He) as [l [Hin Hb]].
      apply in_map_iff. exists (a, l). split; [reflexivity|].
      apply filter_In. split; [exact Hin|]. simpl. apply memb_In. exact Hb.
  Qed.

  Lemma NoDup_map_fst_filter {V} (f : node * V -> bool) (l : list (node * V)) :
    NoDup (map fst l) -> NoDup (map fst (filter f l)).
  Proof.
    induction l as [|kv r IH]; simpl; intros H; [constructor|].
    inversion H as [|k ks Hnotin Hnd]. subst. destruct (f kv); simpl.
    - constructor; [|apply IH; exact Hnd]. intros Hin. apply Hnotin.
      apply in_map_iff in Hin. destruct Hin as [e [He Hin]]. apply filter_In in Hin.
      apply in_map_iff. exists e. split; [exact He | apply Hin].
    - apply IH. exact Hnd.
  Qed.

  Lemma preds_nodup (g : graph) (x : node) : wf_graph g -> NoDup (preds g x).
  Proof.
    intros [_ [Hk _]]. unfold Graph.preds. apply NoDup_map_fst_filter. exact Hk.
  Qed.

  Lemma In_into (x : node) (vis : list (node * node)) (a b : node) :
    In (a, b) (into x vis) <-> In (a, b) vis /\ b = x.
  Proof.
    unfold into. rewrite filter_In. simpl. rewrite eqb_spec. reflexivity.
  Qed.

  Lemma NoDup_map_fst_same_snd (x : node) : forall (l : list (node * node)),
    NoDup l -> (forall e, In e l -> snd e = x) -> NoDup (map fst l).
  Proof.
    induction l as [|e r IH]; intros Hnd Hs; simpl; [constructor|].
    inversion Hnd as [|e' r' Hnotin Hnd']. subst. constructor.
    - intros Hin. apply in_map_iff in Hin. destruct Hin as [e2 [Hf Hin2]]. apply Hnotin.
      destruct e as [a b], e2 as [a2 b2]. simpl in Hf. subst a2.
      assert (H1 : b2 = x) by (apply (Hs (a, b2)); right; exact Hin2).
      assert (H2 : b = x) by (apply (Hs (a, b)); left; reflexivity).
      subst. exact Hin2.
    - apply IH; [exact Hnd'|]. intros e0 He0. apply Hs. right. exact He0.
  Qed.

  Lemma into_fst_nodup (x : node) (vis : list (node * node)) :
    NoDup vis -> NoDup (map fst (into x vis)).
  Proof.
    intros Hnd. apply (NoDup_map_fst_same_snd x).
    - unfold into. apply NoDup_filter. exact Hnd.
    - intros [a b] Hin. apply In_into in Hin. simpl. apply Hin.
  Qed.

  Lemma In_fst_into (x a : node) (vis : list (node * node)) :
    In a (map fst (into x vis)) <-> In (a, x) vis.
  Proof.
    rewrite in_map_iff. split.
    - intros [[a' b] [Hf Hin]]. simpl in Hf. subst a'. apply In_into in Hin.
      destruct Hin as [Hin Hb]. subst b. exact Hin.
    - intros Hin. exists (a, x). split; [reflexivity|]. apply In_into. auto.
  Qed.

  Definition vis_edges (g : graph) (vis : list (node * node)) : Prop :=
    forall a b, In (a, b) vis -> edge g a b.

  Lemma into_fst_incl (g : graph) (x : node) (vis : list (node * node)) :
    wf_graph g -> vis_edges g vis -> incl (map fst (into x vis)) (preds g x).
  Proof.
    intros Hwf Hv a Ha. apply In_fst_into in Ha. apply In_preds; [exact Hwf|]. apply Hv. exact Ha.
  Qed.

  Lemma into_lt (g : graph) (x a : node) (vis : list (node * node)) :
    wf_graph g -> NoDup vis -> vis_edges g vis -> edge g a x -> ~ In (a, x) vis ->
    length (into x vis) < length (preds g x).
  Proof.
    intros Hwf Hnd Hv He Hnot.
    assert (Hnd2 : NoDup (a :: map fst (into x vis))).
    { constructor; [|apply into_fst_nodup; exact Hnd].
      intros Hin. apply In_fst_into in Hin. contradiction. }
    assert (Hincl : incl (a :: map fst (into x vis)) (preds g x)).
    { intros y [Hy|Hy].
      - subst y. apply In_preds; assumption.
      - apply (into_fst_incl g x vis Hwf Hv). exact Hy. }
    pose proof (NoDup_incl_length Hnd2 Hincl) as Hlen.
    simpl in Hlen. rewrite map_length in Hlen. lia.
  Qed.

  Lemma into_full (g : graph) (x a : node) (vis : list (node * node)) :
    wf_graph g -> NoDup vis -> vis_edges g vis ->
    length (preds g x) <= length (into x vis) -> edge g a x -> In (a, x) vis.
  Proof.
    intros Hwf Hnd Hv Hlen He. apply In_fst_into.
    assert (Hincl : incl (preds g x) (map fst (into x vis))).
    { apply NoDup_length_incl.
      - apply into_fst_nodup. exact Hnd.
      - rewrite map_length. exact Hlen.
      - apply into_fst_incl; assumption. }
    apply Hincl. apply In_preds; assumption.
  Qed.

  Lemma into_ge (g : graph) (x : node) (vis : list (node * node)) :
    wf_graph g -> (forall a, edge g a x -> In (a, x) vis) ->
    length (preds g x) <= length (into x vis).
  Proof.
    intros Hwf Hall. rewrite <- (map_length fst (into x vis)).
    apply NoDup_incl_length; [apply preds_nodup; exact Hwf|].
    intros a Ha. apply In_fst_into. apply Hall. apply In_preds in Ha; assumption.
  Qed.

  (* emitted nodes, most recent first: every predecessor of an element sits behind it *)
  Fixpoint pred_closed (g : graph) (l : list node) : Prop :=
    match l with
    | [] => True
    | b :: r => (forall a, edge g a b -> In a r) /\ pred_closed g r
    end.

  Lemma pred_closed_app_r (g : graph) : forall l1 l2, pred_closed g (l1 ++ l2) -> pred_closed g l2.
  Proof.
    induction l1 as [|a l1 IH]; intros l2 H; [exact H|]. apply IH. apply H.
  Qed.

  Record kinv (g : graph) (done queue : list node) (counts : list (node * N))
         (visited : list (node * node)) : Prop := mkKinv {
    k_nodup_vis : NoDup visited;
    k_vis_edge : forall a b, In (a, b) visited -> edge g a b /\ In a done;
    k_cnt : forall x, cnt counts x + length (into x visited) = length (preds g x);
    k_nodup_q : NoDup (done ++ queue);
    k_zero : forall x, In x (done ++ queue) -> cnt counts x = 0 /\ In x (g_nodes g);
    k_zero_in : forall x, In x (g_nodes g) -> cnt counts x = 0 -> In x (done ++ queue);
    k_qpred : forall x a, In x queue -> edge g a x -> In a done;
    k_order : pred_closed g done
  }.

  Lemma kinv_vis_edges (g : graph) done queue counts visited :
    kinv g done queue counts visited -> vis_edges g visited.
  Proof. intros K a b Hin. apply (k_vis_edge _ _ _ _ _ K a b Hin). Qed.

  Lemma kinv_pop (g : graph) (acc : list node) (cur : node) (rest : list node) counts visited :
    kinv g acc (cur :: rest) counts visited -> kinv g (cur :: acc) rest counts visited.
  Proof.
    intros K.
    assert (Hmem : forall x, In x ((cur :: acc) ++ rest) <-> In x (acc ++ cur :: rest)).
    { intros x. simpl. rewrite !in_app_iff. simpl. tauto. }
    constructor.
    - apply (k_nodup_vis _ _ _ _ _ K).
    - intros a b Hin. destruct (k_vis_edge _ _ _ _ _ K a b Hin) as [H1 H2].
      split; [exact H1 | right; exact H2].
    - apply (k_cnt _ _ _ _ _ K).
    - apply (Permutation_NoDup (l := acc ++ cur :: rest)).
      + symmetry. apply Permutation_middle.
      + apply (k_nodup_q _ _ _ _ _ K).
    - intros x Hx. apply (k_zero _ _ _ _ _ K). apply Hmem. exact Hx.
    - intros x Hx Hc. apply Hmem. apply (k_zero_in _ _ _ _ _ K); assumption.
    - intros x a Hx He. right. apply (k_qpred _ _ _ _ _ K x a); [right; exact Hx | exact He].
    - simpl. split; [|apply (k_order _ _ _ _ _ K)].
      intros a He. apply (k_qpred _ _ _ _ _ K cur a); [left; reflexivity | exact He].
  Qed.

  Lemma NoDup_snoc {A} (l : list A) (x : A) : NoDup l -> ~ In x l -> NoDup (l ++ [x]).
  Proof.
    intros Hnd Hnot. apply (Permutation_NoDup (l := x :: l)).
    - apply Permutation_cons_append.
    - constructor; assumption.
  Qed.

  Lemma kinv_visit (g : graph) (done queue : list node) counts visited (cur out : node) :
    wf_graph g -> In cur done ->
    kinv g done queue counts visited -> edge g cur out -> ~ In (cur, out) visited ->
    let c := cntN counts out in
    c <> 0%N /\
    kinv g done (if (c - 1 =? 0)%N then queue ++ [out] else queue)
         (set_count counts out (c - 1)%N) ((cur, out) :: visited).
  Proof.
    intros Hwf Hcur K He Hnot c.
    pose proof (kinv_vis_edges _ _ _ _ _ K) as Hv.
    pose proof (into_lt g out cur visited Hwf (k_nodup_vis _ _ _ _ _ K) Hv He Hnot) as Hlt.
    pose proof (k_cnt _ _ _ _ _ K out) as Hcnt.
    assert (Hc : cnt counts out = N.to_nat c) by reflexivity.
    assert (Hc0 : c <> 0%N) by lia.
    split; [exact Hc0|].
    assert (F1 : NoDup ((cur, out) :: visited)).
    { constructor; [exact Hnot | apply (k_nodup_vis _ _ _ _ _ K)]. }
    assert (F2 : forall a b, In (a, b) ((cur, out) :: visited) -> edge g a b /\ In a done).
    { intros a b [Heq|Hin].
      - inversion Heq. subst. split; assumption.
      - apply (k_vis_edge _ _ _ _ _ K a b Hin). }
    assert (F3 : forall x, cnt (set_count counts out (c - 1)%N) x
                           + length (into x ((cur, out) :: visited)) = length (preds g x)).
    { intros x. rewrite cnt_set_count. unfold into. simpl filter.
      destruct (eqb x out) eqn:E.
      - apply eqb_spec in E. subst x. rewrite eqb_refl. simpl length.
        fold (into out visited). lia.
      - rewrite eqb_sym. rewrite E. apply (k_cnt _ _ _ _ _ K x). }
    assert (Hout_notin : ~ In out (done ++ queue)).
    { intros Hin. destruct (k_zero _ _ _ _ _ K out Hin) as [Hz _]. lia. }
    assert (Hq : forall x, In x (if (c - 1 =? 0)%N then queue ++ [out] else queue) ->
                           In x queue \/ (x = out /\ (c - 1 = 0)%N)).
    { intros x. destruct (c - 1 =? 0)%N eqn:E.
      - apply N.eqb_eq in E. intros Hin. apply in_app_or in Hin.
        destruct Hin as [Hin|[Hin|[]]]; [left; exact Hin | right; auto].
      - intros Hin. left. exact Hin. }
    assert (Hq2 : forall x, In x queue -> In x (if (c - 1 =? 0)%N then queue ++ [out] else queue)).
    { intros x Hin. destruct (c - 1 =? 0)%N; [apply in_or_app; left; exact Hin | exact Hin]. }
    constructor.
    - exact F1.
    - exact F2.
    - exact F3.
    - destruct (c - 1 =? 0)%N; [|apply (k_nodup_q _ _ _ _ _ K)].
      rewrite app_assoc. apply NoDup_snoc; [apply (k_nodup_q _ _ _ _ _ K) | exact Hout_notin].
    - intros x Hin. apply in_app_or in Hin.
      assert (Hcase : In x (done ++ queue) \/ (x = out /\ (c - 1 = 0)%N)).
      { destruct Hin as [Hin|Hin]; [left; apply in_or_app; left; exact Hin|].
        destruct (Hq x Hin) as [H|H]; [left; apply in_or_app; right; exact H | right; exact H]. }
      destruct Hcase as [Hold|[Hx Hz]].
      + destruct (k_zero _ _ _ _ _ K x Hold) as [Hz Hn]. split; [|exact Hn].
        rewrite cnt_set_count. destruct (eqb x out) eqn:E; [|exact Hz].
        apply eqb_spec in E. subst x. contradiction.
      + subst x. split.
        * rewrite cnt_set_count. rewrite eqb_refl. lia.
        * apply (edge_nodes g cur out Hwf He).
    - intros x Hx Hz. rewrite cnt_set_count in Hz. destruct (eqb x out) eqn:E.
      + apply eqb_spec in E. subst x. apply in_or_app. right.
        assert (E2 : (c - 1 =? 0)%N = true) by (apply N.eqb_eq; lia).
        rewrite E2. apply in_or_app. right. left. reflexivity.
      + pose proof (k_zero_in _ _ _ _ _ K x Hx Hz) as Hin. apply in_app_or in Hin.
        apply in_or_app. destruct Hin as [Hin|Hin]; [left; exact Hin | right; apply Hq2; exact Hin].
    - intros x a Hx Hax. destruct (Hq x Hx) as [Hold|[Hxo Hz]].
      + apply (k_qpred _ _ _ _ _ K x a Hold Hax).
      + subst x.
        assert (Hv' : vis_edges g ((cur, out) :: visited)).
        { intros a' b' Hin. apply (F2 a' b' Hin). }
        assert (Hlen : length (preds g out) <= length (into out ((cur, out) :: visited))).
        { pose proof (F3 out) as H3. rewrite cnt_set_count in H3. rewrite eqb_refl in H3. lia. }
        pose proof (into_full g out a _ Hwf F1 Hv' Hlen Hax) as Hin.
        apply (F2 a out Hin).
    - apply (k_order _ _ _ _ _ K).
  Qed.

  Lemma visit_outs_cons (cur out : node) (r : list node) counts visited queue :
    visit_outs cur (out :: r) counts visited queue =
    if existsb (pair_eqb (cur, out)) visited then visit_outs cur r counts visited queue
    else let c := cntN counts out in
         if (c =? 0)%N then err1 Panicked []
         else visit_outs cur r (set_count counts out (c - 1)%N) ((cur, out) :: visited)
                         (if (c - 1 =? 0)%N then queue ++ [out] else queue).
  Proof. reflexivity. Qed.

  Lemma visit_outs_ok (g : graph) (done : list node) (cur : node) :
    wf_graph g -> In cur done -> forall outs counts visited queue,
    (forall o, In o outs -> edge g cur o) ->
    kinv g done queue counts visited ->
    exists counts' visited' queue',
      visit_outs cur outs counts visited queue = Ok (counts', visited', queue') /\
      kinv g done queue' counts' visited' /\
      incl visited visited' /\ (forall o, In o outs -> In (cur, o) visited').
  Proof.
    intros Hwf Hcur. induction outs as [|out r IH]; intros counts visited queue Hedges K.
    - exists counts, visited, queue. simpl. split; [reflexivity|]. split; [exact K|].
      split; [apply incl_refl | intros o []].
    - rewrite visit_outs_cons.
      assert (Hr : forall o, In o r -> edge g cur o) by (intros o Ho; apply Hedges; right; exact Ho).
      destruct (existsb (pair_eqb (cur, out)) visited) eqn:Ev.
      + apply existsb_pair in Ev.
        destruct (IH counts visited queue Hr K) as [c' [v' [q' [H1 [H2 [H3 H4]]]]]].
        exists c', v', q'. split; [exact H1|]. split; [exact H2|]. split; [exact H3|].
        intros o [Ho|Ho]; [subst o; apply H3; exact Ev | apply H4; exact Ho].
      + apply existsb_pair_false in Ev.
        assert (He : edge g cur out) by (apply Hedges; left; reflexivity).
        destruct (kinv_visit g done queue counts visited cur out Hwf Hcur K He Ev) as [Hc0 K'].
        cbv zeta. apply N.eqb_neq in Hc0. rewrite Hc0.
        destruct (IH _ _ _ Hr K') as [c' [v' [q' [H1 [H2 [H3 H4]]]]]].
        exists c', v', q'. split; [exact H1|]. split; [exact H2|]. split.
        * intros e Hin. apply H3. right. exact Hin.
        * intros o [Ho|Ho]; [subst o; apply H3; left; reflexivity | apply H4; exact Ho].
  Qed.

  Definition outs_done (g : graph) (acc : list node) (visited : list (node * node)) : Prop :=
    forall a b, In a acc -> edge g a b -> In (a, b) visited.

  Lemma kinv_length (g : graph) done queue counts visited :
    kinv g done queue counts visited -> length done + length queue <= length (g_nodes g).
  Proof.
    intros K. rewrite <- app_length. apply NoDup_incl_length; [apply (k_nodup_q _ _ _ _ _ K)|].
    intros x Hx. apply (k_zero _ _ _ _ _ K x Hx).
  Qed.

  Lemma kahn_step (fu : nat) (g : graph) (cur : node) (rest : list node) counts visited acc :
    kahn_loop (S fu) g (cur :: rest) counts visited acc =
    bind (visit_outs cur (succs g cur) counts visited rest)
         (fun x => let '(counts1, visited1, queue1) := x in
                   kahn_loop fu g queue1 counts1 visited1 (cur :: acc)).
  Proof. reflexivity. Qed.

  Lemma kahn_nil (fuel : nat) (g : graph) counts visited acc :
    kahn_loop fuel g [] counts visited acc = Ok (rev acc, visited).
  Proof. destruct fuel; reflexivity. Qed.

  Lemma kahn_loop_ok (g : graph) : wf_graph g -> forall fuel queue counts visited acc,
    kinv g acc queue counts visited -> outs_done g acc visited ->
    S (length (g_nodes g)) <= fuel + length acc ->
    exists acc' counts' visited',
      kahn_loop fuel g queue counts visited acc = Ok (rev acc', visited') /\
      kinv g acc' [] counts' visited' /\ outs_done g acc' visited'.
  Proof.
    intros Hwf. induction fuel as [|fu IH]; intros queue counts visited acc K Hod Hfuel.
    - destruct queue as [|cur rest].
      + exists acc, counts, visited. rewrite kahn_nil. auto.
      + exfalso. pose proof (kinv_length _ _ _ _ _ K) as Hl. simpl in Hl, Hfuel. lia.
    - destruct queue as [|cur rest].
      + exists acc, counts, visited. rewrite kahn_nil. auto.
      + rewrite kahn_step. apply kinv_pop in K.
        destruct (visit_outs_ok g (cur :: acc) cur Hwf (or_introl eq_refl)
                                (succs g cur) counts visited rest (fun o Ho => Ho) K)
          as [c' [v' [q' [H1 [H2 [H3 H4]]]]]].
        rewrite H1. cbn [bind].
        apply (IH q' c' v' (cur :: acc) H2).
        * intros a b [Ha|Ha] He.
          -- subst a. apply H4. exact He.
          -- apply H3. apply (Hod a b Ha He).
        * simpl. lia.
  Qed.

  Lemma existsb_false_filter_nil {A} (f : A -> bool) (l : list A) :
    existsb f l = false <-> filter f l = [].
  Proof.
    induction l as [|a r IH]; simpl; [split; reflexivity|].
    destruct (f a); simpl; [split; discriminate | exact IH].
  Qed.

  Lemma has_pred_preds (g : graph) (n : node) : has_pred g n = false <-> preds g n = [].
  Proof.
    unfold Graph.has_pred, Graph.preds. rewrite existsb_false_filter_nil. split.
    - intros H. rewrite H. reflexivity.
    - intros H. destruct (filter _ (g_succ g)); [reflexivity | discriminate].
  Qed.

  Lemma assoc_map_key {V} (f : node -> V) (l : list node) (x : node) :
    assoc (map (fun n => (n, f n)) l) x = if memb x l then Some (f x) else None.
  Proof.
    induction l as [|a r IH]; simpl; [reflexivity|].
    destruct (eqb x a) eqn:E; simpl.
    - apply eqb_spec in E. subst. reflexivity.
    - exact IH.
  Qed.

  Lemma cnt_init (g : graph) (x : node) :
    wf_graph g -> cnt (init_counts g) x = length (preds g x).
  Proof.
    intros Hwf. unfold cnt, cntN, Graph.init_counts.
    rewrite (assoc_map_key (fun n => N.of_nat (length (preds g n)))).
    destruct (memb x (g_nodes g)) eqn:E.
    - apply Nat2N.id.
    - apply memb_false in E. destruct (preds g x) as [|a l] eqn:Ep; [reflexivity|].
      exfalso. apply E. assert (Ha : In a (preds g x)) by (rewrite Ep; left; reflexivity).
      apply In_preds in Ha; [|exact Hwf]. apply (edge_nodes g a x Hwf Ha).
  Qed.

  Lemma kinv_init (g : graph) : wf_graph g -> kinv g [] (init_queue g) (init_counts g) [].
  Proof.
    intros Hwf. constructor.
    - constructor.
    - intros a b [].
    - intros x. rewrite cnt_init; [|exact Hwf]. simpl. lia.
    - simpl. unfold Graph.init_queue. apply NoDup_filter. apply Hwf.
    - simpl. intros x Hx. unfold Graph.init_queue in Hx. apply filter_In in Hx.
      destruct Hx as [Hn Hp]. split; [|exact Hn]. rewrite cnt_init; [|exact Hwf].
      apply negb_true_iff in Hp. apply has_pred_preds in Hp. rewrite Hp. reflexivity.
    - simpl. intros x Hx Hz. rewrite cnt_init in Hz; [|exact Hwf].
      unfold Graph.init_queue. apply filter_In. split; [exact Hx|].
      apply negb_true_iff. apply has_pred_preds. destruct (preds g x); [reflexivity | discriminate].
    - intros x a Hx He. unfold Graph.init_queue in Hx. apply filter_In in Hx.
      destruct Hx as [_ Hp]. apply negb_true_iff in Hp. apply has_pred_preds in Hp.
      apply In_preds in He; [|exact Hwf]. rewrite Hp in He. destruct He.
    - exact I.
  Qed.

  Lemma kahn_run (g : graph) : wf_graph g ->
    exists acc counts visited,
      kahn_loop (S (length (g_nodes g))) g (init_queue g) (init_counts g) [] []
      = Ok (rev acc, visited) /\
      kinv g acc [] counts visited /\ outs_done g acc visited.
  Proof.
    intros Hwf.
    apply (kahn_loop_ok g Hwf _ _ _ _ _ (kinv_init g Hwf)).
    - intros a b [].
    - simpl. lia.
  Qed.

  Theorem kahn_total : stmt_kahn_total node eqb.
  Proof.
    intros g Hwf. destruct (kahn_run g Hwf) as [acc [counts [visited [H _]]]].
    exists (rev acc), visited. exact H.
  Qed.


  (* ================================================================================ *)
  (* Part 3: an order answer is a linear extension; linear extensions exclude cycles   *)
  (* ================================================================================ *)

  Definition all_edges (g : graph) : list (node * node) :=
    flat_map (fun kv => map (pair (fst kv)) (snd kv)) (g_succ g).

  Lemma all_edges_length (g : graph) : length (all_edges g) = edge_total g.
  Proof.
    unfold all_edges, Graph.edge_total. induction (g_succ g) as [|kv r IH]; simpl; [reflexivity|].
    rewrite app_length, map_length, IH. reflexivity.
  Qed.

  Lemma In_all_edges (g : graph) (a b : node) :
    wf_graph g -> (In (a, b) (all_edges g) <-> edge g a b).
  Proof.
    intros Hwf. unfold all_edges. rewrite in_flat_map. split.
    - intros [[k l] [Hin Hm]]. simpl in Hm. apply in_map_iff in Hm.
      destruct Hm as [b' [Heq Hb]]. inversion Heq. subst.
      apply (listed_edge g a b l Hwf Hin Hb).
    - intros He. destruct (edge_listed _ _ _ He) as [l [Hin Hb]].
      exists (a, l). split; [exact Hin|]. simpl. apply in_map. exact Hb.
  Qed.

  Lemma NoDup_app_intro {A} (l1 l2 : list A) :
    NoDup l1 -> NoDup l2 -> (forall x, In x l1 -> ~ In x l2) -> NoDup (l1 ++ l2).
  Proof.
    induction l1 as [|a l1 IH]; intros H1 H2 Hd; [exact H2|].
    inversion H1 as [|a' l' Hnotin Hnd]. subst. simpl. constructor.
    - intros Hin. apply in_app_or in Hin. destruct Hin as [Hin|Hin]; [contradiction|].
      apply (Hd a); [left; reflexivity | exact Hin].
    - apply IH; [exact Hnd | exact H2|]. intros x Hx. apply Hd. right. exact Hx.
  Qed.

  Lemma NoDup_map_pair (k : node) : forall (l : list node), NoDup l -> NoDup (map (pair k) l).
  Proof.
    induction l as [|a l IH]; intros H; simpl; [constructor|].
    inversion H as [|a' l' Hnotin Hnd]. subst. constructor; [|apply IH; exact Hnd].
    intros Hin. apply in_map_iff in Hin. destruct Hin as [b [Heq Hb]].
    inversion Heq. subst. contradiction.
  Qed.

  Lemma all_edges_nodup_gen : forall (l : list (node * list node)),
    NoDup (map fst l) -> (forall a s, In (a, s) l -> NoDup s) ->
    NoDup (flat_map (fun kv => map (pair (fst kv)) (snd kv)) l).
  Proof.
    induction l as [|[k s] r IH]; intros Hk Hs; simpl; [constructor|].
    inversion Hk as [|k' ks Hnotin Hnd]. subst.
    apply NoDup_app_intro.
    - apply NoDup_map_pair. apply (Hs k s). left. reflexivity.
    - apply IH; [exact Hnd|]. intros a s' Hin. apply (Hs a s'). right. exact Hin.
    - intros [a b] Hin1 Hin2. apply in_map_iff in Hin1. destruct Hin1 as [b' [Heq _]].
      inversion Heq. subst. apply in_flat_map in Hin2. destruct Hin2 as [[k' s'] [Hin Hm]].
      simpl in Hm. apply in_map_iff in Hm. destruct Hm as [b'' [Heq2 _]]. inversion Heq2. subst.
      apply Hnotin. apply in_map_iff. exists (a, s'). split; [reflexivity | exact Hin].
  Qed.

  Lemma all_edges_nodup (g : graph) : wf_graph g -> NoDup (all_edges g).
  Proof.
    intros [_ [Hk [Hs _]]]. apply all_edges_nodup_gen; [exact Hk|].
    intros a s Hin. apply (Hs a s Hin).
  Qed.

  Lemma vis_incl_all (g : graph) (vis : list (node * node)) :
    wf_graph g -> vis_edges g vis -> incl vis (all_edges g).
  Proof.
    intros Hwf Hv [a b] Hin. apply In_all_edges; [exact Hwf|]. apply Hv. exact Hin.
  Qed.

  Lemma final_all_visited (g : graph) acc counts visited :
    wf_graph g -> kinv g acc [] counts visited -> length visited = edge_total g ->
    forall a b, edge g a b -> In (a, b) visited.
  Proof.
    intros Hwf K Hlen a b He.
    assert (Hincl : incl (all_edges g) visited).
    { apply NoDup_length_incl.
      - apply (k_nodup_vis _ _ _ _ _ K).
      - rewrite all_edges_length. lia.
      - apply vis_incl_all; [exact Hwf | apply (kinv_vis_edges _ _ _ _ _ K)]. }
    apply Hincl. apply In_all_edges; assumption.
  Qed.

  Lemma final_linear (g : graph) acc counts visited :
    wf_graph g -> kinv g acc [] counts visited ->
    (forall a b, edge g a b -> In (a, b) visited) ->
    linear_extension g (rev acc).
  Proof.
    intros Hwf K Hall.
    assert (Hemit : forall n, In n (g_nodes g) -> In n acc).
    { intros n Hn.
      pose proof (k_zero_in _ _ _ _ _ K n Hn) as Hz. rewrite app_nil_r in Hz. apply Hz.
      pose proof (k_cnt _ _ _ _ _ K n) as Hc.
      pose proof (into_ge g n visited Hwf (fun a He => Hall a n He)) as Hge. lia. }
    split; [|split].
    - apply NoDup_rev. pose proof (k_nodup_q _ _ _ _ _ K) as H. rewrite app_nil_r in H. exact H.
    - intros n. rewrite <- in_rev. split.
      + intros Hn. apply (k_zero _ _ _ _ _ K n). rewrite app_nil_r. exact Hn.
      + apply Hemit.
    - intros a b He.
      assert (Hb : In b acc) by (apply Hemit; apply (edge_nodes g a b Hwf He)).
      destruct (in_split _ _ Hb) as [m1 [m2 Hacc]].
      pose proof (k_order _ _ _ _ _ K) as Hord. rewrite Hacc in Hord.
      apply pred_closed_app_r in Hord. destruct Hord as [Hpb _].
      destruct (in_split _ _ (Hpb a He)) as [n1 [n2 Hm2]].
      exists (rev n2), (rev n1), (rev m1). rewrite Hacc, Hm2.
      repeat (rewrite rev_app_distr || simpl || rewrite <- app_assoc). reflexivity.
  Qed.

  Lemma toposort_inl (g : graph) (order : list node) :
    wf_graph g -> toposort g = Ok (inl order) ->
    exists acc counts visited, order = rev acc /\ kinv g acc [] counts visited /\
      outs_done g acc visited /\ length visited = edge_total g.
  Proof.
    intros Hwf Hr. destruct (kahn_run g Hwf) as [acc [counts [visited [Hk [K Hod]]]]].
    unfold Graph.toposort in Hr. rewrite Hk in Hr. cbn [bind] in Hr.
    destruct (N.of_nat (length visited) =? g_num_edges g)%N eqn:E.
    - inversion Hr. subst order. exists acc, counts, visited.
      split; [reflexivity|]. split; [exact K|]. split; [exact Hod|].
      apply N.eqb_eq in E. destruct Hwf as [_ [_ [_ Hne]]]. rewrite Hne in E.
      apply Nat2N.inj. exact E.
    - destruct (find_cycle g); discriminate.
  Qed.

  Theorem order_valid : stmt_order_valid node eqb.
  Proof.
    intros g order Hwf Hr.
    destruct (toposort_inl g order Hwf Hr) as [acc [counts [visited [Ho [K [_ Hlen]]]]]].
    subst order. apply (final_linear g acc counts visited Hwf K).
    apply (final_all_visited g acc counts visited Hwf K Hlen).
  Qed.

  Definition fwd (g : graph) (l : list node) : Prop :=
    forall a b, In a l -> edge g a b -> exists l1 l2 l3, l = l1 ++ a :: l2 ++ b :: l3.

  Lemma fwd_topo (g : graph) : forall l, NoDup l -> fwd g l -> topo_closed g l.
  Proof.
    induction l as [|x r IH]; intros Hnd Hf; [exact I|].
    inversion Hnd as [|x' r' Hnotin Hnd']. subst. split.
    - intros s He. destruct (Hf x s (or_introl eq_refl) He) as [l1 [l2 [l3 Heq]]].
      destruct l1 as [|y l1]; simpl in Heq.
      + assert (Hr : r = l2 ++ s :: l3) by congruence.
        rewrite Hr. apply in_or_app. right. left. reflexivity.
      + assert (Hr : r = l1 ++ x :: l2 ++ s :: l3) by congruence.
        exfalso. apply Hnotin. rewrite Hr. apply in_or_app. right. left. reflexivity.
    - apply IH; [exact Hnd'|]. intros a b Ha He.
      destruct (Hf a b (or_intror Ha) He) as [l1 [l2 [l3 Heq]]].
      destruct l1 as [|y l1]; simpl in Heq.
      + assert (Hx : x = a) by congruence. subst a. contradiction.
      + assert (Hr : r = l1 ++ a :: l2 ++ b :: l3) by congruence.
        exists l1, l2, l3. exact Hr.
  Qed.

  Lemma linear_extension_acyclic (g : graph) (order : list node) :
    wf_graph g -> linear_extension g order -> ~ has_cycle g.
  Proof.
    intros Hwf [Hnd [Hmem Hfw]]. apply (topo_acyclic g order Hwf).
    - apply fwd_topo; [exact Hnd|]. intros a b _ He. apply Hfw. exact He.
    - intros x Hx. apply Hmem. exact Hx.
  Qed.

  Theorem order_implies_acyclic : stmt_order_implies_acyclic node eqb.
  Proof.
    intros g order Hwf Hr. apply (linear_extension_acyclic g order Hwf).
    apply (order_valid g order Hwf Hr).
  Qed.

  (* ================================================================================ *)
  (* Part 4: if Kahn leaves an edge unvisited there is a cycle                         *)
  (* ================================================================================ *)

  Lemma find_missing {A} (Q : A -> Prop) (Qdec : forall a, {Q a} + {~ Q a}) : forall (l : list A),
    (forall a, In a l -> Q a) \/ (exists a, In a l /\ ~ Q a).
  Proof.
    induction l as [|a l IH]; [left; intros a []|].
    destruct (Qdec a) as [Hq|Hq].
    - destruct IH as [IH|[b [Hb Hnq]]].
      + left. intros b [Hb|Hb]; [subst; exact Hq | apply IH; exact Hb].
      + right. exists b. split; [right; exact Hb | exact Hnq].
    - right. exists a. split; [left; reflexivity | exact Hq].
  Qed.

  Lemma dup_split : forall (l : list node),
    NoDup l \/ exists x l1 l2 l3, l = l1 ++ x :: l2 ++ x :: l3.
  Proof.
    induction l as [|a r IH]; [left; constructor|].
    destruct IH as [Hnd|[x [l1 [l2 [l3 Heq]]]]].
    - destruct (in_dec node_eq_dec a r) as [Hin|Hnot].
      + right. destruct (in_split _ _ Hin) as [m1 [m2 Hr]].
        exists a, [], m1, m2. rewrite Hr. reflexivity.
      + left. constructor; assumption.
    - right. exists x, (a :: l1), l2, l3. rewrite Heq. reflexivity.
  Qed.

  Lemma path_dup_cycle (g : graph) (x : node) (l1 l2 l3 : list node) :
    is_path g (l1 ++ x :: l2 ++ x :: l3) = true -> is_cycle g (x :: l2) = true.
  Proof.
    intros Hp. apply is_path_app_r in Hp.
    change (x :: l2 ++ x :: l3) with ((x :: l2) ++ [x] ++ l3) in Hp.
    rewrite app_assoc in Hp. apply is_path_app_l in Hp.
    destruct (path_close g x x l2 x Hp) as [H1 H2].
    unfold Graph.is_cycle. rewrite H1, H2. reflexivity.
  Qed.

  (* a backwards closed set of nodes inside g_nodes yields a cycle *)
  Lemma back_walk (g : graph) (P : node -> Prop) :
    (forall u, P u -> exists a, edge g a u /\ P a) ->
    forall n u, P u -> exists h t, length (h :: t) = S n /\ is_path g (h :: t) = true /\
                                   P h /\ forall x, In x (h :: t) -> P x.
  Proof.
    intros Hstep. induction n as [|n IH]; intros u Hu.
    - exists u, []. split; [reflexivity|]. split; [reflexivity|]. split; [exact Hu|].
      intros x [Hx|[]]. subst. exact Hu.
    - destruct (IH u Hu) as [h [t [Hlen [Hp [Hh Hall]]]]].
      destruct (Hstep h Hh) as [a [He Ha]].
      exists a, (h :: t). split; [simpl in *; lia|]. split.
      + rewrite is_path_cons2. rewrite Hp.
        assert (H : is_edge g a h = true) by (apply is_edge_iff; exact He).
        rewrite H. reflexivity.
      + split; [exact Ha|]. intros x [Hx|Hx]; [subst; exact Ha | apply Hall; exact Hx].
  Qed.

  Lemma back_closed_cycle (g : graph) (P : node -> Prop) (u : node) :
    (forall x, P x -> In x (g_nodes g)) ->
    (forall x, P x -> exists a, edge g a x /\ P a) ->
    P u -> has_cycle g.
  Proof.
    intros Hsub Hstep Hu.
    destruct (back_walk g P Hstep (length (g_nodes g)) u Hu) as [h [t [Hlen [Hp [_ Hall]]]]].
    destruct (dup_split (h :: t)) as [Hnd|[x [l1 [l2 [l3 Heq]]]]].
    - exfalso. assert (Hincl : incl (h :: t) (g_nodes g)).
      { intros y Hy. apply Hsub. apply Hall. exact Hy. }
      pose proof (NoDup_incl_length Hnd Hincl) as Hle. lia.
    - exists (x :: l2). rewrite Heq in Hp. apply (path_dup_cycle g x l1 l2 l3 Hp).
  Qed.

  Theorem kahn_stuck_implies_cycle : stmt_kahn_stuck_implies_cycle node eqb.
  Proof.
    intros g order visited Hwf Hrun Hneq.
    destruct (kahn_run g Hwf) as [acc [counts [visited' [Hk [K Hod]]]]].
    rewrite Hk in Hrun. inversion Hrun. subst order visited'. clear Hrun.
    pose proof (kinv_vis_edges _ _ _ _ _ K) as Hv.
    pose proof (k_nodup_vis _ _ _ _ _ K) as Hndv.
    (* an unvisited edge *)
    assert (Hmiss : exists e, In e (all_edges g) /\ ~ In e visited).
    { destruct (find_missing (fun e => In e visited)
                             (fun e => in_dec pair_eq_dec e visited) (all_edges g)) as [Hall|Hex].
      - exfalso. pose proof (NoDup_incl_length (all_edges_nodup g Hwf) Hall) as H1.
        pose proof (NoDup_incl_length Hndv (vis_incl_all g visited Hwf Hv)) as H2.
        rewrite all_edges_length in H1, H2. apply Hneq.
        destruct Hwf as [_ [_ [_ Hne]]]. rewrite Hne. f_equal. lia.
      - exact Hex. }
    destruct Hmiss as [[a0 b0] [He0 Hnv0]]. apply In_all_edges in He0; [|exact Hwf].
    set (P := fun u => In u (g_nodes g) /\ ~ In u acc).
    apply (back_closed_cycle g P a0).
    - intros x [Hx _]. exact Hx.
    - intros x [Hx Hnx].
      assert (Hcx : cnt counts x <> 0).
      { intros Hz. apply Hnx. pose proof (k_zero_in _ _ _ _ _ K x Hx Hz) as H.
        rewrite app_nil_r in H. exact H. }
      destruct (find_missing (fun a => In (a, x) visited)
                             (fun a => in_dec pair_eq_dec (a, x) visited) (preds g x)) as [Hall|Hex].
      + exfalso. pose proof (k_cnt _ _ _ _ _ K x) as Hc.
        assert (Hge : length (preds g x) <= length (into x visited)).
        { apply into_ge; [exact Hwf|]. intros a Ha. apply Hall. apply In_preds; assumption. }
        lia.
      + destruct Hex as [a [Ha Hnv]]. apply In_preds in Ha; [|exact Hwf].
        exists a. split; [exact Ha|]. split; [apply (edge_nodes g a x Hwf Ha)|].
        intros Hacc. apply Hnv. apply (Hod a x Hacc Ha).
    - split; [apply (edge_nodes g a0 b0 Hwf He0)|].
      intros Hacc. apply Hnv0. apply (Hod a0 b0 Hacc He0).
  Qed.


  (* ================================================================================ *)
  (* Part 5: find_cycle finds a cycle whenever there is one                            *)
  (* ================================================================================ *)

  Definition known (ps : parents_t) (x : node) : bool :=
    match assoc ps x with Some _ => true | None => false end.

  Lemma known_set_parent (ps : parents_t) (n : node) (p : option node) (x : node) :
    known (set_parent ps n p) x = eqb x n || known ps x.
  Proof.
    unfold known. rewrite assoc_set_parent. destruct (eqb x n); reflexivity.
  Qed.

  Lemma known_set_known (ps : parents_t) (n : node) (p : option node) (x : node) :
    known ps n = true -> known (set_parent ps n p) x = known ps x.
  Proof.
    intros Hk. rewrite known_set_parent. destruct (eqb x n) eqn:E; [|reflexivity].
    apply eqb_spec in E. subst x. rewrite Hk. reflexivity.
  Qed.

  (* ---- fuel: pending out-edges of nodes not yet discovered ---------------------------- *)
  Definition potl (ps : parents_t) (l : list (node * list node)) : nat :=
    fold_right (fun kv acc => (if known ps (fst kv) then 0 else length (snd kv)) + acc) 0 l.

  Definition pot (g : graph) (ps : parents_t) : nat := potl ps (g_succ g).

  Lemma potl_ext (ps ps' : parents_t) : forall l,
    (forall x, In x (map fst l) -> known ps' x = known ps x) -> potl ps' l = potl ps l.
  Proof.
    induction l as [|[k v] r IH]; intros H; simpl; [reflexivity|].
    rewrite (H k (or_introl eq_refl)). rewrite IH; [reflexivity|].
    intros x Hx. apply H. right. exact Hx.
  Qed.

  Lemma potl_set_unknown (ps : parents_t) (n : node) (p : option node) : forall l,
    known ps n = false -> NoDup (map fst l) ->
    potl (set_parent ps n p) l + length (match assoc l n with Some s => s | None => [] end)
    = potl ps l.
  Proof.
    intros l Hk. induction l as [|[k v] r IH]; intros Hnd; simpl; [reflexivity|].
    inversion Hnd as [|k' ks Hnotin Hnd']. subst.
    destruct (eqb n k) eqn:E.
    - apply eqb_spec in E. subst k. rewrite known_set_parent. rewrite eqb_refl. simpl.
      rewrite Hk. rewrite (potl_ext ps (set_parent ps n p) r); [lia|].
      intros x Hx. rewrite known_set_parent. destruct (eqb x n) eqn:E2; [|reflexivity].
      apply eqb_spec in E2. subst x. contradiction.
    - rewrite known_set_parent. rewrite eqb_sym. rewrite E. simpl.
      specialize (IH Hnd'). lia.
  Qed.

  Lemma pot_set_unknown (g : graph) (ps : parents_t) (n : node) (p : option node) :
    wf_graph g -> known ps n = false ->
    pot g (set_parent ps n p) + length (succs g n) = pot g ps.
  Proof.
    intros [_ [Hk _]] Hn. unfold pot, Graph.succs. apply potl_set_unknown; assumption.
  Qed.

  Lemma pot_set_known (g : graph) (ps : parents_t) (n : node) (p : option node) :
    known ps n = true -> pot g (set_parent ps n p) = pot g ps.
  Proof.
    intros Hn. unfold pot. apply potl_ext. intros x _. apply known_set_known. exact Hn.
  Qed.

  Lemma push_outs_length (cur : node) (outs : list node) (rest : list (option node * node)) :
    length (push_outs cur outs rest) = length outs + length rest.
  Proof.
    rewrite push_outs_eq. rewrite app_length, map_length, rev_length. reflexivity.
  Qed.

  (* ---- ghost structure of the search --------------------------------------------------- *)
  (* a frame: an open node with its out-edges still to be popped *)
  Notation frame := (node * list node)%type.

  Definition flatten (frames : list frame) : list (option node * node) :=
    flat_map (fun f => map (fun o => (Some (fst f), o)) (snd f)) frames.

  Definition roots_stack (roots : list node) : list (option node * node) :=
    map (fun n => (@None node, n)) roots.

  Lemma flatten_cons (f : frame) (fs : list frame) :
    flatten (f :: fs) = map (fun o => (Some (fst f), o)) (snd f) ++ flatten fs.
  Proof. reflexivity. Qed.

  Lemma flatten_pop (p o : node) (rem : list node) (r : list frame) :
    flatten ((p, o :: rem) :: r) = (Some p, o) :: flatten ((p, rem) :: r).
  Proof. reflexivity. Qed.

  Lemma flatten_empty (p : node) (r : list frame) : flatten ((p, []) :: r) = flatten r.
  Proof. reflexivity. Qed.

  (* the open nodes, innermost first, are linked by the parents map *)
  Fixpoint chain (ps : parents_t) (l : list node) : Prop :=
    match l with
    | a :: ((b :: _) as r) => assoc ps a = Some (Some b) /\ chain ps r
    | _ => True
    end.

  Lemma chain_set_parent (ps : parents_t) (n : node) (p : option node) : forall l,
    (forall x, In x l -> x <> n) -> chain ps l -> chain (set_parent ps n p) l.
  Proof.
    induction l as [|a l IH]; intros Hne Hc; [exact I|].
    destruct l as [|b l]; [exact I|].
    destruct Hc as [H1 H2]. split.
    - rewrite assoc_set_parent.
      assert (E : eqb a n = false) by (apply eqb_false_iff; apply Hne; left; reflexivity).
      rewrite E. exact H1.
    - apply IH; [|exact H2]. intros x Hx. apply Hne. right. exact Hx.
  Qed.

  (* each out-edge of an open node is still pending, or leads to a finished node, or to the
     open node directly above *)
  Fixpoint frames_ok (g : graph) (fin : list node) (above : option node) (frames : list frame)
    : Prop :=
    match frames with
    | [] => True
    | f :: r =>
        (forall s, edge g (fst f) s -> In s (snd f) \/ In s fin \/ above = Some s) /\
        (forall s, In s (snd f) -> edge g (fst f) s) /\
        frames_ok g fin (Some (fst f)) r
    end.

  Lemma frames_ok_mono (g : graph) (fin fin' : list node) :
    (forall x, In x fin -> In x fin') ->
    forall frames above, frames_ok g fin above frames -> frames_ok g fin' above frames.
  Proof.
    intros Hsub. induction frames as [|f r IH]; intros above H; [exact I|].
    destruct H as [H1 [H2 H3]]. split; [|split].
    - intros s He. destruct (H1 s He) as [H|[H|H]]; auto.
    - exact H2.
    - apply IH. exact H3.
  Qed.

  Lemma frames_ok_finish (g : graph) (fin : list node) (p : node) (frames : list frame) :
    frames_ok g fin (Some p) frames -> frames_ok g (p :: fin) None frames.
  Proof.
    destruct frames as [|f r]; intros H; [exact I|].
    destruct H as [H1 [H2 H3]]. split; [|split].
    - intros s He. destruct (H1 s He) as [H|[H|H]].
      + left. exact H.
      + right. left. right. exact H.
      + right. left. left. inversion H. reflexivity.
    - exact H2.
    - apply (frames_ok_mono g fin (p :: fin)); [intros x Hx; right; exact Hx | exact H3].
  Qed.

  Record finv (g : graph) (stack : list (option node * node)) (ps : parents_t)
         (frames : list frame) (roots fin : list node) : Prop := mkFinv {
    f_stack : stack = flatten frames ++ roots_stack roots;
    f_known : forall x, known ps x = true <-> In x (map fst frames) \/ In x fin;
    f_nodup : NoDup (map fst frames);
    f_nodes : forall x, In x (map fst frames) -> In x (g_nodes g);
    f_chain : chain ps (map fst frames);
    f_topo : topo_closed g fin;
    f_frames : frames_ok g fin None frames;
    f_roots : forall x, In x (g_nodes g) -> known ps x = true \/ In x roots;
    f_roots_nodes : forall x, In x roots -> In x (g_nodes g)
  }.

  (* closing an exhausted frame: a ghost step *)
  Lemma finv_finish (g : graph) stack ps (p : node) (r : list frame) roots fin :
    finv g stack ps ((p, []) :: r) roots fin -> finv g stack ps r roots (p :: fin).
  Proof.
    intros F. constructor.
    - rewrite (f_stack _ _ _ _ _ _ F). rewrite flatten_empty. reflexivity.
    - intros x. rewrite (f_known _ _ _ _ _ _ F x). simpl. tauto.
    - pose proof (f_nodup _ _ _ _ _ _ F) as H. inversion H. assumption.
    - intros x Hx. apply (f_nodes _ _ _ _ _ _ F). right. exact Hx.
    - pose proof (f_chain _ _ _ _ _ _ F) as H. simpl map in H.
      destruct (map fst r) as [|b l]; [exact I | apply H].
    - simpl. split; [|apply (f_topo _ _ _ _ _ _ F)].
      intros s He. destruct (f_frames _ _ _ _ _ _ F) as [H1 _].
      destruct (H1 s He) as [[]|[H|H]]; [exact H | discriminate].
    - destruct (f_frames _ _ _ _ _ _ F) as [_ [_ H3]]. apply frames_ok_finish. exact H3.
    - apply (f_roots _ _ _ _ _ _ F).
    - apply (f_roots_nodes _ _ _ _ _ _ F).
  Qed.

  Lemma finv_normalize (g : graph) stack ps roots : forall frames fin,
    finv g stack ps frames roots fin ->
    exists frames' fin', finv g stack ps frames' roots fin' /\
      (frames' = [] \/ exists p o rem r, frames' = (p, o :: rem) :: r).
  Proof.
    induction frames as [|[p rem] r IH]; intros fin F.
    - exists [], fin. split; [exact F | left; reflexivity].
    - destruct rem as [|o rem].
      + apply (IH (p :: fin)). apply finv_finish. exact F.
      + exists ((p, o :: rem) :: r), fin. split; [exact F|]. right. exists p, o, rem, r. reflexivity.
  Qed.

  (* popping a root entry of a finished node (quirk: its parent entry is overwritten) *)
  Lemma finv_root_known (g : graph) (n : node) (roots : list node) ps fin :
    finv g ((None, n) :: roots_stack roots) ps [] (n :: roots) fin ->
    known ps n = true ->
    finv g (roots_stack roots) (set_parent ps n None) [] roots fin.
  Proof.
    intros F Hk.
    assert (Hsame : forall x, known (set_parent ps n None) x = known ps x).
    { intros x. apply known_set_known. exact Hk. }
    constructor.
    - reflexivity.
    - intros x. rewrite Hsame. apply (f_known _ _ _ _ _ _ F).
    - constructor.
    - intros x [].
    - exact I.
    - apply (f_topo _ _ _ _ _ _ F).
    - exact I.
    - intros x Hx. rewrite Hsame. destruct (f_roots _ _ _ _ _ _ F x Hx) as [H|[H|H]].
      + left. exact H.
      + subst x. left. exact Hk.
      + right. exact H.
    - intros x Hx. apply (f_roots_nodes _ _ _ _ _ _ F). right. exact Hx.
  Qed.

  (* popping a root entry of an undiscovered node: it becomes the only open node *)
  Lemma finv_root_new (g : graph) (n : node) (roots : list node) ps fin :
    finv g ((None, n) :: roots_stack roots) ps [] (n :: roots) fin ->
    known ps n = false ->
    finv g (push_outs n (succs g n) (roots_stack roots)) (set_parent ps n None)
         [(n, rev (succs g n))] roots fin.
  Proof.
    intros F Hk. constructor.
    - rewrite push_outs_eq. rewrite flatten_cons. simpl. rewrite app_nil_r. reflexivity.
    - intros x. rewrite known_set_parent. rewrite orb_true_iff. rewrite eqb_spec.
      rewrite (f_known _ _ _ _ _ _ F x). simpl. intuition.
    - simpl. constructor; [intros [] | constructor].
    - intros x [Hx|[]]. simpl in Hx. subst x. apply (f_roots_nodes _ _ _ _ _ _ F). left. reflexivity.
    - exact I.
    - apply (f_topo _ _ _ _ _ _ F).
    - simpl. split; [|split; [|exact I]].
      + intros s He. left. apply -> in_rev. exact He.
      + intros s Hs. apply in_rev in Hs. exact Hs.
    - intros x Hx. rewrite known_set_parent. destruct (f_roots _ _ _ _ _ _ F x Hx) as [H|[H|H]].
      + left. rewrite H. apply orb_true_r.
      + subst x. left. rewrite eqb_refl. reflexivity.
      + right. exact H.
    - intros x Hx. apply (f_roots_nodes _ _ _ _ _ _ F). right. exact Hx.
  Qed.

  (* popping an out-edge to a finished node *)
  Lemma finv_skip (g : graph) (p o : node) (rem : list node) (r : list frame) rest ps roots fin :
    finv g ((Some p, o) :: rest) ps ((p, o :: rem) :: r) roots fin ->
    In o fin ->
    finv g rest ps ((p, rem) :: r) roots fin.
  Proof.
    intros F Ho. constructor.
    - pose proof (f_stack _ _ _ _ _ _ F) as H. rewrite flatten_pop in H. simpl in H.
      inversion H. reflexivity.
    - apply (f_known _ _ _ _ _ _ F).
    - apply (f_nodup _ _ _ _ _ _ F).
    - apply (f_nodes _ _ _ _ _ _ F).
    - apply (f_chain _ _ _ _ _ _ F).
    - apply (f_topo _ _ _ _ _ _ F).
    - destruct (f_frames _ _ _ _ _ _ F) as [H1 [H2 H3]]. simpl in H1, H2, H3.
      split; [|split].
      + intros s He. simpl. destruct (H1 s He) as [[H|H]|[H|H]].
        * subst s. right. left. exact Ho.
        * left. exact H.
        * right. left. exact H.
        * discriminate.
      + intros s Hs. apply H2. right. exact Hs.
      + exact H3.
    - apply (f_roots _ _ _ _ _ _ F).
    - apply (f_roots_nodes _ _ _ _ _ _ F).
  Qed.

  (* popping an out-edge to an undiscovered node: it becomes the innermost open node *)
  Lemma finv_discover (g : graph) (p o : node) (rem : list node) (r : list frame) rest ps roots fin :
    wf_graph g ->
    finv g ((Some p, o) :: rest) ps ((p, o :: rem) :: r) roots fin ->
    known ps o = false ->
    finv g (push_outs o (succs g o) rest) (set_parent ps o (Some p))
         ((o, rev (succs g o)) :: (p, rem) :: r) roots fin.
  Proof.
    intros Hwf F Hk.
    assert (Hne : forall x, In x (map fst ((p, o :: rem) :: r)) -> x <> o).
    { intros x Hx Heq. subst x.
      assert (H : known ps o = true) by (apply (f_known _ _ _ _ _ _ F); left; exact Hx).
      rewrite H in Hk. discriminate. }
    destruct (f_frames _ _ _ _ _ _ F) as [H1 [H2 H3]]. simpl in H1, H2, H3.
    constructor.
    - pose proof (f_stack _ _ _ _ _ _ F) as H. rewrite flatten_pop in H.
      rewrite <- app_comm_cons in H. injection H as Hrest.
      rewrite Hrest. rewrite push_outs_eq.
      rewrite (flatten_cons (o, rev (succs g o)) ((p, rem) :: r)).
      rewrite (flatten_cons (p, rem) r). simpl fst. simpl snd.
      repeat rewrite <- app_assoc. reflexivity.
    - intros x. rewrite known_set_parent. rewrite orb_true_iff. rewrite eqb_spec.
      rewrite (f_known _ _ _ _ _ _ F x). simpl. intuition.
    - simpl. constructor; [|apply (f_nodup _ _ _ _ _ _ F)].
      intros Hin. apply (Hne o); [exact Hin | reflexivity].
    - intros x [Hx|Hx].
      + simpl in Hx. subst x. apply (edge_nodes g p o Hwf). apply H2. left. reflexivity.
      + apply (f_nodes _ _ _ _ _ _ F). exact Hx.
    - change (chain (set_parent ps o (Some p)) (o :: p :: map fst r)). split.
      + rewrite assoc_set_parent. rewrite eqb_refl. reflexivity.
      + apply (chain_set_parent ps o (Some p) (p :: map fst r));
          [exact Hne | apply (f_chain _ _ _ _ _ _ F)].
    - apply (f_topo _ _ _ _ _ _ F).
    - simpl. split; [|split; [|split; [|split]]].
      + intros s He. left. apply -> in_rev. exact He.
      + intros s Hs. apply in_rev in Hs. exact Hs.
      + intros s He. destruct (H1 s He) as [[H|H]|[H|H]].
        * subst s. right. right. reflexivity.
        * left. exact H.
        * right. left. exact H.
        * discriminate.
      + intros s Hs. apply H2. right. exact Hs.
      + exact H3.
    - intros x Hx. rewrite known_set_parent. destruct (f_roots _ _ _ _ _ _ F x Hx) as [H|H].
      + left. rewrite H. apply orb_true_r.
      + right. exact H.
    - apply (f_roots_nodes _ _ _ _ _ _ F).
  Qed.

  (* an out-edge to an open node: back_path climbs the chain and reaches it *)
  Lemma back_path_hit (fuel : nat) (ps : parents_t) (cur : node) (path : list node) (lst : node) :
    eqb lst cur = true -> back_path fuel ps cur path lst = Some path.
  Proof. intros H. destruct fuel; simpl; rewrite H; reflexivity. Qed.

  Lemma back_path_complete (ps : parents_t) (cur : node) : forall (l : list node) (p : node) fuel path,
    chain ps (p :: l) -> In cur (p :: l) -> length l <= fuel ->
    exists res, back_path fuel ps cur path p = Some res.
  Proof.
    induction l as [|p' l IH]; intros p fuel path Hc Hin Hlen.
    - destruct Hin as [Hin|[]]. subst cur. exists path. apply back_path_hit. apply eqb_refl.
    - destruct (eqb p cur) eqn:E.
      + exists path. apply back_path_hit. exact E.
      + destruct fuel as [|fu]; [simpl in Hlen; lia|].
        destruct Hc as [Hp Hc]. simpl. rewrite E. rewrite Hp.
        apply (IH p' fu (p' :: path) Hc).
        * destruct Hin as [Hin|Hin]; [|exact Hin].
          exfalso. apply eqb_false_iff in E. apply E. exact Hin.
        * simpl in Hlen. lia.
  Qed.

  Lemma fcl_total (g : graph) : wf_graph g -> has_cycle g ->
    forall fuel stack ps frames roots fin,
    finv g stack ps frames roots fin -> length stack + pot g ps < fuel ->
    exists c, find_cycle_loop fuel g stack ps = Ok c.
  Proof.
    intros Hwf Hcyc. induction fuel as [|fu IH]; intros stack ps frames0 roots fin0 F0 Hfuel; [lia|].
    destruct (finv_normalize g stack ps roots frames0 fin0 F0) as [frames [fin [F Hshape]]].
    clear F0 frames0 fin0.
    pose proof (f_stack _ _ _ _ _ _ F) as Hst.
    destruct Hshape as [Hnil | [p [o [rem [r Hf]]]]]; subst frames.
    - simpl in Hst. destruct roots as [|n roots].
      + exfalso. apply (topo_acyclic g fin Hwf (f_topo _ _ _ _ _ _ F)); [|exact Hcyc].
        intros x Hx. destruct (f_roots _ _ _ _ _ _ F x Hx) as [Hk|[]].
        apply (f_known _ _ _ _ _ _ F) in Hk. destruct Hk as [[]|Hk]. exact Hk.
      + simpl in Hst. subst stack. rewrite fcl_step.
        destruct (assoc ps n) as [v|] eqn:Ek.
        * assert (Hk : known ps n = true) by (unfold known; rewrite Ek; reflexivity).
          apply (IH _ _ [] roots fin (finv_root_known g n roots ps fin F Hk)).
          rewrite (pot_set_known g ps n None Hk). simpl in Hfuel. lia.
        * assert (Hk : known ps n = false) by (unfold known; rewrite Ek; reflexivity).
          apply (IH _ _ _ roots fin (finv_root_new g n roots ps fin F Hk)).
          rewrite push_outs_length.
          pose proof (pot_set_unknown g ps n None Hwf Hk) as Hp. simpl in Hfuel. lia.
    - rewrite flatten_pop in Hst. simpl in Hst. subst stack. rewrite fcl_step.
      destruct (assoc ps o) as [v|] eqn:Ek.
      + destruct (back_path (S (length (g_nodes g))) ps o [p] p) as [path|] eqn:Ebp.
        * exists path. reflexivity.
        * assert (Hk : known ps o = true) by (unfold known; rewrite Ek; reflexivity).
          apply (f_known _ _ _ _ _ _ F) in Hk. destruct Hk as [Hopen|Hfin].
          -- exfalso.
             assert (Hlen : length (map fst ((p, o :: rem) :: r)) <= length (g_nodes g)).
             { apply NoDup_incl_length; [apply (f_nodup _ _ _ _ _ _ F)|].
               intros x Hx. apply (f_nodes _ _ _ _ _ _ F x Hx). }
             simpl in Hlen.
             destruct (back_path_complete ps o (map fst r) p (S (length (g_nodes g))) [p]
                         (f_chain _ _ _ _ _ _ F) Hopen) as [res Hres]; [lia|].
             rewrite Hres in Ebp. discriminate.
          -- apply (IH _ _ _ roots fin (finv_skip g p o rem r _ ps roots fin F Hfin)).
             simpl in Hfuel. lia.
      + assert (Hk : known ps o = false) by (unfold known; rewrite Ek; reflexivity).
        apply (IH _ _ _ roots fin (finv_discover g p o rem r _ ps roots fin Hwf F Hk)).
        rewrite push_outs_length.
        pose proof (pot_set_unknown g ps o (Some p) Hwf Hk) as Hp. simpl in Hfuel. lia.
  Qed.

  Lemma potl_nil (l : list (node * list node)) :
    potl [] l = fold_right (fun kv acc => length (snd kv) + acc) 0 l.
  Proof. induction l as [|kv r IH]; simpl; [reflexivity | rewrite IH; reflexivity]. Qed.

  Lemma finv_init (g : graph) :
    finv g (roots_stack (g_nodes g)) [] [] (g_nodes g) [].
  Proof.
    constructor.
    - reflexivity.
    - intros x. simpl. split; [discriminate | intros [[]|[]]].
    - constructor.
    - intros x [].
    - exact I.
    - exact I.
    - exact I.
    - intros x Hx. right. exact Hx.
    - intros x Hx. exact Hx.
  Qed.

  Theorem find_cycle_total : stmt_find_cycle_total node eqb.
  Proof.
    intros g Hwf Hcyc. unfold Graph.find_cycle.
    apply (fcl_total g Hwf Hcyc _ _ _ [] (g_nodes g) [] (finv_init g)).
    unfold roots_stack. rewrite map_length. unfold pot. rewrite potl_nil.
    unfold Graph.edge_total. lia.
  Qed.

  (* ================================================================================ *)
  (* Part 6: exact detection                                                           *)
  (* ================================================================================ *)

  Theorem toposort_exact : stmt_toposort_exact node eqb.
  Proof.
    intros g Hwf.
    destruct (kahn_run g Hwf) as [acc [counts [visited [Hk [K Hod]]]]].
    assert (Hunf : toposort g =
                   if (N.of_nat (length visited) =? g_num_edges g)%N then Ok (inl (rev acc))
                   else bind (find_cycle g) (fun c => Ok (inr c))).
    { unfold Graph.toposort. rewrite Hk. reflexivity. }
    split.
    - intros Hcyc. destruct (N.of_nat (length visited) =? g_num_edges g)%N eqn:E.
      + exfalso. apply (order_implies_acyclic g (rev acc) Hwf Hunf). exact Hcyc.
      + destruct (find_cycle_total g Hwf Hcyc) as [c Hc]. exists c.
        rewrite Hc in Hunf. cbn [bind] in Hunf. split; [exact Hunf|].
        apply (cycle_sound g c Hwf Hc).
    - intros Hnc. destruct (N.of_nat (length visited) =? g_num_edges g)%N eqn:E.
      + exists (rev acc). split; [exact Hunf|]. apply (order_valid g (rev acc) Hwf Hunf).
      + exfalso. apply Hnc. apply N.eqb_neq in E.
        apply (kahn_stuck_implies_cycle g (rev acc) visited Hwf Hk E).
  Qed.


End GraphProofs.

Print Assumptions order_valid.
Print Assumptions order_implies_acyclic.
Print Assumptions cycle_sound.
Print Assumptions cycle_answer_sound.
Print Assumptions kahn_total.
Print Assumptions kahn_stuck_implies_cycle.
Print Assumptions find_cycle_total.
Print Assumptions toposort_exact.
