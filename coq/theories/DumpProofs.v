(* C16 / C18: proofs of the statements of DumpSpec about Base.hex, Machine.dump_memory,
   Machine.dump_bank. *)
From HclV Require Import Base Expr Disasm DisasmProofs Machine MemSpec DumpSpec.
From Coq Require Import Sorted.
From Coq Require Import ZifyN ZifyBool ZifyNat.
Local Ltac Zify.zify_post_hook ::= Z.div_mod_to_equations.
Open Scope string_scope.
Open Scope N_scope.

(* ================================================================================== *)
(* 1. hexadecimal digits                                                              *)
(* ================================================================================== *)

Lemma hexval_hexdigit (d : N) : d < 16 -> hexval (hexdigit d) = Some d.
Proof.
  intros H. destruct (lt16_cases d H) as
    [->|[->|[->|[->|[->|[->|[->|[->|[->|[->|[->|[->|[->|[->|[->| ->]]]]]]]]]]]]]]]; reflexivity.
Qed.

Lemma unhex_acc_app (a b : string) : forall acc,
  unhex_acc (a ++ b) acc =
  match unhex_acc a acc with Some x => unhex_acc b x | None => None end.
Proof.
  induction a as [|c a IH]; intros acc; cbn [String.append unhex_acc]; [reflexivity|].
  destruct (hexval c) as [d|]; [apply IH | reflexivity].
Qed.

Lemma hex_fuel_acc (fuel : nat) : forall n acc,
  hex_fuel fuel n acc = hex_fuel fuel n "" ++ acc.
Proof.
  induction fuel as [|f IH]; intros n acc; cbn [hex_fuel]; [reflexivity|].
  destruct (n <? 16) eqn:E; [reflexivity|].
  rewrite (IH (n / 16) (String (hexdigit (n mod 16)) acc)).
  rewrite (IH (n / 16) (String (hexdigit (n mod 16)) "")).
  rewrite sapp_assoc. reflexivity.
Qed.

Lemma hex_fuel_step (f : nat) (n : N) :
  hex_fuel (S f) n "" =
  if n <? 16 then String (hexdigit (n mod 16)) ""
  else hex_fuel f (n / 16) "" ++ String (hexdigit (n mod 16)) "".
Proof.
  cbn [hex_fuel]. destruct (n <? 16) eqn:E; [reflexivity|]. apply hex_fuel_acc.
Qed.

Lemma pow16_succ (k : nat) : 16 ^ N.of_nat (S k) = 16 * 16 ^ N.of_nat k.
Proof.
  replace (N.of_nat (S k)) with (N.succ (N.of_nat k)) by lia.
  apply N.pow_succ_r. lia.
Qed.

Lemma unhex_hex_fuel (fuel : nat) : forall n,
  n < 16 ^ N.of_nat fuel -> unhex_acc (hex_fuel fuel n "") 0 = Some n.
Proof.
  induction fuel as [|f IH]; intros n Hn.
  - change (16 ^ N.of_nat 0) with 1 in Hn. assert (n = 0) as -> by lia. reflexivity.
  - rewrite hex_fuel_step. rewrite pow16_succ in Hn.
    assert (Hd : n mod 16 < 16) by lia.
    destruct (n <? 16) eqn:E.
    + cbn [unhex_acc]. rewrite (hexval_hexdigit _ Hd). f_equal. lia.
    + rewrite unhex_acc_app. rewrite (IH (n / 16)) by lia.
      cbn [unhex_acc]. rewrite (hexval_hexdigit _ Hd). f_equal. lia.
Qed.

Lemma hex_fuel_nonempty (f : nat) (n : N) : hex_fuel (S f) n "" <> "".
Proof.
  rewrite hex_fuel_step. destruct (n <? 16); [discriminate|].
  destruct (hex_fuel f (n / 16) ""); discriminate.
Qed.

Lemma size_pow16 (n : N) : n < 16 ^ N.of_nat (S (N.to_nat (N.size n))).
Proof.
  rewrite pow16_succ. rewrite N2Nat.id.
  pose proof (N.size_gt n) as H1.
  assert (H2 : 2 ^ N.size n <= 16 ^ N.size n) by (apply N.pow_le_mono_l; lia).
  lia.
Qed.

Lemma unhex_nonempty (s : string) : s <> "" -> unhex s = unhex_acc s 0.
Proof. destruct s; [congruence | reflexivity]. Qed.

Lemma hex_nonempty (n : N) : hex n <> "".
Proof. unfold hex. apply hex_fuel_nonempty. Qed.

Lemma unhex_acc_hex (n : N) : unhex_acc (hex n) 0 = Some n.
Proof. unfold hex. apply unhex_hex_fuel. apply size_pow16. Qed.

Theorem hex_roundtrip_ok : stmt_hex_roundtrip.
Proof.
  intros n. rewrite (unhex_nonempty _ (hex_nonempty n)). apply unhex_acc_hex.
Qed.

(* ================================================================================== *)
(* 2. length of the hexadecimal text                                                  *)
(* ================================================================================== *)

Lemma slen_app (a b : string) : slen (a ++ b) = slen a + slen b.
Proof. unfold slen. rewrite sapp_length. lia. Qed.

Lemma pow16_split (w : N) : 0 < w -> 16 ^ w = 16 * 16 ^ (w - 1).
Proof.
  intros H. replace w with (N.succ (w - 1)) at 1 by lia. apply N.pow_succ_r. lia.
Qed.

Lemma hex_fuel_length (fuel : nat) : forall n w,
  0 < w -> n < 16 ^ w -> slen (hex_fuel fuel n "") <= w.
Proof.
  induction fuel as [|f IH]; intros n w Hw Hn.
  - cbn. lia.
  - rewrite hex_fuel_step. destruct (n <? 16) eqn:E.
    + unfold slen. cbn [String.length]. lia.
    + rewrite slen_app. rewrite (pow16_split w Hw) in Hn.
      assert (Hw1 : 0 < w - 1).
      { destruct (N.eq_dec w 1) as [->|]; [|lia].
        change (16 ^ (1 - 1)) with 1 in Hn. lia. }
      specialize (IH (n / 16) (w - 1) Hw1).
      assert (Hq : n / 16 < 16 ^ (w - 1)) by lia.
      specialize (IH Hq). unfold slen at 2. cbn [String.length]. lia.
Qed.

Lemma pow2_4 (w : N) : 2 ^ (4 * w) = 16 ^ w.
Proof. rewrite N.pow_mul_r. reflexivity. Qed.

Theorem hex_length_ok : stmt_hex_length.
Proof.
  intros n w Hw Hn. rewrite pow2_4 in Hn. unfold hex. apply hex_fuel_length; assumption.
Qed.

(* ================================================================================== *)
(* 3. the value field of the debug table                                              *)
(* ================================================================================== *)

Lemma repeat_char_length (c : ascii) (n : nat) : String.length (repeat_char c n) = n.
Proof. induction n as [|n IH]; cbn; [reflexivity | now rewrite IH]. Qed.

Lemma slen_pad_left (c : ascii) (w : N) (s : string) : slen s <= w -> slen (pad_left c w s) = w.
Proof.
  intros H. unfold pad_left. rewrite slen_app. unfold slen at 1.
  rewrite repeat_char_length. lia.
Qed.

Lemma unhex_acc_zeros (n : nat) : unhex_acc (repeat_char "0"%char n) 0 = Some 0.
Proof. induction n as [|n IH]; cbn [repeat_char unhex_acc]; [reflexivity|]. exact IH. Qed.

Lemma pad_left_nonempty (c : ascii) (w : N) (s : string) : s <> "" -> pad_left c w s <> "".
Proof.
  intros H E. apply (f_equal String.length) in E. unfold pad_left in E.
  rewrite sapp_length in E. destruct s; [congruence|]. cbn in E. lia.
Qed.

Lemma unhex_pad_hex (w n : N) : unhex (pad_left "0"%char w (hex n)) = Some n.
Proof.
  rewrite unhex_nonempty by (apply pad_left_nonempty, hex_nonempty).
  unfold pad_left. rewrite unhex_acc_app, unhex_acc_zeros. apply unhex_acc_hex.
Qed.

Theorem table_value_field_ok : stmt_table_value_field.
Proof.
  intros v w Hwd Hb field.
  destruct (N.eq_dec w 0) as [->|Hw]; [right; reflexivity | left].
  split.
  - intros _. unfold field. apply slen_pad_left.
    apply hex_length_ok; [lia|].
    assert (H2 : 2 ^ w <= 2 ^ (4 * ((w + 3) / 4))) by (apply N.pow_le_mono_r; lia).
    lia.
  - unfold field. apply unhex_pad_hex.
Qed.

(* ================================================================================== *)
(* 4. the memory section: the row walk prints exactly the canonical rows              *)
(* ================================================================================== *)

Lemma two64_val : two64 = 18446744073709551616.
Proof. reflexivity. Qed.

Lemma addr_succ_cases (a : N) : a < two64 ->
  (a = 18446744073709551615 /\ addr_succ a = 0) \/ (a + 1 < two64 /\ addr_succ a = a + 1).
Proof. unfold addr_succ. rewrite two64_val. intros H. lia. Qed.

Lemma addr_succ_bound (a : N) : addr_succ a < two64.
Proof. unfold addr_succ. rewrite two64_val. lia. Qed.

Lemma sapp_nil_l (a : string) : "" ++ a = a.
Proof. reflexivity. Qed.

(* ---- the text of one cell, with the row label before column 0 and the row end after
        column 15 ---- *)
Definition row_prefix (row : N) : string := "|  0x" ++ pad_left "0"%char 7 (hex (row / 16)) ++ "_:  ".
Definition row_end : string := "    |" ++ nl.

Definition emit (c : string) (a : N) : string :=
  (if a mod 16 =? 0 then row_prefix a else "") ++ c ++ mem_cell_sep a ++
  (if a mod 16 =? 15 then row_end else "").

Fixpoint emits (f : N -> string) (a : N) (n : nat) : string :=
  match n with
  | O => ""
  | S n' => emit (f a) a ++ emits f (a + 1) n'
  end.

Definition blank (_ : N) : string := "   ".
Definition content (m : memory) (a : N) : string :=
  match mem_get m a with Some v => " " ++ hex2 v | None => "   " end.

Lemma emits_app (f : N -> string) : forall n1 n2 a,
  emits f a (n1 + n2) = emits f a n1 ++ emits f (a + N.of_nat n1) n2.
Proof.
  induction n1 as [|n1 IH]; intros n2 a.
  - cbn [Nat.add emits N.of_nat]. rewrite N.add_0_r. reflexivity.
  - cbn [Nat.add emits]. rewrite IH, sapp_assoc.
    replace (a + 1 + N.of_nat n1) with (a + N.of_nat (S n1)) by lia. reflexivity.
Qed.

Lemma emits_ext (f g : N -> string) : forall n a,
  (forall x, a <= x -> x < a + N.of_nat n -> f x = g x) -> emits f a n = emits g a n.
Proof.
  induction n as [|n IH]; intros a H; cbn [emits]; [reflexivity|].
  rewrite (H a) by lia. rewrite (IH (a + 1)); [reflexivity|].
  intros x H1 H2. apply H; lia.
Qed.

(* ---- one iteration of the walk ---- *)
Lemma walk_step (fu : nat) (cur k v : N) : cur <= k ->
  dump_mem_walk (S fu) cur k v =
  let jump := cur mod 16 =? 0 in
  let cur1 := if jump then row_of k else cur in
  let t0 := if jump then row_prefix cur1 else "" in
  let t1 := if cur1 =? k then " " ++ hex2 v else "   " in
  let t2 := mem_cell_sep cur1 in
  let t3 := if cur1 mod 16 =? 15 then row_end else "" in
  let cur2 := addr_succ cur1 in
  if cur2 =? 0 then (t0 ++ t1 ++ t2 ++ t3, cur2, true)
  else let '(rest, c, w) := dump_mem_walk fu cur2 k v in (t0 ++ t1 ++ t2 ++ t3 ++ rest, c, w).
Proof.
  intros H. cbn [dump_mem_walk]. assert (cur <=? k = true) as -> by lia. reflexivity.
Qed.

Lemma walk_past (fu : nat) (cur k v : N) : k < cur -> dump_mem_walk fu cur k v = ("", cur, false).
Proof.
  intros H. destruct fu as [|fu]; cbn [dump_mem_walk]; [reflexivity|].
  assert (cur <=? k = false) as -> by lia. reflexivity.
Qed.

(* when no jump to another row happens *)
Lemma walk_norm (fu : nat) (cur k v : N) :
  cur <= k -> k < two64 -> (cur mod 16 <> 0 \/ cur = row_of k) ->
  dump_mem_walk (S fu) cur k v =
  if cur =? k then (emit (" " ++ hex2 v) k, addr_succ k, addr_succ k =? 0)
  else let '(rest, c, w) := dump_mem_walk fu (cur + 1) k v in (emit "   " cur ++ rest, c, w).
Proof.
  intros Hle Hk Hal. rewrite walk_step by assumption. cbv zeta.
  assert (E1 : (if cur mod 16 =? 0 then row_of k else cur) = cur).
  { destruct (cur mod 16 =? 0) eqn:E; [|reflexivity]. destruct Hal as [Hal|Hal]; [lia|congruence]. }
  rewrite E1.
  destruct (cur =? k) eqn:Ek.
  - apply N.eqb_eq in Ek. subst cur.
    destruct (addr_succ k =? 0) eqn:Es.
    + reflexivity.
    + destruct (addr_succ_cases k Hk) as [[_ Hz]|[_ Hs]]; [lia|].
      rewrite walk_past by lia. rewrite sapp_nil_r. reflexivity.
  - destruct (addr_succ_cases cur) as [[Hm _]|[_ Hs]]; [lia| rewrite two64_val in Hk; lia |].
    rewrite Hs. assert (cur + 1 =? 0 = false) as -> by lia.
    destruct (dump_mem_walk fu (cur + 1) k v) as [[rest c] w].
    unfold emit. rewrite !sapp_assoc. reflexivity.
Qed.

(* a stretch of blank cells that does not cross a row boundary *)
Lemma walk_blanks (k v : N) : k < two64 -> forall n fuel cur,
  cur + N.of_nat n <= k -> cur mod 16 + N.of_nat n <= 16 ->
  (cur mod 16 <> 0 \/ cur = row_of k \/ n = O) ->
  dump_mem_walk (n + fuel) cur k v =
  let '(t, c, w) := dump_mem_walk fuel (cur + N.of_nat n) k v in (emits blank cur n ++ t, c, w).
Proof.
  intros Hk. induction n as [|n IH]; intros fuel cur H1 H2 H3.
  - cbn [Nat.add emits N.of_nat]. rewrite N.add_0_r.
    destruct (dump_mem_walk fuel cur k v) as [[t c] w]. reflexivity.
  - cbn [Nat.add]. rewrite walk_norm; [| lia | assumption |].
    2:{ destruct H3 as [H3|[H3|H3]]; [left; assumption | right; assumption | discriminate]. }
    assert (cur =? k = false) as -> by lia.
    rewrite IH; [| lia | lia |].
    2:{ destruct n as [|n]; [right; right; reflexivity | left; lia]. }
    replace (cur + 1 + N.of_nat n) with (cur + N.of_nat (S n)) by lia.
    destruct (dump_mem_walk fuel (cur + N.of_nat (S n)) k v) as [[t c] w].
    cbn [emits]. rewrite sapp_assoc. reflexivity.
Qed.

(* walking inside the row of k up to and including the byte *)
Lemma walk_to (k v : N) (fuel : nat) (cur : N) :
  k < two64 -> cur <= k -> row_of cur = row_of k -> (N.to_nat (k - cur) < fuel)%nat ->
  dump_mem_walk fuel cur k v =
  (emits blank cur (N.to_nat (k - cur)) ++ emit (" " ++ hex2 v) k, addr_succ k, addr_succ k =? 0).
Proof.
  intros Hk Hle Hrow Hf. unfold row_of in Hrow.
  replace fuel with (N.to_nat (k - cur) + S (fuel - N.to_nat (k - cur) - 1))%nat by lia.
  rewrite (walk_blanks k v Hk); [| lia | lia | unfold row_of; lia].
  replace (cur + N.of_nat (N.to_nat (k - cur))) with k by lia.
  rewrite walk_norm; [| lia | assumption | unfold row_of; lia].
  rewrite N.eqb_refl. reflexivity.
Qed.

Lemma walk_jump (fu : nat) (cur k v : N) : cur mod 16 = 0 -> cur <= k ->
  dump_mem_walk (S fu) cur k v = dump_mem_walk (S fu) (row_of k) k v.
Proof.
  intros Hc Hle. rewrite (walk_step fu cur) by assumption.
  rewrite (walk_step fu (row_of k)) by (unfold row_of; lia).
  assert (cur mod 16 =? 0 = true) as -> by lia.
  assert (row_of k mod 16 =? 0 = true) as -> by (unfold row_of; lia).
  reflexivity.
Qed.

Lemma walk40_A (cur k v : N) : k < two64 -> cur <= k -> cur mod 16 = 0 ->
  dump_mem_walk 40 cur k v =
  (emits blank (row_of k) (N.to_nat (k - row_of k)) ++ emit (" " ++ hex2 v) k,
   addr_succ k, addr_succ k =? 0).
Proof.
  intros Hk Hle Hc. change 40%nat with (S 39). rewrite walk_jump by assumption.
  apply walk_to; unfold row_of; lia.
Qed.

Lemma walk40_B (cur k v : N) : k < two64 -> cur <= k -> row_of cur = row_of k ->
  dump_mem_walk 40 cur k v =
  (emits blank cur (N.to_nat (k - cur)) ++ emit (" " ++ hex2 v) k, addr_succ k, addr_succ k =? 0).
Proof.
  intros Hk Hle Hrow. apply walk_to; try assumption. unfold row_of in Hrow. lia.
Qed.

Lemma walk40_C (cur k v : N) : k < two64 -> cur mod 16 <> 0 -> row_of cur < row_of k ->
  dump_mem_walk 40 cur k v =
  (emits blank cur (N.to_nat (16 - cur mod 16)) ++
   emits blank (row_of k) (N.to_nat (k - row_of k)) ++ emit (" " ++ hex2 v) k,
   addr_succ k, addr_succ k =? 0).
Proof.
  intros Hk Hc Hrow. unfold row_of in Hrow.
  set (n := N.to_nat (16 - cur mod 16)).
  replace 40%nat with (n + S (39 - n))%nat by (unfold n; lia).
  rewrite (walk_blanks k v Hk); [| unfold n; lia | unfold n; lia | left; assumption].
  rewrite walk_jump; [| unfold n; lia | unfold n; lia].
  rewrite walk_to; [reflexivity | assumption | unfold row_of; lia | unfold row_of; lia |].
  unfold row_of, n. lia.
Qed.

(* ---- relating the walk's cells to the memory ---- *)
Lemma blanks_content (m : memory) (cur : N) (n : nat) :
  (forall a, cur <= a -> a < cur + N.of_nat n -> mem_get m a = None) ->
  emits blank cur n = emits (content m) cur n.
Proof.
  intros H. apply emits_ext. intros x H1 H2. unfold blank, content. rewrite (H x H1 H2). reflexivity.
Qed.

Lemma byte_content (m : memory) (k v : N) : mem_get m k = Some v ->
  emit (" " ++ hex2 v) k = emits (content m) k 1.
Proof.
  intros H. cbn [emits]. unfold content. rewrite H, sapp_nil_r. reflexivity.
Qed.

(* ---- the tail printed after the last byte ---- *)
Definition to_end (cur : N) : nat := N.to_nat ((16 - cur mod 16) mod 16).

Lemma tail_cell (cur : N) : cur mod 16 <> 0 ->
  match cur mod 16 with
  | 15 => "       |" ++ nl
  | 3 | 11 => "    "
  | 7 => "     "
  | _ => "   "
  end = emit (blank cur) cur.
Proof.
  intros H. unfold emit, mem_cell_sep, blank.
  assert (Hlt : cur mod 16 < 16) by lia.
  destruct (lt16_cases _ Hlt) as
    [E|[E|[E|[E|[E|[E|[E|[E|[E|[E|[E|[E|[E|[E|[E|E]]]]]]]]]]]]]]]; rewrite E; try reflexivity.
  congruence.
Qed.

Lemma tail_blanks : forall n fuel cur, cur < two64 -> n = to_end cur -> (n < fuel)%nat ->
  dump_mem_tail fuel cur = emits blank cur n.
Proof.
  induction n as [|n IH]; intros fuel cur Hc Hn Hf; unfold to_end in Hn.
  - destruct fuel as [|fu]; [lia|]. cbn [dump_mem_tail emits].
    assert (cur mod 16 =? 0 = true) as -> by lia. reflexivity.
  - destruct fuel as [|fu]; [lia|]. cbn [dump_mem_tail emits].
    assert (Hne : cur mod 16 <> 0) by lia.
    assert (cur mod 16 =? 0 = false) as -> by lia.
    rewrite (tail_cell cur Hne). f_equal.
    pose proof (addr_succ_bound cur) as Hb.
    rewrite (IH fu (addr_succ cur)); [| assumption | | lia].
    + destruct n as [|n]; [reflexivity|].
      destruct (addr_succ_cases cur Hc) as [[Hm _]|[_ Hs]]; [lia|]. rewrite Hs. reflexivity.
    + unfold to_end. destruct (addr_succ_cases cur Hc) as [[Hm Hs]|[_ Hs]]; rewrite Hs; lia.
Qed.

(* ---- the rows still to be printed ---- *)
Definition prev_of (cur : N) : option N := if cur mod 16 =? 0 then None else Some (row_of cur).

Definition rest_spec (m cells : memory) (cur : N) : string :=
  emits (content m) cur (to_end cur) ++
  concat_strings (map (fun row => emits (content m) row 16) (rows_of cells (prev_of cur))).

Lemma rows_of_fresh (k v : N) (r : memory) : Forall (key_lt (k, v)) r -> k mod 16 = 15 ->
  rows_of r (Some (row_of k)) = rows_of r None.
Proof.
  intros Hlt Hk. destruct r as [|[k' v'] r']; cbn [rows_of]; [reflexivity|].
  apply Forall_inv in Hlt. unfold key_lt in Hlt. cbn [fst] in Hlt.
  assert (row_of k =? row_of k' = false) as -> by (unfold row_of; lia). reflexivity.
Qed.

Lemma cells_cons (k v : N) (r : memory) (cur : N) (wt : string) (c : N) (w : bool) :
  dump_mem_walk 40 cur k v = (wt, c, w) ->
  dump_mem_cells ((k, v) :: r) cur = (wt ++ fst (dump_mem_cells r c), snd (dump_mem_cells r c)).
Proof.
  intros H. cbn [dump_mem_cells]. rewrite H. destruct (dump_mem_cells r c). reflexivity.
Qed.

(* the cells from x (in the row of k) up to k, followed by what remains after k *)
Lemma row_tail (m : memory) (k v : N) (r : memory) (x : N) :
  k < two64 -> x <= k -> row_of x = row_of k ->
  (forall a, x <= a -> a < k -> mem_get m a = None) -> mem_get m k = Some v ->
  Forall (key_lt (k, v)) r ->
  (emits blank x (N.to_nat (k - x)) ++ emit (" " ++ hex2 v) k) ++ rest_spec m r (addr_succ k) =
  emits (content m) x (N.to_nat (16 - x mod 16)) ++
  concat_strings (map (fun row => emits (content m) row 16) (rows_of r (Some (row_of k)))).
Proof.
  intros Hk Hle Hrow Hgap Hget Hlt. unfold row_of in Hrow.
  rewrite (blanks_content m x) by (intros a H1 H2; apply Hgap; lia).
  rewrite (byte_content m k v Hget). unfold rest_spec.
  destruct (N.eq_dec (k mod 16) 15) as [E|E].
  - assert (Hal : addr_succ k mod 16 = 0).
    { destruct (addr_succ_cases k Hk) as [[_ Hs]|[_ Hs]]; rewrite Hs; [reflexivity | lia]. }
    unfold prev_of, to_end. rewrite Hal. change (0 =? 0) with true.
    change (N.to_nat ((16 - 0) mod 16)) with 0%nat. cbn [emits]. rewrite sapp_nil_l.
    rewrite <- (rows_of_fresh k v r Hlt E). f_equal.
    replace (N.to_nat (16 - x mod 16)) with (N.to_nat (k - x) + 1)%nat by lia.
    rewrite emits_app. replace (x + N.of_nat (N.to_nat (k - x))) with k by lia. reflexivity.
  - destruct (addr_succ_cases k Hk) as [[Hm _]|[_ Hs]]; [lia|]. rewrite Hs.
    unfold prev_of. assert ((k + 1) mod 16 =? 0 = false) as -> by lia.
    replace (row_of (k + 1)) with (row_of k) by (unfold row_of; lia).
    rewrite sapp_assoc, <- (sapp_assoc (emits (content m) k 1)). rewrite <- sapp_assoc. f_equal.
    replace (N.to_nat (16 - x mod 16)) with (N.to_nat (k - x) + (1 + to_end (k + 1)))%nat
      by (unfold to_end; lia).
    rewrite !emits_app. replace (x + N.of_nat (N.to_nat (k - x))) with k by lia.
    change (N.of_nat 1) with 1. reflexivity.
Qed.

Lemma cells_inv (m : memory) : forall cells cur,
  StronglySorted key_lt cells -> Forall (fun kv => fst kv < two64) cells ->
  Forall (fun kv => cur <= fst kv) cells -> cur < two64 ->
  (cells = [] /\ cur mod 16 = 0) \/ (forall a, cur <= a -> mem_get m a = mem_get cells a) ->
  fst (dump_mem_cells cells cur) ++ dump_mem_tail 16 (snd (dump_mem_cells cells cur)) =
  rest_spec m cells cur.
Proof.
  induction cells as [|[k v] r IH]; intros cur Hs Hb Hge Hcur Hag.
  - cbn [dump_mem_cells fst snd]. unfold rest_spec. cbn [rows_of map concat_strings].
    rewrite sapp_nil_r, sapp_nil_l.
    rewrite (tail_blanks (to_end cur) 16 cur Hcur eq_refl) by (unfold to_end; lia).
    destruct Hag as [[_ Ha]|Hag].
    + replace (to_end cur) with 0%nat by (unfold to_end; lia). reflexivity.
    + apply blanks_content. intros a H1 H2. rewrite Hag by assumption. reflexivity.
  - destruct Hag as [[Hnil _]|Hag]; [discriminate|].
    apply StronglySorted_inv in Hs. destruct Hs as [Hs_r Hlt].
    pose proof (Forall_inv Hb) as Hk. cbn [fst] in Hk. apply Forall_inv_tail in Hb.
    pose proof (Forall_inv Hge) as Hck. cbn [fst] in Hck.
    assert (Hgetk : mem_get m k = Some v).
    { rewrite Hag by assumption. cbn [mem_get]. rewrite N.eqb_refl. reflexivity. }
    assert (Hgap : forall a, cur <= a -> a < k -> mem_get m a = None).
    { intros a H1 H2. rewrite Hag by assumption. cbn [mem_get].
      assert (a =? k = false) as -> by lia. assert (a <? k = true) as -> by lia. reflexivity. }
    assert (IHr : fst (dump_mem_cells r (addr_succ k)) ++
                  dump_mem_tail 16 (snd (dump_mem_cells r (addr_succ k))) =
                  rest_spec m r (addr_succ k)).
    { apply IH; [assumption | assumption | | apply addr_succ_bound |].
      - eapply Forall_impl; [|exact Hlt]. intros [k' v'] H. unfold key_lt in H. cbn [fst] in *.
        destruct (addr_succ_cases k Hk) as [[_ Hz]|[_ Hz]]; rewrite Hz; lia.
      - destruct (addr_succ_cases k Hk) as [[Hm Hz]|[Hm Hz]]; rewrite Hz.
        + left. split; [|reflexivity]. destruct r as [|[k' v'] r']; [reflexivity|]. exfalso.
          apply Forall_inv in Hlt. apply Forall_inv in Hb. unfold key_lt in Hlt. cbn [fst] in *.
          rewrite two64_val in Hb. lia.
        + right. intros a Ha. rewrite Hag by lia. cbn [mem_get].
          assert (a =? k = false) as -> by lia. assert (a <? k = false) as -> by lia. reflexivity. }
    destruct (N.eq_dec (cur mod 16) 0) as [Hal|Hal].
    + (* between rows: a new row starts with k *)
      rewrite (cells_cons k v r cur _ _ _ (walk40_A cur k v Hk Hck Hal)). cbn [fst snd].
      rewrite sapp_assoc, IHr.
      rewrite (row_tail m k v r (row_of k)); try assumption;
        [| unfold row_of; lia | unfold row_of; lia | intros a H1 H2; apply Hgap; unfold row_of in H1; lia].
      unfold rest_spec, prev_of, to_end. rewrite Hal. change (0 =? 0) with true.
      change (N.to_nat ((16 - 0) mod 16)) with 0%nat. cbn [emits rows_of map concat_strings].
      rewrite sapp_nil_l.
      replace (N.to_nat (16 - row_of k mod 16)) with 16%nat by (unfold row_of; lia). reflexivity.
    + destruct (N.eq_dec (row_of cur) (row_of k)) as [Hrow|Hrow].
      * (* inside the row of k *)
        rewrite (cells_cons k v r cur _ _ _ (walk40_B cur k v Hk Hck Hrow)). cbn [fst snd].
        rewrite sapp_assoc, IHr.
        rewrite (row_tail m k v r cur); try assumption.
        unfold rest_spec, prev_of. assert (cur mod 16 =? 0 = false) as -> by lia.
        cbn [rows_of]. rewrite Hrow, N.eqb_refl.
        replace (to_end cur) with (N.to_nat (16 - cur mod 16)) by (unfold to_end; lia). reflexivity.
      * (* the pending row is finished first *)
        assert (Hrlt : row_of cur < row_of k) by (unfold row_of in *; lia).
        rewrite (cells_cons k v r cur _ _ _ (walk40_C cur k v Hk Hal Hrlt)). cbn [fst snd].
        rewrite !sapp_assoc. rewrite <- (sapp_assoc (emits blank (row_of k) _)). rewrite IHr.
        rewrite (row_tail m k v r (row_of k)); try assumption;
          [| unfold row_of; lia | unfold row_of; lia
           | intros a H1 H2; apply Hgap; unfold row_of in *; lia].
        rewrite (blanks_content m cur) by (intros a H1 H2; apply Hgap; unfold row_of in *; lia).
        unfold rest_spec, prev_of. assert (cur mod 16 =? 0 = false) as -> by lia.
        cbn [rows_of]. assert (row_of cur =? row_of k = false) as -> by lia.
        cbn [map concat_strings].
        replace (to_end cur) with (N.to_nat (16 - cur mod 16)) by (unfold to_end; lia).
        replace (N.to_nat (16 - row_of k mod 16)) with 16%nat by (unfold row_of; lia). reflexivity.
Qed.

(* ---- a full row of cells is the canonical row ---- *)
Lemma sep_row (row j : N) : row mod 16 = 0 -> mem_cell_sep (row + j) = mem_cell_sep j.
Proof. intros H. unfold mem_cell_sep. replace ((row + j) mod 16) with (j mod 16) by lia. reflexivity. Qed.

Lemma emit_first (c : string) (row : N) : row mod 16 = 0 ->
  emit c row = row_prefix row ++ c ++ mem_cell_sep 0.
Proof.
  intros H. unfold emit. rewrite H. change (0 =? 0) with true. change (0 =? 15) with false.
  rewrite sapp_nil_r. unfold mem_cell_sep. rewrite H. reflexivity.
Qed.

Lemma emit_mid (c : string) (row i : N) : row mod 16 = 0 -> 1 <= i -> i < 15 ->
  emit c (row + i) = c ++ mem_cell_sep i.
Proof.
  intros H H1 H2. unfold emit.
  assert ((row + i) mod 16 =? 0 = false) as -> by lia.
  assert ((row + i) mod 16 =? 15 = false) as -> by lia.
  rewrite sapp_nil_r, sapp_nil_l, (sep_row row i H). reflexivity.
Qed.

Lemma emit_last (c : string) (row i : N) : row mod 16 = 0 -> i = 15 ->
  emit c (row + i) = c ++ mem_cell_sep i ++ row_end.
Proof.
  intros H H1. unfold emit.
  assert ((row + i) mod 16 =? 0 = false) as -> by lia.
  assert ((row + i) mod 16 =? 15 = true) as -> by lia.
  rewrite sapp_nil_l, (sep_row row i H). reflexivity.
Qed.

Lemma emits_mid (f : N -> string) (row : N) : row mod 16 = 0 -> forall n i,
  (1 <= i)%nat -> (i + n = 16)%nat -> (1 <= n)%nat ->
  emits f (row + N.of_nat i) n =
  concat_strings (map (fun j => f (row + N.of_nat j) ++ mem_cell_sep (N.of_nat j)) (seq i n)) ++ row_end.
Proof.
  intros Hrow. induction n as [|n IH]; intros i H1 H2 H3; [lia|].
  cbn [emits seq map concat_strings]. destruct n as [|n'].
  - cbn [emits seq map concat_strings]. rewrite emit_last by lia.
    rewrite !sapp_nil_r, sapp_assoc. reflexivity.
  - replace (row + N.of_nat i + 1) with (row + N.of_nat (S i)) by lia.
    rewrite IH by lia. rewrite emit_mid by lia. rewrite !sapp_assoc. reflexivity.
Qed.

Lemma render_row_emits (m : memory) (row : N) : row mod 16 = 0 ->
  emits (content m) row 16 = render_row m row.
Proof.
  intros Hrow.
  change (emits (content m) row 16)
    with (emit (content m row) row ++ emits (content m) (row + N.of_nat 1) 15).
  rewrite emit_first by assumption.
  rewrite (emits_mid (content m) row Hrow 15 1) by lia.
  unfold render_row. change (seq 0 16) with (0%nat :: seq 1 15). cbn [map concat_strings].
  unfold render_cell at 1. change (N.of_nat 0) with 0. rewrite N.add_0_r.
  unfold row_prefix, row_end, content. rewrite !sapp_assoc. reflexivity.
Qed.

Lemma rows_aligned : forall cells prev row, In row (rows_of cells prev) -> row mod 16 = 0.
Proof.
  induction cells as [|[k v] r IH]; intros prev row Hin; cbn [rows_of] in Hin; [contradiction|].
  destruct prev as [p|].
  - destruct (p =? row_of k) eqn:E.
    + eapply IH; exact Hin.
    + destruct Hin as [<-|Hin]; [unfold row_of; lia | eapply IH; exact Hin].
  - destruct Hin as [<-|Hin]; [unfold row_of; lia | eapply IH; exact Hin].
Qed.

Theorem dump_memory_rows_ok : stmt_dump_memory_rows.
Proof.
  intros m [Hs Hb]. destruct m as [|[k0 v0] r] eqn:Em; [reflexivity|]. rewrite <- Em in *.
  assert (Hb1 : Forall (fun kv => fst kv < two64) m).
  { eapply Forall_impl; [|exact Hb]. intros kv [H _]. exact H. }
  assert (Hk0 : k0 < two64) by (rewrite Em in Hb1; apply Forall_inv in Hb1; exact Hb1).
  assert (Hge : Forall (fun kv => row_of k0 <= fst kv) m).
  { rewrite Em in *. apply StronglySorted_inv in Hs. destruct Hs as [_ Hlt]. constructor.
    - cbn [fst]. unfold row_of. lia.
    - eapply Forall_impl; [|exact Hlt]. intros [k' v'] H. unfold key_lt in H. cbn [fst] in *.
      unfold row_of. lia. }
  assert (Hc : row_of k0 < two64) by (unfold row_of; lia).
  pose proof (cells_inv m m (row_of k0) Hs Hb1 Hge Hc (or_intror (fun a _ => eq_refl))) as H.
  unfold dump_memory. rewrite Em at 1. change (k0 / 16 * 16) with (row_of k0).
  destruct (dump_mem_cells m (row_of k0)) as [t cur]. cbn [fst snd] in H.
  rewrite H. unfold rest_spec, prev_of, to_end.
  assert (Hal : row_of k0 mod 16 = 0) by (unfold row_of; lia).
  rewrite Hal. change (0 =? 0) with true. change (N.to_nat ((16 - 0) mod 16)) with 0%nat.
  cbn [emits]. rewrite sapp_nil_l. f_equal. f_equal.
  apply map_ext_in. intros row Hin. apply render_row_emits. eapply rows_aligned; exact Hin.
Qed.

(* ================================================================================== *)
(* 5. the rows are exactly the rows of the used bytes                                 *)
(* ================================================================================== *)

Lemma mem_get_In (m : memory) (a v : N) : mem_get m a = Some v -> In (a, v) m.
Proof.
  induction m as [|[k w] r IH]; cbn [mem_get]; intros H; [discriminate|].
  destruct (a =? k) eqn:E.
  - apply N.eqb_eq in E. injection H as ->. subst. left. reflexivity.
  - destruct (a <? k); [discriminate|]. right. apply IH. exact H.
Qed.

Lemma In_mem_get (m : memory) (k v : N) : StronglySorted key_lt m -> In (k, v) m -> mem_get m k = Some v.
Proof.
  induction m as [|[k' v'] r IH]; intros Hs Hin; [contradiction|].
  apply StronglySorted_inv in Hs. destruct Hs as [Hs_r Hlt]. cbn [mem_get].
  destruct Hin as [Heq|Hin].
  - injection Heq as -> ->. rewrite N.eqb_refl. reflexivity.
  - rewrite Forall_forall in Hlt. pose proof (Hlt _ Hin) as H. unfold key_lt in H. cbn [fst] in H.
    assert (k =? k' = false) as -> by lia. assert (k <? k' = false) as -> by lia.
    apply IH; assumption.
Qed.

Lemma rows_of_complete : forall (m : memory) prev k v, In (k, v) m ->
  In (row_of k) (rows_of m prev) \/ prev = Some (row_of k).
Proof.
  induction m as [|[k' v'] r IH]; intros prev k v Hin; [contradiction|].
  cbn [rows_of]. destruct Hin as [Heq|Hin].
  - injection Heq as -> ->. destruct prev as [p|].
    + destruct (p =? row_of k) eqn:E.
      * apply N.eqb_eq in E. right. subst. reflexivity.
      * left. left. reflexivity.
    + left. left. reflexivity.
  - destruct prev as [p|].
    + destruct (p =? row_of k') eqn:E.
      * apply (IH (Some p) k v Hin).
      * destruct (IH (Some (row_of k')) k v Hin) as [H|H].
        -- left. right. exact H.
        -- injection H as H. left. left. exact H.
    + destruct (IH (Some (row_of k')) k v Hin) as [H|H].
      * left. right. exact H.
      * injection H as H. left. left. exact H.
Qed.

Lemma rows_of_sound : forall (m : memory) prev row, In row (rows_of m prev) ->
  exists k v, In (k, v) m /\ row_of k = row.
Proof.
  induction m as [|[k' v'] r IH]; intros prev row Hin; cbn [rows_of] in Hin; [contradiction|].
  assert (Hrec : forall p, In row (rows_of r p) -> exists k v, In (k, v) ((k', v') :: r) /\ row_of k = row).
  { intros p Hp. destruct (IH p row Hp) as [k [v [H1 H2]]]. exists k, v. split; [right; exact H1 | exact H2]. }
  assert (Hhead : row_of k' = row -> exists k v, In (k, v) ((k', v') :: r) /\ row_of k = row).
  { intros H. exists k', v'. split; [left; reflexivity | exact H]. }
  destruct prev as [p|].
  - destruct (p =? row_of k') eqn:E.
    + eapply Hrec; exact Hin.
    + destruct Hin as [Hin|Hin]; [apply Hhead; exact Hin | eapply Hrec; exact Hin].
  - destruct Hin as [Hin|Hin]; [apply Hhead; exact Hin | eapply Hrec; exact Hin].
Qed.

Theorem rows_cover_used_ok : stmt_rows_cover_used.
Proof.
  intros m a [Hs Hb]. split.
  - split.
    + intros H. split; [|exact H].
      destruct (mem_get m a) as [v|] eqn:E; [|congruence].
      destruct (rows_of_complete m None a v (mem_get_In m a v E)) as [Hin|Hd]; [exact Hin | discriminate].
    + intros [_ H]. exact H.
  - intros row Hin. destruct (rows_of_sound m None row Hin) as [k [v [H1 H2]]].
    exists k, v. split; [apply In_mem_get; assumption | exact H2].
Qed.

(* ================================================================================== *)
(* 6/7. every line of the memory section and of a register bank is delimited          *)
(* ================================================================================== *)

Definition notnl (c : ascii) : bool := negb (N_of_ascii c =? 10).
Definition nonl (s : string) : bool := forallb notnl (list_ascii_of_string s).

Lemma nonl_cons (c : ascii) (s : string) : nonl (String c s) = notnl c && nonl s.
Proof. reflexivity. Qed.

Lemma nonl_app (a b : string) : nonl (a ++ b) = nonl a && nonl b.
Proof.
  induction a as [|c a IH]; [reflexivity|].
  cbn [String.append]. rewrite !nonl_cons, IH, andb_assoc. reflexivity.
Qed.

Lemma nonl_repeat (c : ascii) (n : nat) : notnl c = true -> nonl (repeat_char c n) = true.
Proof.
  intros H. induction n as [|n IH]; [reflexivity|].
  cbn [repeat_char]. rewrite nonl_cons, H, IH. reflexivity.
Qed.

Lemma notnl_hexdigit (d : N) : d < 16 -> notnl (hexdigit d) = true.
Proof.
  intros H. destruct (lt16_cases d H) as
    [->|[->|[->|[->|[->|[->|[->|[->|[->|[->|[->|[->|[->|[->|[->| ->]]]]]]]]]]]]]]]; reflexivity.
Qed.

Lemma nonl_hex_fuel (fuel : nat) : forall n, nonl (hex_fuel fuel n "") = true.
Proof.
  induction fuel as [|f IH]; intros n; [reflexivity|].
  rewrite hex_fuel_step. assert (Hd : n mod 16 < 16) by lia.
  destruct (n <? 16).
  - rewrite nonl_cons, (notnl_hexdigit _ Hd). reflexivity.
  - rewrite nonl_app, IH, nonl_cons, (notnl_hexdigit _ Hd). reflexivity.
Qed.

Lemma nonl_hex (n : N) : nonl (hex n) = true.
Proof. apply nonl_hex_fuel. Qed.

Lemma nonl_pad_left (c : ascii) (w : N) (s : string) :
  notnl c = true -> nonl s = true -> nonl (pad_left c w s) = true.
Proof. intros Hc Hs. unfold pad_left. rewrite nonl_app, (nonl_repeat c _ Hc), Hs. reflexivity. Qed.

Lemma nonl_hex2 (v : N) : nonl (hex2 v) = true.
Proof. unfold hex2. apply nonl_pad_left; [reflexivity | apply nonl_hex]. Qed.

Lemma nonl_spaces (n : N) : nonl (spaces n) = true.
Proof. unfold spaces. apply nonl_repeat. reflexivity. Qed.

Lemma nonl_sep (a : N) : nonl (mem_cell_sep a) = true.
Proof.
  unfold mem_cell_sep. assert (Hlt : a mod 16 < 16) by lia.
  destruct (lt16_cases _ Hlt) as
    [E|[E|[E|[E|[E|[E|[E|[E|[E|[E|[E|[E|[E|[E|[E|E]]]]]]]]]]]]]]]; rewrite E; reflexivity.
Qed.

Lemma nonl_after_underscore (s : string) : nonl s = true -> nonl (after_underscore s) = true.
Proof.
  induction s as [|c s IH]; intros H; [reflexivity|].
  rewrite nonl_cons in H. apply andb_true_iff in H. destruct H as [_ H].
  cbn [after_underscore]. destruct (N_of_ascii c =? 95); [exact H | apply IH; exact H].
Qed.

Lemma nonl_concat (l : list string) : (forall x, In x l -> nonl x = true) -> nonl (concat_strings l) = true.
Proof.
  induction l as [|x l IH]; intros H; [reflexivity|].
  cbn [concat_strings]. rewrite nonl_app, (H x (or_introl eq_refl)), IH; [reflexivity|].
  intros y Hy. apply H. right. exact Hy.
Qed.

(* ---- splitting into lines ---- *)
Lemma split_nl_app (a : string) : forall s cur, nonl a = true ->
  split_nl (a ++ s) cur = split_nl s (cur ++ a).
Proof.
  induction a as [|c a IH]; intros s cur H.
  - rewrite sapp_nil_r. reflexivity.
  - rewrite nonl_cons in H. apply andb_true_iff in H. destruct H as [Hc Ha].
    unfold notnl in Hc. apply negb_true_iff in Hc.
    cbn [String.append split_nl]. rewrite Hc. rewrite (IH s _ Ha), sapp_assoc. reflexivity.
Qed.

Lemma split_nl_nl (s cur : string) : split_nl (nl ++ s) cur = cur :: split_nl s "".
Proof. reflexivity. Qed.

Lemma split_line (a rest cur : string) : nonl a = true ->
  split_nl (a ++ nl ++ rest) cur = (cur ++ a) :: split_nl rest "".
Proof. intros H. rewrite (split_nl_app a _ _ H). apply split_nl_nl. Qed.

(* ---- the delimiters ---- *)
Lemma prefix_app (p : string) : forall a b, String.prefix p a = true -> String.prefix p (a ++ b) = true.
Proof.
  induction p as [|c p IH]; intros a b H.
  - destruct (a ++ b); reflexivity.
  - destruct a as [|c' a]; [discriminate|]. cbn [String.append String.prefix] in *.
    destruct (ascii_dec c c'); [apply IH; exact H | discriminate].
Qed.

Lemma ends_with_app (p a b : string) : ends_with_s p b = true -> ends_with_s p (a ++ b) = true.
Proof.
  intros H. induction a as [|c a IH]; [exact H|].
  cbn [String.append ends_with_s]. destruct (String.eqb p (String c (a ++ b))); [reflexivity | exact IH].
Qed.

Lemma delimited_close (cur : string) : String.prefix "| " cur = true -> delimited (cur ++ " |") = true.
Proof.
  intros H. unfold delimited, starts_with_s. rewrite (prefix_app _ _ _ H).
  rewrite ends_with_app; reflexivity.
Qed.

(* [lines_ok s]: s, started at the beginning of a line, splits into delimited lines *)
Definition lines_ok (s : string) : Prop := forallb delimited (split_nl s "") = true.
(* [cont_ok s]: s continues a line that already starts with the opening delimiter *)
Definition cont_ok (s : string) : Prop :=
  forall cur, String.prefix "| " cur = true -> forallb delimited (split_nl s cur) = true.

Lemma lines_ok_line (a rest : string) :
  nonl a = true -> delimited a = true -> lines_ok rest -> lines_ok (a ++ nl ++ rest).
Proof.
  intros Ha Hd Hr. unfold lines_ok. rewrite (split_line a rest "" Ha).
  cbn [forallb]. rewrite sapp_nil_l, Hd. exact Hr.
Qed.

(* ---- the memory section ---- *)
Definition row_line (m : memory) (row : N) : string :=
  "|  0x" ++ pad_left "0"%char 7 (hex (row / 16)) ++ "_:  " ++
  concat_strings (map (fun i => render_cell m row (N.of_nat i)) (seq 0 16)) ++ "    |".

Lemma render_row_line (m : memory) (row : N) (rest : string) :
  render_row m row ++ rest = row_line m row ++ nl ++ rest.
Proof. unfold render_row, row_line. rewrite !sapp_assoc. reflexivity. Qed.

Lemma nonl_render_cell (m : memory) (row i : N) : wf_mem m -> nonl (render_cell m row i) = true.
Proof.
  intros Hwf. unfold render_cell. rewrite nonl_app, nonl_sep.
  destruct (mem_get m (row + i)) as [v|]; [|reflexivity].
  rewrite nonl_app, nonl_hex2. reflexivity.
Qed.

Lemma nonl_row_line (m : memory) (row : N) : wf_mem m -> nonl (row_line m row) = true.
Proof.
  intros Hwf. unfold row_line. rewrite !nonl_app.
  rewrite nonl_pad_left by (try reflexivity; apply nonl_hex).
  rewrite nonl_concat; [reflexivity|].
  intros x Hx. apply in_map_iff in Hx. destruct Hx as [i [<- _]]. apply nonl_render_cell. exact Hwf.
Qed.

Lemma delimited_row_line (m : memory) (row : N) : delimited (row_line m row) = true.
Proof.
  unfold delimited. apply andb_true_iff. split.
  - reflexivity.
  - unfold row_line. rewrite <- !sapp_assoc. apply ends_with_app. reflexivity.
Qed.

Lemma lines_ok_rows (m : memory) (rows : list N) : wf_mem m ->
  lines_ok (concat_strings (map (render_row m) rows)).
Proof.
  intros Hwf. induction rows as [|row rows IH]; [reflexivity|].
  cbn [map concat_strings]. rewrite render_row_line.
  apply lines_ok_line; [apply nonl_row_line; exact Hwf | apply delimited_row_line | exact IH].
Qed.

Theorem memory_lines_delimited_ok : stmt_memory_lines_delimited.
Proof.
  intros m Hwf. rewrite (dump_memory_rows_ok m Hwf).
  change mem_header
    with ("| used memory:   _0 _1 _2 _3  _4 _5 _6 _7   _8 _9 _a _b  _c _d _e _f    |" ++ nl).
  rewrite sapp_assoc.
  apply lines_ok_line; [reflexivity | reflexivity | apply lines_ok_rows; exact Hwf].
Qed.

(* ---- register banks ---- *)
Lemma cont_ok_app (a s : string) : nonl a = true -> cont_ok s -> cont_ok (a ++ s).
Proof.
  intros Ha Hs cur Hc. rewrite (split_nl_app a s cur Ha). apply Hs. apply prefix_app. exact Hc.
Qed.

Lemma cont_ok_end : cont_ok (" |" ++ nl).
Proof.
  intros cur Hc. change (" |" ++ nl) with (" |" ++ nl ++ "").
  rewrite (split_line " |" "" cur eq_refl). cbn [split_nl forallb].
  rewrite (delimited_close cur Hc). reflexivity.
Qed.

Lemma cont_ok_wrap (s : string) : cont_ok s -> cont_ok (" |" ++ nl ++ "| " ++ s).
Proof.
  intros Hs cur Hc. rewrite (split_line " |" ("| " ++ s) cur eq_refl). cbn [forallb].
  rewrite (delimited_close cur Hc). rewrite (split_nl_app "| " s "" eq_refl).
  apply Hs. reflexivity.
Qed.

(* the optional line break before an item *)
Lemma cont_ok_pre (wrap : bool) (n : N) (s : string) : cont_ok s ->
  cont_ok ((if wrap then spaces n ++ " |" ++ nl ++ "| " else "") ++ s).
Proof.
  intros Hs. destruct wrap; [|exact Hs].
  rewrite sapp_assoc. apply cont_ok_app; [apply nonl_spaces|].
  change ((" |" ++ nl ++ "| ") ++ s) with (" |" ++ nl ++ "| " ++ s). apply cont_ok_wrap. exact Hs.
Qed.

Lemma Ok_inj {A : Type} (a b : A) : Ok a = Ok b -> a = b.
Proof. intros H. injection H as H. exact H. Qed.

Lemma fst_pair {A B : Type} (a : A) (b : B) : fst (a, b) = a.
Proof. reflexivity. Qed.

Lemma signals_cont_ok (vals : list (string * wval)) : forall sigs loc body,
  (forall i o w, In (i, o, w) sigs -> nonl i = true) ->
  dump_bank_signals vals sigs loc = Ok body ->
  forall s, cont_ok s -> cont_ok (fst body ++ s).
Proof.
  induction sigs as [|[[i o] w] r IH]; intros loc body Hn Hd s Hs.
  - cbn [dump_bank_signals] in Hd. apply Ok_inj in Hd. rewrite <- Hd. exact Hs.
  - cbn [dump_bank_signals] in Hd.
    destruct (get_value vals o) as [v|e]; cbn [bind] in Hd; [|discriminate].
    destruct (dump_bank_signals vals r _) as [rest|e] eqn:Er; cbn [bind] in Hd; [|discriminate].
    apply Ok_inj in Hd. rewrite <- Hd. rewrite fst_pair.
    assert (Hi : nonl i = true) by (apply (Hn i o w); left; reflexivity).
    assert (Hrest : cont_ok (fst rest ++ s)).
    { eapply (IH _ rest); [| exact Er | exact Hs]. intros i' o' w' Hin. apply (Hn i' o' w'). right. exact Hin. }
    rewrite !sapp_assoc.
    match goal with
    | |- cont_ok ((if ?b then _ else _) ++ ?x) => apply (cont_ok_pre b (71 - loc) x)
    end.
    apply cont_ok_app; [reflexivity|].
    apply cont_ok_app; [apply nonl_after_underscore; exact Hi|].
    apply cont_ok_app; [reflexivity|].
    apply cont_ok_app; [apply nonl_pad_left; [reflexivity | apply nonl_hex]|].
    exact Hrest.
Qed.

Theorem bank_lines_delimited_ok : stmt_bank_lines_delimited.
Proof.
  intros vals b text Hsig Hlab Hd. unfold dump_bank in Hd.
  destruct (get_value vals (b_stall b)) as [st|e]; cbn [bind] in Hd; [|discriminate].
  destruct (get_value vals (b_bubble b)) as [bu|e]; cbn [bind] in Hd; [|discriminate].
  destruct (dump_bank_signals vals (b_signals b) 18) as [body|e] eqn:Eb; cbn [bind] in Hd; [|discriminate].
  apply Ok_inj in Hd. rewrite <- Hd.
  set (status := if is_true bu then "B" else if is_true st then "S" else "N").
  assert (Hst : nonl status = true) by (unfold status; destruct (is_true bu), (is_true st); reflexivity).
  set (head := "| register " ++ b_label b ++ "(" ++ status ++ ") {").
  assert (Hhead : nonl head = true).
  { unfold head. rewrite !nonl_app. change (nonl (b_label b)) with
      (forallb (fun c => negb (N_of_ascii c =? 10)) (list_ascii_of_string (b_label b))).
    rewrite Hlab, Hst. reflexivity. }
  rewrite (split_nl_app head _ "" Hhead). rewrite sapp_nil_l.
  assert (Hp : String.prefix "| " head = true) by reflexivity.
  revert Hp. generalize head. 
  change (cont_ok (fst body ++
    (if 71 <=? snd body + 2 then spaces (71 - snd body) ++ " |" ++ nl ++ "| " else "") ++
    " }" ++ spaces (71 - ((if 71 <=? snd body + 2 then 2 else snd body) + 2)) ++ " |" ++ nl)).
  apply (signals_cont_ok vals (b_signals b) 18 body); [| exact Eb |].
  - intros i o w Hin. exact (Hsig i o w Hin).
  - match goal with
    | |- cont_ok ((if ?b then _ else _) ++ ?x) => apply (cont_ok_pre b (71 - snd body) x)
    end.
    apply cont_ok_app; [reflexivity|].
    apply cont_ok_app; [apply nonl_spaces|]. apply cont_ok_end.
Qed.

Print Assumptions hex_roundtrip_ok.
Print Assumptions hex_length_ok.
Print Assumptions table_value_field_ok.
Print Assumptions dump_memory_rows_ok.
Print Assumptions rows_cover_used_ok.
Print Assumptions memory_lines_delimited_ok.
Print Assumptions bank_lines_delimited_ok.
