(* C05: what the data/instruction memory must do, in terms of an abstract byte map, and the
   statements to be proved about Machine.mem_get / mem_put / mem_read / mem_write. *)
From HclV Require Import Base Expr Machine.
From Coq Require Import Sorted.
Open Scope N_scope.

(* the BTreeMap invariant: strictly ascending keys, addresses 64 bit, bytes 8 bit *)
Definition key_lt (x y : N * N) : Prop := fst x < fst y.
Definition wf_mem (m : memory) : Prop :=
  StronglySorted key_lt m /\ Forall (fun kv => fst kv < two64 /\ snd kv < 256) m.

(* little-endian sum of n bytes g 0 .. g (n-1) *)
Fixpoint le_sum (g : N -> N) (n : nat) : N :=
  match n with
  | O => 0
  | S k => le_sum g k + g (N.of_nat k) * 256 ^ N.of_nat k
  end.

(* index of byte address x inside the n-byte access starting at a (addresses wrap at 2^64) *)
Definition offset_of (a x n : N) : option N :=
  let d := (x + two64 - a) mod two64 in
  if d <? n then Some d else None.

(* abstract write: the n low bytes of v at a, a+1, ... (mod 2^64), everything else unchanged *)
Definition awrite (g : N -> option N) (a v n : N) : N -> option N :=
  fun x => match offset_of a x n with
           | Some i => Some ((v / 256 ^ i) mod 256)
           | None => g x
           end.

Definition stmt_mem_put : Prop :=
  forall m a v, wf_mem m -> a < two64 -> v < 256 ->
    wf_mem (mem_put m a v) /\
    forall x, mem_get (mem_put m a v) x = if x =? a then Some v else mem_get m x.

(* a read delivers the n bytes at a, a+1, ... (wrapping), little-endian; absent bytes read 0 *)
Definition stmt_mem_read : Prop :=
  forall m a n, wf_mem m -> a < two64 -> n <= 16 ->
    mem_read m a n =
    mkV (le_sum (fun i => byte_at m ((a + i) mod two64)) (N.to_nat n)) (Bits (n * 8)).

(* a write stores exactly the n low bytes of v, byte i at a+i (wrapping), and nothing else;
   the used set grows by exactly those addresses *)
Definition stmt_mem_write : Prop :=
  forall m a v n, wf_mem m -> a < two64 -> n <= 16 ->
    wf_mem (mem_write m a v n) /\
    forall x, x < two64 -> mem_get (mem_write m a v n) x = awrite (mem_get m) a v n x.

Definition stmt_read_after_write : Prop :=
  forall m a v, wf_mem m -> a < two64 ->
    mem_read (mem_write m a v 8) a 8 = mkV (v mod two64) (Bits 64).

(* any history of 8-byte writes: the memory is the abstract byte map with the writes applied
   in order, so each byte holds the most recent write to it, else what was loaded *)
Definition stmt_latest_write_wins : Prop :=
  forall (ws : list (N * N)) m0, wf_mem m0 -> Forall (fun aw => fst aw < two64) ws ->
    let m := fold_left (fun m aw => mem_write m (fst aw) (snd aw) 8) ws m0 in
    wf_mem m /\
    forall x, x < two64 ->
      mem_get m x = fold_left (fun g aw => awrite g (fst aw) (snd aw) 8) ws (mem_get m0) x.

(* the value read is below 2^(8n): it fits the declared width of the port *)
Definition stmt_mem_read_fits : Prop :=
  forall m a n, wf_mem m -> a < two64 -> n <= 16 -> bits (mem_read m a n) < 2 ^ (n * 8).

(* the bytes of the value read are the memory bytes, in address order (used by C20) *)
Definition stmt_mem_read_bytes : Prop :=
  forall m a n i, wf_mem m -> a < two64 -> n <= 16 -> i < n ->
    (bits (mem_read m a n) / 256 ^ i) mod 256 = byte_at m ((a + i) mod two64).
